/-
C05 — Pruned log prefixes never come back.
Property theorems (DESIGN.md §6 C05) for the repaired `validate_prunable_backlink`, and the proved
counterexample for the pinned tree's version (`…Orig`).  Same model, invariant and histories
as C03 (`P2/Model/LogStore.lean`, `P2/Lemmas/LogStore.lean`).

`armed` is the ghost set of prune points: `(author, log, N)` enters it exactly when a
prune-flagged operation at sequence number `N` has been ingested (inserted or already stored).
-/
import P2.Model.LogStore
import P2.Lemmas.LogStore
import P2.Props.C03
import P2.Extracted.C05

namespace P2.C05
open P2.Header P2.LogStore P2.LogStoreLemmas

variable {E : Type} (Hh : Header E → Nat) (lg : Header E → Nat) (pf : Header E → Bool)

/-- A completed ingest of a prune-flagged operation records its prune point. -/
theorem c05_prune_point_recorded (c : ExtCodec E) (tbl : SigTable) (st : Sys) (o : Op E) (topic : Nat)
    (hflag : pf o.op.header = true)
    (hok : ∀ e, (step c tbl lg pf st (.deliver o topic)).2 ≠ .ingest (.failed e)) :
    (o.op.header.key, lg o.op.header, o.op.header.seq) ∈ (step c tbl lg pf st (.deliver o topic)).1.armed := by
  simp only [step, stepWith] at hok ⊢
  generalize ingestStepWith validatePrunableBacklink c tbl st.store o (lg o.op.header) topic
    (pf o.op.header) = r at hok ⊢
  obtain ⟨s', out⟩ := r
  cases out with
  | inserted => simp [hflag]
  | already => simp [hflag]
  | failed e => exact absurd rfl (hok e)

/-- Prune points are never forgotten (the low-water mark of a log only grows). -/
theorem c05_low_water_monotone (c : ExtCodec E) (tbl : SigTable) (st : Sys) (es : List (Event E))
    (p : Nat × Nat × Nat) (hp : p ∈ st.armed) : p ∈ (run c tbl lg pf st es).armed := by
  induction es generalizing st with
  | nil => exact hp
  | cons e es ih =>
    simp only [run, runWith]
    apply ih
    cases e with
    | deliver o topic =>
      simp only [stepWith]
      have key : ∀ (b : Bool) (x : Nat × Nat × Nat), p ∈ (if b = true then x :: st.armed else st.armed) := by
        intro b x; cases b <;> simp [hp]
      exact key _ _
    | prune a l n =>
      simp only [stepWith]
      split <;> exact hp

/-- **One step**: with a recorded prune point `N` for a log, an operation of that log that is
    *inserted* has a sequence number above `N`. -/
theorem c05_insert_above_prune_point (c : ExtCodec E) (tbl : SigTable) (st : Sys)
    (hI : Inv Hh lg pf st) (o : Op E) (topic : Nat) (n : Nat)
    (harm : (o.op.header.key, lg o.op.header, n) ∈ st.armed)
    (hins : (step c tbl lg pf st (.deliver o topic)).2 = .ingest .inserted) :
    n < o.op.header.seq := by
  simp only [step, stepWith] at hins
  generalize hr : ingestStepWith validatePrunableBacklink c tbl st.store o (lg o.op.header) topic
    (pf o.op.header) = r at hins
  rcases deliver_cases c tbl st.store o _ topic _ r hr with ⟨_, e, hf⟩ | ⟨_, ha, _⟩ | ⟨_, _, _, _, hvpb⟩
  · rw [hf] at hins; cases hins
  · rw [ha] at hins; cases hins
  · obtain ⟨⟨w, hw, hwl, hwn⟩, _⟩ := hI.armedOk _ _ _ harm
    obtain ⟨m, hm⟩ := latest_exists st.store _ _ w hw hwl
    have h1 := (latest_some st.store _ _ m hm).2.2 w hw hwl
    have h2 := (vpb_ok _ _ _ hvpb).1 m hm
    omega

/-- **No resurrection** (the property): once a prune-flagged operation `o₁` at sequence number
    `N` has been ingested for a log, then after *any* further history — arbitrary deliveries of
    older or newer operations, prune-flagged or not, duplicates, forged copies, prune steps run
    late or never — an operation of that log that gets inserted has a sequence number above `N`.
    No operation with `seq < N` (nor a second one with `seq = N`) is stored again. -/
theorem c05_no_resurrection (hinj : ∀ h₁ h₂ : Header E, Hh h₁ = Hh h₂ → h₁ = h₂)
    (c : ExtCodec E) (tbl : SigTable) (st₀ : Sys) (hI : Inv Hh lg pf st₀)
    (o₁ : Op E) (t₁ : Nat) (h₁ok : EvOK Hh (.deliver o₁ t₁)) (hflag : pf o₁.op.header = true)
    (hing : ∀ e, (step c tbl lg pf st₀ (.deliver o₁ t₁)).2 ≠ .ingest (.failed e))
    (es : List (Event E)) (hes : ∀ e ∈ es, EvOK Hh e)
    (o₂ : Op E) (t₂ : Nat)
    (hsame : o₂.op.header.key = o₁.op.header.key ∧ lg o₂.op.header = lg o₁.op.header)
    (hins : (step c tbl lg pf (run c tbl lg pf (step c tbl lg pf st₀ (.deliver o₁ t₁)).1 es)
              (.deliver o₂ t₂)).2 = .ingest .inserted) :
    o₁.op.header.seq < o₂.op.header.seq := by
  have hI₁ := inv_step Hh lg pf hinj c tbl st₀ _ hI h₁ok
  have hI₂ := inv_run Hh lg pf hinj c tbl es _ hI₁ hes
  have harm := c05_prune_point_recorded lg pf c tbl st₀ o₁ t₁ hflag hing
  have harm₂ := c05_low_water_monotone lg pf c tbl _ es _ harm
  apply c05_insert_above_prune_point Hh lg pf c tbl _ hI₂ o₂ t₂ _ _ hins
  rw [hsame.1, hsame.2]; exact harm₂

/-- **Executed prune points stay clean**: in every reachable state, a log whose prune step at `N`
    has been executed holds no row below `N`. -/
theorem c05_pruned_prefix_stays_empty (hinj : ∀ h₁ h₂ : Header E, Hh h₁ = Hh h₂ → h₁ = h₂)
    (c : ExtCodec E) (tbl : SigTable) (st : Sys) (hr : P2.C03.Reachable Hh lg pf c tbl st)
    (a l n : Nat) (hp : (a, l, n) ∈ st.pruned) :
    ∀ r ∈ st.store.rows, r.author = a → r.log = l → n ≤ r.seq := by
  intro r hrow ha hl
  exact ((P2.C03.reachable_inv Hh lg pf hinj c tbl st hr).prunedOk a l n hp).2 r hrow
    ((inLog_iff a l r).2 ⟨ha, hl⟩)

/-- **Tie to the source text**: the model's repaired `validatePrunableBacklink` is the Lean term
    that `rs2lean` regenerates from the current body of `validate_prunable_backlink`
    (p2panda-core/src/prune.rs) on every run — an edit of its decision logic (a dropped arm, `<=`
    → `<`, the prune branch accepting unconditionally again) breaks this proof obligation before
    any input is generated. -/
theorem c05_validate_prunable_is_source {E : Type} (past : Option Row) (h : Header E) (prune : Bool) :
    codeOf (validatePrunableBacklink past h prune) =
      P2.Extracted.C05.validatePrunableT (past.map pastTriple) h.seq h.key prune
        (fun p => codeOf (validateBacklink (rowOfTriple p) h)) := by
  rw [show @P2.Extracted.C05.validatePrunableT = @validatePrunableSpec from rfl]
  exact vpb_eq_spec past h prune

/-- The surroundings the model transcribes, read from the current sources: `ingest_operation`
    validates, begins, de-duplicates on `operation.hash`, binds `past_header` to
    `get_latest_entry_tx(author, log_id)` **unconditionally** (not `None` for prune-flagged
    operations) and hands it with the header and the flag to `validate_prunable_backlink` before
    inserting; `prune_entries` deletes `seq_num < ?` of one `(verifying_key, log_id)`; the latest
    entry is `ORDER BY seq_num DESC LIMIT 1`. -/
theorem c05_extracted_sources :
    P2.Extracted.C05.ingestCalls = ["validate_operation", "begin", "has_operation_tx", "rollback",
      "get_latest_entry_tx", "validate_prunable_backlink", "insert_operation", "associate", "commit"] ∧
    P2.Extracted.C05.pastHeaderExpr = "store .get_latest_entry_tx(&operation.header.verifying_key, log_id) .await .map_err(STORE)? .map(|operation| operation.header)" ∧
    P2.Extracted.C05.vpbArgs = "past_header.as_ref(), &operation.header, prune_flag" ∧
    P2.Extracted.C05.dedupKey = "&operation.hash" ∧
    P2.Extracted.C05.dedupReturn = "Ok(false)" ∧
    P2.Extracted.C05.insertArgs = "&id, operation, log_id" ∧
    P2.Extracted.C05.pruneSql = "DELETE FROM operations_v1 WHERE verifying_key = ? AND log_id = ? AND seq_num < ?" ∧
    P2.Extracted.C05.pruneBinds = ["author.to_string()", "log_id", "until.to_string()"] ∧
    P2.Extracted.C05.latestSql = "SELECT hash, header, body FROM operations_v1 WHERE verifying_key = ? AND log_id = ? ORDER BY seq_num DESC LIMIT 1" := by
  refine ⟨rfl, rfl, rfl, rfl, rfl, rfl, rfl, rfl, rfl⟩

/-! ### The pinned tree: `validate_prunable_backlink` accepts any `seq > 0` with the prune flag -/

/-- honest chain of author 1 in log 7: 0,1,2,3,4,5ᵖ,6,7,8ᵖ (only 0-3, 8ᵖ and 5ᵖ are delivered) -/
def wHdr (seq : Nat) (flag : Bool) : Header Custom :=
  { version := 1, key := 1, signature := some (200 + seq), payloadSize := 0, payloadHash := none,
    seq := seq, backlink := if seq = 0 then none else some (100 + seq - 1), ext := { a := 7, flag := flag } }

def wOp (seq : Nat) (flag : Bool) : Op Custom :=
  { op := { id := 100 + seq, header := wHdr seq flag, body := none }, hid := 100 + seq }

def wTbl : SigTable :=
  [wOp 0 false, wOp 1 false, wOp 2 false, wOp 3 false, wOp 8 true, wOp 5 true].map
    (fun o => (1, encode customCodec (unsign o.op.header), 200 + o.op.header.seq))

def wLg (h : Header Custom) : Nat := h.ext.a
def wPf (h : Header Custom) : Bool := h.ext.flag

/-- the confirmed history: 0, 1, 2, 3, 8ᵖ, prune, 5ᵖ -/
def wHistory : List (Event Custom) :=
  [.deliver (wOp 0 false) 5, .deliver (wOp 1 false) 5, .deliver (wOp 2 false) 5, .deliver (wOp 3 false) 5,
   .deliver (wOp 8 true) 5, .prune 1 7 8, .deliver (wOp 5 true) 5]

/-- **Defect of the pinned tree**: after the prune point 8 was ingested and executed, the late
    prune-flagged operation 5 is stored again — the log holds seq 8 and 5. -/
theorem c05_orig_violates :
    (runOrig customCodec wTbl wLg wPf Sys.init wHistory).store.rows.map (fun r => r.seq) = [8, 5] ∧
    (1, 7, 8) ∈ (runOrig customCodec wTbl wLg wPf Sys.init wHistory).pruned := by
  constructor
  · rfl
  · decide

/-- The repaired validation rejects the late operation: the same history leaves only seq 8. -/
theorem c05_fixed_on_witness :
    (run customCodec wTbl wLg wPf Sys.init wHistory).store.rows.map (fun r => r.seq) = [8] ∧
    (step customCodec wTbl wLg wPf
        (run customCodec wTbl wLg wPf Sys.init (wHistory.take 6)) (.deliver (wOp 5 true) 5)).2
      = .ingest (.failed .seqNumNonIncremental) := by
  constructor <;> rfl

/-- Non-vacuity of `c05_no_resurrection`: the witness history satisfies its hypotheses
    (`o₁ = 8ᵖ` is ingested from the state after 0-3; header hash `100 + seq` is injective on … the
    theorem's `Hh` is any injective function; here: the events are well identified). -/
example : ∀ e ∈ wHistory, EvOK (fun h : Header Custom => 100 + h.seq) e := by
  intro e he
  simp only [wHistory, List.mem_cons, List.mem_nil_iff, or_false] at he
  rcases he with rfl | rfl | rfl | rfl | rfl | rfl | rfl <;> simp [EvOK, wOp, wHdr]

end P2.C05
