/-
C39 — Spaces message processing is idempotent and total (guard / routing layer).

Model: `P2/Model/SpacesGuard.lean`. All theorems are for an ARBITRARY inner state type `σ`, event type `ε` and
inner handler `f : σ → Msg → Inner σ ε` (so they do not depend on what the auth CRDT / DCGKA / decryption do),
for every history and every message.
-/
import P2.Model.SpacesGuard
import P2.Extracted.C39

namespace P2.C39
open P2.SpacesGuard

variable {σ ε : Type}

/-! ## Totality -/

/-- Full statement of the totality half of C39: `process` never panics. It is FALSE on the current tree: the
    inner handlers can panic on remote-chosen contents (known findings of C39: auth CRDT `expect`s on unknown
    groups / missing operations, key registry `assert_eq!` on a changed identity key). -/
def TotalStatement (proc : (σ → Msg → Inner σ ε) → St σ → Msg → St σ × Outcome ε) : Prop :=
  ∀ f st m, (proc f st m).2 ≠ .panic

/-- The routing layer itself never panics: a panic of `process` can only be a panic of the inner handler that
    was invoked for this very message. -/
theorem c39_total_routing (f : σ → Msg → Inner σ ε) (st : St σ) (m : Msg)
    (h : (process f st m).2 = .panic) : f st.inner m = .panic ∧ rejected m = false ∧ guardHit st m = false := by
  unfold process at h
  split at h
  · simp at h
  · split at h
    · simp at h
    · rename_i hr hg
      refine ⟨?_, by simpa using hr, by simpa using hg⟩
      unfold invoke at h
      split at h <;> simp_all

/-- What is proved of "total": for every inner handler that does not panic, `process` does not panic, for
    every state and every message (SpaceUpdate and Promote/Demote included).
    Missing for the full statement: totality of the inner handlers (see `TotalStatement`). -/
theorem c39_total_partial (f : σ → Msg → Inner σ ε) (hf : ∀ i m, f i m ≠ .panic) (st : St σ) (m : Msg) :
    (process f st m).2 ≠ .panic := by
  intro h
  exact hf _ _ (c39_total_routing f st m h).1

/-- Rejected kinds (SpaceUpdate; auth Promote / Demote) return an error and leave the state untouched. -/
theorem c39_rejected_is_error (f : σ → Msg → Inner σ ε) (st : St σ) (m : Msg) (h : rejected m = true) :
    process f st m = (st, .err) := by
  simp [process, h]

/-- The pinned code panics on `SpaceUpdate` whatever the state and the inner handler: `TotalStatement` fails
    for it by the routing alone. -/
theorem c39_orig_panics (f : σ → Msg → Inner σ ε) (st : St σ) (i : Nat) :
    (processOrig f st { kind := .spaceUpdate, id := i }).2 = .panic := rfl

theorem c39_orig_not_total (i0 : σ) : ¬ TotalStatement (σ := σ) (ε := ε) processOrig := by
  intro h
  exact h (fun _ _ => .err) (emptySt i0) { kind := .spaceUpdate, id := 0 } rfl

/-- … and on a Promote / Demote auth message that the auth layer accepts. -/
theorem c39_orig_panics_promote (f : σ → Msg → Inner σ ε) (st : St σ) (m : Msg) (i : σ) (evs : List ε)
    (hk : m.kind = .auth) (hu : m.unsupported = true) (hg : guardHit st m = false)
    (hf : f st.inner m = .ok i evs) : (processOrig f st m).2 = .panic := by
  simp [processOrig, hk, hu, hg, hf]

/-! ## Idempotence -/

/-- The guard sets of `a` are contained in those of `b`. -/
def Sub (a b : St σ) : Prop :=
  (∀ x, x ∈ a.seenAuth → x ∈ b.seenAuth) ∧ (∀ x, x ∈ a.seenSpace → x ∈ b.seenSpace) ∧
  (∀ x, x ∈ a.registry → x ∈ b.registry)

theorem Sub.refl (a : St σ) : Sub a a := ⟨fun _ h => h, fun _ h => h, fun _ h => h⟩

theorem Sub.trans {a b c : St σ} (h1 : Sub a b) (h2 : Sub b c) : Sub a c :=
  ⟨fun x h => h2.1 x (h1.1 x h), fun x h => h2.2.1 x (h1.2.1 x h), fun x h => h2.2.2 x (h1.2.2 x h)⟩

private theorem sub_record (st : St σ) (m : Msg) (i : σ) : Sub st (st.record m i) := by
  unfold St.record
  cases m.kind <;> refine ⟨?_, ?_, ?_⟩ <;> intro x hx <;> simp [hx]

/-- One `process` step never forgets a guard entry. -/
theorem c39_seen_monotone_step (f : σ → Msg → Inner σ ε) (st : St σ) (m : Msg) : Sub st (process f st m).1 := by
  unfold process
  split
  · exact Sub.refl st
  · split
    · exact Sub.refl st
    · unfold invoke
      split
      · exact sub_record st m _
      · exact Sub.refl st
      · exact Sub.refl st

/-- … nor does any history. -/
theorem c39_seen_monotone (f : σ → Msg → Inner σ ε) (ms : List Msg) :
    ∀ st : St σ, Sub st (run f st ms) := by
  induction ms with
  | nil => intro st; exact Sub.refl st
  | cons m ms ih => intro st; exact (c39_seen_monotone_step f st m).trans (ih _)

private theorem guardHit_mono {a b : St σ} (h : Sub a b) (m : Msg) (hg : guardHit a m = true) :
    guardHit b m = true := by
  unfold guardHit at *
  cases hk : m.kind <;> simp only [hk] at hg ⊢
  · simp only [decide_eq_true_eq] at hg ⊢; exact h.2.2 _ hg
  · simp only [decide_eq_true_eq] at hg ⊢; exact h.1 _ hg
  · simp only [decide_eq_true_eq] at hg ⊢; exact h.2.1 _ hg
  · exact hg
  · simp only [decide_eq_true_eq] at hg ⊢; exact h.2.1 _ hg

/-- A message that was processed successfully is afterwards caught by the guard of its kind. -/
theorem c39_accepted_is_guarded (f : σ → Msg → Inner σ ε) (st : St σ) (m : Msg) (evs : List ε)
    (h : (process f st m).2 = .ok evs) : guardHit (process f st m).1 m = true := by
  unfold process at h ⊢
  split at h
  · simp at h
  · rename_i hr
    split at h
    · rename_i hg
      simp only [hr, hg, if_true, Bool.false_eq_true, if_false]
    · rename_i hg
      simp only [hr, hg, Bool.false_eq_true, if_false]
      unfold invoke at h ⊢
      split at h
      · rename_i i evs' hf
        unfold St.record guardHit
        cases hk : m.kind
        · simp
        · simp
        · simp
        · simp [rejected, hk] at hr
        · simp
      · simp at h
      · simp at h

/-- C39 (idempotence), all four guarded kinds at once: take ANY history `pre`, a message `m` whose processing
    at that point succeeds, ANY further history `mid` (which may contain `m` again, and anything else), and
    deliver `m` once more: no events, and the state is exactly what it was. -/
theorem c39_idempotent (f : σ → Msg → Inner σ ε) (st0 : St σ) (pre mid : List Msg) (m : Msg) (evs : List ε)
    (hok : (process f (run f st0 pre) m).2 = .ok evs) :
    let st2 := run f (process f (run f st0 pre) m).1 mid
    process f st2 m = (st2, .ok []) := by
  intro st2
  have hg1 := c39_accepted_is_guarded f (run f st0 pre) m evs hok
  have hg2 : guardHit st2 m = true := guardHit_mono (c39_seen_monotone f mid _) m hg1
  have hr : rejected m = false := by
    cases hrm : rejected m with
    | false => rfl
    | true => rw [c39_rejected_is_error f _ m hrm] at hok; simp at hok
  simp [process, hr, hg2]

/-- Per kind (the statements of DESIGN.md §6): auth … -/
theorem c39_idempotent_auth (f : σ → Msg → Inner σ ε) (st : St σ) (m : Msg) (hk : m.kind = .auth)
    (hu : m.unsupported = false) (hs : m.id ∈ st.seenAuth) : process f st m = (st, .ok []) := by
  simp [process, rejected, guardHit, hk, hu, hs]

/-- … space membership … -/
theorem c39_idempotent_membership (f : σ → Msg → Inner σ ε) (st : St σ) (m : Msg) (hk : m.kind = .membership)
    (hp : m.pointsAtUnsupported = false) (hs : m.id ∈ st.seenSpace) : process f st m = (st, .ok []) := by
  simp [process, rejected, guardHit, hk, hp, hs]

/-- … key bundle … -/
theorem c39_idempotent_keybundle (f : σ → Msg → Inner σ ε) (st : St σ) (m : Msg) (hk : m.kind = .keyBundle)
    (hs : (m.author, m.bundle) ∈ st.registry) : process f st m = (st, .ok []) := by
  simp [process, rejected, guardHit, hk, hs]

/-- … application. -/
theorem c39_idempotent_application (f : σ → Msg → Inner σ ε) (st : St σ) (m : Msg) (hk : m.kind = .application)
    (hs : m.id ∈ st.seenSpace) : process f st m = (st, .ok []) := by
  simp [process, rejected, guardHit, hk, hs]

/-! ## The pinned code has no guard for key bundles and application messages -/

/-- An inner handler that accepts everything and reports one event. -/
def chatty : Nat → Msg → Inner Nat Unit := fun i _ => .ok (i + 1) [()]

theorem c39_orig_keybundle_reemits :
    let m : Msg := { kind := .keyBundle, id := 1, author := 7, bundle := 3 }
    let st1 := (processOrig chatty (emptySt 0) m).1
    (processOrig chatty st1 m).2 = .ok [()] ∧ (processOrig chatty st1 m).1.registry = [(7, 3), (7, 3)] := by
  decide

theorem c39_orig_application_reemits :
    let m : Msg := { kind := .application, id := 5 }
    let st1 := (processOrig chatty (emptySt 0) m).1
    (processOrig chatty st1 m).2 = .ok [()] ∧ (processOrig chatty st1 m).1.inner = 2 := by
  decide

/-! ## The key-bundle guard must cover EVERY stored bundle, not only the author's latest

`c39_idempotent_keybundle` above is stated for any `(author, bundle)` in the registry. A guard that compares with
the author's latest bundle only re-emits for an older bundle that is stored just the same: -/

theorem c39_latest_only_guard_reemits :
    let b1 : Msg := { kind := .keyBundle, id := 1, author := 7, bundle := 1 }
    let b2 : Msg := { kind := .keyBundle, id := 2, author := 7, bundle := 2 }
    let st := (processLatestOnly chatty (processLatestOnly chatty (emptySt 0) b1).1 b2).1
    ((7, 1) ∈ st.registry) ∧ (processLatestOnly chatty st b1).2 = .ok [()] ∧
      (processLatestOnly chatty st b2).2 = .ok [] ∧ (process chatty st b1).2 = .ok [] := by
  decide

/-- The known-bundle check of the source is "add the bundle to a copy of the registry and compare the WHOLE registry"
    (re-extracted from p2panda-spaces/src/identity.rs on every run; the extraction fails for any other shape). -/
theorem c39_keybundle_guard_compares_whole_registry_in_source :
    P2.Extracted.C39.keyBundleKnownCheck = "key_registry_y_i == key_registry_y" := rfl

/-- A space-membership message whose `auth_message_id` points at a stored Promote / Demote auth message is routed
    to an error before any handler runs — whatever the state and the inner handler (it can not reach the
    `unimplemented!()` of the membership conversion). -/
theorem c39_membership_pointer_to_unsupported_is_error (f : σ → Msg → Inner σ ε) (st : St σ) (m : Msg)
    (hk : m.kind = .membership) (hp : m.pointsAtUnsupported = true) : process f st m = (st, .err) :=
  c39_rejected_is_error f st m (by simp [rejected, hk, hp])

/-- The lookup of the referenced auth message in `handle_space_membership_message` accepts supported actions only
    (re-extracted from p2panda-spaces/src/manager.rs on every run). -/
theorem c39_membership_pointer_guard_in_source :
    P2.Extracted.C39.membershipPointerGuard = "if !is_unsupported_action(group_action)" := rfl

/-! ## Non-vacuity -/

/-- The hypothesis of `c39_idempotent` is met by a concrete history, with a non-empty first answer … -/
example :
    let m : Msg := { kind := .application, id := 5 }
    let pre : List Msg := [{ kind := .keyBundle, id := 1, author := 7, bundle := 3 }, { kind := .auth, id := 2 },
      { kind := .membership, id := 3 }]
    (process chatty (run chatty (emptySt 0) pre) m).2 = .ok [()] := by decide

/-- … and the repaired `process` really answers "nothing, unchanged" where the pinned code re-emitted. -/
example :
    let m : Msg := { kind := .keyBundle, id := 1, author := 7, bundle := 3 }
    let st1 := (process chatty (emptySt 0) m).1
    (process chatty st1 m).2 = .ok [] ∧ (process chatty st1 m).1.registry = [(7, 3)] := by decide

end P2.C39
