/-
C40 — Topic sync metrics count every session's bytes exactly once.

`process` is the model of the repaired `Aggregator::process`, `processOrig` of the pinned one
(P2/Model/SyncMetrics.lean).  The theorems quantify over *all* event sequences — any number of
sessions, interleaved arbitrarily — whose per-session traces are well formed (`WFTrace`:
nothing after the end, `SessionStarted` only first, cumulative metrics non-decreasing; all of
it implied by the documented session grammar of C22).
-/
import P2.Model.SyncMetrics
import P2.Lemmas.Heights
import P2.Lemmas.C40
import P2.Extracted.C40

namespace P2.C40
open P2.SyncMetrics P2.Heights

theorem run_snoc (evs : List (Nat × Ev)) (i : Nat) (e : Ev) :
    run (evs ++ [(i, e)]) = (process (run evs) i e).1 := by
  simp [run, List.foldl_append]

private theorem getD_lookup_upsert_self {V : Type} (i : Nat) (v d : V) (m : List (Nat × V)) :
    (lookup i (upsert i v m)).getD d = v := by
  rw [lookup_upsert]; simp

/-- What one step does, seen from the session `i` the event belongs to (`tr` = its events so
    far) and from every other session. -/
private theorem step_facts (s : Agg) (i : Nat) (ev : Ev) (tr : List Ev)
    (hwf : WFTrace (tr ++ [ev]))
    (hs : (lookup i s.sessions).getD Metrics.zero = lastSeen tr)
    (hc : (lookup i s.counted).getD (0, 0) = lastFinish tr) :
    let s' := (process s i ev).1
    (s'.sent + (contribution tr).1 = s.sent + (contribution (tr ++ [ev])).1) ∧
    (s'.recv + (contribution tr).2 = s.recv + (contribution (tr ++ [ev])).2) ∧
    (ended (tr ++ [ev]) = false →
        (lookup i s'.sessions).getD Metrics.zero = lastSeen (tr ++ [ev]) ∧
        (lookup i s'.counted).getD (0, 0) = lastFinish (tr ++ [ev])) ∧
    (∀ j, j ≠ i → lookup j s'.sessions = lookup j s.sessions ∧
        lookup j s'.counted = lookup j s.counted) := by
  have hne : ended tr = false := hwf.not_ended_of_snoc
  have hnf : hasFailed tr = false := hasFailed_le_ended tr hne
  have hle := hwf.of_snoc.lastFinish_le_lastSeen
  have hcontr : contribution tr = lastFinish tr := by simp [contribution, hnf]
  have hother : ∀ (j : Nat), j ≠ i → ¬ i = j := fun j h e => h e.symm
  cases ev with
  | sessionStarted =>
    have : tr = [] := hwf.start_only_first
    subst this
    refine ⟨?_, ?_, ?_, ?_⟩
    · simp [process, contribution, hasFailed, lastFinish, isFailed, finishBytes]
    · simp [process, contribution, hasFailed, lastFinish, isFailed, finishBytes]
    · intro _
      refine ⟨?_, ?_⟩
      · simp [process, getD_lookup_upsert_self, lastSeen, evMetrics]
      · simpa [process, lastFinish, finishBytes] using hc
    · intro j hj
      simp [process, lookup_upsert, hother j hj]
  | syncStarted m =>
    have hcn : contribution (tr ++ [Ev.syncStarted m]) = lastFinish tr := by
      simp [contribution, hasFailed_snoc, hnf, isFailed, lastFinish_snoc, finishBytes]
    refine ⟨?_, ?_, ?_, ?_⟩
    · simp [process, hcn, hcontr]
    · simp [process, hcn, hcontr]
    · intro _
      refine ⟨?_, ?_⟩
      · simp [process, getD_lookup_upsert_self, lastSeen_snoc, evMetrics]
      · simpa [process, lastFinish_snoc, finishBytes] using hc
    · intro j hj
      simp [process, lookup_upsert, hother j hj]
  | operationReceived m =>
    have hcn : contribution (tr ++ [Ev.operationReceived m]) = lastFinish tr := by
      simp [contribution, hasFailed_snoc, hnf, isFailed, lastFinish_snoc, finishBytes]
    refine ⟨?_, ?_, ?_, ?_⟩
    · simp [process, hcn, hcontr]
    · simp [process, hcn, hcontr]
    · intro _
      refine ⟨?_, ?_⟩
      · simp [process, getD_lookup_upsert_self, lastSeen_snoc, evMetrics]
      · simpa [process, lastFinish_snoc, finishBytes] using hc
    · intro j hj
      simp [process, lookup_upsert, hother j hj]
  | liveModeStarted =>
    have hcn : contribution (tr ++ [Ev.liveModeStarted]) = lastFinish tr := by
      simp [contribution, hasFailed_snoc, hnf, isFailed, lastFinish_snoc, finishBytes]
    refine ⟨?_, ?_, ?_, ?_⟩
    · simp [process, hcn, hcontr]
    · simp [process, hcn, hcontr]
    · intro _
      refine ⟨?_, ?_⟩
      · simpa [process, lastSeen_snoc, evMetrics] using hs
      · simpa [process, lastFinish_snoc, finishBytes] using hc
    · intro j hj
      simp [process]
  | syncFinished m =>
    have hm := hwf.lastSeen_le (m := m) rfl
    have hcn : contribution (tr ++ [Ev.syncFinished m]) = (m.sentBytes, m.recvBytes) := by
      simp [contribution, hasFailed_snoc, hnf, isFailed, lastFinish_snoc, finishBytes]
    refine ⟨?_, ?_, ?_, ?_⟩
    · simp only [process, countSessionBytes, hc, hcn, hcontr]; omega
    · simp only [process, countSessionBytes, hc, hcn, hcontr]; omega
    · intro _
      refine ⟨?_, ?_⟩
      · simp [process, countSessionBytes, getD_lookup_upsert_self, lastSeen_snoc, evMetrics]
      · simp only [process, countSessionBytes, getD_lookup_upsert_self, lastFinish_snoc,
          finishBytes, Option.getD_some, hc]
        rw [Nat.max_eq_left (by omega), Nat.max_eq_left (by omega)]
    · intro j hj
      simp [process, countSessionBytes, lookup_upsert, hother j hj]
  | sessionFinished m =>
    have hm := hwf.lastSeen_le (m := m) rfl
    have hcn : contribution (tr ++ [Ev.sessionFinished m]) = (m.sentBytes, m.recvBytes) := by
      simp [contribution, hasFailed_snoc, hnf, isFailed, lastFinish_snoc, finishBytes]
    have hcnt : (lookup i s.counted).getD (0, 0) = lastFinish tr := hc
    refine ⟨?_, ?_, ?_, ?_⟩
    · simp only [process, handleSessionEnd, countSessionBytes, getD_lookup_upsert_self, hcnt, hcn,
        hcontr]; omega
    · simp only [process, handleSessionEnd, countSessionBytes, getD_lookup_upsert_self, hcnt, hcn,
        hcontr]; omega
    · intro h
      simp [ended_snoc, isEnd] at h
    · intro j hj
      simp [process, handleSessionEnd, countSessionBytes, lookup_upsert, lookup_remove,
        hother j hj, hj]
  | failed =>
    have hcn : contribution (tr ++ [Ev.failed])
        = ((lastSeen tr).sentBytes, (lastSeen tr).recvBytes) := by
      simp [contribution, hasFailed_snoc, isFailed, lastSeen_snoc, evMetrics]
    refine ⟨?_, ?_, ?_, ?_⟩
    · simp only [process, handleSessionEnd, countSessionBytes, hs, hc, hcn, hcontr]; omega
    · simp only [process, handleSessionEnd, countSessionBytes, hs, hc, hcn, hcontr]; omega
    · intro h
      simp [ended_snoc, isEnd] at h
    · intro j hj
      simp [process, handleSessionEnd, countSessionBytes, lookup_upsert, lookup_remove,
        hother j hj, hj]

/-- Invariant tying the aggregator's state to the per-session traces. -/
structure Inv (s : Agg) (evs : List (Nat × Ev)) : Prop where
  sess : ∀ i, ended (proj i evs) = false →
    (lookup i s.sessions).getD Metrics.zero = lastSeen (proj i evs)
  counted : ∀ i, ended (proj i evs) = false →
    (lookup i s.counted).getD (0, 0) = lastFinish (proj i evs)
  sent : ∀ U : List Nat, U.Nodup → (∀ e ∈ evs, e.1 ∈ U) →
    s.sent = sumOver U fun i => (contribution (proj i evs)).1
  recv : ∀ U : List Nat, U.Nodup → (∀ e ∈ evs, e.1 ∈ U) →
    s.recv = sumOver U fun i => (contribution (proj i evs)).2

private theorem sumOver_zero (U : List Nat) : sumOver U (fun _ => 0) = 0 := by
  induction U with
  | nil => rfl
  | cons a t ih => unfold sumOver at *; simpa using ih

theorem inv_run (evs : List (Nat × Ev)) (hwf : ∀ i, WFTrace (proj i evs)) : Inv (run evs) evs := by
  induction evs using rev_induction with
  | nil =>
    refine ⟨?_, ?_, ?_, ?_⟩
    · intro i _; simp [run, Agg.new, lookup, proj, lastSeen]
    · intro i _; simp [run, Agg.new, lookup, proj, lastFinish]
    · intro U _ _
      simp [run, Agg.new, proj, contribution, hasFailed, lastFinish, sumOver_zero]
    · intro U _ _
      simp [run, Agg.new, proj, contribution, hasFailed, lastFinish, sumOver_zero]
  | snoc evs e ih =>
    obtain ⟨i, ev⟩ := e
    have hwfi : WFTrace (proj i evs ++ [ev]) := by
      have := hwf i; rwa [proj_snoc, if_pos rfl] at this
    have hwf' : ∀ j, WFTrace (proj j evs) := by
      intro j
      by_cases hj : i = j
      · subst hj; exact hwfi.of_snoc
      · have := hwf j; rwa [proj_snoc, if_neg hj] at this
    have IH := ih hwf'
    have hne : ended (proj i evs) = false := hwfi.not_ended_of_snoc
    obtain ⟨hsent, hrecv, hlink, hframe⟩ :=
      step_facts (run evs) i ev (proj i evs) hwfi (IH.sess i hne) (IH.counted i hne)
    rw [run_snoc]
    refine ⟨?_, ?_, ?_, ?_⟩
    · intro j hj
      by_cases hji : i = j
      · subst hji
        rw [proj_snoc, if_pos rfl] at hj ⊢
        exact (hlink hj).1
      · rw [proj_snoc, if_neg hji] at hj ⊢
        rw [(hframe j (fun h => hji h.symm)).1]
        exact IH.sess j hj
    · intro j hj
      by_cases hji : i = j
      · subst hji
        rw [proj_snoc, if_pos rfl] at hj ⊢
        exact (hlink hj).2
      · rw [proj_snoc, if_neg hji] at hj ⊢
        rw [(hframe j (fun h => hji h.symm)).2]
        exact IH.counted j hj
    · intro U hU hmem
      have hiU : i ∈ U := hmem (i, ev) (by simp)
      have hmem' : ∀ e ∈ evs, e.1 ∈ U := fun e he => hmem e (List.mem_append_left _ he)
      have hold := IH.sent U hU hmem'
      have hupd := sumOver_update U hU i hiU
        (fun j => (contribution (proj j evs)).1)
        (fun j => (contribution (proj j (evs ++ [(i, ev)]))).1)
        (by intro j hj; simp only [proj_snoc, if_neg (fun h : i = j => hj h.symm)])
      have hgi : (contribution (proj i (evs ++ [(i, ev)]))).1
          = (contribution (proj i evs ++ [ev])).1 := by rw [proj_snoc, if_pos rfl]
      omega
    · intro U hU hmem
      have hiU : i ∈ U := hmem (i, ev) (by simp)
      have hmem' : ∀ e ∈ evs, e.1 ∈ U := fun e he => hmem e (List.mem_append_left _ he)
      have hold := IH.recv U hU hmem'
      have hupd := sumOver_update U hU i hiU
        (fun j => (contribution (proj j evs)).2)
        (fun j => (contribution (proj j (evs ++ [(i, ev)]))).2)
        (by intro j hj; simp only [proj_snoc, if_neg (fun h : i = j => hj h.symm)])
      have hgi : (contribution (proj i (evs ++ [(i, ev)]))).2
          = (contribution (proj i evs ++ [ev])).2 := by rw [proj_snoc, if_pos rfl]
      omega

/-! ## Property theorems -/

/-- **Totals.** After any (prefix of an) interleaving of well-formed session traces, the topic
    totals are the sum over the sessions of what each contributed — the cumulative
    `sent_bytes()` / `received_bytes()` of its last `SyncFinished` / `SessionFinished` (for a
    failed session: of the last metrics seen) — each session counted once.  `U` is any
    duplicate-free list of session ids covering the sequence. -/
theorem c40_totals (evs : List (Nat × Ev)) (hwf : ∀ i, WFTrace (proj i evs))
    (U : List Nat) (hU : U.Nodup) (hcover : ∀ e ∈ evs, e.1 ∈ U) :
    (run evs).sent = sumOver U (fun i => (contribution (proj i evs)).1) ∧
    (run evs).recv = sumOver U (fun i => (contribution (proj i evs)).2) :=
  ⟨(inv_run evs hwf).sent U hU hcover, (inv_run evs hwf).recv U hU hcover⟩

/-- A session that finished normally contributes exactly the byte counters of its
    `SessionFinished` event (sync plus live phase), whatever was reported before. -/
theorem c40_finished_contribution (tr : List Ev) (m : Metrics)
    (hwf : WFTrace (tr ++ [Ev.sessionFinished m])) :
    contribution (tr ++ [Ev.sessionFinished m]) = (m.sentBytes, m.recvBytes) := by
  have hnf : hasFailed tr = false := hasFailed_le_ended tr hwf.not_ended_of_snoc
  simp [contribution, hasFailed_snoc, hnf, isFailed, lastFinish_snoc, finishBytes]

/-! ## Running sessions -/

def isStart : Ev → Bool
  | .sessionStarted => true
  | _ => false

def startedCount (evs : List (Nat × Ev)) : Nat := evs.countP fun e => isStart e.2
def endedCount (evs : List (Nat × Ev)) : Nat := evs.countP fun e => isEnd e.2

/-- 1 for a session that was started and has not ended, else 0. -/
def active (tr : List Ev) : Nat := if tr ≠ [] ∧ ended tr = false then 1 else 0

private theorem process_running (s : Agg) (i : Nat) (ev : Ev) :
    (process s i ev).1.running =
      if isStart ev then s.running + 1 else if isEnd ev then s.running - 1 else s.running := by
  cases ev <;> simp [process, handleSessionEnd, countSessionBytes, isStart, isEnd]

private theorem exists_cover (evs : List (Nat × Ev)) :
    ∃ U : List Nat, U.Nodup ∧ ∀ e ∈ evs, e.1 ∈ U := by
  induction evs with
  | nil => exact ⟨[], List.nodup_nil, by simp⟩
  | cons e t ih =>
    obtain ⟨U, hU, hc⟩ := ih
    by_cases he : e.1 ∈ U
    · refine ⟨U, hU, ?_⟩
      intro x hx
      rcases List.mem_cons.1 hx with h | h
      · rw [h]; exact he
      · exact hc x h
    · refine ⟨e.1 :: U, List.nodup_cons.2 ⟨he, hU⟩, ?_⟩
      intro x hx
      rcases List.mem_cons.1 hx with h | h
      · rw [h]; exact List.mem_cons_self
      · exact List.mem_cons_of_mem _ (hc x h)

/-- Every session of the sequence obeys the order constraints and begins with `SessionStarted`. -/
def StartedFirst (evs : List (Nat × Ev)) : Prop :=
  ∀ i, WFOrder (proj i evs) ∧ (proj i evs ≠ [] → (proj i evs).head? = some Ev.sessionStarted)

private theorem active_step (tr : List Ev) (ev : Ev) (hwf : WFOrder (tr ++ [ev]))
    (hhead : (tr ++ [ev]).head? = some Ev.sessionStarted) :
    (isStart ev = true → active tr = 0 ∧ active (tr ++ [ev]) = 1) ∧
    (isStart ev = false → isEnd ev = true → active tr = 1 ∧ active (tr ++ [ev]) = 0) ∧
    (isStart ev = false → isEnd ev = false → active (tr ++ [ev]) = active tr) := by
  have hne : ended tr = false := hwf.not_ended_of_snoc
  refine ⟨?_, ?_, ?_⟩
  · intro hs
    have hev : ev = Ev.sessionStarted := by cases ev <;> simp_all [isStart]
    subst hev
    have : tr = [] := hwf.start_only_first
    subst this
    simp [active, ended, isEnd]
  · intro hs he
    have htr : tr ≠ [] := by
      intro h; subst h
      simp at hhead
      subst hhead
      simp [isStart] at hs
    simp [active, htr, hne, ended_snoc, he]
  · intro hs he
    have htr : tr ≠ [] := by
      intro h; subst h
      simp at hhead
      subst hhead
      simp [isStart] at hs
    simp [active, htr, hne, ended_snoc, he]

structure RunInv (s : Agg) (evs : List (Nat × Ev)) : Prop where
  act : ∀ U : List Nat, U.Nodup → (∀ e ∈ evs, e.1 ∈ U) →
    s.running = sumOver U fun i => active (proj i evs)
  cnt : s.running + endedCount evs = startedCount evs

private theorem sumOver_zero' (U : List Nat) : sumOver U (fun _ => 0) = 0 := by
  induction U with
  | nil => rfl
  | cons a t ih => unfold sumOver at *; simpa using ih

theorem runinv_run (evs : List (Nat × Ev)) (h : StartedFirst evs) : RunInv (run evs) evs := by
  induction evs using rev_induction with
  | nil =>
    refine ⟨?_, ?_⟩
    · intro U _ _
      simp [run, Agg.new, proj, active, sumOver_zero']
    · simp [run, Agg.new, endedCount, startedCount]
  | snoc evs e ih =>
    obtain ⟨i, ev⟩ := e
    have hi := h i
    rw [proj_snoc, if_pos rfl] at hi
    have hwfi : WFOrder (proj i evs ++ [ev]) := hi.1
    have hhead : (proj i evs ++ [ev]).head? = some Ev.sessionStarted := hi.2 (by simp)
    have h' : StartedFirst evs := by
      intro j
      by_cases hj : i = j
      · subst hj
        refine ⟨hwfi.of_snoc, ?_⟩
        intro hne
        rw [← hhead]
        cases hp : proj i evs with
        | nil => exact absurd hp hne
        | cons a t => simp
      · have := h j; rwa [proj_snoc, if_neg hj] at this
    have IH := ih h'
    obtain ⟨hA, hB, hC⟩ := active_step (proj i evs) ev hwfi hhead
    have hrun := process_running (run evs) i ev
    -- the running counter is at least the activity of session i
    have hge : active (proj i evs) ≤ (run evs).running := by
      obtain ⟨U, hU, hc⟩ := exists_cover (evs ++ [(i, ev)])
      have := IH.act U hU (fun e he => hc e (List.mem_append_left _ he))
      rw [this]
      exact le_sumOver U i (hc (i, ev) (by simp)) (fun j => active (proj j evs))
    rw [run_snoc]
    refine ⟨?_, ?_⟩
    · intro U hU hmem
      have hiU : i ∈ U := hmem (i, ev) (by simp)
      have hold := IH.act U hU (fun e he => hmem e (List.mem_append_left _ he))
      have hupd := sumOver_update U hU i hiU
        (fun j => active (proj j evs))
        (fun j => active (proj j (evs ++ [(i, ev)])))
        (by intro j hj; simp only [proj_snoc, if_neg (fun h : i = j => hj h.symm)])
      have hgi : active (proj i (evs ++ [(i, ev)])) = active (proj i evs ++ [ev]) := by
        rw [proj_snoc, if_pos rfl]
      cases hs : isStart ev with
      | true =>
        have := hA hs
        simp only [hs, if_true] at hrun
        omega
      | false =>
        cases he : isEnd ev with
        | true =>
          have := hB hs he
          simp only [hs, he, if_true, Bool.false_eq_true, if_false] at hrun
          omega
        | false =>
          have := hC hs he
          simp only [hs, he, Bool.false_eq_true, if_false] at hrun
          omega
    · have hcnt := IH.cnt
      unfold startedCount endedCount at *
      rw [List.countP_append, List.countP_append]
      cases hs : isStart ev with
      | true =>
        have he : isEnd ev = false := by cases ev <;> simp_all [isStart, isEnd]
        simp only [hs, if_true] at hrun
        simp only [List.countP_cons, List.countP_nil, hs, he]
        simp only [if_true, Bool.false_eq_true, if_false]
        omega
      | false =>
        cases he : isEnd ev with
        | true =>
          have := hB hs he
          simp only [hs, he, if_true, Bool.false_eq_true, if_false] at hrun
          simp only [List.countP_cons, List.countP_nil, hs, he]
          simp only [if_true, Bool.false_eq_true, if_false]
          omega
        | false =>
          simp only [hs, he, Bool.false_eq_true, if_false] at hrun
          simp only [List.countP_cons, List.countP_nil, hs, he]
          simp only [Bool.false_eq_true, if_false]
          omega

/-- **Running sessions.** For sequences in which every session begins with `SessionStarted`
    (and nothing follows its end), the running-session count is the number of sessions started
    minus the number ended — `saturating_sub` never clips. -/
theorem c40_running (evs : List (Nat × Ev)) (h : StartedFirst evs) :
    (run evs).running = startedCount evs - endedCount evs ∧ endedCount evs ≤ startedCount evs := by
  have := (runinv_run evs h).cnt
  omega

/-- Equivalently: the count is the number of sessions that were started and have not ended. -/
theorem c40_running_active (evs : List (Nat × Ev)) (h : StartedFirst evs)
    (U : List Nat) (hU : U.Nodup) (hcover : ∀ e ∈ evs, e.1 ∈ U) :
    (run evs).running = sumOver U fun i => active (proj i evs) :=
  (runinv_run evs h).act U hU hcover

/-- Tie to the source text: the arithmetic of the repair, `count_session_bytes`, is the Lean term
    that `rs2lean` regenerates from the current Rust body on every run (`c` = the
    `counted_bytes` entry of the session or `(0, 0)`, `ups` = `HashMap::insert`). -/
theorem c40_model_is_source (s : Agg) (id : Nat) (m : Metrics) :
    ((countSessionBytes s id m).sent, (countSessionBytes s id m).recv,
      (countSessionBytes s id m).counted)
    = P2.Extracted.C40.countSessionBytesT s.sent s.recv s.counted
        ((lookup id s.counted).getD (0, 0)) upsert id m.sentBytes m.recvBytes := rfl

/-- Shape of the repaired control flow in the current source (re-extracted on every run; a
    missing pattern is itself a failure): the totals are written at exactly one place each
    (inside `count_session_bytes`); `SyncFinished` stores the metrics and counts them;
    `SessionFinished` stores its metrics and ends the session (no addition of its own);
    `Failed` ends the session first; `handle_session_end` decrements by one (saturating),
    clears the live flag, takes the last metrics, counts them and drops the `counted` entry —
    the statement sequence `handleSessionEnd` / `process` transcribe. -/
theorem c40_source_shape :
    P2.Extracted.C40.sentAddSites = 1 ∧ P2.Extracted.C40.recvAddSites = 1 ∧
    P2.Extracted.C40.syncFinishedArm
      = "self.session_metrics.insert(session_id, metrics.clone()); self.count_session_bytes(session_id, &metrics);" ∧
    P2.Extracted.C40.sessionFinishedArm
      = "self.session_metrics.insert(session_id, metrics); self.handle_session_end(session_id);" ∧
    P2.Extracted.C40.failedArmFirst = "let metrics = self.handle_session_end(session_id);" ∧
    P2.Extracted.C40.sessionEndBody
      = "self.running_sessions = self.running_sessions.saturating_sub(1); self.live_mode.remove(&session_id); let metrics = self.session_metrics.remove(&session_id).unwrap_or_default(); self.count_session_bytes(session_id, &metrics); self.counted_bytes.remove(&session_id); metrics" :=
  ⟨rfl, rfl, rfl, rfl, rfl, rfl⟩

/-! ## A decidable sufficient check for well-formedness (used for the concrete witnesses) -/

def wfOrderB (tr : List Ev) : Bool :=
  tr.dropLast.all (fun e => !isEnd e) && tr.tail.all (fun e => !isStart e)

theorem wfOrder_of_check (tr : List Ev) (h : wfOrderB tr = true) : WFOrder tr := by
  unfold wfOrderB at h
  rw [Bool.and_eq_true, List.all_eq_true, List.all_eq_true] at h
  refine ⟨?_, ?_⟩
  · intro pre e post htr he
    cases post with
    | nil => rfl
    | cons p ps =>
      exfalso
      have hmem : e ∈ tr.dropLast := by
        rw [htr, List.dropLast_append_of_ne_nil (by simp), List.dropLast_cons_of_ne_nil (by simp)]
        simp
      have := h.1 e hmem
      simp [he] at this
  · intro pre post htr
    cases pre with
    | nil => rfl
    | cons a p =>
      exfalso
      have hmem : Ev.sessionStarted ∈ tr.tail := by rw [htr]; simp
      have := h.2 _ hmem
      simp [isStart] at this

theorem wfTrace_of_check (tr : List Ev) (h : wfOrderB tr = true)
    (hm : (tr.filterMap evMetrics).Pairwise
      fun a b => a.sentBytes ≤ b.sentBytes ∧ a.recvBytes ≤ b.recvBytes) : WFTrace tr :=
  ⟨wfOrder_of_check tr h, hm⟩

/-! ## The pinned code violates the property -/

def m100 : Metrics := { Metrics.zero with sentSyncBytes := 100, recvSyncBytes := 40 }
def m150 : Metrics := { m100 with sentLiveBytes := 50, recvLiveBytes := 7 }

/-- One session: sync phase transfers 100/40 bytes, live phase another 50/7, then it finishes. -/
def witness : List (Nat × Ev) :=
  [(1, .syncStarted Metrics.zero), (1, .syncFinished m100), (1, .liveModeStarted),
   (1, .sessionFinished m150)]

theorem witness_wf : ∀ i, WFTrace (proj i witness) := by
  intro i
  by_cases hi : i = 1
  · subst hi
    apply wfTrace_of_check
    · decide
    · decide
  · have : proj i witness = [] := by
      apply proj_nil_of_not_mem
      intro e he
      simp [witness] at he
      rcases he with h | h | h | h <;> (rw [h]; exact fun h' => hi h'.symm)
    rw [this]
    exact wfTrace_of_check [] (by decide) (by simp)

/-- **Counterexample for the pinned code**: `SyncFinished{sent = 100}` followed by
    `SessionFinished{sent = 150}` makes the pinned aggregator report 250 bytes sent (87 received)
    for a session that transferred 150 (47); the repaired one reports 150 (47). -/
theorem c40_orig_violates :
    (runOrig witness).sent = 250 ∧ (runOrig witness).recv = 87 ∧
    (run witness).sent = 150 ∧ (run witness).recv = 47 ∧
    contribution (proj 1 witness) = (150, 47) := by
  decide

/-- The totals theorem is false for the model of the pinned code. -/
theorem c40_orig_totals_false :
    ¬ (∀ evs : List (Nat × Ev), (∀ i, WFTrace (proj i evs)) →
        ∀ U : List Nat, U.Nodup → (∀ e ∈ evs, e.1 ∈ U) →
        (runOrig evs).sent = sumOver U fun i => (contribution (proj i evs)).1) := by
  intro h
  have := h witness witness_wf [1] (by simp) (by simp [witness])
  revert this
  decide

/-- A failed session's live bytes, never counted by the pinned code, are counted once. -/
theorem c40_failed_counted :
    let evs : List (Nat × Ev) :=
      [(1, .syncStarted Metrics.zero), (1, .syncFinished m100), (1, .liveModeStarted),
       (1, .operationReceived m150), (1, .failed)]
    (run evs).sent = 150 ∧ (runOrig evs).sent = 100 ∧ contribution (proj 1 evs) = (150, 47) := by
  decide

/-! ## Non-vacuity: two interleaved sessions, one with live traffic finishing while the other
    is mid-sync and later fails; both well formed, started first. -/

def exEvs : List (Nat × Ev) :=
  [(1, .sessionStarted), (2, .sessionStarted), (1, .syncStarted Metrics.zero),
   (1, .syncFinished m100), (2, .syncStarted Metrics.zero), (1, .liveModeStarted),
   (2, .operationReceived m100), (1, .sessionFinished m150), (2, .failed)]

example : (run exEvs).sent = 250 ∧ (run exEvs).recv = 87 ∧ (run exEvs).running = 0 := by decide
example : startedCount exEvs = 2 ∧ endedCount exEvs = 2 := by decide
example : wfOrderB (proj 1 exEvs) = true ∧ wfOrderB (proj 2 exEvs) = true := by decide
example : contribution (proj 1 exEvs) = (150, 47) ∧ contribution (proj 2 exEvs) = (100, 40) := by
  decide

end P2.C40
