/-
C02 — Header encoding round-trips and is a deterministic function of the header.
Property theorems (DESIGN.md §6 C02) about the model in `P2/Model/Header.lean`.
-/
import P2.Model.Header
import P2.Lemmas.Header
import P2.Extracted.C02

namespace P2.C02
open P2.Header P2.HeaderLemmas

/-- **Round trip**: decoding the encoding of a validated header yields the header itself and
    consumes the whole encoding — for every extensions type with a lawful codec. -/
theorem c02_roundtrip {E : Type} (c : ExtCodec E) (keyOk : Nat → Bool) (wfE : E → Prop)
    (hc : Lawful c wfE) (h : Header E) (hw : WF keyOk wfE h) :
    decode c keyOk (encode c h) = .ok (h, []) := by
  simpa using roundtrip_rest c keyOk wfE hc h hw []

/-! ### Round trip for the three concrete extension types -/

theorem c02_roundtrip_unit (keyOk : Nat → Bool) (h : Header Unit) (hw : WF keyOk (fun _ => True) h) :
    decode unitCodec keyOk (encode unitCodec h) = .ok (h, []) :=
  c02_roundtrip _ _ _ unit_lawful h hw

theorem c02_roundtrip_custom (keyOk : Nat → Bool) (h : Header Custom)
    (hw : WF keyOk (fun e => e.a < 2 ^ 64) h) :
    decode customCodec keyOk (encode customCodec h) = .ok (h, []) :=
  c02_roundtrip _ _ _ custom_lawful h hw

/-- Node API extensions, basic and causal with any set of `previous` hashes (repaired serialiser). -/
theorem c02_roundtrip_node (keyOk : Nat → Bool) (h : Header NodeExt) (hw : WF keyOk NodeWF h) :
    decode nodeCodec keyOk (encode nodeCodec h) = .ok (h, []) :=
  c02_roundtrip _ _ _ node_lawful h hw

/-! ### Injectivity, determinism, stability of `verify` and `hash` -/

/-- The encoding is injective on validated headers: a changed field changes the bytes (used by
    C01: a tampered header has no honest signature). -/
theorem c02_encode_injective {E : Type} (c : ExtCodec E) (keyOk : Nat → Bool) (wfE : E → Prop)
    (hc : Lawful c wfE) (h₁ h₂ : Header E) (w₁ : WF keyOk wfE h₁) (w₂ : WF keyOk wfE h₂)
    (he : encode c h₁ = encode c h₂) : h₁ = h₂ := by
  have r₁ := c02_roundtrip c keyOk wfE hc h₁ w₁
  have r₂ := c02_roundtrip c keyOk wfE hc h₂ w₂
  rw [he, r₂] at r₁
  injection r₁ with r₁
  injection r₁ with r₁ _
  exact r₁.symm

/-- **Determinism** (repaired code): the bytes written for a causal extensions value do not
    depend on the iteration order of the `previous` set — any two listings of the same set are
    encoded identically. -/
theorem c02_deterministic (log ts : Nat) (s o₁ o₂ : List Nat) (p₁ : o₁.Perm s) (p₂ : o₂.Perm s) :
    encodeNode (.causal log ts o₁) = encodeNode (.causal log ts o₂) := by
  have : canon o₁ = canon o₂ :=
    canon_perm_invariant o₁ o₂ (fun y => by rw [p₁.mem_iff, p₂.mem_iff])
  simp [encodeNode, encodeNodeWith, this]

/-- **`verify` and `hash` are stable under decoding**: whatever the decoder returns for the
    encoding of a validated header verifies iff the original did, and has the same encoding —
    hence the same operation id for *every* hash function `H` applied to the bytes. -/
theorem c02_verify_stable {E : Type} (c : ExtCodec E) (keyOk : Nat → Bool) (wfE : E → Prop)
    (hc : Lawful c wfE) (tbl : SigTable) (h h' : Header E) (rest : List Tok)
    (hw : WF keyOk wfE h) (hd : decode c keyOk (encode c h) = .ok (h', rest)) :
    verify c tbl h' = verify c tbl h ∧ encode c h' = encode c h ∧
      ∀ {ι : Type} (H : List Tok → ι), H (encode c h') = H (encode c h) := by
  rw [c02_roundtrip c keyOk wfE hc h hw] at hd
  injection hd with hd
  injection hd with hd _
  subst hd
  exact ⟨rfl, rfl, fun _ => rfl⟩

/-! ### The pinned tree (`Model.Orig`): `previous` written in hash-set iteration order -/

/-- **Defect of the pinned tree.** With the original serialiser the order in which `previous`
    is written is whatever the `HashSet` instance yields (`o₁`, `o₂` below: two orders, each a
    permutation of the set). For the two-hash set `{1, 2}`: decoding the bytes written with
    `o₁` gives back an *equal* header value, but re-encoding that value with `o₂` (a fresh
    `HashSet`) gives different bytes — so the operation id changes and the honest signature no
    longer verifies. -/
theorem c02_orig_violates :
    ∃ (h : Header NodeExt) (o₁ o₂ : List Nat → List Nat),
      (∀ l, (o₁ l).Perm l) ∧ (∀ l, (o₂ l).Perm l) ∧
      WF (fun _ => true) NodeWF h ∧
      decode (nodeCodecWith o₁) (fun _ => true) (encode (nodeCodecWith o₁) h) = .ok (h, []) ∧
      encode (nodeCodecWith o₂) h ≠ encode (nodeCodecWith o₁) h ∧
      verify (nodeCodecWith o₁) [(signWith (nodeCodecWith o₁) 9 (unsign h)).2] h = true ∧
      verify (nodeCodecWith o₂) [(signWith (nodeCodecWith o₁) 9 (unsign h)).2] h = false := by
  refine ⟨{ version := 1, key := 0, signature := some 9, payloadSize := 0, payloadHash := none,
            seq := 0, backlink := none, ext := .causal 5 7 [1, 2] }, id, List.reverse,
          fun l => List.Perm.refl l, fun l => List.reverse_perm l, ?_, ?_, ?_, ?_, ?_⟩
  · refine ⟨by decide, by decide, by decide, by decide, by decide, by decide, rfl, ?_⟩
    exact ⟨by decide, by decide⟩
  · decide
  · decide
  · decide
  · decide

/-- The `WF` guard is not decoration: an un-validated header (`payload_size = 5` without a
    payload hash) does not survive the round trip (the decoder expects a hash after size 5). -/
theorem c02_wf_needed :
    decode unitCodec (fun _ => true) (encode unitCodec
      { version := 1, key := 0, signature := some 9, payloadSize := 5, payloadHash := none,
        seq := 0, backlink := none, ext := () }) = .error .type := by
  decide

/-! ### Constants re-extracted from the sources on every run -/

/-- The literals the model uses are the ones in the current sources: `field_count`'s base `4`,
    `EXTENSIONS_VERSION`, the variant codes (distinct) and `FIELDS_COUNT`s. -/
theorem c02_extracted_constants :
    Extracted.C02.fieldCountBase = 4 ∧
    (∀ {E : Type} (c : ExtCodec E) (h : Header E),
      fieldCount c h = fieldCountWith Extracted.C02.fieldCountBase c h) ∧
    Extracted.C02.extensionsVersion = nefVersion ∧
    Extracted.C02.basicVariantCode = basicCode ∧
    Extracted.C02.causalVariantCode = causalCode ∧
    Extracted.C02.basicVariantCode ≠ Extracted.C02.causalVariantCode ∧
    Extracted.C02.nefHeaderFieldCount = nefHeaderFields ∧
    Extracted.C02.basicFieldsCount = basicFields ∧
    Extracted.C02.causalFieldsCount = causalFields := by
  refine ⟨by decide, fun _ _ => rfl, by decide, by decide, by decide, by decide, by decide,
    by decide, by decide⟩

/-- The statement that orders `previous` before it is written is a full sort on whole hashes
    (`Ord for Hash` is byte-wise on all 32 bytes) — what `canon` models. A sort on a key derived
    from only part of the hash (ties fall back to hash-set iteration order) does not pass. -/
theorem c02_extracted_sort :
    Extracted.C02.previousSortStmt = "previous.sort();" ∨
    Extracted.C02.previousSortStmt = "previous.sort_unstable();" := by
  decide

/-- The decoder of the Node extensions stores every field exactly as it was read, in the order the
    model's `nodeCodec` reads them (log id, timestamp, then prune flag / previous): each branch of
    `visit_seq` consists of the three `next_element` reads followed by the struct literal built from
    those bindings — no statement in between re-binds or replaces a field — and nothing in the
    `Deserialize` impl consults a clock (`Timestamp::now()`, `SystemTime`, …): decoding is a
    function of the bytes only, which is what `decode` models. -/
theorem c02_extracted_decode :
    Extracted.C02.decodeBasicStmts =
      ["log_id: LogId <- next_element", "timestamp: Timestamp <- next_element",
       "prune_flag: PruneFlag <- next_element",
       "ExtensionsVariantV1::Basic(BasicExtensions { log_id, timestamp, prune_flag, })"] ∧
    Extracted.C02.decodeCausalStmts =
      ["log_id: LogId <- next_element", "timestamp: Timestamp <- next_element",
       "previous: HashSet<Hash> <- next_element",
       "ExtensionsVariantV1::Causal(CausalExtensions { log_id, timestamp, previous, })"] ∧
    Extracted.C02.decodeClockReads = 0 := by
  decide

/-! ### Non-vacuity: concrete validated headers meet the hypotheses -/

/-- Node header, causal extensions with three `previous` hashes, body and backlink present. -/
def exNode : Header NodeExt :=
  { version := 1, key := 3, signature := some 40, payloadSize := 300, payloadHash := some 11,
    seq := 70000, backlink := some 12, ext := .causal 5 1700000000000000 [2, 8, 9] }

example : WF (fun k => k == 3) NodeWF exNode :=
  ⟨by decide, by decide, by decide, by decide, by decide, by decide, by decide,
   ⟨by decide, by decide⟩⟩

example : decode nodeCodec (fun k => k == 3) (encode nodeCodec exNode) = .ok (exNode, []) := by decide

example : validateHeader nodeCodec [(signWith nodeCodec 40 (unsign exNode)).2] exNode = .ok () := by
  decide

example : WF (fun _ => true) (fun e => e.a < 2 ^ 64)
    ({ version := 1, key := 0, signature := some 1, payloadSize := 0, payloadHash := none,
       seq := 0, backlink := none, ext := { a := 12, flag := true } } : Header Custom) :=
  ⟨by decide, by decide, by decide, by decide, by decide, by decide, rfl, by decide⟩

end P2.C02
