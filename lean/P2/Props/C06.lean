/-
C06 — State-vector diff returns exactly what the remote is missing.

Property theorems about `P2.Heights.compare` (flat form over `(author, log)` keys), the merge
law through `Cursor::advance`, the argument swap of `Cursor::compare`, and the lemma relating
the literal nested transcription of `logs::compare` (author-level shortcuts included) to the
flat form.  Everything holds for arbitrary key types and arbitrarily large maps and heights.
-/
import P2.Model.Heights
import P2.Lemmas.Heights
import P2.Extracted.C06

namespace P2.C06
open P2.Heights

set_option linter.unusedSectionVars false
variable {K : Type} [DecidableEq K]

/-- The diff contains a range for `k` exactly when the local side has `k` and the remote
    lacks it (`from = none`: from the start) or is strictly behind (`from = some r`, exclusive);
    the upper end is always the local height (inclusive). -/
theorem c06_exact (L R : Heights K) (hL : (keys L).Nodup) (k : K) (a : Option Nat) (u : Nat) :
    (k, (a, u)) ∈ Heights.compare L R ↔
      ∃ h, lookup k L = some h ∧ u = h ∧
        ((lookup k R = none ∧ a = none) ∨ ∃ r, lookup k R = some r ∧ r < h ∧ a = some r) := by
  unfold Heights.compare
  simp only [List.mem_filterMap]
  constructor
  · rintro ⟨⟨k', h'⟩, hmem, hf⟩
    cases hr : lookup k' R with
    | none =>
      simp only [hr, Option.some.injEq, Prod.mk.injEq] at hf
      obtain ⟨rfl, rfl, rfl⟩ := hf
      exact ⟨h', (lookup_eq_some_iff _ _ _ hL).2 hmem, rfl, Or.inl ⟨hr, rfl⟩⟩
    | some r =>
      simp only [hr] at hf
      by_cases hlt : r < h'
      · simp only [hlt, if_true, Option.some.injEq, Prod.mk.injEq] at hf
        obtain ⟨rfl, rfl, rfl⟩ := hf
        exact ⟨h', (lookup_eq_some_iff _ _ _ hL).2 hmem, rfl, Or.inr ⟨r, hr, hlt, rfl⟩⟩
      · simp [hlt] at hf
  · rintro ⟨h, hl, rfl, hcase⟩
    refine ⟨(k, u), lookup_some_mem hl, ?_⟩
    rcases hcase with ⟨hr, rfl⟩ | ⟨r, hr, hlt, rfl⟩
    · simp [hr]
    · simp [hr, hlt]

/-- Every range in the diff belongs to a different key (the diff is a map). -/
theorem c06_diff_keys_nodup (L R : Heights K) (hL : (keys L).Nodup) :
    (keys (Heights.compare L R)).Nodup := by
  unfold Heights.compare keys
  induction L with
  | nil => simp
  | cons e t ih =>
    have hnd : e.1 ∉ keys t ∧ (keys t).Nodup := by simpa [keys] using hL
    have ih' := ih hnd.2
    rw [List.filterMap_cons]
    split
    · exact ih'
    · rename_i x hx
      rw [List.map_cons, List.nodup_cons]
      refine ⟨?_, ih'⟩
      have hx1 : x.1 = e.1 := by
        cases hr : lookup e.1 R with
        | none => simp [hr] at hx; rw [← hx]
        | some r =>
          simp only [hr] at hx
          by_cases hlt : r < e.2
          · simp [hlt] at hx; rw [← hx]
          · simp [hlt] at hx
      rw [hx1]
      intro hmem
      obtain ⟨y, hy, hy1⟩ := List.mem_map.1 hmem
      obtain ⟨z, hz, hzf⟩ := List.mem_filterMap.1 hy
      have hz1 : y.1 = z.1 := by
        cases hr : lookup z.1 R with
        | none => simp [hr] at hzf; rw [← hzf]
        | some r =>
          simp only [hr] at hzf
          by_cases hlt : r < z.2
          · simp [hlt] at hzf; rw [← hzf]
          · simp [hlt] at hzf
      exact hnd.1 (List.mem_map.2 ⟨z, hz, by rw [← hz1, hy1]⟩)

/-- Nothing is sent for a log where the remote is equal or ahead. -/
theorem c06_nothing_when_ahead (L R : Heights K) (hL : (keys L).Nodup) (k : K) (r h : Nat)
    (hr : lookup k R = some r) (hl : lookup k L = some h) (hle : h ≤ r) :
    k ∉ keys (Heights.compare L R) := by
  intro hmem
  obtain ⟨⟨k', a, u⟩, hin, hk⟩ := List.mem_map.1 hmem
  simp only at hk
  subst hk
  obtain ⟨h', hl', _, hcase⟩ := (c06_exact L R hL k' a u).1 hin
  rw [hl] at hl'
  have : h = h' := by simpa using hl'
  subst this
  rcases hcase with ⟨hn, _⟩ | ⟨r', hr', hlt, _⟩
  · rw [hr] at hn; simp at hn
  · rw [hr] at hr'
    have : r = r' := by simpa using hr'
    omega

/-- Nothing is sent for a log the local side does not have. -/
theorem c06_nothing_when_unknown (L R : Heights K) (hL : (keys L).Nodup) (k : K)
    (hl : lookup k L = none) : k ∉ keys (Heights.compare L R) := by
  intro hmem
  obtain ⟨⟨k', a, u⟩, hin, hk⟩ := List.mem_map.1 hmem
  simp only at hk
  subst hk
  obtain ⟨h', hl', _⟩ := (c06_exact L R hL k' a u).1 hin
  rw [hl] at hl'; simp at hl'

private theorem maxOf_diff (L R : Heights K) (hL : (keys L).Nodup) (k : K) :
    maxOf k ((Heights.compare L R).map fun e => (e.1, e.2.2)) =
      match lookup k L, lookup k R with
      | some h, none => some h
      | some h, some r => if r < h then some h else none
      | none, _ => none := by
  cases hl : lookup k L with
  | none =>
    simp only
    rw [maxOf_eq_none_iff]
    intro h hmem
    obtain ⟨⟨k', a, u⟩, hin, hk⟩ := List.mem_map.1 hmem
    simp only [Prod.mk.injEq] at hk
    obtain ⟨rfl, rfl⟩ := hk
    exact c06_nothing_when_unknown L R hL k' hl (mem_keys_of_mem hin)
  | some h =>
    have huniq : ∀ a u, (k, (a, u)) ∈ Heights.compare L R → u = h := by
      intro a u hin
      obtain ⟨h', hl', hu, _⟩ := (c06_exact L R hL k a u).1 hin
      rw [hl] at hl'
      have : h = h' := by simpa using hl'
      omega
    cases hr : lookup k R with
    | none =>
      simp only
      rw [maxOf_eq_some_iff]
      refine ⟨List.mem_map.2 ⟨(k, (none, h)), ?_, rfl⟩, ?_⟩
      · exact (c06_exact L R hL k none h).2 ⟨h, hl, rfl, Or.inl ⟨hr, rfl⟩⟩
      · intro x hx
        obtain ⟨⟨k', a, u⟩, hin, hk⟩ := List.mem_map.1 hx
        simp only [Prod.mk.injEq] at hk
        obtain ⟨rfl, rfl⟩ := hk
        exact Nat.le_of_eq (huniq a u hin)
    | some r =>
      simp only
      by_cases hlt : r < h
      · simp only [hlt, if_true]
        rw [maxOf_eq_some_iff]
        refine ⟨List.mem_map.2 ⟨(k, (some r, h)), ?_, rfl⟩, ?_⟩
        · exact (c06_exact L R hL k (some r) h).2 ⟨h, hl, rfl, Or.inr ⟨r, hr, hlt, rfl⟩⟩
        · intro x hx
          obtain ⟨⟨k', a, u⟩, hin, hk⟩ := List.mem_map.1 hx
          simp only [Prod.mk.injEq] at hk
          obtain ⟨rfl, rfl⟩ := hk
          exact Nat.le_of_eq (huniq a u hin)
      · simp only [hlt, if_false]
        rw [maxOf_eq_none_iff]
        intro x hx
        obtain ⟨⟨k', a, u⟩, hin, hk⟩ := List.mem_map.1 hx
        simp only [Prod.mk.injEq] at hk
        obtain ⟨rfl, rfl⟩ := hk
        exact c06_nothing_when_ahead L R hL k' r h hr hl (by omega) (mem_keys_of_mem hin)

/-- Merging the diff into the remote's heights (each range advances the remote's cursor to
    its upper end, as a sync session does) yields the pointwise maximum of both maps. -/
theorem c06_merge_is_max (L R : Heights K) (hL : (keys L).Nodup) (k : K) :
    lookup k (applyDiff R (Heights.compare L R)) = optMax (lookup k L) (lookup k R) := by
  have happ : applyDiff R (Heights.compare L R)
      = advanceAll R ((Heights.compare L R).map fun e => (e.1, e.2.2)) := by
    unfold applyDiff advanceAll
    rw [List.foldl_map]
  rw [happ, lookup_advanceAll, maxOf_diff L R hL k]
  cases hl : lookup k L with
  | none => simp [optMax_none_right, optMax_none_left]
  | some h =>
    cases hr : lookup k R with
    | none => simp [optMax]
    | some r =>
      by_cases hlt : r < h
      · simp only [hlt, if_true, optMax, Option.some.injEq]; omega
      · simp only [hlt, if_false, optMax, Option.some.injEq]; omega

/-- `Cursor::compare(other)` is the diff *from* `other` *to* the cursor: what the cursor's
    owner has not yet seen of `other` (arguments swapped with respect to `logs::compare`). -/
theorem c06_cursor_swap (c : Cursor K) (other : Heights K) :
    c.compare other = Heights.compare other c.state := rfl

/-! ## The nested transcription of `logs::compare` flattens to the flat diff -/

section Nested
variable {A L : Type} [DecidableEq A] [DecidableEq L]

private theorem lookup_append {K V : Type} [DecidableEq K] (k : K) (x y : List (K × V)) :
    lookup k (x ++ y) = (lookup k x).or (lookup k y) := by
  induction x with
  | nil => simp [lookup]
  | cons e t ih =>
    obtain ⟨ke, ve⟩ := e
    by_cases h : ke = k <;> simp [lookup, h, ih]

private theorem lookup_tag (a a' : A) (l : L) {V : Type} (ll : List (L × V)) :
    lookup (a', l) (ll.map fun x => ((a, x.1), x.2)) = if a = a' then lookup l ll else none := by
  induction ll with
  | nil => simp [lookup]
  | cons e t ih =>
    obtain ⟨le, ve⟩ := e
    by_cases ha : a = a'
    · subst ha
      by_cases hl : le = l <;> simp [lookup, hl, ih]
    · simp [lookup, ha, ih]

private theorem lookup_flatten_none (a : A) (l : L) {V : Type} (n : List (A × List (L × V)))
    (ha : a ∉ keys n) : lookup (a, l) (flatten n) = none := by
  induction n with
  | nil => simp [flatten, lookup]
  | cons e t ih =>
    have h1 : ¬ e.1 = a ∧ a ∉ keys t := by
      simp only [keys, List.map_cons, List.mem_cons, not_or] at ha
      exact ⟨fun h => ha.1 h.symm, ha.2⟩
    have : flatten (e :: t) = (e.2.map fun x => ((e.1, x.1), x.2)) ++ flatten t := by
      simp [flatten]
    rw [this, lookup_append, lookup_tag, ih h1.2]
    simp [h1.1]

/-- Looking up `(a, l)` in the flattened map is the two-level lookup of the nested one. -/
theorem lookup_flatten (a : A) (l : L) {V : Type} (n : List (A × List (L × V)))
    (hn : (keys n).Nodup) :
    lookup (a, l) (flatten n) = (lookup a n).bind (lookup l) := by
  induction n with
  | nil => simp [flatten, lookup]
  | cons e t ih =>
    obtain ⟨ae, le⟩ := e
    have hnd : ae ∉ keys t ∧ (keys t).Nodup := by simpa [keys] using hn
    have : flatten ((ae, le) :: t) = (le.map fun x => ((ae, x.1), x.2)) ++ flatten t := by
      simp [flatten]
    rw [this, lookup_append, lookup_tag]
    by_cases ha : ae = a
    · subst ha
      simp only [if_true, lookup, Option.bind_some]
      rw [lookup_flatten_none ae l t hnd.1]
      cases lookup l le <;> rfl
    · simp only [ha, if_false, lookup, Option.none_or, ih hnd.2]

private theorem filterMap_congr' {α β : Type} {f g : α → Option β} {l : List α}
    (h : ∀ x ∈ l, f x = g x) : l.filterMap f = l.filterMap g := by
  induction l with
  | nil => rfl
  | cons a t ih =>
    rw [List.filterMap_cons, List.filterMap_cons, h a List.mem_cons_self,
      ih (fun x hx => h x (List.mem_cons_of_mem _ hx))]

private theorem compare_self (m : Heights K) (hm : (keys m).Nodup) : Heights.compare m m = [] := by
  unfold Heights.compare
  rw [List.filterMap_eq_nil_iff]
  intro e he
  have : lookup e.1 m = some e.2 := (lookup_eq_some_iff _ _ _ hm).2 he
  simp [this]

/-- **Flattening lemma.** For well-formed maps (unique keys, as in a `BTreeMap`), the result of
    the literal transcription of `logs::compare` — with the unknown-author branch, the
    `local_logs == remote_logs` shortcut and the lazily created author entry — flattens to the
    flat diff the C06 theorems are about. -/
theorem c06_flatten_compareNested (loc rem : Nested A L)
    (hloc : ∀ e ∈ loc, (keys e.2).Nodup) (hrem : (keys rem).Nodup) :
    flatten (compareNested loc rem) = Heights.compare (flatten loc) (flatten rem) := by
  induction loc with
  | nil => simp [compareNested, flatten, Heights.compare]
  | cons e t ih =>
    obtain ⟨a, ll⟩ := e
    have ih' := ih (fun e he => hloc e (List.mem_cons_of_mem _ he))
    have hll : (keys ll).Nodup := hloc (a, ll) List.mem_cons_self
    have hfl : flatten ((a, ll) :: t) = (ll.map fun x => ((a, x.1), x.2)) ++ flatten t := by
      simp [flatten]
    have hcmp : Heights.compare (flatten ((a, ll) :: t)) (flatten rem)
        = Heights.compare (ll.map fun x => ((a, x.1), x.2)) (flatten rem)
          ++ Heights.compare (flatten t) (flatten rem) := by
      rw [hfl]; unfold Heights.compare; rw [List.filterMap_append]
    rw [hcmp, ← ih']
    -- the head author's contribution
    have hhead : Heights.compare (ll.map fun x => ((a, x.1), x.2)) (flatten rem)
        = (match lookup a rem with
           | none => ll.map fun x => ((a, x.1), ((none : Option Nat), x.2))
           | some rl => (Heights.compare ll rl).map fun x => ((a, x.1), x.2)) := by
      unfold Heights.compare
      rw [List.filterMap_map]
      cases hr : lookup a rem with
      | none =>
        simp only
        rw [← List.filterMap_eq_map]
        apply filterMap_congr'
        intro x _
        simp [Function.comp, lookup_flatten a x.1 rem hrem, hr]
      | some rl =>
        simp only
        rw [List.map_filterMap]
        apply filterMap_congr'
        intro x _
        simp only [Function.comp, lookup_flatten a x.1 rem hrem, hr, Option.bind_some]
        cases hx : lookup x.1 rl with
        | none => simp
        | some r => by_cases hlt : r < x.2 <;> simp [hlt]
    rw [hhead]
    unfold compareNested
    rw [List.filterMap_cons]
    cases hr : lookup a rem with
    | none =>
      simp only [flatten, List.flatMap_cons, List.map_map]
      rfl
    | some rl =>
      simp only
      by_cases heq : ll = rl
      · subst heq
        simp [compare_self ll hll]
      · simp only [heq, if_false]
        by_cases hemp : (Heights.compare ll rl).isEmpty = true
        · have : Heights.compare ll rl = [] := by simpa using hemp
          simp [this]
        · simp only [hemp]
          simp [flatten]

end Nested

/-! ## Tie to the source text

The decision pieces of `logs::compare` are re-extracted from `p2panda-core/src/logs.rs` on every
run (`P2.Extracted.C06`): the comparison operator of the per-log test, the `(from, until)` pair
of each of the three `insert`s and the author-level shortcut.  `decideLogG` is the per-log
decision *parameterised* by those pieces; `c06_source_ops` says the extracted text denotes the
pieces the model uses, `c06_decision_is_source` that the model's per-log lambda is the
parameterised decision at those pieces.  `<` → `<=`, `Some(*remote…)` → `Some(*local…)`,
`(None, None)`, a changed shortcut … break `c06_source_ops` before any input is generated. -/

inductive CmpOp where
  | lt | le | gt | ge | eq | ne
deriving DecidableEq, Repr

def CmpOp.ofString (s : String) : Option CmpOp :=
  if s = "<" then some .lt else if s = "<=" then some .le else if s = ">" then some .gt
  else if s = ">=" then some .ge else if s = "==" then some .eq else if s = "!=" then some .ne
  else none

/-- `eval op remote local`. -/
def CmpOp.eval : CmpOp → Nat → Nat → Bool
  | .lt, r, h => decide (r < h)
  | .le, r, h => decide (r ≤ h)
  | .gt, r, h => decide (r > h)
  | .ge, r, h => decide (r ≥ h)
  | .eq, r, h => decide (r = h)
  | .ne, r, h => decide (r ≠ h)

/-- One end of an emitted range. -/
inductive Arg where
  | none | remote | localH
deriving DecidableEq, Repr

def Arg.ofString (s : String) : Option Arg :=
  if s = "None" then some .none
  else if s = "Some(*remote_log_height)" then some .remote
  else if s = "Some(*local_log_height)" then some .localH
  else if s = "Some(*log_height)" then some .localH
  else none

def Arg.val : Arg → Option Nat → Nat → Option Nat
  | .none, _, _ => Option.none
  | .remote, r, _ => r
  | .localH, _, h => some h

structure DiffOps where
  op : CmpOp
  behindFrom : Arg
  behindUntil : Arg
  newLogFrom : Arg
  newLogUntil : Arg
  newAuthorFrom : Arg
  newAuthorUntil : Arg
  shortcutIsEquality : Bool
deriving DecidableEq, Repr

def DiffOps.ofStrings (op bf bu lf lu af au sc : String) : Option DiffOps := do
  let op ← CmpOp.ofString op
  let bf ← Arg.ofString bf
  let bu ← Arg.ofString bu
  let lf ← Arg.ofString lf
  let lu ← Arg.ofString lu
  let af ← Arg.ofString af
  let au ← Arg.ofString au
  pure ⟨op, bf, bu, lf, lu, af, au, sc = "local_logs == remote_logs"⟩

/-- The pieces the model transcribes. -/
def specOps : DiffOps :=
  ⟨.lt, .remote, .localH, .none, .localH, .none, .localH, true⟩

/-- Per-log decision of `logs::compare` with the source pieces as parameters:
    `r` = the remote's height of the log (if any), `h` = the local height. -/
def decideLogG (o : DiffOps) (r : Option Nat) (h : Nat) : Option (Option Nat × Option Nat) :=
  match r with
  | none => some (o.newLogFrom.val none h, o.newLogUntil.val none h)
  | some rv =>
    if o.op.eval rv h then some (o.behindFrom.val (some rv) h, o.behindUntil.val (some rv) h)
    else none

/-- Range emitted for every log of an author the remote does not know. -/
def newAuthorG (o : DiffOps) (h : Nat) : Option Nat × Option Nat :=
  (o.newAuthorFrom.val none h, o.newAuthorUntil.val none h)

/-- The text currently in `logs.rs` denotes exactly the pieces the model uses. -/
theorem c06_source_ops :
    DiffOps.ofStrings P2.Extracted.C06.cmpOp P2.Extracted.C06.behindFrom
      P2.Extracted.C06.behindUntil P2.Extracted.C06.newLogFrom P2.Extracted.C06.newLogUntil
      P2.Extracted.C06.newAuthorFrom P2.Extracted.C06.newAuthorUntil P2.Extracted.C06.shortcut
      = some specOps := by
  decide

/-- The model's `compare` is the per-log decision at the extracted pieces, log by log (the
    model keeps the always-`Some` upper end as a plain number). -/
theorem c06_decision_is_source (loc rem : Heights K) :
    Heights.compare loc rem = loc.filterMap fun e =>
      (decideLogG specOps (lookup e.1 rem) e.2).bind fun p => p.2.map fun u => (e.1, (p.1, u)) := by
  unfold Heights.compare
  apply filterMap_congr'
  intro e _
  cases hr : lookup e.1 rem with
  | none => simp [decideLogG, specOps, Arg.val]
  | some r =>
    by_cases hlt : r < e.2 <;> simp [decideLogG, specOps, Arg.val, CmpOp.eval, hlt]

/-- The unknown-author branch of the nested model emits the extracted pair for every log. -/
theorem c06_new_author_is_source (h : Nat) :
    newAuthorG specOps h = ((none : Option Nat), some h) := rfl

/-- `Cursor::compare` is the term `rs2lean` regenerates from the current body of the Rust
    function (argument order included), with the model's `compare` plugged in. -/
theorem c06_cursor_compare_is_source (c : Cursor K) (other : Heights K) :
    c.compare other = P2.Extracted.C06.cursorCompareT Heights.compare c.state other := rfl

/-! ## Non-vacuity: a pair of maps with a log behind, one ahead, one equal, one missing on
    either side; the nested form including an author with an empty inner map. -/

private def exL : Heights (Nat × Nat) := [((0, 0), 5), ((0, 1), 2), ((1, 0), 7), ((2, 0), 4)]
private def exR : Heights (Nat × Nat) := [((0, 0), 3), ((0, 1), 9), ((1, 0), 7), ((3, 0), 1)]

example : (keys exL).Nodup := by decide
example : Heights.compare exL exR = [((0, 0), (some 3, 5)), ((2, 0), (none, 4))] := by decide
example : applyDiff exR (Heights.compare exL exR)
    = [((0, 0), 5), ((0, 1), 9), ((1, 0), 7), ((3, 0), 1), ((2, 0), 4)] := by decide
example : compareNested (A := Nat) (L := Nat) [(0, [(0, 5), (1, 2)]), (1, []), (2, [(0, 1)])]
    [(0, [(0, 3), (1, 9)]), (2, [(0, 1)])] = [(0, [(0, (some 3, 5))]), (1, [])] := by decide

end P2.C06
