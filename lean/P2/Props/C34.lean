/-
C34 — Message ratchet yields the sender's key for any delivery order.

All theorems hold for every (uninterpreted) key-derivation pair `kdf`, every initial secret, every
request sequence (any order, loss, duplication) and every window configuration; the window
parameters may even change from call to call, except in `c34_window*` where the out-of-order
tolerance is the one fixed configuration value of the history (as in `GroupConfig`).
-/
import P2.Extracted.C34
import P2.Model.Ratchet

namespace P2.C34
open P2.Ratchet

variable {S K : Type}

/-- Invariant tying a receiver state to the sender's chain; `used` = generations handed out. -/
structure RInv (kdf : Kdf S K) (s0 : S) (y : Recv S K) (used : List Nat) : Prop where
  secret : y.head.secret = chainAt kdf s0 y.head.gen
  len    : y.past.length ≤ y.head.gen
  key    : ∀ i k, y.past[i]? = some (some k) → k = senderKey kdf s0 (y.head.gen - 1 - i)
  none   : ∀ i, i < y.past.length → (y.past[i]? = some none ↔ (y.head.gen - 1 - i) ∈ used)
  below  : ∀ g ∈ used, g < y.head.gen

theorem rinv_init (kdf : Kdf S K) (s0 : S) : RInv kdf s0 (Recv.init s0) [] := by
  refine ⟨rfl, ?_, ?_, ?_, ?_⟩ <;> simp [Recv.init, Chain.init]

private theorem skip_one_inv (kdf : Kdf S K) (s0 : S) (y : Recv S K) (used : List Nat)
    (h : RInv kdf s0 y used) :
    RInv kdf s0 { past := some (kdf.key y.head.secret) :: y.past,
                  head := { secret := kdf.next y.head.secret, gen := y.head.gen + 1 } } used := by
  obtain ⟨hs, hl, hk, hn, hb⟩ := h
  refine ⟨?_, ?_, ?_, ?_, ?_⟩
  · simp [chainAt, hs]
  · simp; omega
  · intro i k hik
    cases i with
    | zero =>
      simp at hik
      subst hik
      simp [senderKey, hs]
    | succ j =>
      simp at hik
      have := hk j k hik
      have e : y.head.gen + 1 - 1 - (j + 1) = y.head.gen - 1 - j := by omega
      simp only [e]; exact this
  · intro i hi
    cases i with
    | zero =>
      simp
      intro hmem
      have := hb _ hmem
      omega
    | succ j =>
      simp at hi
      have e : y.head.gen + 1 - 1 - (j + 1) = y.head.gen - 1 - j := by omega
      simp only [e, List.getElem?_cons_succ]
      exact hn j hi
  · intro g hg
    have := hb g hg
    show g < y.head.gen + 1
    omega

theorem skip_gen (kdf : Kdf S K) (n : Nat) (y : Recv S K) :
    (Recv.skip kdf n y).head.gen = y.head.gen + n := by
  induction n generalizing y with
  | zero => rfl
  | succ n ih =>
    simp only [Recv.skip, Chain.forward]
    rw [ih]; simp; omega

theorem skip_len (kdf : Kdf S K) (n : Nat) (y : Recv S K) :
    (Recv.skip kdf n y).past.length = y.past.length + n := by
  induction n generalizing y with
  | zero => rfl
  | succ n ih =>
    simp only [Recv.skip, Chain.forward]
    rw [ih]; simp; omega

theorem skip_inv (kdf : Kdf S K) (s0 : S) (n : Nat) (y : Recv S K) (used : List Nat)
    (h : RInv kdf s0 y used) : RInv kdf s0 (Recv.skip kdf n y) used := by
  induction n generalizing y with
  | zero => exact h
  | succ n ih =>
    simp only [Recv.skip, Chain.forward]
    exact ih _ (skip_one_inv kdf s0 y used h)

/-- What a call does, in terms of the ghost set of handed-out generations. -/
theorem get_step (kdf : Kdf S K) (s0 : S) (y : Recv S K) (used : List Nat) (g fwd ooo : Nat)
    (h : RInv kdf s0 y used) :
    match y.get kdf g fwd ooo with
    | .ok (y', k) =>
        k = senderKey kdf s0 g ∧ g ∉ used ∧ RInv kdf s0 y' (g :: used)
        ∧ g ≤ y.head.gen + fwd ∧ (g < y.head.gen → y.head.gen - g ≤ ooo)
        ∧ y'.head.gen = max y.head.gen (g + 1)
        ∧ y'.past.length = (if g ≥ y.head.gen then min ooo (y.past.length + (g - y.head.gen) + 1)
                            else y.past.length)
    | .error .future => g > y.head.gen + fwd
    | .error .past => g < y.head.gen ∧ y.head.gen - g > ooo
    | .error .oob => g < y.head.gen ∧ y.head.gen - g ≤ ooo ∧ y.past.length ≤ y.head.gen - g - 1
    | .error .reuse => g < y.head.gen ∧ y.head.gen - g ≤ ooo ∧ g ∈ used := by
  unfold Recv.get
  simp only
  by_cases h1 : g > y.head.gen + fwd
  · simp [h1]
  · simp only [h1, if_false]
    by_cases h2 : g < y.head.gen ∧ y.head.gen - g > ooo
    · simp [h2]
    · simp only [h2, if_false]
      by_cases h3 : g ≥ y.head.gen
      · simp only [h3, if_true, Chain.forward]
        have hi := skip_inv kdf s0 (g - y.head.gen) y used h
        have hg := skip_gen kdf (g - y.head.gen) y
        have hl := skip_len kdf (g - y.head.gen) y
        have hgen : (Recv.skip kdf (g - y.head.gen) y).head.gen = g := by omega
        obtain ⟨hs, hln, hk, hn, hb⟩ := hi
        rw [hgen] at hs hln hk hn hb
        refine ⟨?_, ?_, ?_, by omega, by omega, ?_, ?_⟩
        · simp [senderKey, hs]
        · intro hmem
          have := h.below g hmem
          omega
        · refine ⟨?_, ?_, ?_, ?_, ?_⟩
          · simp [chainAt, hs, hgen]
          · simp [hgen]; omega
          · intro i k hik
            simp only [hgen] at hik ⊢
            rw [List.getElem?_take] at hik
            split at hik
            · cases i with
              | zero => simp at hik
              | succ j =>
                simp at hik
                have := hk j k hik
                have e : g + 1 - 1 - (j + 1) = g - 1 - j := by omega
                simp only [e]; exact this
            · simp at hik
          · intro i hi
            simp only [hgen] at hi ⊢
            simp only [List.length_take, List.length_cons] at hi
            rw [List.getElem?_take]
            have hio : i < ooo := by omega
            simp only [hio, if_true]
            cases i with
            | zero => simp
            | succ j =>
              have hj : j < (Recv.skip kdf (g - y.head.gen) y).past.length := by omega
              have e : g + 1 - 1 - (j + 1) = g - 1 - j := by omega
              simp only [e, List.getElem?_cons_succ, List.mem_cons]
              rw [hn j hj]
              constructor
              · intro hm; exact Or.inr hm
              · rintro (hm | hm)
                · omega
                · exact hm
          · intro x hx
            simp only [hgen]
            rcases List.mem_cons.1 hx with hx | hx
            · omega
            · have := hb x hx; omega
        · simp [hgen]; omega
        · simp only [List.length_take, List.length_cons, hl]
      · simp only [h3, if_false]
        have hlt : g < y.head.gen := by omega
        have hoo : y.head.gen - g ≤ ooo := by
          by_cases hh : y.head.gen - g > ooo
          · exact absurd ⟨hlt, hh⟩ h2
          · omega
        obtain ⟨hs, hln, hk, hn, hb⟩ := h
        cases hp : y.past[y.head.gen - g - 1]? with
        | none =>
          simp only
          refine ⟨hlt, hoo, ?_⟩
          rw [List.getElem?_eq_none_iff] at hp
          exact hp
        | some o =>
          have hidx : y.head.gen - g - 1 < y.past.length := by
            by_cases hh : y.head.gen - g - 1 < y.past.length
            · exact hh
            · rw [List.getElem?_eq_none_iff.2 (by omega)] at hp; cases hp
          have hgi : y.head.gen - 1 - (y.head.gen - g - 1) = g := by omega
          cases o with
          | none =>
            simp only
            refine ⟨hlt, hoo, ?_⟩
            have := (hn _ hidx).1 hp
            rw [hgi] at this; exact this
          | some k =>
            simp only
            have hgu : g ∉ used := by
              intro hm
              have := (hn _ hidx).2 (by rw [hgi]; exact hm)
              rw [hp] at this; cases this
            refine ⟨?_, hgu, ?_, by omega, fun _ => hoo,
              by show y.head.gen = max y.head.gen (g + 1); omega,
              by simp only [List.length_set]⟩
            · have := hk _ k hp
              rw [hgi] at this; exact this
            · refine ⟨hs, by simpa using hln, ?_, ?_, ?_⟩
              · intro i k' hik
                simp only [List.getElem?_set] at hik
                split at hik
                · simp at hik
                · exact hk i k' hik
              · intro i hi
                simp only [List.length_set] at hi
                simp only [List.getElem?_set, List.mem_cons]
                by_cases hie : y.head.gen - g - 1 = i
                · subst hie
                  simp only [if_true, hidx]
                  simp; left; omega
                · simp only [hie, if_false]
                  rw [hn i hi]
                  constructor
                  · intro hm; exact Or.inr hm
                  · rintro (hm | hm)
                    · omega
                    · exact hm
              · intro x hx
                rcases List.mem_cons.1 hx with hx | hx
                · show x < y.head.gen; omega
                · exact hb x hx

/-- Along any request sequence the invariant is kept, with `used` = what was handed out. -/
theorem inv_after (kdf : Kdf S K) (s0 : S) (y : Recv S K) (used : List Nat) (rs : List Req)
    (h : RInv kdf s0 y used) :
    ∃ used', RInv kdf s0 (after kdf y rs) used'
      ∧ ∀ g, g ∈ used' ↔ (g ∈ used ∨ g ∈ handedOut kdf y rs) := by
  induction rs generalizing y used with
  | nil => exact ⟨used, by simpa [after, run] using h, by simp [handedOut]⟩
  | cons r rs ih =>
    have hstep := get_step kdf s0 y used r.g r.fwd r.ooo h
    cases hg : y.get kdf r.g r.fwd r.ooo with
    | ok p =>
      obtain ⟨y', k⟩ := p
      rw [hg] at hstep
      obtain ⟨u', hi, hm⟩ := ih y' (r.g :: used) hstep.2.2.1
      refine ⟨u', ?_, ?_⟩
      · simpa [after, run, hg] using hi
      · intro g
        rw [hm g]
        simp only [handedOut, hg, List.mem_cons]
        constructor
        · rintro ((h1 | h1) | h1)
          · exact Or.inr (Or.inl h1)
          · exact Or.inl h1
          · exact Or.inr (Or.inr h1)
        · rintro (h1 | h1 | h1)
          · exact Or.inl (Or.inr h1)
          · exact Or.inl (Or.inl h1)
          · exact Or.inr h1
    | error e =>
      obtain ⟨u', hi, hm⟩ := ih y used h
      refine ⟨u', ?_, ?_⟩
      · simpa [after, run, hg] using hi
      · intro g; rw [hm g]; simp [handedOut, hg]

/-! ## Property theorems -/

/-- **Correct key.** After any request history (any order / loss / duplication, any windows) a
    successful request for generation `g` returns exactly the key material the sender derived for
    generation `g`. -/
theorem c34_correct_key (kdf : Kdf S K) (s0 : S) (rs : List Req) (g fwd ooo : Nat)
    (y' : Recv S K) (k : K)
    (h : (after kdf (Recv.init s0) rs).get kdf g fwd ooo = .ok (y', k)) :
    k = senderKey kdf s0 g := by
  obtain ⟨u, hi, _⟩ := inv_after kdf s0 _ [] rs (rinv_init kdf s0)
  have := get_step kdf s0 _ u g fwd ooo hi
  rw [h] at this
  exact this.1

/-- Sequence form of `c34_correct_key`: every `ok` answer of a run is the sender's key of the
    generation requested at that position. -/
theorem c34_correct_key_run (kdf : Kdf S K) (s0 : S) (rs : List Req) :
    ∀ p ∈ List.zip rs (run kdf (Recv.init s0) rs).2, ∀ k, p.2 = .ok k → k = senderKey kdf s0 p.1.g := by
  suffices H : ∀ (y : Recv S K) (used : List Nat), RInv kdf s0 y used →
      ∀ p ∈ List.zip rs (run kdf y rs).2, ∀ k, p.2 = .ok k → k = senderKey kdf s0 p.1.g from
    H _ [] (rinv_init kdf s0)
  induction rs with
  | nil => intro y used _ p hp; simp [run] at hp
  | cons r rs ih =>
    intro y used hI p hp k hk
    have hstep := get_step kdf s0 y used r.g r.fwd r.ooo hI
    cases hg : y.get kdf r.g r.fwd r.ooo with
    | ok q =>
      obtain ⟨y', k'⟩ := q
      rw [hg] at hstep
      simp only [run, hg, List.zip_cons_cons, List.mem_cons] at hp
      rcases hp with hp | hp
      · subst hp
        simp only [Except.ok.injEq] at hk
        subst hk
        exact hstep.1
      · exact ih y' _ hstep.2.2.1 p hp k hk
    | error e =>
      simp only [run, hg, List.zip_cons_cons, List.mem_cons] at hp
      rcases hp with hp | hp
      · subst hp; cases hk
      · exact ih y used hI p hp k hk

/-- **At most once.** Along any request history no generation is handed out twice. -/
theorem c34_at_most_once (kdf : Kdf S K) (s0 : S) (rs : List Req) :
    (handedOut kdf (Recv.init s0 : Recv S K) rs).Nodup := by
  suffices H : ∀ (y : Recv S K) (used : List Nat), RInv kdf s0 y used →
      (handedOut kdf y rs).Nodup ∧ ∀ g ∈ handedOut kdf y rs, g ∉ used from
    (H _ [] (rinv_init kdf s0)).1
  induction rs with
  | nil => intro y used _; simp [handedOut]
  | cons r rs ih =>
    intro y used hI
    have hstep := get_step kdf s0 y used r.g r.fwd r.ooo hI
    cases hg : y.get kdf r.g r.fwd r.ooo with
    | ok q =>
      obtain ⟨y', k'⟩ := q
      rw [hg] at hstep
      obtain ⟨hnd, hdis⟩ := ih y' _ hstep.2.2.1
      simp only [handedOut, hg, List.nodup_cons, List.mem_cons]
      refine ⟨⟨fun hm => (hdis _ hm) (List.mem_cons_self), hnd⟩, ?_⟩
      rintro g (hg' | hg')
      · subst hg'; exact hstep.2.1
      · exact fun hu => hdis g hg' (List.mem_cons_of_mem _ hu)
    | error e =>
      simpa [handedOut, hg] using ih y used hI

/-- A generation that was handed out is refused afterwards, whatever the windows of the call. -/
theorem c34_no_reuse (kdf : Kdf S K) (s0 : S) (rs : List Req) (g fwd ooo : Nat)
    (hg : g ∈ handedOut kdf (Recv.init s0 : Recv S K) rs) :
    ∃ e, (after kdf (Recv.init s0 : Recv S K) rs).get kdf g fwd ooo = .error e := by
  obtain ⟨u, hi, hm⟩ := inv_after kdf s0 _ [] rs (rinv_init kdf s0)
  have := get_step kdf s0 _ u g fwd ooo hi
  cases hget : (after kdf (Recv.init s0 : Recv S K) rs).get kdf g fwd ooo with
  | error e => exact ⟨e, rfl⟩
  | ok q =>
    rw [hget] at this
    exact absurd ((hm g).2 (Or.inr hg)) this.2.1

/-- The out-of-order queue never holds more than `ooo` entries right after a call configured
    with `ooo`, and never more than the head generation. -/
theorem c34_bounded (kdf : Kdf S K) (s0 : S) (rs : List Req) :
    (after kdf (Recv.init s0 : Recv S K) rs).past.length
      ≤ (after kdf (Recv.init s0 : Recv S K) rs).head.gen := by
  obtain ⟨u, hi, _⟩ := inv_after kdf s0 _ [] rs (rinv_init kdf s0)
  exact hi.len

private theorem len_fixed (kdf : Kdf S K) (s0 : S) (ooo : Nat) (rs : List Req)
    (hr : ∀ r ∈ rs, r.ooo = ooo) (y : Recv S K) (used : List Nat) (hI : RInv kdf s0 y used)
    (hl : y.past.length = min y.head.gen ooo) :
    (after kdf y rs).past.length = min (after kdf y rs).head.gen ooo := by
  induction rs generalizing y used with
  | nil => simpa [after, run] using hl
  | cons r rs ih =>
    have hro : r.ooo = ooo := hr r List.mem_cons_self
    have hr' : ∀ r ∈ rs, r.ooo = ooo := fun x hx => hr x (List.mem_cons_of_mem _ hx)
    have hstep := get_step kdf s0 y used r.g r.fwd r.ooo hI
    cases hg : y.get kdf r.g r.fwd r.ooo with
    | ok q =>
      obtain ⟨y', k'⟩ := q
      rw [hg] at hstep
      obtain ⟨_, _, hI', h4, h5, h6, h7⟩ := hstep
      have : y'.past.length = min y'.head.gen ooo := by
        rw [h7, h6, hro]
        split <;> omega
      have := ih hr' y' _ hI' this
      simpa [after, run, hg] using this
    | error e =>
      have := ih hr' y used hI hl
      simpa [after, run, hg] using this

/-- **Windows.** With one out-of-order tolerance `ooo` for the whole history, a request for `g`
    with forward window `fwd` succeeds *exactly* when `g` has not been handed out yet, lies at most
    `fwd` ahead of the head and at most `ooo` behind it. -/
theorem c34_window (kdf : Kdf S K) (s0 : S) (ooo : Nat) (rs : List Req)
    (hr : ∀ r ∈ rs, r.ooo = ooo) (g fwd : Nat) :
    (∃ y' k, (after kdf (Recv.init s0 : Recv S K) rs).get kdf g fwd ooo = .ok (y', k)) ↔
      (g ∉ handedOut kdf (Recv.init s0 : Recv S K) rs
        ∧ g ≤ (after kdf (Recv.init s0 : Recv S K) rs).head.gen + fwd
        ∧ (g < (after kdf (Recv.init s0 : Recv S K) rs).head.gen →
            (after kdf (Recv.init s0 : Recv S K) rs).head.gen - g ≤ ooo)) := by
  obtain ⟨u, hi, hm⟩ := inv_after kdf s0 _ [] rs (rinv_init kdf s0)
  have hlen := len_fixed kdf s0 ooo rs hr _ [] (rinv_init kdf s0) (by simp [Recv.init, Chain.init])
  have hstep := get_step kdf s0 _ u g fwd ooo hi
  have hmem : g ∈ u ↔ g ∈ handedOut kdf (Recv.init s0 : Recv S K) rs := by
    rw [hm g]; simp
  cases hget : (after kdf (Recv.init s0 : Recv S K) rs).get kdf g fwd ooo with
  | ok q =>
    obtain ⟨y', k⟩ := q
    rw [hget] at hstep
    constructor
    · intro _
      exact ⟨fun hh => hstep.2.1 (hmem.2 hh), hstep.2.2.2.1, hstep.2.2.2.2.1⟩
    · intro _; exact ⟨y', k, rfl⟩
  | error e =>
    rw [hget] at hstep
    constructor
    · rintro ⟨_, _, hc⟩; cases hc
    · rintro ⟨h1, h2, h3⟩
      exfalso
      cases e with
      | future => have : g > _ := hstep; omega
      | past => have := h3 hstep.1; have := hstep.2; omega
      | oob =>
        obtain ⟨a, b, c⟩ := hstep
        omega
      | reuse => exact h1 (hmem.1 hstep.2.2)

/-- **Rejections are classified.** Under the same fixed configuration, outside the windows the
    answer is `future` / `past`, a repeated request inside the windows is `reuse`, and
    `IndexOutOfBounds` never occurs. -/
theorem c34_window_errors (kdf : Kdf S K) (s0 : S) (ooo : Nat) (rs : List Req)
    (hr : ∀ r ∈ rs, r.ooo = ooo) (g fwd : Nat) (e : Err)
    (he : (after kdf (Recv.init s0 : Recv S K) rs).get kdf g fwd ooo = .error e) :
    let hd := (after kdf (Recv.init s0 : Recv S K) rs).head.gen
    (e = .future ∧ g > hd + fwd) ∨ (e = .past ∧ g < hd ∧ hd - g > ooo)
      ∨ (e = .reuse ∧ g < hd ∧ hd - g ≤ ooo ∧ g ∈ handedOut kdf (Recv.init s0 : Recv S K) rs) := by
  intro hd
  obtain ⟨u, hi, hm⟩ := inv_after kdf s0 _ [] rs (rinv_init kdf s0)
  have hlen := len_fixed kdf s0 ooo rs hr _ [] (rinv_init kdf s0) (by simp [Recv.init, Chain.init])
  have hstep := get_step kdf s0 _ u g fwd ooo hi
  rw [he] at hstep
  cases e with
  | future => exact Or.inl ⟨rfl, hstep⟩
  | past => exact Or.inr (Or.inl ⟨rfl, hstep⟩)
  | oob =>
    exfalso
    obtain ⟨a, b, c⟩ := hstep
    omega
  | reuse =>
    refine Or.inr (Or.inr ⟨rfl, hstep.1, hstep.2.1, ?_⟩)
    have := (hm g).1 hstep.2.2
    simpa using this

/-- The head generation is one past the largest generation handed out (0 at the start). -/
theorem c34_head (kdf : Kdf S K) (s0 : S) (rs : List Req) :
    (after kdf (Recv.init s0 : Recv S K) rs).head.gen
      = (handedOut kdf (Recv.init s0 : Recv S K) rs).foldr (fun g m => max m (g + 1)) 0 := by
  suffices H : ∀ (y : Recv S K) (used : List Nat), RInv kdf s0 y used →
      (after kdf y rs).head.gen = max y.head.gen ((handedOut kdf y rs).foldr (fun g m => max m (g + 1)) 0) from by
    have := H _ [] (rinv_init kdf s0)
    simpa [Recv.init, Chain.init] using this
  induction rs with
  | nil => intro y used _; simp [after, run, handedOut]
  | cons r rs ih =>
    intro y used hI
    have hstep := get_step kdf s0 y used r.g r.fwd r.ooo hI
    cases hg : y.get kdf r.g r.fwd r.ooo with
    | ok q =>
      obtain ⟨y', k'⟩ := q
      rw [hg] at hstep
      have := ih y' _ hstep.2.2.1
      simp only [after, run, hg, handedOut, List.foldr_cons] at this ⊢
      rw [this, hstep.2.2.2.2.2.1]; omega
    | error e =>
      have := ih y used hI
      simpa [after, run, hg, handedOut] using this

/-! ## The `u32` domain of the real code

`Generation = u32` in ratchet.rs; the model uses `Nat`. The three theorems below show that the `Nat`
model *is* the `u32` code for every history whose requested generations are below `u32::MAX`:
no `u32` addition or subtraction that the code evaluates can wrap, and the extra headroom conjunct of
the first window check does not change its verdict. -/

/-- `u32::MAX`. -/
def u32Max : Nat := 4294967295

/-- The first window check exactly as written in the source (`c34_source_ops.futureCond`), over
    naturals: `generation_head < u32::MAX - maximum_forward_distance && generation >
    generation_head + maximum_forward_distance`. -/
def futureGuardU32 (hd g fwd : Nat) : Bool :=
  decide (hd < u32Max - fwd) && decide (g > hd + fwd)

/-- **The headroom conjunct is transparent.** For `u32` operands the source's guarded comparison
    has the verdict of the model's plain `g > hd + fwd`, and whenever the sum is evaluated (the
    `&&` is short-circuit) it fits a `u32`; `u32::MAX - fwd` cannot underflow. -/
theorem c34_u32_future_guard (hd g fwd : Nat) (hg : g ≤ u32Max) (hf : fwd ≤ u32Max) :
    (futureGuardU32 hd g fwd = true ↔ g > hd + fwd)
    ∧ (hd < u32Max - fwd → hd + fwd ≤ u32Max)
    ∧ fwd ≤ u32Max := by
  refine ⟨?_, ?_, hf⟩
  · simp only [futureGuardU32, Bool.and_eq_true, decide_eq_true_eq]
    constructor
    · intro h; exact h.2
    · intro h; exact ⟨by omega, h⟩
  · intro h; omega

/-- Every generation handed out is the generation of one of the requests. -/
theorem handedOut_mem (kdf : Kdf S K) (rs : List Req) (y : Recv S K) (g : Nat)
    (h : g ∈ handedOut kdf y rs) : ∃ r ∈ rs, r.g = g := by
  induction rs generalizing y with
  | nil => simp [handedOut] at h
  | cons r rs ih =>
    cases hg : y.get kdf r.g r.fwd r.ooo with
    | ok q =>
      obtain ⟨y', k'⟩ := q
      simp only [handedOut, hg, List.mem_cons] at h
      rcases h with h | h
      · exact ⟨r, by simp, h.symm⟩
      · obtain ⟨r', hr', e⟩ := ih y' h
        exact ⟨r', by simp [hr'], e⟩
    | error e =>
      simp only [handedOut, hg] at h
      obtain ⟨r', hr', e⟩ := ih y h
      exact ⟨r', by simp [hr'], e⟩

private theorem foldr_max_le (l : List Nat) (m : Nat) (h : ∀ g ∈ l, g + 1 ≤ m) :
    l.foldr (fun g a => max a (g + 1)) 0 ≤ m := by
  induction l with
  | nil => simp
  | cons a l ih =>
    have h1 := ih (fun g hg => h g (by simp [hg]))
    have h2 := h a (by simp)
    simp only [List.foldr_cons]; omega

/-- **No `u32` wrap is reachable below `u32::MAX`.** After any request history in which every
    requested generation is `< u32::MAX` (any order, any window parameters, failed calls included)
    the head generation is `≤ u32::MAX`; as every prefix of such a history is again one, this holds
    between any two calls, and inside a call the head only takes values from the old head up to
    `g + 1`. So every `y.generation += 1` the real code executes is on a value `< u32::MAX` and the
    `Nat` model and the `u32` code coincide on these histories. (A request for `u32::MAX` itself
    would make the final `+= 1` overflow: panic in debug builds, wrap to 0 in release — outside the
    claim, see `assumptions`.) -/
theorem c34_u32_head_bounded (kdf : Kdf S K) (s0 : S) (rs : List Req)
    (hb : ∀ r ∈ rs, r.g < u32Max) :
    (after kdf (Recv.init s0 : Recv S K) rs).head.gen ≤ u32Max := by
  rw [c34_head]
  apply foldr_max_le
  intro g hg
  obtain ⟨r, hr, e⟩ := handedOut_mem kdf rs _ g hg
  have := hb r hr
  omega

/-- Inside a successful call for `g ≥ head` the skip loop ends exactly at `g`, so the last
    `+= 1` is executed on the value `g` (this is `skip_gen` restated for the `u32` reading). -/
theorem c34_u32_skip_ends_at (kdf : Kdf S K) (y : Recv S K) (g : Nat) (h : g ≥ y.head.gen) :
    (Recv.skip kdf (g - y.head.gen) y).head.gen = g := by
  rw [skip_gen]; omega

/-- The source's window index `((generation_head - generation) as i32) - 1` with its
    `window_index >= 0` test, over naturals: the `u32 → i32` cast wraps distances `≥ 2³¹` to
    negative numbers, which the test turns into `IndexOutOfBounds`. -/
def windowIndexI32 (d : Nat) : Option Nat :=
  if d < 2147483648 then (if 1 ≤ d then some (d - 1) else none) else none

/-- **The `i32` cast is transparent.** For a late request (`g < hd`, both `u32`) and a queue of
    fewer than 2³¹ entries (the `VecDeque` of 40-byte entries cannot be larger on any target), the
    lookup through the cast index finds exactly what the model's `past[hd - g - 1]?` finds; when
    the cast goes negative both are "no entry" (`IndexOutOfBounds`). -/
theorem c34_i32_window_index (past : List (Option K)) (hd g : Nat) (hlt : g < hd)
    (hl : past.length < 2147483648) :
    (match windowIndexI32 (hd - g) with
     | some i => past[i]?
     | none => none) = past[hd - g - 1]? := by
  unfold windowIndexI32
  by_cases h : hd - g < 2147483648
  · have h1 : 1 ≤ hd - g := by omega
    simp [h, h1]
  · simp only [h, if_false]
    symm
    apply List.getElem?_eq_none
    omega

/-! ## Non-vacuity (kdf instantiated with secret = generation number, key = secret) -/

private def kdfN : Kdf Nat Nat := { key := id, next := (· + 1) }
private def rq (o : Nat) (g : Nat) : Req := { g := g, fwd := 3, ooo := o }
private def code : Except Err Nat → Nat ⊕ Err
  | .ok k => .inl k
  | .error e => .inr e

example : (run kdfN (Recv.init 0) ([0, 4, 3, 2, 1, 4, 9, 0].map (rq 4))).2.map code
    = [.inl 0, .inl 4, .inl 3, .inl 2, .inl 1, .inr .reuse, .inr .future, .inr .past] := by decide
example : handedOut kdfN (Recv.init 0 : Recv Nat Nat) ([0, 4, 3, 2, 1, 4, 9, 0].map (rq 4))
    = [0, 4, 3, 2, 1] := by decide
example : (after kdfN (Recv.init 0 : Recv Nat Nat) ([0, 4, 2].map (rq 3))).past
    = [none, some 3, none] := by decide
/-- `IndexOutOfBounds` *is* reachable when the tolerance changes between calls (why `c34_window`
    fixes `ooo`). -/
example : (run kdfN (Recv.init 0) [rq 1 0, rq 1 3, rq 9 1]).2.map code
    = [.inl 0, .inl 3, .inr .oob] := by decide

/-- The guard at the edge of the `u32` domain: head `u32::MAX - 2`, forward distance 5 — the
    headroom conjunct is false, and so is the plain comparison for every `u32` generation. -/
example : futureGuardU32 (u32Max - 2) u32Max 5 = false ∧ ¬ (u32Max > (u32Max - 2) + 5) := by decide
example : futureGuardU32 10 20 5 = true ∧ futureGuardU32 10 15 5 = false := by decide
example : ∀ r ∈ ([0, 4, 3, 2, 1, 4, 9, 0].map (rq 4)), r.g < u32Max := by decide

/-! ## Tie to the current source text (DESIGN.md §4.2) -/

/-- **The model is the source.** `./check` re-extracts these fragments from /repo on every run
    (regular expressions anchored on the surrounding statements; a fragment that no longer matches is
    itself a failure of the proof stage). They are the decision logic of `DecryptionRatchet::secret_for_decryption` and the label roles of `RatchetSecret::ratchet_forward`, as transcribed in `P2.Ratchet.Recv.get` / `Recv.skip` / `Chain.forward`: future check (`g > hd + fwd`, guarded by the u32 headroom test that the model's `Nat` makes vacuous), past check (`g < hd ∧ hd - g > ooo`), branch `g ≥ hd`, `g - hd` skipped generations pushed to the FRONT as `Some`, the used one pushed to the front as `None`, `truncate(ooo)`, window index `hd - g - 1`, missing index → `IndexOutOfBounds`, `take()` (at most once), key material from labels `key`/`nonce`, next secret from `chain`, generation + 1. Any edit of one of these
    operators / operands / call shapes changes the extracted text and this theorem stops checking —
    before a single input is generated. -/
theorem c34_source_ops :
    P2.Extracted.C34.futureCond = "generation_head < u32::MAX - maximum_forward_distance && generation > generation_head + maximum_forward_distance"
    ∧ P2.Extracted.C34.pastCond = "generation < generation_head && (generation_head - generation) > ooo_tolerance"
    ∧ P2.Extracted.C34.branchCond = "generation >= generation_head"
    ∧ P2.Extracted.C34.loopRange = "0..(generation - generation_head)"
    ∧ P2.Extracted.C34.skippedPush = "push_front(Some(ratchet_secrets))"
    ∧ P2.Extracted.C34.usedPush = "push_front(None)"
    ∧ P2.Extracted.C34.truncateArg = "truncate(ooo_tolerance as usize)"
    ∧ P2.Extracted.C34.windowIndex = "((generation_head - generation) as i32) - 1"
    ∧ P2.Extracted.C34.indexCond = "window_index >= 0"
    ∧ P2.Extracted.C34.lookupErr = "RatchetError::IndexOutOfBounds"
    ∧ P2.Extracted.C34.takeCall = "take"
    ∧ P2.Extracted.C34.nonceLabel = "nonce"
    ∧ P2.Extracted.C34.keyLabel = "key"
    ∧ P2.Extracted.C34.chainLabel = "chain"
    ∧ P2.Extracted.C34.generationStep = 1 :=
  ⟨rfl, rfl, rfl, rfl, rfl, rfl, rfl, rfl, rfl, rfl, rfl, rfl, rfl, rfl, rfl⟩

end P2.C34
