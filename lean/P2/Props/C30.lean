/-
C30 — Confidential discovery yields exactly the common topics.

Model: `P2/Model/Psi.lean`.  BLAKE3 is a parameter `h`; its collision-freeness is a *hypothesis* of
the theorems (`InjPerSalt`, `InjJoint`), never an axiom.  The two direction bytes are re-extracted
from the source on every run (`P2/Extracted/C30.lean`).
-/
import P2.Model.Psi
import P2.Extracted.C30

namespace P2.C30
open P2.Psi

set_option linter.unusedSectionVars false
variable {τ : Type} [DecidableEq τ]

/-- No two topics collide under one salt. -/
def InjPerSalt (h : Hash τ) : Prop := ∀ s t t', h t s = h t' s → t = t'

/-- Collision-freeness of the salted hash over (topic, salt) pairs. -/
def InjJoint (h : Hash τ) : Prop := ∀ t s t' s', h t s = h t' s' → t = t' ∧ s = s'

/-- A digest is never one of the raw topics in play. -/
def NoRaw (h : Hash τ) (raw : List τ) : Prop := ∀ t s, h t s ∉ raw

theorem injJoint_perSalt (h : Hash τ) (hj : InjJoint h) : InjPerSalt h :=
  fun s t t' e => (hj t s t' s e).1

/-! ### The two direction bytes of the current source text -/

theorem c30_salt_bytes_distinct : P2.Extracted.C30.aliceSaltByte ≠ P2.Extracted.C30.bobSaltByte := by decide

theorem combineSalt_dir_ne (a b : List Nat) (d d' : Nat) (hd : d ≠ d') :
    combineSalt a b d ≠ combineSalt a b d' := by
  intro e
  unfold combineSalt at e
  have := List.append_cancel_left e
  simp at this
  exact hd this

/-! ### Intersection -/

theorem mem_computeIntersection (h : Hash τ) (hinj : InjPerSalt h) (loc other : List τ) (salt : List Nat) (t : τ) :
    t ∈ computeIntersection h loc (hashVector h other salt) salt ↔ t ∈ loc ∧ t ∈ other := by
  unfold computeIntersection hashVector
  simp only [List.mem_filter, decide_eq_true_eq, List.mem_map]
  constructor
  · rintro ⟨hl, t', ht', e⟩
    exact ⟨hl, by rw [← hinj salt t' t e]; exact ht'⟩
  · rintro ⟨hl, ho⟩
    exact ⟨hl, t, ho, rfl⟩

/-- **C30, intersection.** In an honest session both results are exactly `A ∩ B` (as sets), for all
topic sets, salt halves, direction bytes, address books and configurations. -/
theorem c30_intersection (h : Hash τ) (hinj : InjPerSalt h) (aByte bByte : Nat) (pa pb : Party τ)
    (sa sb : List Nat) (t : τ) :
    (t ∈ (honest h aByte bByte pa pb sa sb).aliceResult.topics ↔ t ∈ pa.topics ∧ t ∈ pb.topics)
    ∧ (t ∈ (honest h aByte bByte pa pb sa sb).bobResult.topics ↔ t ∈ pa.topics ∧ t ∈ pb.topics) := by
  constructor
  · exact mem_computeIntersection h hinj pa.topics pb.topics _ t
  · have := mem_computeIntersection h hinj pb.topics pa.topics (combineSalt sa sb aByte) t
    simp only [honest]
    rw [this]
    exact And.comm

/-- Both peers end with the same set. -/
theorem c30_results_agree (h : Hash τ) (hinj : InjPerSalt h) (aByte bByte : Nat) (pa pb : Party τ)
    (sa sb : List Nat) (t : τ) :
    t ∈ (honest h aByte bByte pa pb sa sb).aliceResult.topics ↔
    t ∈ (honest h aByte bByte pa pb sa sb).bobResult.topics := by
  have := c30_intersection h hinj aByte bByte pa pb sa sb t
  rw [this.1, this.2]

/-- The honest transcript is what the two role functions produce when each is fed the other's
messages (so the theorems about `honest` are theorems about `alice` and `bob`). -/
theorem c30_honest_is_run (h : Hash τ) (aByte bByte : Nat) (pa pb : Party τ) (sa sb : List Nat) :
    let T := honest h aByte bByte pa pb sa sb
    alice h aByte bByte pa sa [T.m2, T.m4] = ([T.m1, T.m3, T.m5], .ok T.aliceResult)
    ∧ bob h aByte bByte pb sb [T.m1, T.m3, T.m5] = ([T.m2, T.m4], .ok T.bobResult) := by
  constructor <;> rfl

/-! ### No raw topic on the wire -/

/-- **C30, confidentiality.** Every topic-typed value inside any message of an honest session is an
`h`-image of one of the sender's topics under a session salt; hence — a digest never being one of the
raw topics in play — none equals an element of `A ∪ B`. -/
theorem c30_no_raw_topic (h : Hash τ) (aByte bByte : Nat) (pa pb : Party τ) (sa sb : List Nat)
    (hraw : NoRaw h (pa.topics ++ pb.topics)) :
    ∀ m ∈ (honest h aByte bByte pa pb sa sb).messages, ∀ x ∈ m.topicValues,
      (∃ t s, (t ∈ pa.topics ∨ t ∈ pb.topics) ∧ x = h t s) ∧ x ∉ pa.topics ∧ x ∉ pb.topics := by
  intro m hm x hx
  have himg : ∃ t s, (t ∈ pa.topics ∨ t ∈ pb.topics) ∧ x = h t s := by
    simp only [Transcript.messages, honest, List.mem_cons, List.not_mem_nil, or_false] at hm
    rcases hm with rfl | rfl | rfl | rfl | rfl <;>
      simp only [Msg.topicValues, hashVector, List.mem_map, List.not_mem_nil] at hx
    · obtain ⟨t, ht, rfl⟩ := hx; exact ⟨t, _, Or.inr ht, rfl⟩
    · obtain ⟨t, ht, rfl⟩ := hx; exact ⟨t, _, Or.inl ht, rfl⟩
  refine ⟨himg, ?_⟩
  obtain ⟨t, s, _, rfl⟩ := himg
  have := hraw t s
  simp only [List.mem_append, not_or] at this
  exact this

/-- The same for whatever a single role sends, whatever it receives (also from a dishonest peer). -/
theorem c30_no_raw_topic_alice (h : Hash τ) (aByte bByte : Nat) (p : Party τ) (sa : List Nat)
    (inbox : List (Msg τ)) (hraw : NoRaw h p.topics) :
    ∀ m ∈ (alice h aByte bByte p sa inbox).1, ∀ x ∈ m.topicValues, x ∉ p.topics := by
  intro m hm x hx
  have : ∃ t s, x = h t s := by
    unfold alice at hm
    split at hm
    · simp at hm; subst hm; simp [Msg.topicValues] at hx
    · split at hm <;> simp at hm
      all_goals
        rcases hm with rfl | rfl | rfl <;>
        simp [Msg.topicValues, hashVector] at hx <;>
        first | (obtain ⟨t, _, rfl⟩ := hx; exact ⟨t, _, rfl⟩)
    · simp at hm; subst hm; simp [Msg.topicValues] at hx
  obtain ⟨t, s, rfl⟩ := this
  exact hraw t s

theorem c30_no_raw_topic_bob (h : Hash τ) (aByte bByte : Nat) (p : Party τ) (sb : List Nat)
    (inbox : List (Msg τ)) (hraw : NoRaw h p.topics) :
    ∀ m ∈ (bob h aByte bByte p sb inbox).1, ∀ x ∈ m.topicValues, x ∉ p.topics := by
  intro m hm x hx
  have : ∃ t s, x = h t s := by
    unfold bob at hm
    split at hm
    · simp at hm
    · split at hm
      · simp at hm; subst hm
        simp [Msg.topicValues, hashVector] at hx
        obtain ⟨t, _, rfl⟩ := hx; exact ⟨t, _, rfl⟩
      · split at hm <;> simp at hm
        all_goals
          rcases hm with rfl | rfl <;>
          simp [Msg.topicValues, hashVector] at hx <;>
          first | (obtain ⟨t, _, rfl⟩ := hx; exact ⟨t, _, rfl⟩)
      · simp at hm; subst hm
        simp [Msg.topicValues, hashVector] at hx
        obtain ⟨t, _, rfl⟩ := hx; exact ⟨t, _, rfl⟩
    · simp at hm
  obtain ⟨t, s, rfl⟩ := this
  exact hraw t s

/-! ### Direction separation -/

/-- Digests made under one salt never match under a different salt (collision-freeness). -/
theorem cross_salt_empty (h : Hash τ) (hj : InjJoint h) (x y : List τ) (s s' : List Nat) (hs : s ≠ s') :
    computeIntersection h x (hashVector h y s) s' = [] := by
  unfold computeIntersection hashVector
  rw [List.filter_eq_nil_iff]
  intro t _
  simp only [decide_eq_true_eq, List.mem_map, not_exists, not_and]
  intro t' _ e
  exact hs (hj t' s t s' e).2

/-- **C30, direction separation** (for the direction bytes of the current source): a set of digests
made for one direction is worthless in the other — echoing Bob's own set back to him (the only
replay the message order allows), or Alice's set back to her, yields the empty intersection. -/
theorem c30_direction_separated (h : Hash τ) (hj : InjJoint h) (a b : List τ) (sa sb : List Nat) :
    let aByte := P2.Extracted.C30.aliceSaltByte
    let bByte := P2.Extracted.C30.bobSaltByte
    computeIntersection h b (hashVector h b (combineSalt sa sb bByte)) (combineSalt sa sb aByte) = []
    ∧ computeIntersection h a (hashVector h a (combineSalt sa sb aByte)) (combineSalt sa sb bByte) = [] := by
  constructor
  · exact cross_salt_empty h hj b b _ _ (combineSalt_dir_ne sa sb _ _ (Ne.symm c30_salt_bytes_distinct))
  · exact cross_salt_empty h hj a a _ _ (combineSalt_dir_ne sa sb _ _ c30_salt_bytes_distinct)

/-- The same at protocol level: Bob, fed an echo of his own message-2 set, ends with no topics. -/
theorem c30_echo_attack_fails (h : Hash τ) (hj : InjJoint h) (p : Party τ) (sa sb : List Nat) (ids : List Nat) :
    let aByte := P2.Extracted.C30.aliceSaltByte
    let bByte := P2.Extracted.C30.bobSaltByte
    let echo := hashVector h p.topics (combineSalt sa sb bByte)
    ∃ sent, bob h aByte bByte p sb [.aliceSaltHalf sa, .aliceData echo, .nodes ids]
      = (sent, .ok { topics := [], nodes := ids }) := by
  intro aByte bByte echo
  have hz := (c30_direction_separated h hj p.topics p.topics sa sb).1
  refine ⟨[.bobData sb (hashVector h p.topics (combineSalt sa sb bByte)),
           .nodes (gather p.restricted p.book p.me [])], ?_⟩
  simp only [bob]
  rw [show computeIntersection h p.topics echo (combineSalt sa sb aByte) = [] from hz]

/-- Why the bytes must differ: with one byte for both directions the echo makes Bob believe that
*all* his topics are shared. -/
theorem c30_same_byte_echo_succeeds (h : Hash τ) (b : List τ) (s : List Nat) :
    computeIntersection h b (hashVector h b s) s = b := by
  unfold computeIntersection hashVector
  rw [List.filter_eq_self]
  intro t ht
  simp only [decide_eq_true_eq, List.mem_map]
  exact ⟨t, ht, rfl⟩

/-! ### Restricted sharing -/

/-- **C30, restricted sharing.** With `share_nodes_with_common_topics` every id in a `Nodes` message
belongs to the sender itself or to a (non-stale) node of the address book interested in at least one
of the given topics — and only nodes that have transport info appear. -/
theorem c30_restricted_sharing_gather (book : List (NodeRec τ)) (me : Nat) (ts : List τ) :
    ∀ id ∈ gather true book me ts,
      (id = me ∨ ∃ n ∈ book, n.id = id ∧ n.stale = false ∧ ∃ t ∈ n.topics, t ∈ ts)
      ∧ ∃ n ∈ book, n.id = id ∧ n.hasTransport = true := by
  intro id hid
  unfold gather at hid
  simp only [List.mem_map, List.mem_filter] at hid
  obtain ⟨n, ⟨hn, htr⟩, rfl⟩ := hid
  have hcase : n ∈ byTopics book ts ∨ (n ∈ book ∧ n.id = me) := by
    unfold gatherInfos at hn
    simp only [if_true] at hn
    split at hn
    · exact Or.inl hn
    · rcases List.mem_append.1 hn with h1 | h2
      · exact Or.inl h1
      · right
        cases hf : book.find? (fun n => n.id == me) with
        | none => simp [hf] at h2
        | some m =>
          simp [hf] at h2
          subst h2
          have := List.find?_some hf
          exact ⟨List.mem_of_find?_eq_some hf, by simpa using this⟩
  rcases hcase with hb | ⟨hb, hme⟩
  · unfold byTopics at hb
    simp only [List.mem_filter, Bool.and_eq_true, Bool.not_eq_true', List.any_eq_true, decide_eq_true_eq] at hb
    obtain ⟨hbook, hst, t, ht, hts⟩ := hb
    exact ⟨Or.inr ⟨n, hbook, rfl, hst, t, ht, hts⟩, n, hbook, rfl, htr⟩
  · exact ⟨Or.inl hme, n, hb, rfl, htr⟩

/-- …instantiated for the honest session: the ids Bob (resp. Alice) sends are limited to nodes with
a topic in `A ∩ B`, plus the sender. -/
theorem c30_restricted_sharing (h : Hash τ) (hinj : InjPerSalt h) (aByte bByte : Nat) (pa pb : Party τ)
    (sa sb : List Nat) (hrb : pb.restricted = true) :
    ∀ id ∈ (honest h aByte bByte pa pb sa sb).aliceResult.nodes,
      (id = pb.me ∨ ∃ n ∈ pb.book, n.id = id ∧ n.stale = false ∧ ∃ t ∈ n.topics, t ∈ pa.topics ∧ t ∈ pb.topics)
      ∧ ∃ n ∈ pb.book, n.id = id ∧ n.hasTransport = true := by
  intro id hid
  simp only [honest, hrb] at hid
  obtain ⟨h1, h2⟩ := c30_restricted_sharing_gather pb.book pb.me _ id hid
  refine ⟨?_, h2⟩
  rcases h1 with h1 | ⟨n, hn, hi, hs, t, ht, hts⟩
  · exact Or.inl h1
  · refine Or.inr ⟨n, hn, hi, hs, t, ht, ?_⟩
    have := (mem_computeIntersection h hinj pb.topics pa.topics (combineSalt sa sb aByte) t).1 hts
    exact ⟨this.2, this.1⟩

/-- Without the restriction: exactly the non-stale nodes that have transport info. -/
theorem c30_unrestricted_sharing (book : List (NodeRec τ)) (me : Nat) (ts : List τ) (id : Nat) :
    id ∈ gather false book me ts ↔ ∃ n ∈ book, n.id = id ∧ n.stale = false ∧ n.hasTransport = true := by
  unfold gather gatherInfos
  simp only [Bool.false_eq_true, if_false, List.mem_map, List.mem_filter, Bool.not_eq_true']
  constructor
  · rintro ⟨n, ⟨⟨hb, hs⟩, ht⟩, rfl⟩; exact ⟨n, hb, rfl, hs, ht⟩
  · rintro ⟨n, hb, rfl, hs, ht⟩; exact ⟨n, ⟨⟨hb, hs⟩, ht⟩, rfl⟩


/-! ### Ties to the current source text (`P2/Extracted/C30.lean` is regenerated on every run) -/

/-- Which direction byte each role hashes its own topics with (what it *sends*) and which it checks
the peer's digests against, read from the bodies of `alice` and `bob` (through their
`alice_final_salt` / `bob_final_salt` definitions): Alice sends with the Alice byte and checks with the
Bob byte, Bob the other way round — … -/
theorem c30_salt_use_is_source :
    P2.Extracted.C30.aliceSendByte = P2.Extracted.C30.aliceSaltByte
    ∧ P2.Extracted.C30.aliceCheckByte = P2.Extracted.C30.bobSaltByte
    ∧ P2.Extracted.C30.bobSendByte = P2.Extracted.C30.bobSaltByte
    ∧ P2.Extracted.C30.bobCheckByte = P2.Extracted.C30.aliceSaltByte := by decide

/-- … which is what the model's role functions do with their `aByte` / `bByte` parameters. -/
theorem c30_model_salt_use (h : Hash τ) (aByte bByte : Nat) (p : Party τ) (sa sb : List Nat)
    (ts : List τ) (ids : List Nat) :
    (alice h aByte bByte p sa [.bobData sb ts, .nodes ids]).2
        = .ok { topics := computeIntersection h p.topics ts (combineSalt sa sb bByte), nodes := ids }
    ∧ (alice h aByte bByte p sa [.bobData sb ts, .nodes ids]).1.drop 1
        = [.aliceData (hashVector h p.topics (combineSalt sa sb aByte)),
           .nodes (gather p.restricted p.book p.me (computeIntersection h p.topics ts (combineSalt sa sb bByte)))]
    ∧ (bob h aByte bByte p sb [.aliceSaltHalf sa, .aliceData ts, .nodes ids]).2
        = .ok { topics := computeIntersection h p.topics ts (combineSalt sa sb aByte), nodes := ids }
    ∧ (bob h aByte bByte p sb [.aliceSaltHalf sa, .aliceData ts, .nodes ids]).1.take 1
        = [.bobData sb (hashVector h p.topics (combineSalt sa sb bByte))] := by
  refine ⟨rfl, rfl, rfl, rfl⟩

/-- `combine_salt` lays the salt out as Alice's half, Bob's half, direction byte (the model's
`a ++ b ++ [dir]`); `hash` feeds BLAKE3 the topic first and the salt second; `hash_vector` hashes every
topic with the one salt it is given and `compute_intersection` hashes the local topics with the salt
it is given. -/
theorem c30_salt_layout_is_source :
    [P2.Extracted.C30.saltPart0, P2.Extracted.C30.saltPart1, P2.Extracted.C30.saltPart2]
        = ["alice_salt_half", "bob_salt_half", "pair_byte"]
    ∧ [P2.Extracted.C30.hashInput0, P2.Extracted.C30.hashInput1] = ["data", "salt"]
    ∧ P2.Extracted.C30.hashVectorArg = "hash(topic.as_bytes(), salt)"
    ∧ P2.Extracted.C30.ciHashes = "hash_vector(local_topics, salt)" := by decide

/-- `compute_intersection`: the model's filter is the fold of the loop body that rs2lean regenerates
from the current source — the RAW local topic is collected iff its hash is in the remote set. -/
theorem c30_intersection_is_source (h : Hash τ) (loc remote : List τ) (salt : List Nat) :
    computeIntersection h loc remote salt
      = loc.foldr (fun t acc => P2.Extracted.C30.ciBody acc remote t (h t salt)) [] := by
  unfold computeIntersection
  induction loc with
  | nil => rfl
  | cons t ts ih =>
    simp only [List.foldr_cons, List.filter_cons, decide_eq_true_eq]
    rw [← ih]
    simp only [P2.Extracted.C30.ciBody]

/-- `gather_transport_infos`: the branch on `share_nodes_with_common_topics` (the anchor of the
translation pins the condition itself), what the restricted branch collects (topic query, plus our own
info when it is not among the results and known), what the other branch collects, and the final filter
on `transports()` are the translations of the current source. -/
theorem c30_gather_is_source (restricted : Bool) (book : List (NodeRec τ)) (me : Nat) (ts : List τ) :
    gatherInfos restricted book me ts
      = (if restricted then
          P2.Extracted.C30.gatherRestricted (byTopics book ts)
            ((byTopics book ts).any (fun n => n.id == me)) (book.find? (fun n => n.id == me))
         else P2.Extracted.C30.gatherUnrestricted (book.filter (fun n => !n.stale)))
    ∧ gather restricted book me ts
      = (gatherInfos restricted book me ts).foldr
          (fun n acc => P2.Extracted.C30.gatherMapBody acc n.id (if n.hasTransport then some () else none)) [] := by
  constructor
  · unfold gatherInfos P2.Extracted.C30.gatherRestricted P2.Extracted.C30.gatherUnrestricted
    cases restricted
    · simp
    · simp only [if_true]
      cases hany : (byTopics book ts).any (fun n => n.id == me)
      · cases hf : book.find? (fun n => n.id == me) <;> simp
      · simp
  · unfold gather
    induction gatherInfos restricted book me ts with
    | nil => rfl
    | cons n ns ih =>
      simp only [List.foldr_cons, List.filter_cons]
      rw [← ih]
      cases n.hasTransport <;> simp [P2.Extracted.C30.gatherMapBody]

/-! ### Non-vacuity: a collision-free hash exists and the protocol computes something non-trivial -/

/-- A concrete collision-free hash on `Nat × List Nat` codes: digests are tagged pairs. -/
inductive T where
  | raw (n : Nat)
  | dig (t : T) (s : List Nat)
deriving DecidableEq, Repr

def hT : Hash T := fun t s => .dig t s

example : InjJoint hT := by
  intro t s t' s' e; cases e; exact ⟨rfl, rfl⟩
example (raw : List Nat) : NoRaw hT (raw.map T.raw) := by
  intro t s hm
  simp [hT] at hm

example :
    (honest hT 0 1 ⟨[.raw 1, .raw 2, .raw 98, .raw 99], [], 0, false⟩ ⟨[.raw 2, .raw 3, .raw 99, .raw 100], [], 1, false⟩
      [7] [8]).aliceResult.topics = [.raw 2, .raw 99] := by decide
example :
    gather true ([⟨1, [.raw 1, .raw 2], false, true⟩, ⟨2, [.raw 1], false, true⟩, ⟨3, [.raw 2], false, true⟩,
      ⟨4, [.raw 1], false, false⟩, ⟨5, [.raw 1], true, true⟩] : List (NodeRec T)) 1 [.raw 1] = [1, 2] := by decide

end P2.C30
