/-
C30 — Confidential discovery yields exactly the common topics.

Model: `P2/Model/Psi.lean`.  BLAKE3 is a parameter `h`; its collision-freeness is a *hypothesis* of
the theorems (`InjPerSalt`, `InjJoint`), never an axiom.  The two direction bytes are re-extracted
from the source on every run (`P2/Extracted/C30.lean`).
-/
import P2.Model.Psi
import P2.Extracted.C30

namespace P2.C30
open P2.Psi

set_option linter.unusedSectionVars false
variable {τ : Type} [DecidableEq τ]

/-- No two topics collide under one salt. -/
def InjPerSalt (h : Hash τ) : Prop := ∀ s t t', h t s = h t' s → t = t'

/-- Collision-freeness of the salted hash over (topic, salt) pairs. -/
def InjJoint (h : Hash τ) : Prop := ∀ t s t' s', h t s = h t' s' → t = t' ∧ s = s'

/-- A digest is never one of the raw topics in play. -/
def NoRaw (h : Hash τ) (raw : List τ) : Prop := ∀ t s, h t s ∉ raw

theorem injJoint_perSalt (h : Hash τ) (hj : InjJoint h) : InjPerSalt h :=
  fun s t t' e => (hj t s t' s e).1

/-! ### The two direction bytes of the current source text -/

theorem c30_salt_bytes_distinct : P2.Extracted.C30.aliceSaltByte ≠ P2.Extracted.C30.bobSaltByte := by decide

theorem combineSalt_dir_ne (a b : List Nat) (d d' : Nat) (hd : d ≠ d') :
    combineSalt a b d ≠ combineSalt a b d' := by
  intro e
  unfold combineSalt at e
  have := List.append_cancel_left e
  simp at this
  exact hd this

/-! ### Intersection -/

theorem mem_computeIntersection (h : Hash τ) (hinj : InjPerSalt h) (loc other : List τ) (salt : List Nat) (t : τ) :
    t ∈ computeIntersection h loc (hashVector h other salt) salt ↔ t ∈ loc ∧ t ∈ other := by
  unfold computeIntersection hashVector
  simp only [List.mem_filter, decide_eq_true_eq, List.mem_map]
  constructor
  · rintro ⟨hl, t', ht', e⟩
    exact ⟨hl, by rw [← hinj salt t' t e]; exact ht'⟩
  · rintro ⟨hl, ho⟩
    exact ⟨hl, t, ho, rfl⟩

/-- **C30, intersection.** In an honest session both results are exactly `A ∩ B` (as sets), for all
topic sets, salt halves, direction bytes, address books and configurations. -/
theorem c30_intersection (h : Hash τ) (hinj : InjPerSalt h) (aByte bByte : Nat) (pa pb : Party τ)
    (sa sb : List Nat) (t : τ) :
    (t ∈ (honest h aByte bByte pa pb sa sb).aliceResult.topics ↔ t ∈ pa.topics ∧ t ∈ pb.topics)
    ∧ (t ∈ (honest h aByte bByte pa pb sa sb).bobResult.topics ↔ t ∈ pa.topics ∧ t ∈ pb.topics) := by
  constructor
  · exact mem_computeIntersection h hinj pa.topics pb.topics _ t
  · have := mem_computeIntersection h hinj pb.topics pa.topics (combineSalt sa sb aByte) t
    simp only [honest]
    rw [this]
    exact And.comm

/-- Both peers end with the same set. -/
theorem c30_results_agree (h : Hash τ) (hinj : InjPerSalt h) (aByte bByte : Nat) (pa pb : Party τ)
    (sa sb : List Nat) (t : τ) :
    t ∈ (honest h aByte bByte pa pb sa sb).aliceResult.topics ↔
    t ∈ (honest h aByte bByte pa pb sa sb).bobResult.topics := by
  have := c30_intersection h hinj aByte bByte pa pb sa sb t
  rw [this.1, this.2]

/-- The honest transcript is what the two role functions produce when each is fed the other's
messages (so the theorems about `honest` are theorems about `alice` and `bob`). -/
theorem c30_honest_is_run (h : Hash τ) (aByte bByte : Nat) (pa pb : Party τ) (sa sb : List Nat) :
    let T := honest h aByte bByte pa pb sa sb
    alice h aByte bByte pa sa [T.m2, T.m4] = ([T.m1, T.m3, T.m5], .ok T.aliceResult)
    ∧ bob h aByte bByte pb sb [T.m1, T.m3, T.m5] = ([T.m2, T.m4], .ok T.bobResult) := by
  constructor <;> rfl

/-! ### No raw topic on the wire -/

/-- **C30, confidentiality.** Every topic-typed value inside any message of an honest session is an
`h`-image of one of the sender's topics under a session salt; hence — a digest never being one of the
raw topics in play — none equals an element of `A ∪ B`. -/
theorem c30_no_raw_topic (h : Hash τ) (aByte bByte : Nat) (pa pb : Party τ) (sa sb : List Nat)
    (hraw : NoRaw h (pa.topics ++ pb.topics)) :
    ∀ m ∈ (honest h aByte bByte pa pb sa sb).messages, ∀ x ∈ m.topicValues,
      (∃ t s, (t ∈ pa.topics ∨ t ∈ pb.topics) ∧ x = h t s) ∧ x ∉ pa.topics ∧ x ∉ pb.topics := by
  intro m hm x hx
  have himg : ∃ t s, (t ∈ pa.topics ∨ t ∈ pb.topics) ∧ x = h t s := by
    simp only [Transcript.messages, honest, List.mem_cons, List.not_mem_nil, or_false] at hm
    rcases hm with rfl | rfl | rfl | rfl | rfl <;>
      simp only [Msg.topicValues, hashVector, List.mem_map, List.not_mem_nil] at hx
    · obtain ⟨t, ht, rfl⟩ := hx; exact ⟨t, _, Or.inr ht, rfl⟩
    · obtain ⟨t, ht, rfl⟩ := hx; exact ⟨t, _, Or.inl ht, rfl⟩
  refine ⟨himg, ?_⟩
  obtain ⟨t, s, _, rfl⟩ := himg
  have := hraw t s
  simp only [List.mem_append, not_or] at this
  exact this

/-- The same for whatever a single role sends, whatever it receives (also from a dishonest peer). -/
theorem c30_no_raw_topic_alice (h : Hash τ) (aByte bByte : Nat) (p : Party τ) (sa : List Nat)
    (inbox : List (Msg τ)) (hraw : NoRaw h p.topics) :
    ∀ m ∈ (alice h aByte bByte p sa inbox).1, ∀ x ∈ m.topicValues, x ∉ p.topics := by
  intro m hm x hx
  have : ∃ t s, x = h t s := by
    unfold alice at hm
    split at hm
    · simp at hm; subst hm; simp [Msg.topicValues] at hx
    · split at hm <;> simp at hm
      all_goals
        rcases hm with rfl | rfl | rfl <;>
        simp [Msg.topicValues, hashVector] at hx <;>
        first | (obtain ⟨t, _, rfl⟩ := hx; exact ⟨t, _, rfl⟩)
    · simp at hm; subst hm; simp [Msg.topicValues] at hx
  obtain ⟨t, s, rfl⟩ := this
  exact hraw t s

theorem c30_no_raw_topic_bob (h : Hash τ) (aByte bByte : Nat) (p : Party τ) (sb : List Nat)
    (inbox : List (Msg τ)) (hraw : NoRaw h p.topics) :
    ∀ m ∈ (bob h aByte bByte p sb inbox).1, ∀ x ∈ m.topicValues, x ∉ p.topics := by
  intro m hm x hx
  have : ∃ t s, x = h t s := by
    unfold bob at hm
    split at hm
    · simp at hm
    · split at hm
      · simp at hm; subst hm
        simp [Msg.topicValues, hashVector] at hx
        obtain ⟨t, _, rfl⟩ := hx; exact ⟨t, _, rfl⟩
      · split at hm <;> simp at hm
        all_goals
          rcases hm with rfl | rfl <;>
          simp [Msg.topicValues, hashVector] at hx <;>
          first | (obtain ⟨t, _, rfl⟩ := hx; exact ⟨t, _, rfl⟩)
      · simp at hm; subst hm
        simp [Msg.topicValues, hashVector] at hx
        obtain ⟨t, _, rfl⟩ := hx; exact ⟨t, _, rfl⟩
    · simp at hm
  obtain ⟨t, s, rfl⟩ := this
  exact hraw t s

/-! ### Direction separation -/

/-- Digests made under one salt never match under a different salt (collision-freeness). -/
theorem cross_salt_empty (h : Hash τ) (hj : InjJoint h) (x y : List τ) (s s' : List Nat) (hs : s ≠ s') :
    computeIntersection h x (hashVector h y s) s' = [] := by
  unfold computeIntersection hashVector
  rw [List.filter_eq_nil_iff]
  intro t _
  simp only [decide_eq_true_eq, List.mem_map, not_exists, not_and]
  intro t' _ e
  exact hs (hj t' s t s' e).2

/-- **C30, direction separation** (for the direction bytes of the current source): a set of digests
made for one direction is worthless in the other — echoing Bob's own set back to him (the only
replay the message order allows), or Alice's set back to her, yields the empty intersection. -/
theorem c30_direction_separated (h : Hash τ) (hj : InjJoint h) (a b : List τ) (sa sb : List Nat) :
    let aByte := P2.Extracted.C30.aliceSaltByte
    let bByte := P2.Extracted.C30.bobSaltByte
    computeIntersection h b (hashVector h b (combineSalt sa sb bByte)) (combineSalt sa sb aByte) = []
    ∧ computeIntersection h a (hashVector h a (combineSalt sa sb aByte)) (combineSalt sa sb bByte) = [] := by
  constructor
  · exact cross_salt_empty h hj b b _ _ (combineSalt_dir_ne sa sb _ _ (Ne.symm c30_salt_bytes_distinct))
  · exact cross_salt_empty h hj a a _ _ (combineSalt_dir_ne sa sb _ _ c30_salt_bytes_distinct)

/-- The same at protocol level: Bob, fed an echo of his own message-2 set, ends with no topics. -/
theorem c30_echo_attack_fails (h : Hash τ) (hj : InjJoint h) (p : Party τ) (sa sb : List Nat) (ids : List Nat) :
    let aByte := P2.Extracted.C30.aliceSaltByte
    let bByte := P2.Extracted.C30.bobSaltByte
    let echo := hashVector h p.topics (combineSalt sa sb bByte)
    ∃ sent, bob h aByte bByte p sb [.aliceSaltHalf sa, .aliceData echo, .nodes ids]
      = (sent, .ok { topics := [], nodes := ids }) := by
  intro aByte bByte echo
  have hz := (c30_direction_separated h hj p.topics p.topics sa sb).1
  refine ⟨[.bobData sb (hashVector h p.topics (combineSalt sa sb bByte)),
           .nodes (gather p.restricted p.book p.me [])], ?_⟩
  simp only [bob]
  rw [show computeIntersection h p.topics echo (combineSalt sa sb aByte) = [] from hz]

/-- Why the bytes must differ: with one byte for both directions the echo makes Bob believe that
*all* his topics are shared. -/
theorem c30_same_byte_echo_succeeds (h : Hash τ) (b : List τ) (s : List Nat) :
    computeIntersection h b (hashVector h b s) s = b := by
  unfold computeIntersection hashVector
  rw [List.filter_eq_self]
  intro t ht
  simp only [decide_eq_true_eq, List.mem_map]
  exact ⟨t, ht, rfl⟩

/-! ### Restricted sharing -/

/-- **C30, restricted sharing.** With `share_nodes_with_common_topics` every id in a `Nodes` message
belongs to the sender itself or to a (non-stale) node of the address book interested in at least one
of the given topics — and only nodes that have transport info appear. -/
theorem c30_restricted_sharing_gather (book : List (NodeRec τ)) (me : Nat) (ts : List τ) :
    ∀ id ∈ gather true book me ts,
      (id = me ∨ ∃ n ∈ book, n.id = id ∧ n.stale = false ∧ ∃ t ∈ n.topics, t ∈ ts)
      ∧ ∃ n ∈ book, n.id = id ∧ n.hasTransport = true := by
  intro id hid
  unfold gather at hid
  simp only [List.mem_map, List.mem_filter] at hid
  obtain ⟨n, ⟨hn, htr⟩, rfl⟩ := hid
  have hcase : n ∈ byTopics book ts ∨ (n ∈ book ∧ n.id = me) := by
    unfold gatherInfos at hn
    simp only [if_true] at hn
    split at hn
    · exact Or.inl hn
    · rcases List.mem_append.1 hn with h1 | h2
      · exact Or.inl h1
      · right
        cases hf : book.find? (fun n => n.id == me) with
        | none => simp [hf] at h2
        | some m =>
          simp [hf] at h2
          subst h2
          have := List.find?_some hf
          exact ⟨List.mem_of_find?_eq_some hf, by simpa using this⟩
  rcases hcase with hb | ⟨hb, hme⟩
  · unfold byTopics at hb
    simp only [List.mem_filter, Bool.and_eq_true, Bool.not_eq_true', List.any_eq_true, decide_eq_true_eq] at hb
    obtain ⟨hbook, hst, t, ht, hts⟩ := hb
    exact ⟨Or.inr ⟨n, hbook, rfl, hst, t, ht, hts⟩, n, hbook, rfl, htr⟩
  · exact ⟨Or.inl hme, n, hb, rfl, htr⟩

/-- …instantiated for the honest session: the ids Bob (resp. Alice) sends are limited to nodes with
a topic in `A ∩ B`, plus the sender. -/
theorem c30_restricted_sharing (h : Hash τ) (hinj : InjPerSalt h) (aByte bByte : Nat) (pa pb : Party τ)
    (sa sb : List Nat) (hrb : pb.restricted = true) :
    ∀ id ∈ (honest h aByte bByte pa pb sa sb).aliceResult.nodes,
      (id = pb.me ∨ ∃ n ∈ pb.book, n.id = id ∧ n.stale = false ∧ ∃ t ∈ n.topics, t ∈ pa.topics ∧ t ∈ pb.topics)
      ∧ ∃ n ∈ pb.book, n.id = id ∧ n.hasTransport = true := by
  intro id hid
  simp only [honest, hrb] at hid
  obtain ⟨h1, h2⟩ := c30_restricted_sharing_gather pb.book pb.me _ id hid
  refine ⟨?_, h2⟩
  rcases h1 with h1 | ⟨n, hn, hi, hs, t, ht, hts⟩
  · exact Or.inl h1
  · refine Or.inr ⟨n, hn, hi, hs, t, ht, ?_⟩
    have := (mem_computeIntersection h hinj pb.topics pa.topics (combineSalt sa sb aByte) t).1 hts
    exact ⟨this.2, this.1⟩

/-- Without the restriction: exactly the non-stale nodes that have transport info. -/
theorem c30_unrestricted_sharing (book : List (NodeRec τ)) (me : Nat) (ts : List τ) (id : Nat) :
    id ∈ gather false book me ts ↔ ∃ n ∈ book, n.id = id ∧ n.stale = false ∧ n.hasTransport = true := by
  unfold gather gatherInfos
  simp only [Bool.false_eq_true, if_false, List.mem_map, List.mem_filter, Bool.not_eq_true']
  constructor
  · rintro ⟨n, ⟨⟨hb, hs⟩, ht⟩, rfl⟩; exact ⟨n, hb, rfl, hs, ht⟩
  · rintro ⟨n, hb, rfl, hs, ht⟩; exact ⟨n, ⟨⟨hb, hs⟩, ht⟩, rfl⟩

/-! ### Non-vacuity: a collision-free hash exists and the protocol computes something non-trivial -/

/-- A concrete collision-free hash on `Nat × List Nat` codes: digests are tagged pairs. -/
inductive T where
  | raw (n : Nat)
  | dig (t : T) (s : List Nat)
deriving DecidableEq, Repr

def hT : Hash T := fun t s => .dig t s

example : InjJoint hT := by
  intro t s t' s' e; cases e; exact ⟨rfl, rfl⟩
example (raw : List Nat) : NoRaw hT (raw.map T.raw) := by
  intro t s hm
  simp [hT] at hm

example :
    (honest hT 0 1 ⟨[.raw 1, .raw 2, .raw 98, .raw 99], [], 0, false⟩ ⟨[.raw 2, .raw 3, .raw 99, .raw 100], [], 1, false⟩
      [7] [8]).aliceResult.topics = [.raw 2, .raw 99] := by decide
example :
    gather true ([⟨1, [.raw 1, .raw 2], false, true⟩, ⟨2, [.raw 1], false, true⟩, ⟨3, [.raw 2], false, true⟩,
      ⟨4, [.raw 1], false, false⟩, ⟨5, [.raw 1], true, true⟩] : List (NodeRec T)) 1 [.raw 1] = [1, 2] := by decide

end P2.C30
