/-
C38 — Expired or invalid key bundles are never accepted or used.

The clock is a parameter of every function (`now`, UNIX seconds; arbitrary, not even monotone,
in the reachability theorems). XEdDSA is ideal (`sigOk`). `valid b now` is the property's notion:
`not_before < now < not_after` and the signature verifies.

The pinned tree's one-time `key_bundle` (`keyBundleOnetimeOrig`: plain `pop()`) violates the
property (`c38_orig_violates`); the repaired function (`keyBundleOnetime`, after the `fix:` commit)
satisfies it (`c38_get_sound`).
-/
import P2.Extracted.C38
import P2.Model.KeyRegistry

namespace P2.C38
open P2.KeyReg

/-! ## `verify` and the two `add_*` functions -/

theorem verify_ok_iff (b : Bundle) (now : Nat) : verify b now = .ok () ↔ valid b now := by
  unfold verify valid lifetimeOk
  by_cases h1 : b.nb < now <;> by_cases h2 : now < b.na <;> cases h3 : sigOk b <;> simp [h1, h2]

theorem verify_err (b : Bundle) (now : Nat) (e : Err) (h : verify b now = .error e) :
    (e = .lifetime ∧ ¬ (b.nb < now ∧ now < b.na)) ∨ (e = .sig ∧ b.nb < now ∧ now < b.na ∧ sigOk b = false) := by
  unfold verify lifetimeOk at h
  by_cases h1 : b.nb < now <;> by_cases h2 : now < b.na <;> cases h3 : sigOk b <;>
    simp [h1, h2, h3] at h <;> subst h <;> simp [h1, h2]

private theorem bind_ok {α β : Type} (x : Except Err α) (f : α → Except Err β) (r : β)
    (h : (x >>= f) = .ok r) : ∃ a, x = .ok a ∧ f a = .ok r := by
  cases x with
  | error e => cases h
  | ok a => exact ⟨a, rfl, h⟩

/-- What a successful `add_longterm_bundle` does. -/
theorem addLongterm_ok (y y' : Reg) (id : Nat) (b : Bundle) (now : Nat)
    (h : y.addLongterm id b now = .ok y') :
    valid b now ∧ y'.onetime = y.onetime
    ∧ y'.longterm = upd y.longterm id (some (match y.longterm id with
        | some l => if b ∈ l then l else l ++ [b]
        | none => [b])) := by
  unfold Reg.addLongterm at h
  obtain ⟨_, h1, h⟩ := bind_ok _ _ _ h
  obtain ⟨_, _, h⟩ := bind_ok _ _ _ h
  simp only [pure, Except.pure, Except.ok.injEq] at h
  subst h
  exact ⟨(verify_ok_iff b now).1 h1, rfl, rfl⟩

/-- What a successful `add_onetime_bundle` does. -/
theorem addOnetime_ok (y y' : Reg) (id : Nat) (b : Bundle) (now : Nat)
    (h : y.addOnetime id b now = .ok y') :
    valid b now ∧ y'.longterm = y.longterm
    ∧ y'.onetime = upd y.onetime id (some (match y.onetime id with
        | some l => l ++ [b]
        | none => [b])) := by
  unfold Reg.addOnetime at h
  obtain ⟨_, h1, h⟩ := bind_ok _ _ _ h
  obtain ⟨_, _, h⟩ := bind_ok _ _ _ h
  simp only [pure, Except.pure, Except.ok.injEq] at h
  subst h
  exact ⟨(verify_ok_iff b now).1 h1, rfl, rfl⟩

/-- **Add is sound.** Whatever the registry, member and clock reading: a bundle that is accepted
    (either kind) is valid *now*: inside its lifetime and correctly signed by its identity key. A
    refused `add` returns no registry at all (the caller keeps the one it had). -/
theorem c38_add_sound (y y' : Reg) (id : Nat) (b : Bundle) (now : Nat) :
    (y.addLongterm id b now = .ok y' → valid b now)
    ∧ (y.addOnetime id b now = .ok y' → valid b now) :=
  ⟨fun h => (addLongterm_ok y y' id b now h).1, fun h => (addOnetime_ok y y' id b now h).1⟩

/-- **Add is complete** up to the identity sanity check: a valid bundle whose identity key does
    not contradict the stored one is accepted. -/
theorem c38_add_complete (y : Reg) (id : Nat) (b : Bundle) (now : Nat) (hv : valid b now)
    (hid : ∀ e, y.identities id = some e → e = b.ident) :
    (∃ y', y.addLongterm id b now = .ok y') ∧ (∃ y', y.addOnetime id b now = .ok y') := by
  have h1 := (verify_ok_iff b now).2 hv
  have h2 : checkIdentity y id b = .ok () := by
    unfold checkIdentity
    cases h : y.identities id with
    | none => rfl
    | some e => simp [hid e h]
  constructor
  · unfold Reg.addLongterm
    simp [h1, h2, bind, Except.bind, pure, Except.pure]
  · unfold Reg.addOnetime
    simp [h1, h2, bind, Except.bind, pure, Except.pure]

private def AddErrSpec (y : Reg) (id : Nat) (b : Bundle) (now : Nat) (e : Err) : Prop :=
    (e = .lifetime ∧ ¬ (b.nb < now ∧ now < b.na))
    ∨ (e = .sig ∧ b.nb < now ∧ now < b.na ∧ sigOk b = false)
    ∨ (e = .identity ∧ valid b now ∧ ∃ k, y.identities id = some k ∧ k ≠ b.ident)

/-- Rejections are classified: outside the lifetime → `lifetime`, inside with a bad signature →
    `sig`, otherwise only the identity sanity check can refuse a (valid) bundle. -/
theorem c38_add_errors (y : Reg) (id : Nat) (b : Bundle) (now : Nat) (e : Err)
    (h : y.addLongterm id b now = .error e ∨ y.addOnetime id b now = .error e) :
    (e = .lifetime ∧ ¬ (b.nb < now ∧ now < b.na))
    ∨ (e = .sig ∧ b.nb < now ∧ now < b.na ∧ sigOk b = false)
    ∨ (e = .identity ∧ valid b now ∧ ∃ k, y.identities id = some k ∧ k ≠ b.ident) := by
  have key : ∀ (rest : Unit → Except Err Reg),
      ((verify b now >>= fun _ => checkIdentity y id b >>= rest) = .error e) →
      (∀ u, ∃ r, rest u = .ok r) → AddErrSpec y id b now e := by
    intro rest hh hrest
    unfold AddErrSpec
    cases hv : verify b now with
    | error e' =>
      rw [hv] at hh
      simp only [bind, Except.bind, Except.error.injEq] at hh
      subst hh
      rcases verify_err b now e' hv with h | h
      · exact Or.inl h
      · exact Or.inr (Or.inl h)
    | ok u =>
      rw [hv] at hh
      have hvalid := (verify_ok_iff b now).1 (by cases u; exact hv)
      refine Or.inr (Or.inr ?_)
      unfold checkIdentity at hh
      cases hi : y.identities id with
      | none =>
        rw [hi] at hh
        obtain ⟨r, hr⟩ := hrest ()
        simp [bind, Except.bind, hr] at hh
      | some k =>
        rw [hi] at hh
        by_cases hk : k = b.ident
        · obtain ⟨r, hr⟩ := hrest ()
          simp [bind, Except.bind, hk, hr] at hh
        · simp [bind, Except.bind, hk] at hh
          exact ⟨hh.symm, hvalid, k, rfl, hk⟩
  rcases h with h | h
  · unfold Reg.addLongterm at h
    exact key _ h (fun _ => ⟨_, rfl⟩)
  · unfold Reg.addOnetime at h
    exact key _ h (fun _ => ⟨_, rfl⟩)

/-! ## Queries -/

/-- Every stored bundle carries a verifying signature (established by `add_*`, kept by every
    operation). -/
def SigInv (y : Reg) : Prop :=
  (∀ id l, y.longterm id = some l → ∀ b ∈ l, sigOk b = true)
  ∧ (∀ id l, y.onetime id = some l → ∀ b ∈ l, sigOk b = true)

private theorem latest_fold (now : Nat) (p l : List Bundle) (acc : Option Bundle)
    (h : match acc with
      | none => ∀ b ∈ p, lifetimeOk b now = false
      | some m => m ∈ p ∧ lifetimeOk m now = true ∧ ∀ b ∈ p, lifetimeOk b now = true → b.na ≤ m.na) :
    match l.foldl (latestStep now) acc with
      | none => ∀ b ∈ p ++ l, lifetimeOk b now = false
      | some m => m ∈ p ++ l ∧ lifetimeOk m now = true
          ∧ ∀ b ∈ p ++ l, lifetimeOk b now = true → b.na ≤ m.na := by
  induction l generalizing p acc with
  | nil => simpa using h
  | cons x l ih =>
    have := ih (p ++ [x]) (latestStep now acc x) (by
      unfold latestStep
      cases hx : lifetimeOk x now with
      | false =>
        simp only [Bool.not_false, if_true]
        cases acc with
        | none =>
          intro b hb
          rcases List.mem_append.1 hb with hb | hb
          · exact h b hb
          · simp at hb; subst hb; exact hx
        | some m =>
          refine ⟨by simp [h.1], h.2.1, ?_⟩
          intro b hb hok
          rcases List.mem_append.1 hb with hb | hb
          · exact h.2.2 b hb hok
          · simp at hb; subst hb; rw [hx] at hok; cases hok
      | true =>
        simp only [Bool.not_true, Bool.false_eq_true, if_false]
        cases acc with
        | none =>
          refine ⟨by simp, hx, ?_⟩
          intro b hb hok
          rcases List.mem_append.1 hb with hb | hb
          · rw [h b hb] at hok; cases hok
          · simp at hb; subst hb; exact Nat.le_refl _
        | some m =>
          by_cases hgt : x.na > m.na
          · simp only [hgt, if_true]
            refine ⟨by simp, hx, ?_⟩
            intro b hb hok
            rcases List.mem_append.1 hb with hb | hb
            · have := h.2.2 b hb hok; omega
            · simp at hb; subst hb; exact Nat.le_refl _
          · simp only [hgt, if_false]
            refine ⟨by simp [h.1], h.2.1, ?_⟩
            intro b hb hok
            rcases List.mem_append.1 hb with hb | hb
            · exact h.2.2 b hb hok
            · simp at hb; subst hb; omega)
    simpa using this

/-- `latest_key_bundle` returns a stored bundle inside its lifetime with the largest `not_after`
    among those, and `None` only when no stored bundle is inside its lifetime. -/
theorem latest_spec (l : List Bundle) (now : Nat) :
    match latest l now with
    | none => ∀ b ∈ l, lifetimeOk b now = false
    | some m => m ∈ l ∧ lifetimeOk m now = true ∧ ∀ b ∈ l, lifetimeOk b now = true → b.na ≤ m.na := by
  have := latest_fold now [] l none (by simp)
  simpa [latest] using this

private theorem popValidRev_spec (now : Nat) (r : List Bundle) :
    match popValidRev now r with
    | (r', some b) => ∃ dropped, r = dropped ++ b :: r' ∧ lifetimeOk b now = true
        ∧ ∀ d ∈ dropped, lifetimeOk d now = false
    | (r', none) => r' = [] ∧ ∀ d ∈ r, lifetimeOk d now = false := by
  induction r with
  | nil => simp [popValidRev]
  | cons x r ih =>
    unfold popValidRev
    cases hx : lifetimeOk x now with
    | true => simp only [if_true]; exact ⟨[], by simp, hx, by simp⟩
    | false =>
      simp only [Bool.false_eq_true, if_false]
      cases hp : popValidRev now r with
      | mk r' ob =>
        rw [hp] at ih
        cases ob with
        | none =>
          simp only at ih ⊢
          refine ⟨ih.1, ?_⟩
          intro d hd
          rcases List.mem_cons.1 hd with hd | hd
          · subst hd; exact hx
          · exact ih.2 d hd
        | some b =>
          simp only at ih ⊢
          obtain ⟨dr, h1, h2, h3⟩ := ih
          refine ⟨x :: dr, by simp [h1], h2, ?_⟩
          intro d hd
          rcases List.mem_cons.1 hd with hd | hd
          · subst hd; exact hx
          · exact h3 d hd

/-- Exact effect of the repaired one-time `key_bundle`: the vector is cut behind the returned
    bundle; everything dropped (popped and discarded) was outside its lifetime; with nothing
    returned the vector is empty afterwards and nothing in it was inside its lifetime. -/
theorem c38_onetime_pop (y : Reg) (id now : Nat) (l : List Bundle) (h : y.onetime id = some l) :
    match (y.keyBundleOnetime id now).2 with
    | some b => ∃ keep dropped, l = keep ++ b :: dropped ∧ lifetimeOk b now = true
        ∧ (∀ d ∈ dropped, lifetimeOk d now = false)
        ∧ (y.keyBundleOnetime id now).1.onetime id = some keep
    | none => (∀ d ∈ l, lifetimeOk d now = false)
        ∧ (y.keyBundleOnetime id now).1.onetime id = some [] := by
  unfold Reg.keyBundleOnetime
  simp only [h]
  have hs := popValidRev_spec now l.reverse
  cases hp : popValidRev now l.reverse with
  | mk r' ob =>
    rw [hp] at hs
    cases ob with
    | none =>
      simp only at hs ⊢
      refine ⟨fun d hd => hs.2 d (List.mem_reverse.2 hd), ?_⟩
      simp [upd, hs.1]
    | some b =>
      simp only at hs ⊢
      obtain ⟨dr, h1, h2, h3⟩ := hs
      refine ⟨r'.reverse, dr.reverse, ?_, h2, fun d hd => h3 d (List.mem_reverse.1 hd), by simp [upd]⟩
      have := congrArg List.reverse h1
      simpa using this

/-- **Queries are sound.** In a registry whose stored bundles carry verifying signatures (every
    reachable registry: `c38_reach_sound`), at any clock reading, a bundle returned for a member —
    long-term **and** one-time (repaired code) — was stored for that member and is valid *now*. -/
theorem c38_get_sound (y : Reg) (hI : SigInv y) (id now : Nat) (b : Bundle) :
    (y.keyBundleLongterm id now = .ok (some b) →
        valid b now ∧ ∃ l, y.longterm id = some l ∧ b ∈ l)
    ∧ ((y.keyBundleOnetime id now).2 = some b →
        valid b now ∧ ∃ l, y.onetime id = some l ∧ b ∈ l) := by
  constructor
  · intro h
    unfold Reg.keyBundleLongterm at h
    cases hl : y.longterm id with
    | none => simp [hl] at h
    | some l =>
      simp only [hl] at h
      split at h
      · cases h
      · simp only [Except.ok.injEq] at h
        have hs := latest_spec l now
        rw [h] at hs
        obtain ⟨hm, hok, _⟩ := hs
        refine ⟨?_, l, rfl, hm⟩
        unfold lifetimeOk at hok
        simp only [Bool.and_eq_true, decide_eq_true_eq] at hok
        exact ⟨hok.1, hok.2, hI.1 id l hl b hm⟩
  · intro h
    cases hl : y.onetime id with
    | none => simp [Reg.keyBundleOnetime, hl] at h
    | some l =>
      have hs := c38_onetime_pop y id now l hl
      rw [h] at hs
      obtain ⟨keep, dropped, h1, hok, _, _⟩ := hs
      have hm : b ∈ l := by rw [h1]; simp
      refine ⟨?_, l, rfl, hm⟩
      unfold lifetimeOk at hok
      simp only [Bool.and_eq_true, decide_eq_true_eq] at hok
      exact ⟨hok.1, hok.2, hI.2 id l hl b hm⟩

/-- **Latest.** The long-term bundle returned is, among the member's stored bundles that are
    inside their lifetime now, one with the largest `not_after`; `KeyBundlesExpired` is returned
    exactly when bundles are stored but none is inside its lifetime; `None` exactly when nothing
    is stored. -/
theorem c38_latest (y : Reg) (id now : Nat) :
    (∀ m, y.keyBundleLongterm id now = .ok (some m) →
        ∃ l, y.longterm id = some l ∧ m ∈ l ∧ lifetimeOk m now = true
          ∧ ∀ b ∈ l, lifetimeOk b now = true → b.na ≤ m.na)
    ∧ (y.keyBundleLongterm id now = .error .expired ↔
        ∃ l, y.longterm id = some l ∧ l ≠ [] ∧ ∀ b ∈ l, lifetimeOk b now = false)
    ∧ (y.keyBundleLongterm id now = .ok none ↔ (y.longterm id = none ∨ y.longterm id = some [])) := by
  unfold Reg.keyBundleLongterm
  cases hl : y.longterm id with
  | none => simp
  | some l =>
    simp only
    have hs := latest_spec l now
    cases hlat : latest l now with
    | none =>
      rw [hlat] at hs
      cases l with
      | nil => simp
      | cons a t =>
        simp only [List.isEmpty_cons, Bool.not_false, Option.isNone_none, Bool.and_self, if_true]
        refine ⟨(by intro m h; cases h), ?_, ?_⟩
        · constructor
          · intro _; exact ⟨_, rfl, by simp, hs⟩
          · intro _; trivial
        · constructor
          · intro h; cases h
          · rintro (h | h) <;> simp at h
    | some m =>
      rw [hlat] at hs
      simp only [Option.isNone_some, Bool.and_false, Bool.false_eq_true, if_false]
      refine ⟨?_, ?_, ?_⟩
      · intro m' h
        simp only [Except.ok.injEq, Option.some.injEq] at h
        subst h
        exact ⟨l, rfl, hs.1, hs.2.1, hs.2.2⟩
      · constructor
        · intro h; cases h
        · rintro ⟨l', h1, _, h3⟩
          simp only [Option.some.injEq] at h1
          subst h1
          have := h3 m hs.1
          rw [hs.2.1] at this; cases this
      · constructor
        · intro h; simp at h
        · rintro (h | h)
          · cases h
          · simp only [Option.some.injEq] at h
            subst h
            exact absurd hs.1 (by simp)

/-- **Arbitrary stored lists** (no invariant, e.g. a registry restored from persistence, or the clock
    stepping back after an add): whatever bundles a member's lists contain — valid, expired, not yet
    valid, in any order — a bundle returned by either query is inside its lifetime *now*
    (`not_before < now < not_after`), and the long-term one has the largest `not_after` among the
    stored bundles that are inside their lifetime now; the public `latest_key_bundle` on any list does
    the same. (Signatures of a restored list are not re-checked by the query path: `c38_get_sound`
    needs `SigInv` for that part.) -/
theorem c38_get_lifetime_any (y : Reg) (id now : Nat) (l : List Bundle) (b : Bundle) :
    (y.keyBundleLongterm id now = .ok (some b) →
        b.nb < now ∧ now < b.na ∧ ∃ l', y.longterm id = some l' ∧ b ∈ l'
          ∧ ∀ c ∈ l', c.nb < now → now < c.na → c.na ≤ b.na)
    ∧ ((y.keyBundleOnetime id now).2 = some b → b.nb < now ∧ now < b.na)
    ∧ (latest l now = some b → b ∈ l ∧ b.nb < now ∧ now < b.na
          ∧ ∀ c ∈ l, c.nb < now → now < c.na → c.na ≤ b.na) := by
  have lt : ∀ c : Bundle, lifetimeOk c now = true ↔ (c.nb < now ∧ now < c.na) := by
    intro c; unfold lifetimeOk; simp
  refine ⟨?_, ?_, ?_⟩
  · intro h
    obtain ⟨l', h1, h2, h3, h4⟩ := (c38_latest y id now).1 b h
    have := (lt b).1 h3
    exact ⟨this.1, this.2, l', h1, h2, fun c hc a1 a2 => h4 c hc ((lt c).2 ⟨a1, a2⟩)⟩
  · intro h
    cases hl : y.onetime id with
    | none => simp [Reg.keyBundleOnetime, hl] at h
    | some l0 =>
      have hs := c38_onetime_pop y id now l0 hl
      rw [h] at hs
      obtain ⟨_, _, _, hok, _, _⟩ := hs
      exact (lt b).1 hok
  · intro h
    have hs := latest_spec l now
    rw [h] at hs
    have := (lt b).1 hs.2.1
    exact ⟨hs.1, this.1, this.2, fun c hc a1 a2 => hs.2.2 c hc ((lt c).2 ⟨a1, a2⟩)⟩

/-! ## Reachable registries -/

theorem sigInv_init : SigInv Reg.init := by
  constructor <;> intro id l h <;> simp [Reg.init] at h

theorem sigInv_apply (y : Reg) (op : Op) (h : SigInv y) : SigInv (y.apply op) := by
  cases op with
  | addL id b now =>
    simp only [Reg.apply]
    cases ha : y.addLongterm id b now with
    | error e => exact h
    | ok y' =>
      obtain ⟨hv, h1, h2⟩ := addLongterm_ok y y' id b now ha
      refine ⟨?_, by rw [h1]; exact h.2⟩
      intro i l hl x hx
      rw [h2] at hl
      unfold upd at hl
      by_cases hi : i = id
      · simp only [hi, if_true, Option.some.injEq] at hl
        subst hl
        cases hold : y.longterm id with
        | none => rw [hold] at hx; simp at hx; subst hx; exact hv.2.2
        | some l0 =>
          rw [hold] at hx
          simp only at hx
          split at hx
          · exact h.1 id l0 hold x hx
          · rcases List.mem_append.1 hx with hx | hx
            · exact h.1 id l0 hold x hx
            · simp at hx; subst hx; exact hv.2.2
      · simp only [hi, if_false] at hl
        exact h.1 i l hl x hx
  | addO id b now =>
    simp only [Reg.apply]
    cases ha : y.addOnetime id b now with
    | error e => exact h
    | ok y' =>
      obtain ⟨hv, h1, h2⟩ := addOnetime_ok y y' id b now ha
      refine ⟨by rw [h1]; exact h.1, ?_⟩
      intro i l hl x hx
      rw [h2] at hl
      unfold upd at hl
      by_cases hi : i = id
      · simp only [hi, if_true, Option.some.injEq] at hl
        subst hl
        cases hold : y.onetime id with
        | none => rw [hold] at hx; simp at hx; subst hx; exact hv.2.2
        | some l0 =>
          rw [hold] at hx
          simp only at hx
          rcases List.mem_append.1 hx with hx | hx
          · exact h.2 id l0 hold x hx
          · simp at hx; subst hx; exact hv.2.2
      · simp only [hi, if_false] at hl
        exact h.2 i l hl x hx
  | popO id now =>
    simp only [Reg.apply]
    cases hl : y.onetime id with
    | none =>
      have : y.keyBundleOnetime id now = (y, none) := by simp [Reg.keyBundleOnetime, hl]
      rw [this]; exact h
    | some l =>
      have hs := c38_onetime_pop y id now l hl
      have hlt : (y.keyBundleOnetime id now).1.longterm = y.longterm := by
        unfold Reg.keyBundleOnetime; simp only [hl]
      have hot : ∀ i, i ≠ id → (y.keyBundleOnetime id now).1.onetime i = y.onetime i := by
        intro i hi; unfold Reg.keyBundleOnetime; simp only [hl]; simp [upd, hi]
      refine ⟨by rw [hlt]; exact h.1, ?_⟩
      intro i l' hl' x hx
      by_cases hi : i = id
      · subst hi
        cases hr : (y.keyBundleOnetime i now).2 with
        | none =>
          rw [hr] at hs
          rw [hs.2] at hl'
          simp only [Option.some.injEq] at hl'
          subst hl'; cases hx
        | some b =>
          rw [hr] at hs
          obtain ⟨keep, dropped, h1, _, _, h4⟩ := hs
          rw [h4] at hl'
          simp only [Option.some.injEq] at hl'
          subst hl'
          exact h.2 i l hl x (by rw [h1]; simp [hx])
      · rw [hot i hi] at hl'
        exact h.2 i l' hl' x hx
  | removeExpired now =>
    simp only [Reg.apply, Reg.removeExpired]
    constructor
    · intro i l hl x hx
      simp only at hl
      cases ho : y.longterm i with
      | none => rw [ho] at hl; cases hl
      | some l0 =>
        rw [ho] at hl
        simp only [Option.map_some, Option.some.injEq] at hl
        subst hl
        exact h.1 i l0 ho x (List.mem_filter.1 hx).1
    · intro i l hl x hx
      simp only at hl
      cases ho : y.onetime i with
      | none => rw [ho] at hl; cases hl
      | some l0 =>
        rw [ho] at hl
        simp only [Option.map_some, Option.some.injEq] at hl
        subst hl
        exact h.2 i l0 ho x (List.mem_filter.1 hx).1

theorem sigInv_run (y : Reg) (ops : List Op) (h : SigInv y) : SigInv (y.run ops) := by
  induction ops generalizing y with
  | nil => exact h
  | cons op ops ih => exact ih _ (sigInv_apply y op h)

/-- **Never returned.** After *any* history of adds (accepted or refused), one-time pops and
    `remove_expired` calls at *arbitrary* clock readings, a query at any clock reading returns only
    bundles that are valid at that reading. -/
theorem c38_reach_sound (ops : List Op) (id now : Nat) (b : Bundle) :
    ((Reg.init.run ops).keyBundleLongterm id now = .ok (some b) → valid b now)
    ∧ (((Reg.init.run ops).keyBundleOnetime id now).2 = some b → valid b now) := by
  have hI := sigInv_run Reg.init ops sigInv_init
  have := c38_get_sound _ hI id now b
  exact ⟨fun h => (this.1 h).1, fun h => (this.2 h).1⟩

/-- After `remove_expired` at `now`, every stored bundle is valid at `now`. -/
theorem c38_remove_expired (y : Reg) (now id : Nat) (l : List Bundle) :
    ((y.removeExpired now).longterm id = some l ∨ (y.removeExpired now).onetime id = some l) →
    ∀ b ∈ l, valid b now := by
  intro h b hb
  have key : ∀ (f : Nat → Option (List Bundle)),
      (f id).map (fun l => l.filter (fun b => (verify b now).isOk)) = some l → valid b now := by
    intro f hf
    cases ho : f id with
    | none => rw [ho] at hf; cases hf
    | some l0 =>
      rw [ho] at hf
      simp only [Option.map_some, Option.some.injEq] at hf
      subst hf
      have := (List.mem_filter.1 hb).2
      apply (verify_ok_iff b now).1
      cases hv : verify b now with
      | ok u => rfl
      | error e => rw [hv] at this; cases this
  rcases h with h | h
  · exact key y.longterm h
  · exact key y.onetime h

/-! ## The defect of the pinned tree -/

private def wb : Bundle := { ident := 1, prekey := 1, nb := 900, na := 1001, sigBy := 1, sigMsg := 1, otk := some 1 }

/-- **The pinned code violates the property.** A one-time bundle accepted at clock 1000 (valid
    then) is handed out by the original `key_bundle` at clock 1003 although it expired at 1001;
    the repaired function returns nothing. -/
theorem c38_orig_violates :
    ∃ y, Reg.init.addOnetime 1 wb 1000 = .ok y
      ∧ (y.keyBundleOnetimeOrig 1).2 = some wb ∧ ¬ valid wb 1003
      ∧ (y.keyBundleOnetime 1 1003).2 = none := by
  refine ⟨_, rfl, by decide, ?_, by decide⟩
  intro h
  have := h.2.1
  simp [wb] at this

/-! ## Non-vacuity -/
private def lb (p na : Nat) : Bundle := { ident := 1, prekey := p, nb := 900, na := na, sigBy := 1, sigMsg := p, otk := none }
private def reg3 : Reg := Reg.init.run [.addL 1 (lb 1 1001) 1000, .addL 1 (lb 2 5000) 1000, .addL 1 (lb 3 6000) 1000,
  .addL 1 { lb 4 7000 with sigBy := 0 } 1000, .addL 1 (lb 5 999) 1000]

example : (reg3.longterm 1).map (·.map (·.prekey)) = some [1, 2, 3] := by decide
example : (match reg3.keyBundleLongterm 1 1000 with | .ok (some b) => b.prekey | _ => 0) = 3 := by decide
example : (match reg3.keyBundleLongterm 1 6500 with | .error .expired => true | _ => false) = true := by decide
example : valid (lb 2 5000) 1000 := ⟨by decide, by decide, by decide⟩

/-! ## Tie to the current source text (DESIGN.md §4.2) -/

/-- **The model is the source.** `./check` re-extracts these fragments from /repo on every run
    (regular expressions anchored on the surrounding statements; a fragment that no longer matches is
    itself a failure of the proof stage). They are `Lifetime::verify`'s two strict comparisons (`lifetimeOk`), `Ord for Lifetime` by `not_after`, the shape of `latest_key_bundle` (EVERY bundle's lifetime is verified before it can become or replace the candidate; strictly later `not_after` replaces; first valid one starts — `latestStep`), `KeyBundle::verify` of both bundle kinds (lifetime, then XEdDSA over the signed pre-key with the identity key — `verify`), `add_*` verifying first, the repaired one-time pop re-checking the lifetime (`popValidRev`), the long-term query (`keyBundleLongterm`) and `remove_expired`'s filter. Any edit of one of these
    operators / operands / call shapes changes the extracted text and this theorem stops checking —
    before a single input is generated. -/
theorem c38_source_ops :
    P2.Extracted.C38.lifetimeCond = "self.not_before < elapsed && elapsed < self.not_after"
    ∧ P2.Extracted.C38.lifetimeOrd = "self.not_after.cmp(&other.not_after)"
    ∧ P2.Extracted.C38.latestSkip = "bundle.lifetime().verify().is_err()"
    ∧ P2.Extracted.C38.latestCmp = "bundle.lifetime() > current_bundle.lifetime()"
    ∧ P2.Extracted.C38.latestFirst = "latest = Some(bundle);"
    ∧ P2.Extracted.C38.addLongtermFirst = "key_bundle.verify()?;"
    ∧ P2.Extracted.C38.addOnetimeFirst = "key_bundle.verify()?;"
    ∧ P2.Extracted.C38.onetimePopCond = "bundle.lifetime().verify().is_ok()"
    ∧ P2.Extracted.C38.longtermSelect = "latest_key_bundle(bundles).cloned()"
    ∧ P2.Extracted.C38.removeExpiredFilters = "|bundle| bundle.verify().is_ok()"
    ∧ P2.Extracted.C38.verifyOneTimeLifetime = "self.signed_prekey.verify_lifetime()?;"
    ∧ P2.Extracted.C38.verifyOneTimeSig = "xeddsa_verify( self.signed_prekey.as_bytes(), &self.identity_key, &self.prekey_signature, )?;"
    ∧ P2.Extracted.C38.verifyLongTermLifetime = "self.signed_prekey.verify_lifetime()?;"
    ∧ P2.Extracted.C38.verifyLongTermSig = "xeddsa_verify( self.signed_prekey.as_bytes(), &self.identity_key, &self.prekey_signature, )?;"
    ∧ P2.Extracted.C38.longtermExpiredCond = "!bundles.is_empty() && valid_bundle.is_none()" :=
  ⟨rfl, rfl, rfl, rfl, rfl, rfl, rfl, rfl, rfl, rfl, rfl, rfl, rfl, rfl, rfl⟩

end P2.C38
