/-
C21 — Sync sessions terminate for any data volume and transport buffer size.

Model: `P2/Model/SyncSched.lean` — two peers, two FIFO channels with capacity parameter `c`
(`send` = enqueue, then wait until at most `c` of the sender's messages are un-received), peer
program `send Have · recv · send (PreSync|Done) · recv · Sync(batches)`.  `cfg.alt = false` is the
pinned design (`Orig`: no receiving while a send is pending or inside a batch), `cfg.alt = true`
the repaired design (`Alt`: the receive side stays enabled while a send waits).
Helper lemmas: `P2/Lemmas/C21.lean`.
-/
import P2.Model.SyncSched
import P2.Model.SyncFlush
import P2.Lemmas.C21
import P2.Lemmas.C21Core
import P2.Extracted.C21

namespace P2.C21
open P2.Sched

set_option linter.unusedSimpArgs false

/-- `st` is reached from the initial state by some schedule of enabled actions -/
def Reach (cfg : Cfg) (st : St) : Prop := ∃ sched, runSched cfg init sched = some st

/-- **No schedule is infinite** (both designs): every action consumes one unit of the measure, so
    a schedule of enabled actions is never longer than the initial measure
    `3·(total A + total B)`. -/
theorem c21_bounded (cfg : Cfg) (sched : List Act) (st : St) (h : runSched cfg init sched = some st) :
    sched.length ≤ 3 * (total cfg.ba + total cfg.bb) := by
  have := measure_run cfg init st sched h (inv_init cfg)
  have h0 : measure cfg init = 3 * (total cfg.ba + total cfg.bb) := by
    simp [measure, peerMeasure, init]; omega
  omega

private theorem not_of_false {b : Bool} {P : Prop} (hiff : b = true ↔ P) (hb : b = false) : ¬P := by
  intro hp
  rw [hiff.mpr hp] at hb
  cases hb

private theorem finished_of (cfg : Cfg) (st : St)
    (h : (st.a.s = total cfg.ba ∧ st.a.w = false ∧ st.a.r = total cfg.bb) ∧
         (st.b.s = total cfg.bb ∧ st.b.w = false ∧ st.b.r = total cfg.ba)) : finished cfg st = true := by
  simp [finished, peerDone, h.1.1, h.1.2.1, h.1.2.2, h.2.1, h.2.2.1, h.2.2.2]

/-- **Full statement, proved for the `Alt` design**: for every capacity `c ≥ 0` and all batch
    lists, a reachable state in which no action is enabled is the state `(done, done)`.
    Together with `c21_bounded`: every maximal schedule is finite and ends with both sessions
    returned. -/
theorem c21_terminates (cfg : Cfg) (halt : cfg.alt = true) (st : St) (hr : Reach cfg st)
    (hstuck : stuck cfg st = true) : finished cfg st = true := by
  obtain ⟨sched, hs⟩ := hr
  have hi := inv_run cfg init st sched hs (inv_init cfg)
  rw [stuck_iff, halt] at hstuck
  obtain ⟨⟨eA, fA, rA⟩, ⟨eB, fB, rB⟩⟩ := hstuck
  apply finished_of
  have eA' := not_of_false (canEnq_iff _ _) eA
  have fA' := not_of_false (canFlush_iff _ _ _) fA
  have rA' := not_of_false (canRecv_alt_iff _ _ _) rA
  have eB' := not_of_false (canEnq_iff _ _) eB
  have fB' := not_of_false (canFlush_iff _ _ _) fB
  have rB' := not_of_false (canRecv_alt_iff _ _ _) rB
  exact alt_core cfg.c (total cfg.ba) (total cfg.bb) st.a.s st.a.r st.b.s st.b.r st.a.w st.b.w
    (boundary cfg.ba st.a.s) (boundary cfg.bb st.b.s) (total_ge _) (total_ge _) hi.1 hi.2
    (fun h => by rw [h]; exact boundary_total _) (fun h => by rw [h]; exact boundary_total _)
    eA' fA' rA' eB' fB' rB'

/-- the property on the pinned design: "every reachable state without an enabled action is
    `(done, done)`" -/
def DeadlockFree (cfg : Cfg) : Prop := ∀ st, Reach cfg st → stuck cfg st = true → finished cfg st = true

/-- the full statement (false for `Orig`, see `c21_orig_violates_*`): it holds for every capacity and data volume -/
def C21Statement (alt : Bool) : Prop := ∀ c ba bb, DeadlockFree { c := c, ba := ba, bb := bb, alt := alt }

theorem c21_statement_alt : C21Statement true :=
  fun c ba bb st hr hs => c21_terminates { c := c, ba := ba, bb := bb, alt := true } rfl st hr hs

/-- **`c21_partial`, sufficient direction (pinned design)**: with capacity `c ≥ 1`, if the
    Sync-phase messages (operations + `Done`) of at least one side fit into the buffer, every
    reachable state without an enabled action is `(done, done)` — in particular whenever one side
    has nothing to send.  With `c21_bounded`: all maximal schedules terminate. -/
theorem c21_partial (cfg : Cfg) (horig : cfg.alt = false) (hc : 1 ≤ cfg.c)
    (hfit : syncTotal cfg.ba ≤ cfg.c ∨ syncTotal cfg.bb ≤ cfg.c) : DeadlockFree cfg := by
  intro st hr hstuck
  obtain ⟨sched, hs⟩ := hr
  have hi := inv_run cfg init st sched hs (inv_init cfg)
  rw [stuck_iff, horig] at hstuck
  obtain ⟨⟨eA, fA, rA⟩, ⟨eB, fB, rB⟩⟩ := hstuck
  apply finished_of
  have eA' := not_of_false (canEnq_iff _ _) eA
  have fA' := not_of_false (canFlush_iff _ _ _) fA
  have rA' := not_of_false (canRecv_orig_iff _ _ _) rA
  have eB' := not_of_false (canEnq_iff _ _) eB
  have fB' := not_of_false (canFlush_iff _ _ _) fB
  have rB' := not_of_false (canRecv_orig_iff _ _ _) rB
  rcases hfit with hfit | hfit
  · exact orig_core cfg.c (total cfg.ba) (total cfg.bb) st.a.s st.a.r st.b.s st.b.r st.a.w st.b.w
      (boundary cfg.ba st.a.s) (boundary cfg.bb st.b.s) (total_ge _) (total_ge _) hc
      (by simp [total]; exact hfit) hi.1 hi.2
      (fun h => by rw [h]; exact boundary_total _) (fun h => by rw [h]; exact boundary_total _)
      eA' fA' rA' eB' fB' rB'
  · have := orig_core cfg.c (total cfg.bb) (total cfg.ba) st.b.s st.b.r st.a.s st.a.r st.b.w st.a.w
      (boundary cfg.bb st.b.s) (boundary cfg.ba st.a.s) (total_ge _) (total_ge _) hc
      (by simp [total]; exact hfit) hi.2 hi.1
      (fun h => by rw [h]; exact boundary_total _) (fun h => by rw [h]; exact boundary_total _)
      eB' fB' rB' eA' fA' rA'
    exact ⟨this.2, this.1⟩

/-! ## The pinned design violates the full statement -/

/-- (i) capacity 0 (rendezvous), **any** data on either side — even two empty replicas: after
    both peers have started `send Have`, nobody can move: both wait in `send Have` forever. -/
theorem c21_orig_violates_cap0 (ba bb : List Nat) :
    let cfg : Cfg := { c := 0, ba := ba, bb := bb, alt := false }
    let st : St := { a := ⟨1, true, 0⟩, b := ⟨1, true, 0⟩ }
    runSched cfg init [⟨true, .enq⟩, ⟨false, .enq⟩] = some st ∧ stuck cfg st = true ∧ finished cfg st = false := by
  refine ⟨?_, ?_, ?_⟩
  · have h1 : (0 < 2 + syncTotal ba) := by omega
    have h2 : (0 < 2 + syncTotal bb) := by omega
    have s1 : stepFn { c := 0, ba := ba, bb := bb, alt := false } init ⟨true, .enq⟩ =
        some { a := ⟨1, true, 0⟩, b := ⟨0, false, 0⟩ } := by
      simp [stepFn, stepPeer, canEnq, init, total, h1]
    have s2 : stepFn { c := 0, ba := ba, bb := bb, alt := false } { a := ⟨1, true, 0⟩, b := ⟨0, false, 0⟩ } ⟨false, .enq⟩ =
        some { a := ⟨1, true, 0⟩, b := ⟨1, true, 0⟩ } := by
      simp [stepFn, stepPeer, canEnq, total, h2]
    simp only [runSched, s1, s2]
  · simp [stuck, allActs, stepFn, stepPeer, canEnq, canFlush, canRecv]
  · simp [finished, peerDone]

theorem c21_orig_not_deadlockfree_cap0 (ba bb : List Nat) :
    ¬ DeadlockFree { c := 0, ba := ba, bb := bb, alt := false } := by
  intro h
  obtain ⟨h1, h2, h3⟩ := c21_orig_violates_cap0 ba bb
  have := h _ ⟨_, h1⟩ h2
  rw [h3] at this; cases this

/-- (ii) capacity 1, one operation on each side: both peers end up waiting in `send Done` with
    the other side's operation un-received. -/
theorem c21_orig_violates_cap1 :
    let cfg : Cfg := { c := 1, ba := [1], bb := [1], alt := false }
    ∃ st, runSched cfg init
      [⟨true, .enq⟩, ⟨true, .flush⟩, ⟨false, .enq⟩, ⟨false, .flush⟩, ⟨true, .recv⟩, ⟨false, .recv⟩,
       ⟨true, .enq⟩, ⟨true, .flush⟩, ⟨false, .enq⟩, ⟨false, .flush⟩, ⟨true, .recv⟩, ⟨false, .recv⟩,
       ⟨true, .enq⟩, ⟨true, .flush⟩, ⟨true, .enq⟩, ⟨false, .enq⟩, ⟨false, .flush⟩, ⟨false, .enq⟩] = some st ∧
      st = { a := ⟨4, true, 2⟩, b := ⟨4, true, 2⟩ } ∧ stuck cfg st = true ∧ finished cfg st = false := by
  refine ⟨{ a := ⟨4, true, 2⟩, b := ⟨4, true, 2⟩ }, ?_, rfl, ?_, ?_⟩ <;> decide

/-- **`c21_partial`, necessary direction (pinned design)**: with capacity `c ≥ 1`, when *both*
    sides have more Sync-phase messages than the buffer holds there is a schedule that ends with
    both peers blocked in `send` inside a batch: handshake, then each side enqueues `c + 1`
    messages without the other one reading. -/
theorem c21_partial_converse (cfg : Cfg) (horig : cfg.alt = false) (hc : 1 ≤ cfg.c)
    (ha : cfg.c < syncTotal cfg.ba) (hb : cfg.c < syncTotal cfg.bb) : ¬ DeadlockFree cfg := by
  intro hfree
  let stF : St := { a := ⟨2 + 0 + cfg.c + 1, true, 2⟩, b := ⟨2 + 0 + cfg.c + 1, true, 2⟩ }
  have hrun : runSched cfg init
      (handshake ++ (pump true cfg.c ++ ([⟨true, .enq⟩] ++ (pump false cfg.c ++ [⟨false, .enq⟩])))) = some stF := by
    rw [runSched_append, handshake_run cfg horig hc]
    simp only [Option.bind_some]
    rw [runSched_append, pumpA cfg ⟨2, false, 2⟩ rfl cfg.c 0 (by omega) (by simp [total]; omega)]
    simp only [Option.bind_some]
    have h1 : stepFn cfg { a := ⟨2 + 0 + cfg.c, false, 2⟩, b := ⟨2, false, 2⟩ } ⟨true, .enq⟩ =
        some { a := ⟨2 + 0 + cfg.c + 1, true, 2⟩, b := ⟨2, false, 2⟩ } := by
      have : 2 + 0 + cfg.c < total cfg.ba := by simp [total]; omega
      simp [stepFn, stepPeer, canEnq, this]
    rw [runSched_append]
    simp only [runSched, h1, Option.bind_some]
    rw [runSched_append]
    have e0 : (2 : Nat) = 2 + 0 := rfl
    have hp := pumpB cfg ⟨2 + 0 + cfg.c + 1, true, 2⟩ rfl cfg.c 0 (by omega) (by simp [total]; omega)
    simp only [Nat.add_zero] at hp ⊢
    rw [hp]
    simp only [Option.bind_some]
    have h2 : stepFn cfg { a := ⟨2 + cfg.c + 1, true, 2⟩, b := ⟨2 + cfg.c, false, 2⟩ } ⟨false, .enq⟩ =
        some { a := ⟨2 + cfg.c + 1, true, 2⟩, b := ⟨2 + cfg.c + 1, true, 2⟩ } := by
      have : 2 + cfg.c < total cfg.bb := by simp [total]; omega
      simp [stepFn, stepPeer, canEnq, this]
    simp only [runSched, h2, stF, Nat.add_zero]
  have hstuck : stuck cfg stF = true := by
    rw [stuck_iff]
    have hf : ¬(2 + 0 + cfg.c + 1 - 2 ≤ cfg.c) := by omega
    simp [stF, canEnq, canFlush, canRecv, horig, hf]
  have hfin := hfree stF ⟨_, hrun⟩ hstuck
  simp [finished, peerDone, stF] at hfin

/-- **`c21_partial`, exact characterisation for the pinned design and capacity `c ≥ 1`**: every
    maximal schedule ends in `(done, done)` iff the Sync-phase messages of at least one side fit
    into the buffer.  (Capacity 0 never terminates: `c21_orig_not_deadlockfree_cap0`.) -/
theorem c21_partial_exact (cfg : Cfg) (horig : cfg.alt = false) (hc : 1 ≤ cfg.c) :
    DeadlockFree cfg ↔ (syncTotal cfg.ba ≤ cfg.c ∨ syncTotal cfg.bb ≤ cfg.c) := by
  constructor
  · intro h
    by_cases h1 : syncTotal cfg.ba ≤ cfg.c
    · exact Or.inl h1
    · by_cases h2 : syncTotal cfg.bb ≤ cfg.c
      · exact Or.inr h2
      · exact absurd h (c21_partial_converse cfg horig hc (by omega) (by omega))
  · exact c21_partial cfg horig hc

theorem c21_statement_orig_false : ¬ C21Statement false :=
  fun h => c21_orig_not_deadlockfree_cap0 [] [] (h 0 [] [])

/-- the same two schedules are harmless in the `Alt` design: the stuck states are not reachable
    (the receive side stays enabled), e.g. after both started `send Have` with capacity 0 -/
example : stuck { c := 0, ba := [], bb := [], alt := true } { a := ⟨1, true, 0⟩, b := ⟨1, true, 0⟩ } = false := by decide

/-! ## Non-vacuity -/

/-- a complete `Orig` session with capacity 2, A sends batches [2,1], B sends [1]: reaches (done, done) -/
example :
    let cfg : Cfg := { c := 2, ba := [2, 1], bb := [1], alt := false }
    (runSched cfg init
      [⟨true, .enq⟩, ⟨true, .flush⟩, ⟨false, .enq⟩, ⟨false, .flush⟩, ⟨true, .recv⟩, ⟨false, .recv⟩,
       ⟨true, .enq⟩, ⟨true, .flush⟩, ⟨false, .enq⟩, ⟨false, .flush⟩, ⟨true, .recv⟩, ⟨false, .recv⟩,
       ⟨true, .enq⟩, ⟨true, .flush⟩, ⟨true, .enq⟩, ⟨true, .flush⟩, ⟨false, .recv⟩, ⟨false, .recv⟩,
       ⟨false, .enq⟩, ⟨false, .flush⟩, ⟨false, .enq⟩, ⟨false, .flush⟩,
       ⟨true, .recv⟩, ⟨true, .enq⟩, ⟨true, .flush⟩, ⟨true, .enq⟩, ⟨true, .flush⟩, ⟨true, .recv⟩,
       ⟨false, .recv⟩, ⟨false, .recv⟩]).map (finished cfg) = some true := by decide
example : syncTotal [2, 1] = 4 ∧ syncTotal [1] = 2 ∧ syncTotal [] = 0 := by decide

/-! ## Tie to the current source text (regenerated into `P2/Extracted/C21.lean` on every run) -/

/-- The scheduling structure of `LogSync::run` the LTS encodes, as `log_sync.rs` reads *now*: the
    session starts by sending (`Start → SendHave`: `canEnq` at `s = 0`); the `Sync`-state `select!`
    is not `biased`; its receive arm is guarded by `!sync_done_received` only (`canRecv`), its send
    arm has **no** guard (`canEnq` needs nothing but `¬w ∧ s < total` in the `Sync` state — so the
    verdict depends on the transport capacity alone); operations are sent with `.await` inside the
    arm body (`Orig`: no receive while `w`); the loop exits iff both `Done`s were seen (`finished`). -/
theorem c21_extracted_select_structure :
    P2.Extracted.C21.firstState = "SendHave" ∧
    P2.Extracted.C21.selectBias = "" ∧
    P2.Extracted.C21.recvArmGuard = ", if !sync_done_received" ∧
    P2.Extracted.C21.sendArmGuard = "" ∧
    P2.Extracted.C21.opSendAwait = ".await" ∧
    P2.Extracted.C21.exitCond = "sync_done_received && sync_done_sent" :=
  ⟨rfl, rfl, rfl, rfl, rfl, rfl⟩

/-! ## The sink adapter over a buffering transport (`LogSyncSink` + `FramedWrite`-like sink) -/

namespace Flush

/-- reachable states of the one-direction model -/
def FInv (cfg : P2.Flush.Cfg) (st : P2.Flush.St) : Prop :=
  st.s = st.b + st.q + st.r ∧ st.s ≤ cfg.total ∧ (cfg.bestEffort = false → st.w = false → st.b = 0)

theorem finv_step (cfg : P2.Flush.Cfg) (st st' : P2.Flush.St) (a : P2.Flush.Act) (h : P2.Flush.step cfg st a = some st') (hi : FInv cfg st) :
    FInv cfg st' := by
  obtain ⟨s, b, q, r, w⟩ := st
  obtain ⟨h1, h2, h3⟩ := hi
  cases a <;> simp only [P2.Flush.step] at h <;> split at h <;> simp at h <;> subst h <;>
    rename_i hc <;> simp at hc <;> simp only [FInv] at * <;>
    first
      | (refine ⟨by omega, by omega, ?_⟩; intro hb hw; simp_all)
      | (refine ⟨by omega, by omega, ?_⟩; intro hb hw; have := h3 hb; simp_all; omega)

theorem finv_run (cfg : P2.Flush.Cfg) (st st' : P2.Flush.St) (sched : List P2.Flush.Act) (h : P2.Flush.run cfg st sched = some st')
    (hi : FInv cfg st) : FInv cfg st' := by
  induction sched generalizing st with
  | nil => simp [P2.Flush.run] at h; subst h; exact hi
  | cons a rest ih =>
    simp only [P2.Flush.run] at h
    split at h
    · simp at h
    · rename_i st1 hs; exact ih st1 h (finv_step cfg st st1 a hs hi)

end Flush

/-- **Faithful adapter: a send resolves only when the transport's flush completed.**  In every
    reachable state without a pending send the local buffer is empty: every message handed to the
    sink is in the pipe or received (`s = q + r`) — which is what lets `SyncSched` treat the
    transport as a channel with the pipe's capacity. -/
theorem c21_flush_faithful_no_tail (cfg : P2.Flush.Cfg) (hf : cfg.bestEffort = false) (sched : List P2.Flush.Act)
    (st : P2.Flush.St) (h : P2.Flush.run cfg P2.Flush.init sched = some st) (hw : st.w = false) :
    st.b = 0 ∧ st.s = st.q + st.r := by
  have hi := Flush.finv_run cfg _ st sched h (by simp [Flush.FInv, P2.Flush.init])
  have hb := hi.2.2 hf hw
  exact ⟨hb, by have := hi.1; omega⟩

/-- … and then the receiver gets everything: with a pipe of capacity ≥ 1 and a high-water mark ≥ 1
    a state without an enabled action has `r = total`. -/
theorem c21_flush_faithful_delivers (cfg : P2.Flush.Cfg) (hf : cfg.bestEffort = false) (hc : 1 ≤ cfg.c)
    (hh : 1 ≤ cfg.hw) (sched : List P2.Flush.Act) (st : P2.Flush.St)
    (h : P2.Flush.run cfg P2.Flush.init sched = some st) (hs : P2.Flush.stuck cfg st = true) :
    st.r = cfg.total := by
  have hi := Flush.finv_run cfg _ st sched h (by simp [Flush.FInv, P2.Flush.init])
  obtain ⟨s, b, q, r, w⟩ := st
  obtain ⟨h1, h2, h3⟩ := hi
  simp only [P2.Flush.stuck, List.all_cons, List.all_nil, Bool.and_true, Bool.and_eq_true, P2.Flush.step, hf,
    Bool.false_or] at hs
  obtain ⟨e1, e2, e3, e4⟩ := hs
  have hq : q = 0 := by
    by_cases hq : 0 < q
    · simp [hq] at e4
    · omega
  cases w with
  | true =>
    by_cases hb : b = 0
    · simp [hb] at e3
    · have : 0 < b := by omega
      simp [this, hq, hc] at e2
      omega
  | false =>
    have hb := h3 hf rfl
    simp only at hb h1 h2
    by_cases hlt : s < cfg.total
    · have : b < cfg.hw := by omega
      simp [hlt, this] at e1
    · simp only at *
      omega

/-- **Best-effort adapter (send resolves after polling the flush once): the tail is lost.**
    Pipe of one message, two messages to send (think: the last operation and `Done`): the second
    send resolves while its message is still in the local buffer; the sender has nothing more to
    send, so nobody drives the transport again; the receiver has taken what was in the pipe and
    waits forever for the rest. -/
theorem c21_flush_best_effort_loses_tail :
    let cfg : P2.Flush.Cfg := { c := 1, hw := 4, total := 2, bestEffort := true }
    let st : P2.Flush.St := { s := 2, b := 1, q := 0, r := 1, w := false }
    P2.Flush.run cfg P2.Flush.init [.enq, .push, .resolve, .enq, .resolve, .recv] = some st ∧
    P2.Flush.stuck cfg st = true ∧ st.r < cfg.total := by decide

/-- the same schedule is impossible with the faithful adapter (the second send cannot resolve) -/
example : P2.Flush.run { c := 1, hw := 4, total := 2, bestEffort := false } P2.Flush.init
    [.enq, .push, .resolve, .enq, .resolve, .recv] = none := by decide

/-- `LogSyncSink` as `topic_log_sync.rs` reads *now* forwards all four sink operations to the
    transport sink and returns the transport's poll result with only the error mapped — in
    particular `poll_flush` propagates `Poll::Pending` (faithful adapter, `bestEffort = false`). -/
theorem c21_extracted_sink_adapter :
    P2.Extracted.C21.adapterPollReady = "this.inner .poll_ready(cx) .map_err(|err| TopicLogSyncChannelError::MessageSink(format!(\"{err:?}\")))" ∧
    P2.Extracted.C21.adapterPollFlush = "this.inner .poll_flush(cx) .map_err(|err| TopicLogSyncChannelError::MessageSink(format!(\"{err:?}\")))" ∧
    P2.Extracted.C21.adapterPollClose = "this.inner .poll_close(cx) .map_err(|err| TopicLogSyncChannelError::MessageSink(format!(\"{err:?}\")))" ∧
    P2.Extracted.C21.adapterStartSend = "let msg = TopicLogSyncMessage::Sync(item); this.inner .start_send(msg) .map_err(|err| TopicLogSyncChannelError::MessageSink(format!(\"{err:?}\")))" :=
  ⟨rfl, rfl, rfl, rfl⟩

