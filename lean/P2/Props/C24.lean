/-
C24 — De-duplication buffer remembers exactly the last `capacity` items.
Property theorems only (helper lemmas are local `private` lemmas kept above each theorem).
-/
import P2.Model.Dedup
import P2.Extracted.C24

namespace P2.C24
open P2.Dedup

set_option linter.unusedSectionVars false
variable {α : Type} [DecidableEq α]

/-- Invariant tying the concrete state to the ghost list `acc` of accepted items. -/
structure Inv (s : Buf α) (acc : List α) : Prop where
  window : s.buf = lastN s.cap acc
  sync   : ∀ y, y ∈ s.set ↔ y ∈ s.buf
  nodupB : s.buf.Nodup
  nodupS : s.set.Nodup
  capPos : 1 ≤ s.cap

theorem inv_new (cap : Nat) (h : 1 ≤ cap) : Inv (new cap : Buf α) [] := by
  refine ⟨?_, ?_, ?_, ?_, h⟩ <;> simp [new, lastN]

private theorem lastN_append_lt (cap : Nat) (acc : List α) (x : α)
    (h : (lastN cap acc).length + 1 ≤ cap) : lastN cap (acc ++ [x]) = lastN cap acc ++ [x] := by
  unfold lastN at *
  simp only [List.length_drop, List.length_append, List.length_cons, List.length_nil] at *
  have : acc.length ≤ cap - 1 ∨ cap ≤ acc.length := by omega
  have h1 : acc.length + 1 - cap = 0 := by omega
  have h2 : acc.length - cap = 0 := by omega
  simp [h1, h2]

private theorem lastN_append_full (cap : Nat) (acc : List α) (x : α) (hc : 1 ≤ cap)
    (h : (lastN cap acc).length + 1 > cap) :
    lastN cap (acc ++ [x]) = (lastN cap acc).tail ++ [x] := by
  unfold lastN at *
  simp only [List.length_drop, List.length_append, List.length_cons, List.length_nil] at *
  have hle : cap ≤ acc.length := by omega
  rw [List.tail_drop]
  have : acc.length + 1 - cap = acc.length - cap + 1 := by omega
  rw [this, List.drop_append_of_le_length (by omega)]

private theorem lastN_length_le (cap : Nat) (acc : List α) : (lastN cap acc).length ≤ cap := by
  unfold lastN; simp only [List.length_drop]; omega

/-- One-step preservation, with the answer characterised. -/
theorem insert_step (s : Buf α) (acc : List α) (x : α) (hI : Inv s acc) :
    Inv (s.insert x).1 (if (s.insert x).2 then acc ++ [x] else acc)
    ∧ ((s.insert x).2 = false ↔ x ∈ lastN s.cap acc)
    ∧ (s.insert x).1.cap = s.cap := by
  obtain ⟨hw, hs, hnb, hns, hc⟩ := hI
  unfold Buf.insert
  by_cases hx : x ∈ s.set
  · simp only [hx, if_true]
    refine ⟨⟨hw, hs, hnb, hns, hc⟩, ?_, trivial⟩
    simp [← hw, ← hs x, hx]
  · have hxb : x ∉ s.buf := fun h => hx ((hs x).2 h)
    simp only [hx, if_false]
    refine ⟨?_, ?_, trivial⟩
    · simp only [if_true]
      by_cases hev : s.buf.length + 1 > s.cap
      · simp only [hev, if_true]
        have hne : s.buf ≠ [] := by
          intro h; rw [h] at hev; simp at hev; omega
        obtain ⟨e, t, het⟩ := List.exists_cons_of_ne_nil hne
        have hnd : e ∉ t ∧ t.Nodup := by simpa [het] using hnb
        refine ⟨?_, ?_, ?_, ?_, hc⟩
        · show s.buf.tail ++ [x] = lastN s.cap (acc ++ [x])
          rw [lastN_append_full s.cap acc x hc (by rw [← hw]; exact hev), ← hw]
        · intro y
          simp only [het, List.head?_cons, List.tail_cons, List.mem_cons, List.mem_append,
            List.not_mem_nil, or_false]
          rw [List.Nodup.mem_erase_iff hns, hs y, het]
          simp only [List.mem_cons]
          constructor
          · rintro (h | ⟨h1, h2 | h2⟩)
            · exact Or.inr h
            · exact absurd h2 h1
            · exact Or.inl h2
          · rintro (h | h)
            · refine Or.inr ⟨?_, Or.inr h⟩
              intro hye; subst hye; exact hnd.1 h
            · exact Or.inl h
        · simp only [het, List.tail_cons]
          rw [List.nodup_append]
          refine ⟨hnd.2, by simp, ?_⟩
          intro a ha b hb
          simp only [List.mem_singleton] at hb
          subst hb
          intro hab; subst hab
          exact hxb (by rw [het]; exact List.mem_cons_of_mem _ ha)
        · simp only [het, List.head?_cons]
          rw [List.nodup_cons]
          exact ⟨fun h => hx (List.mem_of_mem_erase h), hns.erase e⟩
      · simp only [hev, if_false]
        refine ⟨?_, ?_, ?_, ?_, hc⟩
        · show s.buf ++ [x] = lastN s.cap (acc ++ [x])
          rw [lastN_append_lt s.cap acc x (by rw [← hw]; omega), ← hw]
        · intro y
          simp only [List.mem_cons, List.mem_append, List.not_mem_nil,
            or_false, hs y]
          exact or_comm
        · rw [List.nodup_append]
          refine ⟨hnb, by simp, ?_⟩
          intro a ha b hb
          simp only [List.mem_singleton] at hb
          subst hb
          intro hab; subst hab
          exact hxb ha
        · rw [List.nodup_cons]; exact ⟨hx, hns⟩
    · simp only [Bool.true_eq_false, false_iff]
      rw [← hw]; exact hxb

/-- Ghost-state run: final buffer together with the accepted subsequence appended to `acc`. -/
def runAcc (s : Buf α) (acc : List α) : List α → Buf α × List α
  | [] => (s, acc)
  | x :: xs => runAcc (s.insert x).1 (if (s.insert x).2 then acc ++ [x] else acc) xs

theorem runAcc_fst (s : Buf α) (acc xs : List α) : (runAcc s acc xs).1 = after s xs := by
  induction xs generalizing s acc with
  | nil => rfl
  | cons x xs ih => simp [runAcc, after, ih]

theorem runAcc_snd (s : Buf α) (acc xs : List α) :
    (runAcc s acc xs).2 = acc ++ accepted s xs := by
  induction xs generalizing s acc with
  | nil => simp [runAcc, accepted]
  | cons x xs ih =>
    simp only [runAcc, accepted, ih]
    cases h : (s.insert x).2 <;> simp

theorem inv_runAcc (s : Buf α) (acc xs : List α) (hI : Inv s acc) :
    Inv (runAcc s acc xs).1 (runAcc s acc xs).2 ∧ (runAcc s acc xs).1.cap = s.cap := by
  induction xs generalizing s acc with
  | nil => exact ⟨hI, rfl⟩
  | cons x xs ih =>
    have hstep := insert_step s acc x hI
    have := ih _ _ hstep.1
    exact ⟨this.1, this.2.trans hstep.2.2⟩

/-! ## Property theorems (any `cap ≥ 1`, any input list, any element type). -/

/-- After any insert sequence the buffer holds exactly the last `cap` accepted items. -/
theorem c24_window (cap : Nat) (hc : 1 ≤ cap) (xs : List α) :
    (after (new cap) xs).buf = lastN cap (accepted (new cap) xs) := by
  have h := inv_runAcc (new cap : Buf α) [] xs (inv_new cap hc)
  rw [runAcc_fst, runAcc_snd] at h
  have := h.1.window
  rw [h.2] at this
  simpa [new] using this

/-- The next insert is reported as duplicate iff the item is among the last `cap` accepted
    items, iff `contains` says so. -/
theorem c24_dup_iff (cap : Nat) (hc : 1 ≤ cap) (xs : List α) (x : α) :
    (((after (new cap) xs).insert x).2 = false ↔ x ∈ lastN cap (accepted (new cap) xs))
    ∧ ((after (new cap) xs).contains x = true ↔ x ∈ lastN cap (accepted (new cap) xs)) := by
  have h := inv_runAcc (new cap : Buf α) [] xs (inv_new cap hc)
  rw [runAcc_fst, runAcc_snd] at h
  simp only [List.nil_append] at h
  have hcap : (after (new cap : Buf α) xs).cap = cap := by simpa [new] using h.2
  have hstep := insert_step _ _ x h.1
  refine ⟨by simpa [hcap] using hstep.2.1, ?_⟩
  unfold Buf.contains
  simp only [decide_eq_true_eq]
  rw [h.1.sync, h.1.window, hcap]

/-- Never more than `cap` items are remembered. -/
theorem c24_bounded (cap : Nat) (hc : 1 ≤ cap) (xs : List α) :
    (after (new cap) xs).buf.length ≤ cap := by
  rw [c24_window cap hc xs]; exact lastN_length_le _ _

/-- The ring never holds an item twice. -/
theorem c24_nodup (cap : Nat) (hc : 1 ≤ cap) (xs : List α) :
    (after (new cap) xs).buf.Nodup := by
  have h := inv_runAcc (new cap : Buf α) [] xs (inv_new cap hc)
  rw [runAcc_fst] at h; exact h.1.nodupB

/-- The hash set and the deque always hold the same elements. -/
theorem c24_set_sync (cap : Nat) (hc : 1 ≤ cap) (xs : List α) (y : α) :
    y ∈ (after (new cap) xs).set ↔ y ∈ (after (new cap) xs).buf := by
  have h := inv_runAcc (new cap : Buf α) [] xs (inv_new cap hc)
  rw [runAcc_fst] at h; exact h.1.sync y

/-- Consequence spelled out: an item evicted from the window is accepted again (FIFO, not LRU). -/
theorem c24_evicted_reaccepted (cap : Nat) (hc : 1 ≤ cap) (xs : List α) (x : α)
    (h : x ∉ lastN cap (accepted (new cap) xs)) : ((after (new cap) xs).insert x).2 = true := by
  have := (c24_dup_iff cap hc xs x).1
  cases hb : ((after (new cap) xs).insert x).2 with
  | true => rfl
  | false => exact absurd (this.1 hb) h

/-- The default capacity read from the current source satisfies the theorems' hypothesis. -/
theorem c24_default_capacity_pos : 1 ≤ P2.Extracted.C24.defaultBufferCapacity := by decide

/-- Tie to the source text: the model's `insert` is, component by component, the Lean term that
    `rs2lean` regenerates from the current body of `DeduplicationBuffer::insert` on every run. -/
theorem c24_model_is_source (s : Buf α) (x : α) :
    ((s.insert x).1.buf, (s.insert x).1.set, (s.insert x).2)
      = P2.Extracted.C24.insertT s.buf s.set s.cap x := by
  unfold Buf.insert P2.Extracted.C24.insertT
  by_cases hx : x ∈ s.set <;> simp [hx]
  split
  · cases s.buf.head? <;> rfl
  · rfl

/-! ## `capacity()` really is a constant of the buffer (the one runtime fact the model assumes)

The model treats `self.buffer.capacity()` as the constant `cap`. `VecDeque` changes its capacity
only when `push_back` is called on a full deque (`len == capacity`, documented in `std`); the two
theorems below show that the code *as written* never does that, and that the order of its two
steps is what guarantees it (seeded change C24-3: push first, trim afterwards). -/

/-- **The real `insert` never pushes into a full deque.** In every reachable state
    (`buf.length ≤ cap`, `1 ≤ cap`) the deque that `push_back` is called on holds fewer than
    `cap` items, so no reallocation happens and `capacity()` keeps its initial value. -/
theorem c24_push_never_reallocates (s : Buf α) (hc : 1 ≤ s.cap) (hl : s.buf.length ≤ s.cap) :
    (if s.buf.length + 1 > s.cap then s.buf.tail else s.buf).length + 1 ≤ s.cap := by
  split
  · simp only [List.length_tail]; omega
  · omega

/-- … and that premise holds after any insert sequence (`c24_bounded` plus the constant `cap`). -/
theorem c24_push_never_reallocates_run (cap : Nat) (hc : 1 ≤ cap) (xs : List α) :
    let s := after (new cap : Buf α) xs
    (if s.buf.length + 1 > s.cap then s.buf.tail else s.buf).length + 1 ≤ s.cap := by
  have h := inv_runAcc (new cap : Buf α) [] xs (inv_new cap hc)
  rw [runAcc_fst] at h
  have hcap : (after (new cap : Buf α) xs).cap = cap := by simpa [new] using h.2
  have hb := c24_bounded cap hc xs
  exact c24_push_never_reallocates _ (by omega) (by omega)

/-- `VecDeque` growth on `push_back` (amortised doubling when full, otherwise unchanged). -/
def growCap (cap len : Nat) : Nat := if len + 1 > cap then max (2 * cap) (len + 1) else cap

/-- The push-first variant: the bound is read before the push, the push reallocates a full deque,
    the trim afterwards compares with the bound read earlier — and the *next* call reads the
    grown `capacity()`. -/
def insertPushFirst (s : Buf α) (x : α) : Buf α × Bool :=
  if x ∈ s.set then (s, false)
  else
    let bound := s.cap
    let cap' := growCap s.cap s.buf.length
    let buf1 := s.buf ++ [x]
    let set1 := x :: s.set
    if buf1.length > bound then
      ({ cap := cap', buf := buf1.tail,
         set := match buf1.head? with
                | some e => set1.erase e
                | none => set1 }, true)
    else ({ cap := cap', buf := buf1, set := set1 }, true)

/-- **Push-first breaks the window** once reallocation is modelled: capacity 1, three distinct
    items — two are remembered and the evicted-by-rights item 1 is still reported a duplicate.
    (With `cap` frozen the two orders are equivalent; this is why the correspondence run on the
    real `VecDeque`, not the source tie alone, is what exhibits C24-3.) -/
theorem c24_push_first_violates :
    let s := [0, 1, 2].foldl (fun s x => (insertPushFirst s x).1) (new 1 : Buf Nat)
    s.buf.length = 2 ∧ (insertPushFirst s 1).2 = false ∧ 1 ∉ lastN 1 [0, 1, 2] := by decide

/-! ## Non-vacuity: a concrete run with an eviction and a re-insertion of the evicted item. -/
example : (after (new 2 : Buf Nat) [1, 2, 1, 3, 1]).buf = [3, 1] := by decide
example : accepted (new 2 : Buf Nat) [1, 2, 1, 3, 1] = [1, 2, 3, 1] := by decide
example : (run (new 2 : Buf Nat) [1, 2, 1, 3, 1]).2 = [true, true, false, true, true] := by decide

end P2.C24
