/-
C37 — Two-party messaging decrypts in any interleaving and rejects replays.

Symbolic cryptography (see `P2/Model/TwoParty.lean`). The system `Sys` keeps, per direction, every
message ever sent and the number the peer has processed; the FIFO queue is the unprocessed suffix.
All theorems quantify over **every** finite interleaving of `sendA`, `sendB`, `recvA`, `recvB`
(and replays of processed messages), by induction over the action list with the invariant `Inv`.
-/
import P2.Extracted.C37
import P2.Model.TwoParty

namespace P2.C37
open P2.TwoParty

/-- Index of the last `OwnKey(j)` in a message list (0 if none). -/
def lastOwn (l : List Msg) : Nat :=
  l.foldl (fun acc m => match m.keyUsed with | .ownKey j => j | _ => acc) 0

theorem lastOwn_append (l : List Msg) (m : Msg) :
    lastOwn (l ++ [m]) = match m.keyUsed with | .ownKey j => j | _ => lastOwn l := by
  simp [lastOwn, List.foldl_append]

/-- Shape of the `k`-th message `m` of a direction with history `L`, reverse history `L'` of which
    the sender had processed at most `n'`, receiver's one-time pre-key `otkR`. -/
def Form (L L' : List Msg) (n' otkR k : Nat) (m : Msg) : Prop :=
  match m.keyUsed with
  | .preKey => k = 0 ∧ ∃ p, m.ct = .x3dh otkR p
  | .receivedKey => ∃ prev p, 1 ≤ k ∧ L[k-1]? = some prev ∧ m.ct = .hpke prev.payload.recvSecret p
  | .ownKey j => ∃ src p, lastOwn (L.take k) < j ∧ j ≤ n' ∧ 1 ≤ j ∧ L'[j-1]? = some src
      ∧ m.ct = .hpke src.payload.senderPk p

/-- "The receiver has consumed its one-time pre-key": it processed a first message sent under
    `PreKey`. -/
def OtkUsed (L : List Msg) (n : Nat) : Prop := 1 ≤ n ∧ ∃ m, L[0]? = some m ∧ m.keyUsed = .preKey

/-- Everything that ties sender `S`, receiver `R` and the history `L` of one direction together
    (`n` = processed by `R`; `L'`, `n'` = the reverse direction, processed by `S`). -/
structure DirInv (S R : Party) (L L' : List Msg) (n n' otkR fresh : Nat) : Prop where
  hn     : n ≤ L.length
  hnext  : S.nextIdx = L.length + 1
  hidx   : ∀ (k : Nat) (m : Msg), L[k]? = some m → m.payload.senderIdx = k + 1
  hmin1  : 1 ≤ S.minIdx
  hminle : S.minIdx ≤ L.length + 1
  hown   : ∀ i, S.own i = if S.minIdx ≤ i ∧ i ≤ L.length then (L[i-1]?).map (·.payload.senderPk) else none
  hrecv  : R.recv = if n = 0 then none else (L[n-1]?).map (·.payload.recvSecret)
  hform  : ∀ (k : Nat) (m : Msg), L[k]? = some m → Form L L' n' otkR k m
  hRmin  : R.minIdx = lastOwn (L.take n) + 1
  hotk1  : OtkUsed L n → otkR ∉ R.otks
  hotk2  : ¬ OtkUsed L n → otkR ∈ R.otks
  hsnd   : match S.theirNext with
           | .preKey => L = [] ∧ n' = 0 ∧ S.theirPk = none ∧ S.bundle = some otkR
           | .receivedKey => ∃ last, L.getLast? = some last ∧ S.theirPk = some last.payload.recvSecret
           | .ownKey j => j = n' ∧ 1 ≤ n' ∧ lastOwn L < n'
               ∧ ∃ src, L'[n'-1]? = some src ∧ S.theirPk = some src.payload.senderPk
  hlast  : lastOwn L ≤ n'
  hfr1   : ∀ (k : Nat) (m : Msg), L[k]? = some m → m.payload.recvSecret < fresh
  hfr2   : ∀ (k k' : Nat) (m m' : Msg), k < k' → L[k]? = some m → L[k']? = some m' →
             m.payload.recvSecret < m'.payload.recvSecret

/-- The invariant of the two-party system. -/
structure Inv (s : Sys) : Prop where
  ab : DirInv s.a s.b s.sentAB s.sentBA s.procAB s.procBA 2 s.fresh
  ba : DirInv s.b s.a s.sentBA s.sentAB s.procBA s.procAB 1 s.fresh

theorem inv_init : Inv Sys.init := by
  constructor <;>
  · refine ⟨by simp [Sys.init], by simp [Sys.init, Party.init], by simp [Sys.init],
      by simp [Sys.init, Party.init], by simp [Sys.init, Party.init], ?_, by simp [Sys.init, Party.init], by simp [Sys.init],
      by simp [Sys.init, Party.init, lastOwn], ?_, ?_, by simp [Sys.init, Party.init],
      by simp [Sys.init, lastOwn], by simp [Sys.init], by simp [Sys.init]⟩
    · intro i; simp [Sys.init, Party.init]
    · intro h; simp [OtkUsed, Sys.init] at h
    · intro _; simp [Sys.init, Party.init]

/-! ## Helper facts -/

private theorem getElem?_append_some {α : Type} (l : List α) (x a : α) (k : Nat)
    (h : l[k]? = some a) : (l ++ [x])[k]? = some a := by
  have hk : k < l.length := by
    by_cases hk : k < l.length
    · exact hk
    · rw [List.getElem?_eq_none_iff.2 (by omega)] at h; cases h
  rw [List.getElem?_append_left hk]; exact h

private theorem getElem?_append_cases {α : Type} (l : List α) (x a : α) (k : Nat)
    (h : (l ++ [x])[k]? = some a) : l[k]? = some a ∨ (k = l.length ∧ a = x) := by
  by_cases hk : k < l.length
  · rw [List.getElem?_append_left hk] at h; exact Or.inl h
  · rw [List.getElem?_append_right (by omega)] at h
    by_cases hk2 : k = l.length
    · subst hk2; simp at h; exact Or.inr ⟨rfl, h.symm⟩
    · have : k - l.length ≠ 0 := by omega
      cases hh : k - l.length with
      | zero => exact absurd hh this
      | succ j => rw [hh] at h; simp at h

theorem form_mono (L L' : List Msg) (x : Msg) (n' n'' otkR k : Nat) (m : Msg) (hle : n' ≤ n'')
    (h : Form L L' n' otkR k m) : Form L (L' ++ [x]) n'' otkR k m ∧ Form L L' n'' otkR k m := by
  unfold Form at *
  cases hk : m.keyUsed with
  | preKey => simp only [hk] at h ⊢; exact ⟨h, h⟩
  | receivedKey => simp only [hk] at h ⊢; exact ⟨h, h⟩
  | ownKey j =>
    simp only [hk] at h ⊢
    obtain ⟨src, p, h1, h2, h3, h4, h5⟩ := h
    exact ⟨⟨src, p, h1, by omega, h3, getElem?_append_some _ _ _ _ h4, h5⟩,
           ⟨src, p, h1, by omega, h3, h4, h5⟩⟩

/-- (T2) The *peer* appends a message to the reverse history: nothing this direction relies on
    changes, as long as the peer keeps its receiver-side fields. -/
theorem dir_peer_send (S R R' : Party) (L L' : List Msg) (x : Msg) (n n' otkR fresh fresh' : Nat)
    (h : DirInv S R L L' n n' otkR fresh)
    (h1 : R'.recv = R.recv) (h2 : R'.minIdx = R.minIdx) (h3 : R'.otks = R.otks) (hf : fresh ≤ fresh') :
    DirInv S R' L (L' ++ [x]) n n' otkR fresh' := by
  refine ⟨h.hn, h.hnext, h.hidx, h.hmin1, h.hminle, h.hown, by rw [h1]; exact h.hrecv, ?_, by rw [h2]; exact h.hRmin,
    by rw [h3]; exact h.hotk1, by rw [h3]; exact h.hotk2, ?_, h.hlast, ?_, h.hfr2⟩
  · intro k m hk
    exact (form_mono L L' x n' n' otkR k m (Nat.le_refl _) (h.hform k m hk)).1
  · have := h.hsnd
    cases hs : S.theirNext with
    | preKey => rw [hs] at this; exact this
    | receivedKey => rw [hs] at this; exact this
    | ownKey j =>
      rw [hs] at this
      obtain ⟨a, b, c, src, d, e⟩ := this
      exact ⟨a, b, c, src, getElem?_append_some _ _ _ _ d, e⟩
  · intro k m hk
    have := h.hfr1 k m hk
    omega

/-- What a successful `send` does (it can only fail with no verifying key *and* no bundle). -/
theorem send_spec (S : Party) (pl f g : Nat) (h : S.theirPk = none → ∃ o, S.bundle = some o) :
    ∃ S' m, S.send pl f g = .ok (S', m)
      ∧ S'.nextIdx = S.nextIdx + 1 ∧ S'.minIdx = S.minIdx ∧ S'.recv = S.recv ∧ S'.otks = S.otks
      ∧ (∀ i, S'.own i = if i = S.nextIdx then some f else S.own i)
      ∧ S'.theirNext = .receivedKey ∧ S'.theirPk = some g
      ∧ m.keyUsed = S.theirNext
      ∧ m.payload = { plain := pl, recvSecret := g, senderPk := f, senderIdx := S.nextIdx }
      ∧ (∀ pk, S.theirPk = some pk → m.ct = .hpke pk m.payload)
      ∧ (∀ o, S.theirPk = none → S.bundle = some o → m.ct = .x3dh o m.payload) := by
  unfold Party.send
  cases hp : S.theirPk with
  | some pk =>
    refine ⟨_, _, rfl, rfl, rfl, rfl, rfl, fun _ => rfl, rfl, rfl, rfl, rfl, ?_, ?_⟩
    · intro pk' hpk'; cases hpk'; rfl
    · intro o ho; cases ho
  | none =>
    obtain ⟨o, ho⟩ := h hp
    simp only [ho]
    refine ⟨_, _, rfl, rfl, rfl, rfl, rfl, fun _ => rfl, rfl, rfl, rfl, rfl, ?_, ?_⟩
    · intro pk' hpk'; cases hpk'
    · intro o' _ ho'; cases ho'; rfl

/-- (T1) The sender appends a message to its own direction. -/
theorem dir_send (S R : Party) (L L' : List Msg) (n n' otkR fresh pl : Nat)
    (h : DirInv S R L L' n n' otkR fresh) :
    ∃ S' m, S.send pl fresh (fresh + 1) = .ok (S', m)
      ∧ DirInv S' R (L ++ [m]) L' n n' otkR (fresh + 2)
      ∧ S'.recv = S.recv ∧ S'.minIdx = S.minIdx ∧ S'.otks = S.otks ∧ m.payload.plain = pl := by
  have hb : S.theirPk = none → ∃ o, S.bundle = some o := by
    intro hp
    have := h.hsnd
    cases hs : S.theirNext with
    | preKey => rw [hs] at this; exact ⟨otkR, this.2.2.2⟩
    | receivedKey => rw [hs] at this; obtain ⟨l, _, hl⟩ := this; rw [hp] at hl; cases hl
    | ownKey j => rw [hs] at this; obtain ⟨_, _, _, src, _, hl⟩ := this; rw [hp] at hl; cases hl
  obtain ⟨S', m, hsend, e1, e2, e3, e4, e5, e6, e7, e8, e9, e10, e11⟩ := send_spec S pl fresh (fresh + 1) hb
  refine ⟨S', m, hsend, ?_, e3, e2, e4, by rw [e9]⟩
  have hlen : (L ++ [m]).length = L.length + 1 := by simp
  -- the shape of the new message
  have hnewform : Form (L ++ [m]) L' n' otkR L.length m := by
    unfold Form
    have hsnd := h.hsnd
    cases hs : S.theirNext with
    | preKey =>
      rw [hs] at hsnd
      obtain ⟨hL, _, hpk, hbun⟩ := hsnd
      simp only [e8, hs]
      exact ⟨by rw [hL]; rfl, m.payload, e11 otkR hpk hbun⟩
    | receivedKey =>
      rw [hs] at hsnd
      obtain ⟨last, hl1, hl2⟩ := hsnd
      simp only [e8, hs]
      have hne : L ≠ [] := by intro hh; rw [hh] at hl1; cases hl1
      have hpos : 1 ≤ L.length := by
        cases L with
        | nil => exact absurd rfl hne
        | cons a t => simp
      refine ⟨last, m.payload, hpos, ?_, e10 _ hl2⟩
      rw [List.getLast?_eq_getElem?] at hl1
      exact getElem?_append_some _ _ _ _ hl1
    | ownKey j =>
      rw [hs] at hsnd
      obtain ⟨hj, h1, h2, src, h3, h4⟩ := hsnd
      simp only [e8, hs]
      subst hj
      refine ⟨src, m.payload, ?_, Nat.le_refl _, h1, h3, e10 _ h4⟩
      rw [List.take_append_of_le_length (Nat.le_refl _), List.take_length]; exact h2
  refine ⟨by rw [hlen]; have := h.hn; omega, by rw [hlen, e1, h.hnext], ?_, by rw [e2]; exact h.hmin1,
    by rw [e2, hlen]; have := h.hminle; omega, ?_, ?_, ?_,
    ?_, ?_, ?_, ?_, ?_, ?_, ?_⟩
  · -- hidx
    intro k x hk
    rcases getElem?_append_cases _ _ _ _ hk with hkl | ⟨hkl, hx⟩
    · exact h.hidx k x hkl
    · subst hx; rw [e9, hkl]; simp [h.hnext]
  · -- hown
    intro i
    rw [e5 i, e2, hlen, h.hnext]
    by_cases hi : i = L.length + 1
    · subst hi
      have hmin : S.minIdx ≤ L.length + 1 := h.hminle
      simp [hmin, e9]
    · simp only [hi, if_false]
      rw [h.hown i]
      by_cases hc : S.minIdx ≤ i ∧ i ≤ L.length
      · have hc' : S.minIdx ≤ i ∧ i ≤ L.length + 1 := ⟨hc.1, by omega⟩
        simp only [hc, hc', and_self, if_true]
        have : i - 1 < L.length := by have := h.hmin1; omega
        rw [List.getElem?_append_left this]
      · have hc' : ¬ (S.minIdx ≤ i ∧ i ≤ L.length + 1) := by omega
        simp only [hc, hc', if_false]
  · -- hrecv
    rw [h.hrecv]
    by_cases hn0 : n = 0
    · simp [hn0]
    · simp only [hn0, if_false]
      have : n - 1 < L.length := by have := h.hn; omega
      rw [List.getElem?_append_left this]
  · -- hform
    intro k x hk
    rcases getElem?_append_cases _ _ _ _ hk with hk' | ⟨hk', hx⟩
    · have hf := h.hform k x hk'
      have hkl : k < L.length := by
        by_cases hkl : k < L.length
        · exact hkl
        · rw [List.getElem?_eq_none_iff.2 (by omega)] at hk'; cases hk'
      unfold Form at hf ⊢
      cases hku : x.keyUsed with
      | preKey => simp only [hku] at hf ⊢; exact hf
      | receivedKey =>
        simp only [hku] at hf ⊢
        obtain ⟨prev, p, a, b, c⟩ := hf
        exact ⟨prev, p, a, getElem?_append_some _ _ _ _ b, c⟩
      | ownKey j =>
        simp only [hku] at hf ⊢
        obtain ⟨src, p, a, b, c, d, e⟩ := hf
        refine ⟨src, p, ?_, b, c, d, e⟩
        rw [List.take_append_of_le_length (by omega)]; exact a
    · subst hx; subst hk'; exact hnewform
  · -- hRmin
    rw [List.take_append_of_le_length h.hn]; exact h.hRmin
  · -- hotk1
    intro hu
    apply h.hotk1
    obtain ⟨h1, x, h2, h3⟩ := hu
    refine ⟨h1, x, ?_, h3⟩
    have : 0 < L.length := by have := h.hn; omega
    rw [List.getElem?_append_left this] at h2; exact h2
  · -- hotk2
    intro hu
    apply h.hotk2
    intro hu'
    obtain ⟨h1, x, h2, h3⟩ := hu'
    exact hu ⟨h1, x, getElem?_append_some _ _ _ _ h2, h3⟩
  · -- hsnd
    rw [e6]
    refine ⟨m, by simp, ?_⟩
    rw [e7, e9]
  · -- hlast
    rw [lastOwn_append]
    have hsnd := h.hsnd
    cases hs : S.theirNext with
    | preKey => simp only [e8, hs]; exact h.hlast
    | receivedKey => simp only [e8, hs]; exact h.hlast
    | ownKey j =>
      rw [hs] at hsnd
      simp only [e8, hs]
      omega
  · -- hfr1
    intro k x hk
    rcases getElem?_append_cases _ _ _ _ hk with hk' | ⟨_, hx⟩
    · have := h.hfr1 k x hk'; omega
    · subst hx; rw [e9]; simp
  · -- hfr2
    intro k k' x x' hkk hk hk'
    rcases getElem?_append_cases _ _ _ _ hk' with hk'1 | ⟨hk'1, hx'⟩
    · have hk1 : L[k]? = some x := by
        have : k' < L.length := by
          by_cases hh : k' < L.length
          · exact hh
          · rw [List.getElem?_eq_none_iff.2 (by omega)] at hk'1; cases hk'1
        rw [List.getElem?_append_left (by omega)] at hk; exact hk
      exact h.hfr2 k k' x x' hkk hk1 hk'1
    · subst hx'
      have hk1 : L[k]? = some x := by
        rw [List.getElem?_append_left (by omega)] at hk; exact hk
      have := h.hfr1 k x hk1
      rw [e9]; simp; omega

/-- What the receiver's state looks like after successfully processing the head `m` of its queue. -/
structure RecvEffect (R R' : Party) (m : Msg) (otkR : Nat) : Prop where
  nextIdx : R'.nextIdx = R.nextIdx
  theirPk : R'.theirPk = some m.payload.senderPk
  theirNext : R'.theirNext = .ownKey m.payload.senderIdx
  recv : R'.recv = some m.payload.recvSecret
  keys : match m.keyUsed with
    | .preKey => R'.otks = R.otks.filter (· ≠ otkR) ∧ R'.own = R.own ∧ R'.minIdx = R.minIdx
    | .receivedKey => R'.otks = R.otks ∧ R'.own = R.own ∧ R'.minIdx = R.minIdx
    | .ownKey j => R'.otks = R.otks ∧ R'.minIdx = j + 1
        ∧ ∀ i, R'.own i = if R.minIdx ≤ i ∧ i ≤ j then none else R.own i

/-- (T3 + T4, part 1) The head of the queue always decrypts, to the plaintext that was sent. -/
theorem recv_head (S R : Party) (L L' : List Msg) (n n' otkR otkS fresh : Nat) (m : Msg)
    (h : DirInv S R L L' n n' otkR fresh) (h' : DirInv R S L' L n' n otkS fresh)
    (hm : L[n]? = some m) :
    ∃ R', R.receive m = .ok (R', m.payload.plain) ∧ RecvEffect R R' m otkR := by
  have hf := h.hform n m hm
  unfold Form at hf
  unfold Party.receive Party.decrypt
  cases hku : m.keyUsed with
  | preKey =>
    simp only [hku] at hf
    obtain ⟨hn0, p, hct⟩ := hf
    have hmem : otkR ∈ R.otks := h.hotk2 (by intro hu; have := hu.1; omega)
    simp only [hct, hmem, if_true]
    have hp : m.payload = p := by simp [Msg.payload, hct, Ct.payload]
    refine ⟨?w1, ?e1, ?f1⟩
    case e1 => rw [hp]
    case f1 =>
      refine ⟨rfl, by rw [hp], by rw [hp], by rw [hp], ?_⟩
      simp [hku]
  | receivedKey =>
    simp only [hku] at hf
    obtain ⟨prev, p, hn1, hprev, hct⟩ := hf
    have hr : R.recv = some prev.payload.recvSecret := by
      rw [h.hrecv]
      have : n ≠ 0 := by omega
      simp [this, hprev]
    simp only [hct, hr, if_true]
    have hp : m.payload = p := by simp [Msg.payload, hct, Ct.payload]
    refine ⟨?w2, ?e2, ?f2⟩
    case e2 => rw [hp]
    case f2 =>
      refine ⟨rfl, by rw [hp], by rw [hp], by rw [hp], ?_⟩
      simp [hku]
  | ownKey j =>
    simp only [hku] at hf
    obtain ⟨src, p, hlo, hjn, hj1, hsrc, hct⟩ := hf
    have hown : R.own j = some src.payload.senderPk := by
      rw [h'.hown j]
      have h1 : R.minIdx ≤ j := by rw [h.hRmin]; omega
      have h2 : j ≤ L'.length := by have := h'.hn; omega
      simp [h1, h2, hsrc]
    simp only [hct, hown, if_true]
    have hp : m.payload = p := by simp [Msg.payload, hct, Ct.payload]
    refine ⟨?w3, ?e3, ?f3⟩
    case e3 => rw [hp]
    case f3 =>
      refine ⟨rfl, by rw [hp], by rw [hp], by rw [hp], ?_⟩
      simp [hku]

private theorem take_succ_of (L : List Msg) (n : Nat) (m : Msg) (hm : L[n]? = some m) :
    L.take (n + 1) = L.take n ++ [m] := by
  rw [List.take_add_one, hm]; rfl

/-- (T3) Receiver side of the direction the processed message belongs to. -/
theorem dir_recv_fwd (S R R' : Party) (L L' : List Msg) (n n' otkR fresh : Nat) (m : Msg)
    (h : DirInv S R L L' n n' otkR fresh) (hm : L[n]? = some m) (he : RecvEffect R R' m otkR) :
    DirInv S R' L L' (n + 1) n' otkR fresh := by
  have hnlt : n < L.length := by
    by_cases hh : n < L.length
    · exact hh
    · rw [List.getElem?_eq_none_iff.2 (by omega)] at hm; cases hm
  have hform := h.hform n m hm
  have hkeys := he.keys
  refine ⟨by omega, h.hnext, h.hidx, h.hmin1, h.hminle, h.hown, ?_, h.hform, ?_, ?_, ?_, h.hsnd, h.hlast,
    h.hfr1, h.hfr2⟩
  · rw [he.recv]; simp [hm]
  · -- hRmin
    rw [take_succ_of L n m hm, lastOwn_append]
    cases hku : m.keyUsed with
    | preKey => rw [hku] at hkeys; simp only; rw [hkeys.2.2]; exact h.hRmin
    | receivedKey => rw [hku] at hkeys; simp only; rw [hkeys.2.2]; exact h.hRmin
    | ownKey j => rw [hku] at hkeys; simp only; exact hkeys.2.1
  · -- hotk1
    intro hu
    cases hku : m.keyUsed with
    | preKey =>
      rw [hku] at hkeys; rw [hkeys.1]; simp
    | receivedKey =>
      rw [hku] at hkeys; rw [hkeys.1]
      apply h.hotk1
      obtain ⟨_, x, hx, hxk⟩ := hu
      refine ⟨?_, x, hx, hxk⟩
      by_cases hn0 : n = 0
      · subst hn0; rw [hm] at hx; cases hx; rw [hku] at hxk; cases hxk
      · omega
    | ownKey j =>
      rw [hku] at hkeys; rw [hkeys.1]
      apply h.hotk1
      obtain ⟨_, x, hx, hxk⟩ := hu
      refine ⟨?_, x, hx, hxk⟩
      by_cases hn0 : n = 0
      · subst hn0; rw [hm] at hx; cases hx; rw [hku] at hxk; cases hxk
      · omega
  · -- hotk2
    intro hu
    cases hku : m.keyUsed with
    | preKey =>
      exfalso
      unfold Form at hform
      simp only [hku] at hform
      have hn0 : n = 0 := hform.1
      subst hn0
      exact hu ⟨by omega, m, hm, hku⟩
    | receivedKey =>
      rw [hku] at hkeys; rw [hkeys.1]
      apply h.hotk2
      intro hu'
      exact hu ⟨by omega, hu'.2⟩
    | ownKey j =>
      rw [hku] at hkeys; rw [hkeys.1]
      apply h.hotk2
      intro hu'
      exact hu ⟨by omega, hu'.2⟩

/-- (T4) Sender side of the *reverse* direction (the receiver is that direction's sender). -/
theorem dir_recv_bwd (S R R' : Party) (L L' : List Msg) (n n' otkR otkS fresh : Nat) (m : Msg)
    (h : DirInv S R L L' n n' otkR fresh) (h' : DirInv R S L' L n' n otkS fresh)
    (hm : L[n]? = some m) (he : RecvEffect R R' m otkR) :
    DirInv R' S L' L n' (n + 1) otkS fresh := by
  have hform := h.hform n m hm
  have hkeys := he.keys
  have hidx := h.hidx n m hm
  unfold Form at hform
  refine ⟨h'.hn, by rw [he.nextIdx]; exact h'.hnext, h'.hidx, ?_, ?_, ?_, h'.hrecv, ?_, h'.hRmin, h'.hotk1,
    h'.hotk2, ?_, by have := h'.hlast; omega, h'.hfr1, h'.hfr2⟩
  · -- hmin1
    cases hku : m.keyUsed with
    | preKey => rw [hku] at hkeys; rw [hkeys.2.2]; exact h'.hmin1
    | receivedKey => rw [hku] at hkeys; rw [hkeys.2.2]; exact h'.hmin1
    | ownKey j => rw [hku] at hkeys; rw [hkeys.2.1]; omega
  · -- hminle
    cases hku : m.keyUsed with
    | preKey => rw [hku] at hkeys; rw [hkeys.2.2]; exact h'.hminle
    | receivedKey => rw [hku] at hkeys; rw [hkeys.2.2]; exact h'.hminle
    | ownKey j =>
      rw [hku] at hkeys; rw [hkeys.2.1]
      simp only [hku] at hform
      obtain ⟨_, _, _, hjn, _, _, _⟩ := hform
      have := h'.hn; omega
  · -- hown
    intro i
    cases hku : m.keyUsed with
    | preKey => rw [hku] at hkeys; rw [hkeys.2.1, hkeys.2.2]; exact h'.hown i
    | receivedKey => rw [hku] at hkeys; rw [hkeys.2.1, hkeys.2.2]; exact h'.hown i
    | ownKey j =>
      rw [hku] at hkeys
      simp only [hku] at hform
      obtain ⟨_, _, hlo, hjn, hj1, _, _⟩ := hform
      have hRmin : R.minIdx ≤ j := by rw [h.hRmin]; omega
      rw [hkeys.2.2 i, hkeys.2.1, h'.hown i]
      by_cases c1 : R.minIdx ≤ i ∧ i ≤ j
      · have c2 : ¬ (j + 1 ≤ i ∧ i ≤ L'.length) := by omega
        simp only [c1, and_self, if_true, c2, if_false]
      · simp only [c1, if_false]
        by_cases c3 : j + 1 ≤ i ∧ i ≤ L'.length
        · have c4 : R.minIdx ≤ i ∧ i ≤ L'.length := by omega
          simp only [c3, c4, and_self, if_true]
        · have c4 : ¬ (R.minIdx ≤ i ∧ i ≤ L'.length) := by omega
          simp only [c3, c4, if_false]
  · -- hform
    intro k x hk
    exact (form_mono L' L m n (n + 1) otkS k x (by omega) (h'.hform k x hk)).2
  · -- hsnd
    rw [he.theirNext]
    simp only
    refine ⟨hidx, by omega, by have := h'.hlast; omega, m, by simpa using hm, he.theirPk⟩

/-! ## Replays -/

private theorem lastOwn_take_mono (S R : Party) (L L' : List Msg) (n n' otkR fresh : Nat)
    (h : DirInv S R L L' n n' otkR fresh) (a b : Nat) (hab : a ≤ b) (hb : b ≤ L.length) :
    lastOwn (L.take a) ≤ lastOwn (L.take b) := by
  induction b with
  | zero => have : a = 0 := by omega
            subst this; exact Nat.le_refl _
  | succ b ih =>
    by_cases hab' : a = b + 1
    · subst hab'; exact Nat.le_refl _
    · have hlt : b < L.length := by omega
      have hx : L[b]? = some L[b] := List.getElem?_eq_getElem hlt
      rw [take_succ_of L b L[b] hx, lastOwn_append]
      have ih' := ih (by omega) (by omega)
      have hf := h.hform b L[b] hx
      unfold Form at hf
      cases hku : (L[b]).keyUsed with
      | preKey => simp only; exact ih'
      | receivedKey => simp only; exact ih'
      | ownKey j =>
        simp only [hku] at hf ⊢
        obtain ⟨_, _, hlo, _⟩ := hf
        omega

/-- The error a replayed message gets, by the key it was encrypted under. -/
def replayErr : KeyUsed → Err
  | .preKey => .preKeyReuse
  | .receivedKey => .decrypt
  | .ownKey _ => .unknownSecret

/-- A message the receiver has already processed is rejected when delivered again. -/
theorem recv_replay (S R : Party) (L L' : List Msg) (n n' otkR otkS fresh k : Nat) (m : Msg)
    (h : DirInv S R L L' n n' otkR fresh) (h' : DirInv R S L' L n' n otkS fresh)
    (hk : k < n) (hm : L[k]? = some m) :
    R.receive m = .error (replayErr m.keyUsed) := by
  have hf := h.hform k m hm
  unfold Form at hf
  unfold Party.receive Party.decrypt
  cases hku : m.keyUsed with
  | preKey =>
    simp only [hku] at hf
    obtain ⟨hk0, p, hct⟩ := hf
    subst hk0
    have hnot : otkR ∉ R.otks := h.hotk1 ⟨by omega, m, hm, hku⟩
    simp [hct, hnot, replayErr]
  | receivedKey =>
    simp only [hku] at hf
    obtain ⟨prev, p, hk1, hprev, hct⟩ := hf
    have hn0 : n ≠ 0 := by omega
    have hnl : n - 1 < L.length := by have := h.hn; omega
    have hlast : L[n-1]? = some L[n-1] := List.getElem?_eq_getElem hnl
    have hr : R.recv = some (L[n-1]).payload.recvSecret := by
      rw [h.hrecv]; simp [hn0, hlast]
    have hne : (L[n-1]).payload.recvSecret ≠ prev.payload.recvSecret := by
      have := h.hfr2 (k-1) (n-1) prev L[n-1] (by omega) hprev hlast
      omega
    simp [hct, hr, hne, replayErr]
  | ownKey j =>
    simp only [hku] at hf
    obtain ⟨src, p, hlo, hjn, hj1, hsrc, hct⟩ := hf
    have hkl : k < L.length := by have := h.hn; omega
    have h1 : lastOwn (L.take (k + 1)) = j := by
      rw [take_succ_of L k m hm, lastOwn_append]; simp [hku]
    have h2 := lastOwn_take_mono S R L L' n n' otkR fresh h (k + 1) n (by omega) h.hn
    have hown : R.own j = none := by
      rw [h'.hown j]
      have : ¬ (R.minIdx ≤ j ∧ j ≤ L'.length) := by rw [h.hRmin]; omega
      simp [this]
    simp [hct, hown, replayErr]

/-! ## The system: every interleaving -/

/-- Actions of the property's domain: sends, in-order receives, and re-delivery of messages that
    were *already processed* (a replay). -/
def legal (s : Sys) : Action → Prop
  | .replayA k => k < s.procBA
  | .replayB k => k < s.procAB
  | _ => True

instance (s : Sys) (a : Action) : Decidable (legal s a) := by
  cases a <;> unfold legal <;> infer_instance

/-- All actions of a run are legal in the state they are taken in. -/
def LegalRun (s : Sys) : List Action → Prop
  | [] => True
  | a :: as => legal s a ∧ LegalRun (s.step a).1 as

/-- What the application must observe for an action taken in state `s`. -/
def Good (s : Sys) (a : Action) (o : Obs) : Prop :=
  match a with
  | .sendA | .sendB => o = .sent
  | .recvA => match s.sentBA[s.procBA]? with
      | some m => o = .got m.payload.plain
      | none => o = .idle
  | .recvB => match s.sentAB[s.procAB]? with
      | some m => o = .got m.payload.plain
      | none => o = .idle
  | .replayA _ | .replayB _ => (∃ e, o = .err e)

/-- One step: the invariant is kept and the observation is the good one; a rejected replay leaves
    the whole system state untouched. -/
theorem step_inv (s : Sys) (a : Action) (hI : Inv s) (hl : legal s a) :
    Inv (s.step a).1 ∧ Good s a (s.step a).2
    ∧ (∀ k, a = .replayA k ∨ a = .replayB k → (s.step a).1 = s) := by
  obtain ⟨hab, hba⟩ := hI
  cases a with
  | sendA =>
    obtain ⟨a', m, hs, hd, e1, e2, e3, _⟩ := dir_send s.a s.b s.sentAB s.sentBA s.procAB s.procBA 2 s.fresh s.plainNo hab
    simp only [Sys.step, hs, Good]
    refine ⟨⟨hd, ?_⟩, trivial, by intro k hk; rcases hk with hk | hk <;> cases hk⟩
    exact dir_peer_send s.b s.a a' s.sentBA s.sentAB m s.procBA s.procAB 1 s.fresh (s.fresh + 2) hba e1 e2 e3 (by omega)
  | sendB =>
    obtain ⟨b', m, hs, hd, e1, e2, e3, _⟩ := dir_send s.b s.a s.sentBA s.sentAB s.procBA s.procAB 1 s.fresh s.plainNo hba
    simp only [Sys.step, hs, Good]
    refine ⟨⟨?_, hd⟩, trivial, by intro k hk; rcases hk with hk | hk <;> cases hk⟩
    exact dir_peer_send s.a s.b b' s.sentAB s.sentBA m s.procAB s.procBA 2 s.fresh (s.fresh + 2) hab e1 e2 e3 (by omega)
  | recvA =>
    cases hm : s.sentBA[s.procBA]? with
    | none =>
      simp only [Sys.step, Good, hm]
      exact ⟨⟨hab, hba⟩, trivial, by intro k hk; rcases hk with hk | hk <;> cases hk⟩
    | some m =>
      obtain ⟨a', hr, he⟩ := recv_head s.b s.a s.sentBA s.sentAB s.procBA s.procAB 1 2 s.fresh m hba hab hm
      simp only [Sys.step, Good, hm, hr]
      refine ⟨⟨?_, ?_⟩, trivial, by intro k hk; rcases hk with hk | hk <;> cases hk⟩
      · exact dir_recv_bwd s.b s.a a' s.sentBA s.sentAB s.procBA s.procAB 1 2 s.fresh m hba hab hm he
      · exact dir_recv_fwd s.b s.a a' s.sentBA s.sentAB s.procBA s.procAB 1 s.fresh m hba hm he
  | recvB =>
    cases hm : s.sentAB[s.procAB]? with
    | none =>
      simp only [Sys.step, Good, hm]
      exact ⟨⟨hab, hba⟩, trivial, by intro k hk; rcases hk with hk | hk <;> cases hk⟩
    | some m =>
      obtain ⟨b', hr, he⟩ := recv_head s.a s.b s.sentAB s.sentBA s.procAB s.procBA 2 1 s.fresh m hab hba hm
      simp only [Sys.step, Good, hm, hr]
      refine ⟨⟨?_, ?_⟩, trivial, by intro k hk; rcases hk with hk | hk <;> cases hk⟩
      · exact dir_recv_fwd s.a s.b b' s.sentAB s.sentBA s.procAB s.procBA 2 s.fresh m hab hm he
      · exact dir_recv_bwd s.a s.b b' s.sentAB s.sentBA s.procAB s.procBA 2 1 s.fresh m hab hba hm he
  | replayA k =>
    have hk : k < s.procBA := hl
    have hlen : k < s.sentBA.length := by have := hba.hn; omega
    have hm : s.sentBA[k]? = some s.sentBA[k] := List.getElem?_eq_getElem hlen
    have he := recv_replay s.b s.a s.sentBA s.sentAB s.procBA s.procAB 1 2 s.fresh k _ hba hab hk hm
    refine ⟨?_, ?_, ?_⟩
    · simp only [Sys.step, hm, he]; exact ⟨hab, hba⟩
    · simp only [Sys.step, hm, he, Good]; exact ⟨_, rfl⟩
    · intro _ _; simp only [Sys.step, hm, he]
  | replayB k =>
    have hk : k < s.procAB := hl
    have hlen : k < s.sentAB.length := by have := hab.hn; omega
    have hm : s.sentAB[k]? = some s.sentAB[k] := List.getElem?_eq_getElem hlen
    have he := recv_replay s.a s.b s.sentAB s.sentBA s.procAB s.procBA 2 1 s.fresh k _ hab hba hk hm
    refine ⟨?_, ?_, ?_⟩
    · simp only [Sys.step, hm, he]; exact ⟨hab, hba⟩
    · simp only [Sys.step, hm, he, Good]; exact ⟨_, rfl⟩
    · intro _ _; simp only [Sys.step, hm, he]

theorem run_inv (s : Sys) (acts : List Action) (hI : Inv s) (hl : LegalRun s acts) :
    Inv (s.run acts).1 := by
  induction acts generalizing s with
  | nil => exact hI
  | cons a as ih =>
    obtain ⟨h1, h2⟩ := hl
    have := ih (s.step a).1 (step_inv s a hI h1).1 h2
    simpa [Sys.run] using this

/-- Observations of a run paired with the state each action was taken in are all good. -/
def GoodRun (s : Sys) : List Action → Prop
  | [] => True
  | a :: as => Good s a (s.step a).2 ∧ GoodRun (s.step a).1 as

/-! ## Property theorems -/

/-- **Decrypts in any interleaving.** For every interleaving of sends and in-order receives of the
    two parties (with replays of processed messages thrown in anywhere): every send succeeds, every
    receive of a queue head succeeds and returns exactly the plaintext that message was sent with,
    and every replay is answered with an error. -/
theorem c37_decrypts (acts : List Action) (hl : LegalRun Sys.init acts) : GoodRun Sys.init acts := by
  suffices H : ∀ s, Inv s → LegalRun s acts → GoodRun s acts from H _ inv_init hl
  clear hl
  induction acts with
  | nil => intro s _ _; trivial
  | cons a as ih =>
    intro s hI hl
    obtain ⟨h1, h2⟩ := hl
    have hs := step_inv s a hI h1
    exact ⟨hs.2.1, ih _ hs.1 h2⟩

/-- State form of `c37_decrypts`: in every reachable state the head of either queue is accepted by
    its receiver and opens to the plaintext carried by that message; sending is always possible. -/
theorem c37_head_decrypts (acts : List Action) (hl : LegalRun Sys.init acts) :
    let s := (Sys.init.run acts).1
    (∀ m, s.sentAB[s.procAB]? = some m → ∃ b', s.b.receive m = .ok (b', m.payload.plain))
    ∧ (∀ m, s.sentBA[s.procBA]? = some m → ∃ a', s.a.receive m = .ok (a', m.payload.plain))
    ∧ (∀ pl, ∃ a' m, s.a.send pl s.fresh (s.fresh + 1) = .ok (a', m) ∧ m.payload.plain = pl)
    ∧ (∀ pl, ∃ b' m, s.b.send pl s.fresh (s.fresh + 1) = .ok (b', m) ∧ m.payload.plain = pl) := by
  intro s
  have hI : Inv s := run_inv _ acts inv_init hl
  obtain ⟨hab, hba⟩ := hI
  refine ⟨?_, ?_, ?_, ?_⟩
  · intro m hm
    obtain ⟨b', hr, _⟩ := recv_head s.a s.b s.sentAB s.sentBA s.procAB s.procBA 2 1 s.fresh m hab hba hm
    exact ⟨b', hr⟩
  · intro m hm
    obtain ⟨a', hr, _⟩ := recv_head s.b s.a s.sentBA s.sentAB s.procBA s.procAB 1 2 s.fresh m hba hab hm
    exact ⟨a', hr⟩
  · intro pl
    obtain ⟨a', m, hs, _, _, _, _, hp⟩ := dir_send s.a s.b s.sentAB s.sentBA s.procAB s.procBA 2 s.fresh pl hab
    exact ⟨a', m, hs, hp⟩
  · intro pl
    obtain ⟨b', m, hs, _, _, _, _, hp⟩ := dir_send s.b s.a s.sentBA s.sentAB s.procBA s.procAB 1 s.fresh pl hba
    exact ⟨b', m, hs, hp⟩

/-- **Replays are rejected.** In every reachable state, handing a party any message it has already
    processed fails (`PreKeyReuse` / `UnknownSecretUsed` / decryption failure); a failing `receive`
    returns no state, so the party's state is unchanged. -/
theorem c37_replay_rejected (acts : List Action) (hl : LegalRun Sys.init acts) :
    let s := (Sys.init.run acts).1
    (∀ k m, k < s.procAB → s.sentAB[k]? = some m → s.b.receive m = .error (replayErr m.keyUsed))
    ∧ (∀ k m, k < s.procBA → s.sentBA[k]? = some m → s.a.receive m = .error (replayErr m.keyUsed))
    ∧ (∀ k, ((s.step (.replayA k)).1 = s ∨ ¬ k < s.procBA) ∧ ((s.step (.replayB k)).1 = s ∨ ¬ k < s.procAB)) := by
  intro s
  have hI : Inv s := run_inv _ acts inv_init hl
  refine ⟨?_, ?_, ?_⟩
  · intro k m hk hm
    exact recv_replay s.a s.b s.sentAB s.sentBA s.procAB s.procBA 2 1 s.fresh k m hI.ab hI.ba hk hm
  · intro k m hk hm
    exact recv_replay s.b s.a s.sentBA s.sentAB s.procBA s.procAB 1 2 s.fresh k m hI.ba hI.ab hk hm
  · intro k
    constructor
    · by_cases hk : k < s.procBA
      · exact Or.inl ((step_inv s (.replayA k) hI hk).2.2 k (Or.inl rfl))
      · exact Or.inr hk
    · by_cases hk : k < s.procAB
      · exact Or.inl ((step_inv s (.replayB k) hI hk).2.2 k (Or.inr rfl))
      · exact Or.inr hk

/-! ## Non-vacuity: a crossing initiation, own-key rounds and three kinds of rejected replays -/

private def demo : List Action :=
  [.sendA, .sendA, .sendB, .recvA, .recvB, .recvB, .sendA, .recvB, .replayB 0, .replayB 1, .replayB 2,
   .sendB, .recvA, .replayA 0, .replayA 1]

example : (Sys.init.run demo).2 =
    [.sent, .sent, .sent, .got 2, .got 0, .got 1, .sent, .got 3, .err .preKeyReuse, .err .decrypt,
     .err .unknownSecret, .sent, .got 4, .err .preKeyReuse, .err .unknownSecret] := by decide
example : LegalRun Sys.init demo := by
  refine ⟨trivial, trivial, trivial, trivial, trivial, trivial, trivial, trivial, ?_, ?_, ?_, trivial, trivial, ?_, ?_, trivial⟩ <;> decide

/-! ## Tie to the current source text (DESIGN.md §4.2) -/

/-- **The model is the source.** `./check` re-extracts these fragments from /repo on every run
    (regular expressions anchored on the surrounding statements; a fragment that no longer matches is
    itself a failure of the proof stage). They are the key bookkeeping of `TwoParty::{send, receive, encrypt, decrypt}` as transcribed in `P2.TwoParty.Party.{send, decrypt, receive}`: own keys `min..=index` are dropped and `min := index + 1`, lookups by `OwnKey(index)` / the received-key slot, the new own secret stored under the current next index which then advances by 1, `their_verifying_key` / `their_next_key_used` updates of send and receive, `key_used` and `sender_next_index` taken before the update, X3DH iff no verifying key yet with the bundle `take()`n, indices starting at 1, and `KeyManager::use_onetime_secret` REMOVING the one-time secret. Any edit of one of these
    operators / operands / call shapes changes the extracted text and this theorem stops checking —
    before a single input is generated. -/
theorem c37_source_ops :
    P2.Extracted.C37.pruneRange = "y.our_min_key_index..index + 1"
    ∧ P2.Extracted.C37.pruneNewMin = "index + 1"
    ∧ P2.Extracted.C37.ownKeyLookup = "y.our_secret_keys.get(&index)"
    ∧ P2.Extracted.C37.receivedKeyOpen = "hpke_open(&ciphertext, our_received_secret_key, None, None)"
    ∧ P2.Extracted.C37.sendStoreKey = "y_i.our_next_key_index, for_us.our_new_secret"
    ∧ P2.Extracted.C37.sendTheirPk = "Some(for_us.their_new_verifying_key)"
    ∧ P2.Extracted.C37.sendNextUsed = "KeyUsed::ReceivedKey"
    ∧ P2.Extracted.C37.sendKeyUsed = "y_i.their_next_key_used"
    ∧ P2.Extracted.C37.sendIndex = "y.our_next_key_index"
    ∧ P2.Extracted.C37.recvUpdates = "y_i.their_verifying_key = Some(plaintext_message.sender_new_verifying_key); y_i.their_next_key_used = KeyUsed::OwnKey(plaintext_message.sender_next_index); y_i.our_received_secret_key = Some(plaintext_message.receiver_new_secret);"
    ∧ P2.Extracted.C37.encryptSwitch = "&y.their_verifying_key"
    ∧ P2.Extracted.C37.bundleTake = "take"
    ∧ P2.Extracted.C37.initIndices = "our_next_key_index: 1, our_min_key_index: 1"
    ∧ P2.Extracted.C37.onetimeConsume = "y.onetime_secrets.remove(&id)" :=
  ⟨rfl, rfl, rfl, rfl, rfl, rfl, rfl, rfl, rfl, rfl, rfl, rfl, rfl, rfl⟩

end P2.C37
