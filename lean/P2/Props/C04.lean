/-
C04 — Pruning is authenticated and scoped to the prune operation's own log.
Property theorems (DESIGN.md §6 C04) about the pipeline model `P2/Model/Pipeline.lean`
(`Event::new`, the two `.map` stages of `Pipeline::new`, `LogPrune::process`, `prune_entries`).
`pipelineStep` is the repaired pipeline (a failed ingest disarms the event's prune arguments);
`pipelineStepOrig` forwards them regardless, as the pinned tree does.
-/
import P2.Model.LogStore
import P2.Model.Pipeline
import P2.Lemmas.LogStore
import P2.Extracted.C04

namespace P2.C04
open P2.Header P2.LogStore P2.Pipeline P2.LogStoreLemmas

variable {E : Type}

/-- ingest only ever appends: every row stored before is still there -/
theorem ingest_keeps_rows (c : ExtCodec E) (tbl : SigTable) (s : Store) (o : Op E) (log topic : Nat)
    (prune : Bool) (r : Row) (hr : r ∈ s.rows) :
    r ∈ (ingestStep c tbl s o log topic prune).1.rows := by
  generalize hg : ingestStep c tbl s o log topic prune = g
  rcases deliver_cases c tbl s o log topic prune g hg with ⟨hs, _⟩ | ⟨hs, _⟩ | ⟨_, hrows, _⟩
  · rw [hs]; exact hr
  · rw [hs]; exact hr
  · rw [hrows]; exact List.mem_append_left _ hr

theorem pipe_out (c : ExtCodec E) (tbl : SigTable) (s : Store) (ev : PEvent E) :
    (pipelineStep c tbl s ev).2.1 = (ingestStep c tbl s ev.o ev.log ev.topic ev.prune).2 := by
  simp only [pipelineStep, pipelineStepWith, ingestStep]
  split <;> rfl

theorem pipe_store (c : ExtCodec E) (tbl : SigTable) (s : Store) (ev : PEvent E) :
    (pipelineStep c tbl s ev).1 =
      if armedAfter true ev.prune (ingestStep c tbl s ev.o ev.log ev.topic ev.prune).2 then
        (pruneBelow (ingestStep c tbl s ev.o ev.log ev.topic ev.prune).1 ev.o.op.header.key ev.log
          ev.o.op.header.seq).1
      else (ingestStep c tbl s ev.o ev.log ev.topic ev.prune).1 := by
  simp only [pipelineStep, pipelineStepWith, ingestStep]
  split <;> simp_all

theorem armed_iff (prune : Bool) (out : Outcome) :
    armedAfter true prune out = true ↔ prune = true ∧ ∀ e, out ≠ .failed e := by
  cases out <;> simp [armedAfter]

/-- **An event whose ingest fails never deletes (or changes) anything** — whichever entry point it
    came through (sync, import, publish, replay all build an `Event` and call `Pipeline::process`). -/
theorem c04_invalid_never_deletes (c : ExtCodec E) (tbl : SigTable) (s : Store) (ev : PEvent E)
    (e : OpErr) (hf : (pipelineStep c tbl s ev).2.1 = .failed e) :
    (pipelineStep c tbl s ev).1 = s := by
  rw [pipe_out] at hf
  rw [pipe_store, hf]
  simp only [armedAfter, Bool.not_true, Bool.and_false, Bool.false_eq_true, if_false]
  generalize hg : ingestStep c tbl s ev.o ev.log ev.topic ev.prune = g at hf
  rcases deliver_cases c tbl s ev.o ev.log ev.topic ev.prune g hg with ⟨hs, _⟩ | ⟨_, ha, _⟩ | ⟨hi, _⟩
  · exact hs
  · rw [ha] at hf; cases hf
  · rw [hi] at hf; cases hf

/-- **Deletion only by a valid prune operation, and only below it in its own log.**
    If a row present before the event is gone afterwards, then the event's operation passed
    `validate_operation` and the log validation (ingest completed), the event carries the prune
    flag, and the row belongs to the event's `(author, log)` with a smaller sequence number. -/
theorem c04_delete_only_by_valid_prune (c : ExtCodec E) (tbl : SigTable) (s : Store) (ev : PEvent E)
    (r : Row) (hr : r ∈ s.rows) (hgone : r ∉ (pipelineStep c tbl s ev).1.rows) :
    validateOperation c tbl ev.o.op = .ok () ∧
    (∀ e, (pipelineStep c tbl s ev).2.1 ≠ .failed e) ∧
    ev.prune = true ∧
    r.author = ev.o.op.header.key ∧ r.log = ev.log ∧ r.seq < ev.o.op.header.seq := by
  have hkept := ingest_keeps_rows c tbl s ev.o ev.log ev.topic ev.prune r hr
  rw [pipe_store] at hgone
  rw [pipe_out]
  generalize hg : ingestStep c tbl s ev.o ev.log ev.topic ev.prune = g at hgone hkept ⊢
  by_cases ha : armedAfter true ev.prune g.2 = true
  · obtain ⟨hpr, hne⟩ := (armed_iff _ _).1 ha
    simp only [ha, if_true, pruneBelow] at hgone
    have hval : validateOperation c tbl ev.o.op = .ok () := by
      rcases deliver_cases c tbl s ev.o ev.log ev.topic ev.prune g hg with ⟨_, e, hf⟩ | ⟨_, _, _, hv⟩ | ⟨_, _, _, hv, _⟩
      · exact absurd hf (hne e)
      · exact hv
      · exact hv
    have hdel : inLog ev.o.op.header.key ev.log r = true ∧ r.seq < ev.o.op.header.seq := by
      simp only [List.mem_filter, hkept, true_and, Bool.not_eq_eq_eq_not, Bool.not_true,
        Bool.and_eq_false_imp, decide_eq_false_iff_not, Nat.not_lt, Classical.not_imp] at hgone
      exact ⟨hgone.1, by omega⟩
    have := (inLog_iff _ _ r).1 hdel.1
    exact ⟨hval, hne, hpr, this.1, this.2, hdel.2⟩
  · simp only [ha] at hgone
    exact absurd hkept hgone

/-- **Exact scope.** For an event whose ingest completed and that carries the prune flag, the rows
    afterwards are exactly the rows after ingest that are *not* in the event's `(author, log)`
    below the operation's sequence number: everything in that set is deleted, nothing else. -/
theorem c04_exact_scope (c : ExtCodec E) (tbl : SigTable) (s : Store) (ev : PEvent E)
    (hok : ∀ e, (ingestStep c tbl s ev.o ev.log ev.topic ev.prune).2 ≠ .failed e)
    (hpr : ev.prune = true) :
    (pipelineStep c tbl s ev).1.rows =
      (ingestStep c tbl s ev.o ev.log ev.topic ev.prune).1.rows.filter
        (fun r => !(r.author == ev.o.op.header.key && r.log == ev.log && r.seq < ev.o.op.header.seq)) := by
  rw [pipe_store, (armed_iff _ _).2 ⟨hpr, hok⟩]
  simp only [if_true, pruneBelow, inLog]

/-- **The prune stage is armed only behind a validated operation.** `pipelineStep` runs
    `pruneBelow` exactly when the event carries the flag and the ingest status is *completed* —
    `inserted`, or `already` (a duplicate). Both require the **delivered** operation itself to have
    passed `validate_operation`: a duplicate answer is given only after validation, for an id that
    is stored. An operation that merely carries a stored id (the head of the victim's log, say)
    but does not validate is `failed`, never `already`. -/
theorem c04_completed_requires_valid (c : ExtCodec E) (tbl : SigTable) (s : Store) (ev : PEvent E)
    (hc : ∀ e, (pipelineStep c tbl s ev).2.1 ≠ .failed e) :
    validateOperation c tbl ev.o.op = .ok () ∧
    ((pipelineStep c tbl s ev).2.1 = .already → hasOp s ev.o.op.id = true) ∧
    ((pipelineStep c tbl s ev).2.2 ≠ .noop → ev.prune = true) := by
  rw [pipe_out] at hc ⊢
  refine ⟨?_, ?_, ?_⟩
  · generalize hg : ingestStep c tbl s ev.o ev.log ev.topic ev.prune = g at hc
    rcases deliver_cases c tbl s ev.o ev.log ev.topic ev.prune g hg with ⟨_, e, hf⟩ | ⟨_, _, _, hv⟩ | ⟨_, _, _, hv, _⟩
    · exact absurd hf (hc e)
    · exact hv
    · exact hv
  · generalize hg : ingestStep c tbl s ev.o ev.log ev.topic ev.prune = g at hc
    intro ha
    rcases deliver_cases c tbl s ev.o ev.log ev.topic ev.prune g hg with ⟨_, e, hf⟩ | ⟨_, _, hh, _⟩ | ⟨hi, _⟩
    · exact absurd hf (hc e)
    · exact hh
    · rw [hi] at ha; cases ha
  · intro hn
    cases hp : ev.prune with
    | true => rfl
    | false =>
      exfalso; apply hn
      simp only [pipelineStep, pipelineStepWith]
      have : armedAfter true ev.prune (ingestStepWith validatePrunableBacklink c tbl s ev.o ev.log ev.topic ev.prune).2 = false := by
        rw [hp]; cases (ingestStepWith validatePrunableBacklink c tbl s ev.o ev.log ev.topic false).2 <;> rfl
      simp [this]

/-- Without the prune flag nothing is ever deleted. -/
theorem c04_no_flag_no_delete (c : ExtCodec E) (tbl : SigTable) (s : Store) (ev : PEvent E)
    (hpr : ev.prune = false) (r : Row) (hr : r ∈ s.rows) : r ∈ (pipelineStep c tbl s ev).1.rows := by
  apply Classical.byContradiction
  intro hgone
  have := (c04_delete_only_by_valid_prune c tbl s ev r hr hgone).2.2.1
  rw [hpr] at this; cases this

/-- Stream layer (`process_operation`): `Processed` is produced only from an event whose ingest
    completed (this is C01's `c01_delivered_only_if_accepted`). -/
theorem c04_processed_only_if_completed (out : Outcome) (hasBody decodes autoAck ackOk : Bool)
    (h : processOperation out hasBody decodes autoAck ackOk = .processed) :
    (out = .inserted ∨ out = .already) ∧ hasBody = true ∧ decodes = true := by
  unfold processOperation at h
  cases out with
  | failed e => simp [isFailed] at h
  | inserted =>
    cases hasBody <;> cases decodes <;> cases ackOk <;> cases autoAck <;> simp [isFailed] at h ⊢
  | already =>
    cases hasBody <;> cases decodes <;> cases ackOk <;> cases autoAck <;> simp [isFailed] at h ⊢

/-! ### Ties to the source text -/

/-- The pipeline as `pipelineStep` transcribes it, read from the current sources: two stages
    `ingest` then `log_prune`; the `Err` arm of the ingest stage records the failure **and disarms
    the prune arguments** (`disarm_log_prune` sets them to `Ignore`), the `Ok` arms only record
    the result; `Event::new` arms `PruneEntriesUntil {author: header.verifying_key, log_id,
    seq_num: header.seq_num}` iff the prune flag is set; `LogPrune::process` calls
    `prune_entries(author, log_id, seq_num)` exactly for armed arguments. -/
theorem c04_extracted_pipeline :
    P2.Extracted.C04.stageNames = ["ingest", "log_prune"] ∧
    P2.Extracted.C04.stageOkArms = ["event.ingest = ProcessorStatus::Completed(result); event",
      "event.log_prune = ProcessorStatus::Completed(result); event"] ∧
    P2.Extracted.C04.stageErrArms = ["event.ingest = ProcessorStatus::Failed(err); event.disarm_log_prune(); event",
      "event.log_prune = ProcessorStatus::Failed(err); event"] ∧
    P2.Extracted.C04.disarmBody = "self.log_prune_args = LogPruneArgs::Ignore;" ∧
    P2.Extracted.C04.eventPruneArgs = "if prune_flag.is_set() { LogPruneArgs::PruneEntriesUntil { author: operation.header.verifying_key, log_id, seq_num: operation.header.seq_num, } } else { LogPruneArgs::Ignore }" ∧
    P2.Extracted.C04.eventIngestArgs = "log_id: log_id.clone(), topic, prune_flag: prune_flag.is_set()," ∧
    P2.Extracted.C04.logPruneGuard = "if let LogPruneArgs::PruneEntriesUntil { author, log_id, seq_num, } = args" ∧
    P2.Extracted.C04.logPruneCall = "self.store.prune_entries(author, log_id, seq_num).await" := by
  refine ⟨rfl, rfl, rfl, rfl, rfl, rfl, rfl, rfl⟩

/-- The scope of a deletion, read from the current source of `prune_entries`: one statement,
    `verifying_key = ? AND log_id = ? AND seq_num < ?` (three separate conjuncts — not a row-value
    comparison), bound to author, log id, sequence number in this order — what `pruneBelow`
    (`c04_exact_scope`) transcribes; and the ingest stage works on the latest entry of exactly
    `(header.verifying_key, log_id)`. -/
theorem c04_extracted_prune_scope :
    P2.Extracted.C04.pruneSql = "DELETE FROM operations_v1 WHERE verifying_key = ? AND log_id = ? AND seq_num < ?" ∧
    P2.Extracted.C04.pruneBinds = ["author.to_string()", "log_id", "until.to_string()"] ∧
    P2.Extracted.C04.latestSql = "SELECT hash, header, body FROM operations_v1 WHERE verifying_key = ? AND log_id = ? ORDER BY seq_num DESC LIMIT 1" ∧
    P2.Extracted.C04.pastHeaderExpr = "store .get_latest_entry_tx(&operation.header.verifying_key, log_id) .await .map_err(STORE)? .map(|operation| operation.header)" := by
  refine ⟨rfl, rfl, rfl, rfl⟩

/-! ### The pinned tree: a failed ingest still forwards the unverified prune arguments -/

/-- victim: author 1, log 7, rows 0..3 -/
def victimRow (seq : Nat) : Row :=
  { id := 100 + seq, author := 1, log := 7, seq := seq, hid := 100 + seq,
    backlink := if seq = 0 then none else some (100 + seq - 1), prune := false, payloadSize := 0,
    hasBody := false }

def victimStore : Store := { rows := [victimRow 0, victimRow 1, victimRow 2, victimRow 3], assoc := [(5, 1, 7)] }

/-- forged header: claims the victim's key, prune flag set, `seq_num = u32::MAX`, a signature that
    nobody made (the table of honest signatures is empty) -/
def forgedHdr : Header Custom :=
  { version := 1, key := 1, signature := some 666, payloadSize := 0, payloadHash := none,
    seq := 2 ^ 32 - 1, backlink := some 1, ext := { a := 7, flag := true } }

def forged : PEvent Custom :=
  { o := { op := { id := 999, header := forgedHdr, body := none }, hid := 999 },
    log := 7, topic := 5, prune := true }

/-- **Defect of the pinned tree**: the forged event is reported as failed *and* wipes the victim's
    log. -/
theorem c04_orig_violates :
    (pipelineStepOrig customCodec [] victimStore forged).2.1 = .failed .signatureMismatch ∧
    (pipelineStepOrig customCodec [] victimStore forged).1.rows = [] ∧
    (pipelineStepOrig customCodec [] victimStore forged).2.2 = .pruned 4 := by
  refine ⟨by rfl, by rfl, by rfl⟩

/-- the repaired pipeline on the same event: failed, nothing deleted -/
example : pipelineStep customCodec [] victimStore forged = (victimStore, .failed .signatureMismatch, .noop) := by
  rfl

/-- non-vacuity of `c04_exact_scope`: the victim's own valid prune operation at seq 4 deletes
    exactly rows 0..3 of its log and nothing of another log -/
def honestHdr : Header Custom :=
  { version := 1, key := 1, signature := some 204, payloadSize := 0, payloadHash := none,
    seq := 4, backlink := some 103, ext := { a := 7, flag := true } }

def honestPrune : PEvent Custom :=
  { o := { op := { id := 104, header := honestHdr, body := none }, hid := 104 },
    log := 7, topic := 5, prune := true }

def otherRow : Row := { victimRow 0 with id := 300, author := 2, hid := 300 }

example : (pipelineStep customCodec [(1, encode customCodec (unsign honestHdr), 204)]
    { victimStore with rows := victimStore.rows ++ [otherRow] } honestPrune).1.rows.map (fun r => (r.author, r.seq))
    = [(2, 0), (1, 4)] := by rfl

end P2.C04
