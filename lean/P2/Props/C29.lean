/-
C29 — Gossip overlay is left exactly when the last handle is gone.

Model: `P2/Model/GossipGuard.lean` — a labelled transition system for one topic over ANY number of
threads (`pc : Nat → PC`), with the atomic steps of the repaired `Gossip::stream` /
`TopicDropGuard` (`stepFn`) and of the pinned code (`stepFnOrig`).  Every theorem below quantifies
over all reachable states, i.e. over all finite schedules of all threads.
-/
import P2.Model.GossipGuard
import P2.Extracted.C29

namespace P2.C29
open P2.GossipGuard

/-- `INITIAL_COUNTER` of the current source text is the value the model starts every counter with. -/
theorem c29_initial_counter : P2.Extracted.C29.initialCounter = initialCounter := by decide

/-- One step of the repaired system / reachability from the initial state. -/
def Step (s s' : St) : Prop := ∃ a, stepFn s a = some s'

inductive Reach : St → Prop where
  | init : Reach init
  | step {s s' : St} : Reach s → Step s s' → Reach s'

/-- `Reach` is exactly "the end state of some finite schedule run by the executable step function"
(the function the model driver runs and the harness' schedules are checked against). -/
theorem reach_iff_run (s : St) : Reach s ↔ ∃ acts, runFn stepFn init acts = some s := by
  constructor
  · intro h
    induction h with
    | init => exact ⟨[], rfl⟩
    | step _ hst ih =>
      obtain ⟨acts, hr⟩ := ih
      obtain ⟨a, ha⟩ := hst
      refine ⟨acts ++ [a], ?_⟩
      have key : ∀ (acts : List Act) (s0 s1 : St), runFn stepFn s0 acts = some s1 →
          runFn stepFn s0 (acts ++ [a]) = stepFn s1 a := by
        intro acts
        induction acts with
        | nil => intro s0 s1 h; simp [runFn] at h; subst h; simp [runFn]; cases stepFn s0 a <;> rfl
        | cons b bs ih =>
          intro s0 s1 h
          simp only [runFn, List.cons_append] at h ⊢
          cases hb : stepFn s0 b with
          | none => simp [hb] at h
          | some s2 => simp only [hb] at h ⊢; exact ih s2 s1 h
      rw [key acts init _ hr, ha]
  · rintro ⟨acts, hr⟩
    have key : ∀ (acts : List Act) (s0 : St), Reach s0 → runFn stepFn s0 acts = some s → Reach s := by
      intro acts
      induction acts with
      | nil => intro s0 h0 h; simp [runFn] at h; subst h; exact h0
      | cons b bs ih =>
        intro s0 h0 h
        simp only [runFn] at h
        cases hb : stepFn s0 b with
        | none => simp [hb] at h
        | some s2 => simp only [hb] at h; exact ih s2 (Reach.step h0 ⟨b, hb⟩) h
    exact key acts init Reach.init hr

/-! ### The invariant -/

structure Inv (s : St) : Prop where
  cnt   : ∀ g, s.cells g = s.handles.count g + s.inflight.count g
  hl    : ∀ g ∈ s.handles, s.active = some g ∧ s.entry = some g
  infl  : ∀ g ∈ s.inflight, s.active = some g ∧ s.inflight.count g = 1 ∧ (∀ g' ∈ s.inflight, g' = g)
            ∧ (∀ g', g' ∉ s.handles) ∧ (∀ g', g' ∉ s.dying)
  act   : ∀ g, s.active = some g → 1 ≤ s.cells g ∨ g ∈ s.dying
  dy    : ∀ g ∈ s.dying, s.cells g = 0 ∧ s.left g = false ∧ s.active = some g ∧ s.entry = some g
            ∧ s.dying.count g = 1 ∧ (∀ g' ∈ s.dying, g' = g)
  lft   : ∀ g, s.left g = true → s.cells g = 0 ∧ g ∉ s.dying
  bnd   : ∀ g, s.ngen ≤ g → s.cells g = 0 ∧ s.left g = false
  entLt : ∀ g, s.entry = some g → g < s.ngen
  entDead : ∀ g, s.entry = some g → s.cells g = 0 → s.left g = true ∨ g ∈ s.dying
  pcSub : ∀ t g, s.pc t = .subscribed g → s.wlock = some t ∧ g ∈ s.inflight
  pcFresh : ∀ t, s.pc t = .fresh → s.wlock = some t ∧ (∀ g, g ∉ s.inflight) ∧ (∀ g, g ∉ s.handles)
            ∧ (∀ g, g ∉ s.dying) ∧ (∀ g, s.entry = some g → s.left g = true)
  pcWait : ∀ t g, s.pc t = .waitLeft g → s.wlock = some t ∧ (∀ g', g' ∉ s.inflight) ∧ s.entry = some g ∧ s.cells g = 0
  pcDrop : ∀ t g, s.pc t = .dropping g → g ∈ s.dying
  dyPc : ∀ g ∈ s.dying, ∃ t, s.pc t = .dropping g
  dropU : ∀ t t' g g', s.pc t = .dropping g → s.pc t' = .dropping g' → t = t'
  noLock : s.wlock = none → ∀ g, g ∉ s.inflight

theorem inv_init : Inv init := by
  constructor <;> simp [init]

theorem count_pos_mem (l : List Nat) (g : Nat) (h : 1 ≤ l.count g) : g ∈ l := List.count_pos_iff.1 h
theorem mem_count_pos (l : List Nat) (g : Nat) (h : g ∈ l) : 1 ≤ l.count g := List.count_pos_iff.2 h


macro "inv_tac" : tactic =>
  `(tactic| (constructor <;> (try simp only [St.acquire, St.setPc, setFn, initialCounter, List.count_cons] at *) <;>
      first
      | grind
      | (intro a b c d h1 h2; split at h1 <;> split at h2 <;> first | omega | (exact hdu _ _ _ _ h1 h2) | (cases h1; done) | (cases h2; done) | grind)))

set_option linter.unusedSimpArgs false
set_option hygiene false in
macro "inv_open" h:ident : tactic =>
  `(tactic| (obtain ⟨hcnt, hhl, hinfl, hact, hdy, hlft, hbnd, hel, hed, hps, hpf, hpw, hpd, hdp, hdu, hnl⟩ := $h
             have hmp := mem_count_pos
             have hcp := count_pos_mem
             have hme := @List.mem_of_mem_erase Nat _
             have hce := @List.count_erase Nat _))


theorem inv_lookup (s s' : St) (t : Nat) (h : Inv s) (hs : stepFn s (.lookup t) = some s') : Inv s' := by
  inv_open h
  simp only [stepFn, liveEntry] at hs
  split at hs
  · split at hs
    · rename_i g hg
      cases hs
      split at hg
      · split at hg
        · cases hg; inv_tac
        · cases hg
      · cases hg
    · cases hs; inv_tac
  · cases hs

theorem inv_relook (s s' : St) (t : Nat) (h : Inv s) (hs : stepFn s (.relook t) = some s') : Inv s' := by
  inv_open h
  simp only [stepFn, liveEntry] at hs
  split at hs
  · split at hs
    · cases hs; inv_tac
    · split at hs
      · cases hs; inv_tac
      · split at hs
        · cases hs; inv_tac
        · cases hs; inv_tac
  · cases hs

theorem inv_spin (s s' : St) (t : Nat) (h : Inv s) (hs : stepFn s (.spin t) = some s') : Inv s' := by
  inv_open h
  simp only [stepFn, liveEntry] at hs
  split at hs
  · split at hs
    · cases hs; inv_tac
    · cases hs; inv_tac
  · cases hs

theorem inv_subscribe (s s' : St) (t : Nat) (h : Inv s) (hs : stepFn s (.subscribe t) = some s') : Inv s' := by
  inv_open h
  simp only [stepFn, liveEntry] at hs
  split at hs
  · cases hs; inv_tac
  · cases hs

theorem inv_insert (s s' : St) (t : Nat) (h : Inv s) (hs : stepFn s (.insert t) = some s') : Inv s' := by
  inv_open h
  simp only [stepFn, liveEntry] at hs
  split at hs
  · cases hs; inv_tac
  · cases hs

theorem inv_dup (s s' : St) (t g : Nat) (h : Inv s) (hs : stepFn s (.dup t g) = some s') : Inv s' := by
  inv_open h
  simp only [stepFn, liveEntry] at hs
  split at hs
  · cases hs; inv_tac
  · cases hs

theorem inv_dropDec (s s' : St) (t g : Nat) (h : Inv s) (hs : stepFn s (.dropDec t g) = some s') : Inv s' := by
  inv_open h
  simp only [stepFn, liveEntry] at hs
  split at hs
  · split at hs
    · cases hs; inv_tac
    · cases hs; inv_tac
  · cases hs

theorem inv_dropSend (s s' : St) (t : Nat) (h : Inv s) (hs : stepFn s (.dropSend t) = some s') : Inv s' := by
  inv_open h
  simp only [stepFn, liveEntry] at hs
  split at hs
  · cases hs; inv_tac
  · cases hs


theorem inv_step (s s' : St) (a : Act) (h : Inv s) (hs : stepFn s a = some s') : Inv s' := by
  cases a with
  | lookup t => exact inv_lookup s s' t h hs
  | clone t => simp [stepFn] at hs
  | relook t => exact inv_relook s s' t h hs
  | spin t => exact inv_spin s s' t h hs
  | subscribe t => exact inv_subscribe s s' t h hs
  | insert t => exact inv_insert s s' t h hs
  | dup t g => exact inv_dup s s' t g h hs
  | dropDec t g => exact inv_dropDec s s' t g h hs
  | dropSend t => exact inv_dropSend s s' t h hs

theorem reach_inv (s : St) (h : Reach s) : Inv s := by
  induction h with
  | init => exact inv_init
  | step _ hst ih => obtain ⟨a, ha⟩ := hst; exact inv_step _ _ a ih ha

/-! ### The message log: Subscribe g, Unsubscribe g, Subscribe g+1, … -/

/-- `n` complete subscription cycles. -/
def alt : Nat → List Ev
  | 0 => []
  | n + 1 => alt n ++ [.sub n, .unsub n]

def LogInv (s : St) : Prop :=
  (s.active = none → s.log = alt s.ngen) ∧
  (∀ g, s.active = some g → s.ngen = g + 1 ∧ s.log = alt g ++ [.sub g])

theorem log_step (s s' : St) (a : Act) (hi : Inv s) (hl : LogInv s) (hs : stepFn s a = some s') : LogInv s' := by
  have frame : s'.active = s.active → s'.ngen = s.ngen → s'.log = s.log → LogInv s' := by
    intro h1 h2 h3; unfold LogInv; rw [h1, h2, h3]; exact hl
  cases a with
  | lookup t =>
    simp only [stepFn] at hs
    split at hs
    · split at hs <;> cases hs <;> exact frame rfl rfl rfl
    · cases hs
  | clone t => simp [stepFn] at hs
  | relook t =>
    simp only [stepFn] at hs
    split at hs
    · split at hs
      · cases hs; exact frame rfl rfl rfl
      · split at hs
        · cases hs; exact frame rfl rfl rfl
        · split at hs <;> cases hs <;> exact frame rfl rfl rfl
    · cases hs
  | spin t =>
    simp only [stepFn] at hs
    split at hs
    · split at hs <;> cases hs <;> exact frame rfl rfl rfl
    · cases hs
  | subscribe t =>
    simp only [stepFn] at hs
    split at hs
    · rename_i hpc
      cases hs
      obtain ⟨_, hin, hh, hd, _⟩ := hi.pcFresh t hpc
      have hnone : s.active = none := by
        cases ha : s.active with
        | none => rfl
        | some g =>
          rcases hi.act g ha with h1 | h1
          · have := hi.cnt g
            have h2 : s.handles.count g = 0 := List.count_eq_zero.2 (hh g)
            have h3 : s.inflight.count g = 0 := List.count_eq_zero.2 (hin g)
            omega
          · exact absurd h1 (hd g)
      constructor
      · intro h; simp [St.setPc] at h
      · intro g hg
        simp only [St.setPc] at hg ⊢
        cases hg
        exact ⟨rfl, by rw [hl.1 hnone]⟩
    · cases hs
  | insert t =>
    simp only [stepFn] at hs
    split at hs
    · cases hs; exact frame rfl rfl rfl
    · cases hs
  | dup t g =>
    simp only [stepFn] at hs
    split at hs
    · cases hs; exact frame rfl rfl rfl
    · cases hs
  | dropDec t g =>
    simp only [stepFn] at hs
    split at hs
    · split at hs <;> cases hs <;> exact frame rfl rfl rfl
    · cases hs
  | dropSend t =>
    simp only [stepFn] at hs
    split at hs
    · rename_i g hpc
      cases hs
      have hgd := hi.pcDrop t g hpc
      obtain ⟨_, _, ha, _⟩ := hi.dy g hgd
      obtain ⟨hn, hlog⟩ := hl.2 g ha
      constructor
      · intro _
        simp only [St.setPc]
        rw [hn, hlog]
        simp [alt]
      · intro g' hg'; simp [St.setPc] at hg'
    · cases hs

theorem reach_log (s : St) (h : Reach s) : LogInv s := by
  induction h with
  | init => constructor <;> simp [init, alt]
  | step hr hst ih => obtain ⟨a, ha⟩ := hst; exact log_step _ _ a (reach_inv _ hr) ih ha

/-! ### The property theorems (repaired code; any number of threads, any schedule) -/

/-- **c29_counter.** In every reachable state the counter of every subscription equals the number of
live counting guards: handles / subscriptions handed out and not yet dropped, plus the guard of a
`stream()` call that has subscribed and is about to return it. -/
theorem c29_counter (s : St) (h : Reach s) (g : Nat) :
    s.cells g = s.handles.count g + s.inflight.count g := (reach_inv s h).cnt g

/-- **c29_handle_live.** Every live handle belongs to the subscription the gossip manager currently
runs for the topic: no `Unsubscribe` sent so far has ended it (in particular at the moment
`stream()` / `clone` returned it), and it is the one recorded in `senders`. -/
theorem c29_handle_live (s : St) (h : Reach s) (g : Nat) (hg : g ∈ s.handles) :
    s.active = some g ∧ s.entry = some g ∧ s.left g = false := by
  have hi := reach_inv s h
  refine ⟨(hi.hl g hg).1, (hi.hl g hg).2, ?_⟩
  cases hl : s.left g with
  | false => rfl
  | true =>
    have := (hi.lft g hl).1
    have hc := hi.cnt g
    have : 1 ≤ s.handles.count g := List.count_pos_iff.2 hg
    omega

/-- **c29_exact (1): never left early, left once the last guard is gone.**  The overlay is joined
exactly while a counting guard of the current subscription is alive or the `Unsubscribe` of the last
one is on its way (a thread sits between its decrement-to-zero and the send — which is always
enabled). -/
theorem c29_exact (s : St) (h : Reach s) :
    (∀ g, s.active = some g → (1 ≤ s.cells g ∨ ∃ t, s.pc t = .dropping g)) ∧
    (s.active = none → s.handles = [] ∧ s.inflight = [] ∧ s.dying = []) ∧
    ((s.handles = [] ∧ s.inflight = [] ∧ s.dying = []) → s.active = none) := by
  have hi := reach_inv s h
  refine ⟨?_, ?_, ?_⟩
  · intro g ha
    rcases hi.act g ha with h1 | h1
    · exact Or.inl h1
    · exact Or.inr (hi.dyPc g h1)
  · intro hn
    refine ⟨?_, ?_, ?_⟩
    · apply List.eq_nil_iff_forall_not_mem.2
      intro g hg; have := (hi.hl g hg).1; rw [hn] at this; cases this
    · apply List.eq_nil_iff_forall_not_mem.2
      intro g hg; have := (hi.infl g hg).1; rw [hn] at this; cases this
    · apply List.eq_nil_iff_forall_not_mem.2
      intro g hg; have := (hi.dy g hg).2.2.1; rw [hn] at this; cases this
  · rintro ⟨hh, hin, hd⟩
    cases ha : s.active with
    | none => rfl
    | some g =>
      rcases hi.act g ha with h1 | h1
      · have := hi.cnt g; rw [hh, hin] at this; simp at this; omega
      · rw [hd] at h1; cases h1

/-- **c29_exact (2): one `Unsubscribe` per subscription.**  The messages sent to the gossip manager
are `Subscribe 0, Unsubscribe 0, Subscribe 1, Unsubscribe 1, …`: every `Unsubscribe` directly
follows the `Subscribe` of the same subscription, none is sent twice, and a new `Subscribe` is sent
only after the previous subscription's `Unsubscribe`. -/
theorem c29_once (s : St) (h : Reach s) :
    (s.active = none → s.log = alt s.ngen) ∧
    (∀ g, s.active = some g → s.ngen = g + 1 ∧ s.log = alt g ++ [.sub g]) := reach_log s h

/-- The wait introduced by the repair cannot last: whoever waits for a dying subscription's
`Unsubscribe` waits for a thread whose next step (the send) is enabled, or the flag is already set. -/
theorem c29_wait_progress (s : St) (h : Reach s) (t g : Nat) (hp : s.pc t = .waitLeft g) :
    s.left g = true ∨ ∃ t', s.pc t' = .dropping g ∧ (stepFn s (.dropSend t')).isSome := by
  have hi := reach_inv s h
  obtain ⟨_, _, he, hc⟩ := hi.pcWait t g hp
  rcases hi.entDead g he hc with h1 | h1
  · exact Or.inl h1
  · obtain ⟨t', ht'⟩ := hi.dyPc g h1
    exact Or.inr ⟨t', ht', by simp [stepFn, ht']⟩

/-- At most one thread is on the subscription path, and only while it holds the `senders` write lock. -/
theorem c29_single_subscriber (s : St) (h : Reach s) (t t' g g' : Nat)
    (h1 : s.pc t = .subscribed g ∨ s.pc t = .fresh) (h2 : s.pc t' = .subscribed g' ∨ s.pc t' = .fresh) : t = t' := by
  have hi := reach_inv s h
  have w1 : s.wlock = some t := by
    rcases h1 with h1 | h1
    · exact (hi.pcSub t g h1).1
    · exact (hi.pcFresh t h1).1
  have w2 : s.wlock = some t' := by
    rcases h2 with h2 | h2
    · exact (hi.pcSub t' g' h2).1
    · exact (hi.pcFresh t' h2).1
  rw [w1] at w2; cases w2; rfl


/-! ### Ties to the current source text (`P2/Extracted/C29.lean` is regenerated on every run) -/

namespace X
export P2.Extracted.C29 (tryCloneUpdate dropLastCond dropIgnoreGuard fastAcquire slowAcquire
  waitBeforeSubscribe storedGuard flagRead cloneStep guardDropLast)
end X

/-- `try_clone`'s `fetch_update` closure (text re-extracted; an unknown closure text fails the
extraction) is increment-iff-positive, and it is exactly the decision the model's `lookup` makes on the
entry's counter: hand out a reference with the counter raised by one, or go to the slow path. -/
theorem c29_try_clone_is_source (s : St) (t g : Nat) (hp : s.pc t = .idle) (hw : s.wlock = none)
    (he : s.entry = some g) :
    stepFn s (.lookup t) = some (match X.tryCloneUpdate P2.Extracted.C29.initialCounter (s.cells g) with
      | some c' => { s with cells := setFn s.cells g c', handles := g :: s.handles }
      | none => s.setPc t .missed) := by
  have hst : stepFn s (.lookup t) = (match liveEntry s with
      | some g => some (s.acquire g) | none => some (s.setPc t .missed)) := by
    simp only [stepFn, hp, hw, and_self, if_true]
    cases liveEntry s <;> rfl
  rw [hst]
  by_cases hc : s.cells g ≥ 1
  · simp [liveEntry, he, hc, P2.Extracted.C29.tryCloneUpdate, P2.Extracted.C29.initialCounter,
      initialCounter, St.acquire]
  · simp [liveEntry, he, hc, P2.Extracted.C29.tryCloneUpdate, P2.Extracted.C29.initialCounter,
      initialCounter]

/-- …and of the second look-up under the write lock (same closure, same guard method: both look-ups
call `try_clone`, the entry stored in `senders` is the non-counting `clone_without_increment`, and
`has_unsubscribed` reads the flag `Drop` sets). -/
theorem c29_stream_structure_is_source :
    X.fastAcquire = "try_clone" ∧ X.slowAcquire = "try_clone"
    ∧ X.waitBeforeSubscribe = "!guard.has_unsubscribed()"
    ∧ X.storedGuard = "clone_without_increment" ∧ X.flagRead = "unsubscribed"
    ∧ X.cloneStep = "fetch_add(1" ∧ X.dropIgnoreGuard = "self.ignore_drop" := by decide

/-- `Drop`: the condition under which `Unsubscribe` is sent (`previous_counter == INITIAL_COUNTER`,
re-extracted) is the model's: `dropDec` moves to `dropping` exactly when it holds for the value read
by `fetch_sub`. -/
theorem c29_drop_cond_is_source (s : St) (t g : Nat) (hp : s.pc t = .idle) (hg : g ∈ s.handles) :
    ∃ s', stepFn s (.dropDec t g) = some s' ∧
      (s'.pc t = .dropping g ↔ X.dropLastCond P2.Extracted.C29.initialCounter (s.cells g) = true) := by
  simp only [stepFn, hp, hg, and_self, if_true, P2.Extracted.C29.dropLastCond,
    P2.Extracted.C29.initialCounter, initialCounter, decide_eq_true_eq]
  by_cases h1 : s.cells g = 1
  · simp [h1, St.setPc, setFn]
  · simp [h1, hp]

/-- `Drop`, the block run for the last reference (translated by rs2lean from the current body): first
the `Unsubscribe` message (1), then the `unsubscribed` flag (2).  This order is what lets the model
treat "send + flag" as the single atomic step `dropSend`: whoever sees the flag knows the message is
already in the manager's mailbox.  Swapping the two statements changes the trace to `[2, 1]`. -/
theorem c29_drop_last_is_source (flag : Bool) (trace : List Nat) :
    X.guardDropLast flag trace = (true, trace ++ [1, 2]) := by
  simp [P2.Extracted.C29.guardDropLast]

/-! ### The pinned code violates the property (three windows) -/

/-- observable part of a state -/
def obs (s : St) : List Nat × Option Nat × List Ev := (s.handles, s.active, s.log)

/-- Check/clone window: `T1: has_subscriptions() (=1) · T0: drop (→0, Unsubscribe) · T1: fetch_add (→1), return`
— a live handle on an overlay that has been left, and a second `Unsubscribe` when it drops. -/
theorem c29_orig_violates :
    (runFn stepFnOrig init [.lookup 0, .relook 0, .subscribe 0, .insert 0,
        .lookup 1, .dropDec 0 0, .dropSend 0, .clone 1]).map obs
      = some ([0], none, [.sub 0, .unsub 0])
    ∧ (runFn stepFnOrig init [.lookup 0, .relook 0, .subscribe 0, .insert 0,
        .lookup 1, .dropDec 0 0, .dropSend 0, .clone 1, .dropDec 1 0, .dropSend 1]).map obs
      = some ([], none, [.sub 0, .unsub 0, .unsub 0]) := by
  constructor <;> decide

/-- Two concurrent first `stream()` calls both subscribe; the first handle's drop leaves the overlay
under the second, live handle. -/
theorem c29_orig_double_subscribe :
    (runFn stepFnOrig init [.lookup 0, .lookup 1, .relook 0, .relook 1, .subscribe 0, .subscribe 1,
        .insert 0, .insert 1, .dropDec 0 0, .dropSend 0]).map obs
      = some ([1], none, [.sub 0, .sub 1, .unsub 0]) := by decide

/-- The `Unsubscribe` of a last drop is sent after the decrement: a `stream()` in between re-subscribes
and the late `Unsubscribe(topic)` ends the new subscription. -/
theorem c29_orig_unsubscribe_overtakes :
    (runFn stepFnOrig init [.lookup 0, .relook 0, .subscribe 0, .insert 0, .dropDec 0 0,
        .lookup 1, .relook 1, .subscribe 1, .insert 1, .dropSend 0]).map obs
      = some ([1], none, [.sub 0, .sub 1, .unsub 0]) := by decide

/-- The same three schedules are not schedules of the repaired code (the offending step is disabled)
or end in a good state. -/
theorem c29_fixed_blocks_witnesses :
    (runFn stepFn init [.lookup 0, .relook 0, .subscribe 0, .insert 0, .lookup 1, .dropDec 0 0]).map obs
      = some ([0], some 0, [.sub 0])
    ∧ (runFn stepFn init [.lookup 0, .lookup 1, .relook 0, .relook 1]).isNone
    ∧ (runFn stepFn init [.lookup 0, .relook 0, .subscribe 0, .insert 0, .dropDec 0 0,
        .lookup 1, .relook 1, .spin 1, .dropSend 0, .spin 1, .subscribe 1, .insert 1]).map obs
      = some ([1], some 1, [.sub 0, .unsub 0, .sub 1]) := by
  refine ⟨?_, ?_, ?_⟩ <;> decide

/-! ### Non-vacuity -/

example : Reach init := Reach.init
example : ∃ s, Reach s ∧ s.handles = [0, 0] ∧ s.cells 0 = 2 ∧ s.active = some 0 := by
  refine ⟨_, (reach_iff_run _).2 ⟨[.lookup 0, .relook 0, .subscribe 0, .insert 0, .lookup 1], rfl⟩, ?_⟩
  decide
-- a thread really can be made to wait for the pending Unsubscribe (the hypothesis of c29_wait_progress)
example : ∃ s, Reach s ∧ s.pc 1 = .waitLeft 0 ∧ s.pc 0 = .dropping 0 := by
  refine ⟨_, (reach_iff_run _).2 ⟨[.lookup 0, .relook 0, .subscribe 0, .insert 0, .dropDec 0 0, .lookup 1, .relook 1], rfl⟩, ?_⟩
  decide

end P2.C29
