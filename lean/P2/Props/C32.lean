/-
C32 — Group state merge is commutative, associative and idempotent.

`merge lt` is `state::merge` with the tie-break relation as a parameter:
* the pinned tree used `accessLtOrig cmpC` (`Access::<`, i.e. `partial_cmp == Some(Less)`),
* the repaired tree (`fix:` commit) uses `accessLtFix cmpC` (`merge_tie_break_less`).
States are compared as finite maps (`MapEq`): `HashMap` iteration order is the list order of
the model and plays no role in any statement.
-/
import P2.Model.GroupState
import P2.Lemmas.GroupState
import P2.Extracted.C32

namespace P2.C32
open P2.GroupState

set_option linter.unusedSectionVars false
variable {C K : Type} [DecidableEq K]

/-- `lt` is a strict total order on the accesses satisfying `P`. -/
structure StrictTotalOn (P : Access C → Prop) (lt : Access C → Access C → Bool) : Prop where
  irrefl : ∀ a, P a → lt a a = false
  trans : ∀ a b c, P a → P b → P c → lt a b = true → lt b c = true → lt a c = true
  total : ∀ a b, P a → P b → a ≠ b → lt a b = true ∨ lt b a = true

/-- `C::partial_cmp` behaves like a linear order (`u8`, `()`, any `Ord` type with the derived
    `PartialOrd`): always `Some`, `Equal` exactly on equal values, `Less` transitive, and
    two different values are related one way or the other. -/
structure LinearCmp (cmpC : C → C → Option Ordering) : Prop where
  irrefl : ∀ x, condLt cmpC x x = false
  trans : ∀ x y z, condLt cmpC x y = true → condLt cmpC y z = true → condLt cmpC x z = true
  total : ∀ x y, x ≠ y → condLt cmpC x y = true ∨ condLt cmpC y x = true

/-- Every access of the state satisfies `P`. -/
def AllAcc (P : Access C → Prop) (s : State K C) : Prop :=
  ∀ k m, get? s k = some m → P m.access

/-! ### The order `better` on member states -/

private theorem lt_asymm {P : Access C → Prop} {lt : Access C → Access C → Bool}
    (h : StrictTotalOn P lt) (a b : Access C) (ha : P a) (hb : P b) (h1 : lt a b = true) :
    lt b a = false := by
  cases h2 : lt b a with
  | false => rfl
  | true =>
    have := h.trans a b a ha hb ha h1 h2
    rw [h.irrefl a ha] at this
    exact absurd this (by simp)

private theorem better_asymm {P : Access C → Prop} {lt : Access C → Access C → Bool}
    (h : StrictTotalOn P lt) (a b : MemberState C) (ha : P a.access) (hb : P b.access)
    (h1 : better lt a b) : ¬ better lt b a := by
  unfold better at *
  intro h2
  rcases h1 with h1 | ⟨e1, h1 | ⟨e2, h1⟩⟩
  · rcases h2 with h2 | ⟨e, _⟩ <;> omega
  · rcases h2 with h2 | ⟨e, h2 | ⟨e', _⟩⟩ <;> omega
  · rcases h2 with h2 | ⟨e, h2 | ⟨e', h2⟩⟩
    · omega
    · omega
    · have := lt_asymm h _ _ ha hb h1
      rw [this] at h2
      exact absurd h2 (by simp)

private theorem better_total {P : Access C → Prop} {lt : Access C → Access C → Bool}
    (h : StrictTotalOn P lt) (a b : MemberState C) (ha : P a.access) (hb : P b.access)
    (h1 : ¬ better lt a b) (h2 : ¬ better lt b a) : a = b := by
  obtain ⟨amc, aacc, aac⟩ := a
  obtain ⟨bmc, bacc, bac⟩ := b
  unfold better at *
  simp only [not_or, not_and, gt_iff_lt] at h1 h2
  have e1 : amc = bmc := by omega
  subst e1
  have e2 : aac = bac := by
    have := h1.2 rfl
    have := h2.2 rfl
    omega
  subst e2
  have l1 := (h1.2 rfl).2 rfl
  have l2 := (h2.2 rfl).2 rfl
  by_cases e : aacc = bacc
  · subst e; rfl
  · rcases h.total aacc bacc ha hb e with t | t
    · exact absurd t l1
    · exact absurd t l2

private theorem better_trans {P : Access C → Prop} {lt : Access C → Access C → Bool}
    (h : StrictTotalOn P lt) (a b c : MemberState C) (ha : P a.access) (hb : P b.access)
    (hc : P c.access) (h1 : better lt a b) (h2 : better lt b c) : better lt a c := by
  unfold better at *
  rcases h1 with h1 | ⟨e1, h1 | ⟨e2, h1⟩⟩
  · rcases h2 with h2 | ⟨e, _⟩
    · left; omega
    · left; omega
  · rcases h2 with h2 | ⟨e, h2 | ⟨e', _⟩⟩
    · left; omega
    · right; exact ⟨by omega, Or.inl (by omega)⟩
    · right; exact ⟨by omega, Or.inl (by omega)⟩
  · rcases h2 with h2 | ⟨e, h2 | ⟨e', h2⟩⟩
    · left; omega
    · right; exact ⟨by omega, Or.inl (by omega)⟩
    · right
      exact ⟨by omega, Or.inr ⟨by omega, h.trans _ _ _ ha hb hc h1 h2⟩⟩

/-! ### ACI of the per-member merge -/

theorem mergeMember_comm {P : Access C → Prop} {lt : Access C → Access C → Bool}
    (h : StrictTotalOn P lt) (a b : MemberState C) (ha : P a.access) (hb : P b.access) :
    mergeMember lt a b = mergeMember lt b a := by
  rw [mergeMember_eq, mergeMember_eq]
  by_cases h1 : better lt a b
  · have h2 := better_asymm h a b ha hb h1
    simp [h1, h2]
  · by_cases h2 : better lt b a
    · simp [h1, h2]
    · have := better_total h a b ha hb h1 h2
      simp [this]

theorem mergeMember_idem (lt : Access C → Access C → Bool) (a : MemberState C) :
    mergeMember lt a a = a := by
  rw [mergeMember_eq]; split <;> rfl

theorem mergeMember_mem (lt : Access C → Access C → Bool) (a b : MemberState C) :
    mergeMember lt a b = a ∨ mergeMember lt a b = b := by
  rw [mergeMember_eq]; split
  · exact Or.inl rfl
  · exact Or.inr rfl

theorem mergeMember_assoc {P : Access C → Prop} {lt : Access C → Access C → Bool}
    (h : StrictTotalOn P lt) (a b c : MemberState C) (ha : P a.access) (hb : P b.access)
    (hc : P c.access) :
    mergeMember lt (mergeMember lt a b) c = mergeMember lt a (mergeMember lt b c) := by
  simp only [mergeMember_eq]
  by_cases hab : better lt a b <;> by_cases hbc : better lt b c <;>
    by_cases hac : better lt a c <;> simp only [hab, hbc, hac, if_true, if_false]
  · exact absurd (better_trans h a b c ha hb hc hab hbc) hac
  · -- ¬ a>b, ¬ b>c, a>c: then a = b or b > a, b = c or c > b
    by_cases hba : better lt b a
    · by_cases hcb : better lt c b
      · exact absurd hac (better_asymm h c a hc ha (better_trans h c b a hc hb ha hcb hba))
      · have := better_total h b c hb hc hbc hcb
        subst this
        exact absurd hac (better_asymm h b a hb ha hba)
    · have := better_total h a b ha hb hab hba
      subst this
      exact absurd hac hbc

/-! ### Lifting to states -/

theorem mergeOpt_comm {P : Access C → Prop} {lt : Access C → Access C → Bool}
    (h : StrictTotalOn P lt) (x y : Option (MemberState C))
    (hx : ∀ m, x = some m → P m.access) (hy : ∀ m, y = some m → P m.access) :
    mergeOpt lt x y = mergeOpt lt y x := by
  cases x with
  | none => cases y <;> rfl
  | some a =>
    cases y with
    | none => rfl
    | some b =>
      simp only [mergeOpt]
      rw [mergeMember_comm h a b (hx a rfl) (hy b rfl)]

theorem mergeOpt_P {P : Access C → Prop} (lt : Access C → Access C → Bool)
    (x y : Option (MemberState C))
    (hx : ∀ m, x = some m → P m.access) (hy : ∀ m, y = some m → P m.access) :
    ∀ m, mergeOpt lt x y = some m → P m.access := by
  intro m hm
  cases x with
  | none => exact hy m hm
  | some a =>
    cases y with
    | none => exact hx m hm
    | some b =>
      simp only [mergeOpt, Option.some.injEq] at hm
      rcases mergeMember_mem lt a b with e | e
      · rw [e] at hm; subst hm; exact hx _ rfl
      · rw [e] at hm; subst hm; exact hy _ rfl

theorem mergeOpt_assoc {P : Access C → Prop} {lt : Access C → Access C → Bool}
    (h : StrictTotalOn P lt) (x y z : Option (MemberState C))
    (hx : ∀ m, x = some m → P m.access) (hy : ∀ m, y = some m → P m.access)
    (hz : ∀ m, z = some m → P m.access) :
    mergeOpt lt (mergeOpt lt x y) z = mergeOpt lt x (mergeOpt lt y z) := by
  cases x with
  | none => cases y <;> cases z <;> rfl
  | some a =>
    cases y with
    | none => cases z <;> rfl
    | some b =>
      cases z with
      | none => rfl
      | some c =>
        simp only [mergeOpt]
        rw [mergeMember_assoc h a b c (hx a rfl) (hy b rfl) (hz c rfl)]

theorem allAcc_merge {P : Access C → Prop} (lt : Access C → Access C → Bool)
    (s1 s2 : State K C) (h1 : WF s1) (hp1 : AllAcc P s1) (hp2 : AllAcc P s2) :
    AllAcc P (merge lt s1 s2) := by
  intro k m hm
  rw [get?_merge lt s1 s2 h1] at hm
  exact mergeOpt_P lt _ _ (fun m h => hp1 k m h) (fun m h => hp2 k m h) m hm

/-! ## Property theorems -/

/-- **Commutativity** for every tie-break that is a strict total order on the accesses that occur. -/
theorem c32_comm {P : Access C → Prop} {lt : Access C → Access C → Bool}
    (h : StrictTotalOn P lt) (a b : State K C) (wa : WF a) (wb : WF b)
    (pa : AllAcc P a) (pb : AllAcc P b) :
    MapEq (merge lt a b) (merge lt b a) := by
  intro k
  rw [get?_merge lt a b wa, get?_merge lt b a wb]
  exact mergeOpt_comm h _ _ (fun m hm => pa k m hm) (fun m hm => pb k m hm)

/-- **Associativity**. -/
theorem c32_assoc {P : Access C → Prop} {lt : Access C → Access C → Bool}
    (h : StrictTotalOn P lt) (a b c : State K C) (wa : WF a) (wb : WF b)
    (pa : AllAcc P a) (pb : AllAcc P b) (pc : AllAcc P c) :
    MapEq (merge lt (merge lt a b) c) (merge lt a (merge lt b c)) := by
  intro k
  rw [get?_merge lt _ c (wf_merge lt a b wb), get?_merge lt a b wa, get?_merge lt a _ wa,
    get?_merge lt b c wb]
  exact mergeOpt_assoc h _ _ _ (fun m hm => pa k m hm) (fun m hm => pb k m hm)
    (fun m hm => pc k m hm)

/-- **Idempotence** (no hypothesis on the tie-break at all). -/
theorem c32_idem (lt : Access C → Access C → Bool) (a : State K C) (wa : WF a) :
    MapEq (merge lt a a) a := by
  intro k
  rw [get?_merge lt a a wa]
  cases get? a k with
  | none => rfl
  | some m => simp [mergeOpt, mergeMember_idem]

/-- Merging keeps the result a well-formed map, so the laws chain. -/
theorem c32_wf (lt : Access C → Access C → Bool) (a b : State K C) (wb : WF b) :
    WF (merge lt a b) := wf_merge lt a b wb

/-- `c32_aci`: for a strict total tie-break, `merge` is commutative, associative and idempotent
    on all (well-formed) states — any key type, any number of members, any counters. -/
theorem c32_aci {lt : Access C → Access C → Bool} (h : StrictTotalOn (fun _ => True) lt)
    (a b c : State K C) (wa : WF a) (wb : WF b) :
    MapEq (merge lt a b) (merge lt b a)
    ∧ MapEq (merge lt (merge lt a b) c) (merge lt a (merge lt b c))
    ∧ MapEq (merge lt a a) a :=
  ⟨c32_comm h a b wa wb (fun _ _ _ => trivial) (fun _ _ _ => trivial),
   c32_assoc h a b c wa wb (fun _ _ _ => trivial) (fun _ _ _ => trivial) (fun _ _ _ => trivial),
   c32_idem lt a wa⟩

/-- The repaired tie-break is a strict total order on *all* accesses whenever the conditions
    type is linearly ordered — `c32_aci` therefore applies to the repaired code for `C = ()`
    and every totally ordered `C`. -/
theorem c32_repaired_lt_total {cmpC : C → C → Option Ordering} (hc : LinearCmp cmpC) :
    StrictTotalOn (fun _ => True) (accessLtFix cmpC) := by
  refine ⟨?_, ?_, ?_⟩
  · intro a _
    obtain ⟨ac, al⟩ := a
    unfold accessLtFix
    simp only [Nat.compare_eq_eq.2 rfl]
    cases ac with
    | none => rfl
    | some x => exact hc.irrefl x
  · intro a b c _ _ _ h1 h2
    obtain ⟨ac, al⟩ := a
    obtain ⟨bc, bl⟩ := b
    obtain ⟨cc, cl⟩ := c
    unfold accessLtFix at *
    simp only at *
    rcases Nat.lt_trichotomy al bl with g1 | g1 | g1
    · rcases Nat.lt_trichotomy bl cl with g2 | g2 | g2
      · rw [Nat.compare_eq_lt.2 (by omega)]
      · subst g2; rw [Nat.compare_eq_lt.2 g1]
      · rw [Nat.compare_eq_gt.2 g2] at h2; exact absurd h2 (by simp)
    · subst g1
      rcases Nat.lt_trichotomy al cl with g2 | g2 | g2
      · rw [Nat.compare_eq_lt.2 g2]
      · subst g2
        simp only [Nat.compare_eq_eq.2 rfl] at *
        cases ac with
        | none => simp at h1
        | some x =>
          cases bc with
          | none => simp at h2
          | some y =>
            cases cc with
            | none => rfl
            | some z => exact hc.trans x y z h1 h2
      · rw [Nat.compare_eq_gt.2 g2] at h2; exact absurd h2 (by simp)
    · rw [Nat.compare_eq_gt.2 g1] at h1; exact absurd h1 (by simp)
  · intro a b _ _ hne
    obtain ⟨ac, al⟩ := a
    obtain ⟨bc, bl⟩ := b
    unfold accessLtFix
    simp only
    rcases Nat.lt_trichotomy al bl with g1 | g1 | g1
    · left; rw [Nat.compare_eq_lt.2 g1]
    · subst g1
      simp only [Nat.compare_eq_eq.2 rfl]
      cases ac with
      | none =>
        cases bc with
        | none => exact absurd rfl hne
        | some y => right; rfl
      | some x =>
        cases bc with
        | none => left; rfl
        | some y =>
          have : x ≠ y := by intro e; subst e; exact hne rfl
          exact hc.total x y this
    · right; rw [Nat.compare_eq_lt.2 g1]

/-- ACI of the repaired `state::merge` for every linearly ordered conditions type. -/
theorem c32_repaired_aci {cmpC : C → C → Option Ordering} (hc : LinearCmp cmpC)
    (a b c : State K C) (wa : WF a) (wb : WF b) :
    MapEq (merge (accessLtFix cmpC) a b) (merge (accessLtFix cmpC) b a)
    ∧ MapEq (merge (accessLtFix cmpC) (merge (accessLtFix cmpC) a b) c)
        (merge (accessLtFix cmpC) a (merge (accessLtFix cmpC) b c))
    ∧ MapEq (merge (accessLtFix cmpC) a a) a :=
  c32_aci (c32_repaired_lt_total hc) a b c wa wb

/-- Restricted to accesses without conditions, the original `Access::<` is the level order —
    a strict total order there; so on the pinned tree ACI already holds for states that carry
    no conditions (`c32_comm` / `c32_assoc` with `P := cond = none`). -/
theorem c32_orig_no_conditions (cmpC : C → C → Option Ordering) :
    StrictTotalOn (fun a => a.cond = none) (accessLtOrig cmpC)
    ∧ ∀ a b : Access C, a.cond = none → b.cond = none →
        accessLtOrig cmpC a b = decide (a.level < b.level) := by
  have key : ∀ a b : Access C, a.cond = none → b.cond = none →
      accessLtOrig cmpC a b = decide (a.level < b.level) := by
    intro a b ha hb
    obtain ⟨ac, al⟩ := a
    obtain ⟨bc, bl⟩ := b
    simp only at ha hb
    subst ha; subst hb
    unfold accessLtOrig accessPcmp
    simp only
    rcases Nat.lt_trichotomy al bl with g | g | g
    · simp [Nat.compare_eq_lt.2 g, g]
    · subst g; simp
    · have : ¬ al < bl := by omega
      simp [Nat.compare_eq_gt.2 g, this]
  refine ⟨⟨?_, ?_, ?_⟩, key⟩
  · intro a ha; rw [key a a ha ha]; simp
  · intro a b c ha hb hc h1 h2
    rw [key a b ha hb] at h1; rw [key b c hb hc] at h2; rw [key a c ha hc]
    simp only [decide_eq_true_eq] at *
    omega
  · intro a b ha hb hne
    rw [key a b ha hb, key b a hb ha]
    simp only [decide_eq_true_eq]
    obtain ⟨ac, al⟩ := a
    obtain ⟨bc, bl⟩ := b
    simp only at ha hb
    subst ha; subst hb
    have : al ≠ bl := by intro e; subst e; exact hne rfl
    simp only
    omega

/-- ACI on the pinned tree for states without conditions. -/
theorem c32_orig_aci_no_conditions (cmpC : C → C → Option Ordering)
    (a b c : State K C) (wa : WF a) (wb : WF b)
    (pa : AllAcc (fun x => x.cond = none) a) (pb : AllAcc (fun x => x.cond = none) b)
    (pc : AllAcc (fun x => x.cond = none) c) :
    MapEq (merge (accessLtOrig cmpC) a b) (merge (accessLtOrig cmpC) b a)
    ∧ MapEq (merge (accessLtOrig cmpC) (merge (accessLtOrig cmpC) a b) c)
        (merge (accessLtOrig cmpC) a (merge (accessLtOrig cmpC) b c)) :=
  ⟨c32_comm (c32_orig_no_conditions cmpC).1 a b wa wb pa pb,
   c32_assoc (c32_orig_no_conditions cmpC).1 a b c wa wb pa pb pc⟩

/-! ### The defect of the pinned tree -/

/-- `u8::partial_cmp` / derived `PartialOrd` of a newtype over it. -/
def natCmp (x y : Nat) : Option Ordering := some (compare x y)

theorem natCmp_linear : LinearCmp natCmp := by
  refine ⟨?_, ?_, ?_⟩
  · intro x; simp [condLt, natCmp]
  · intro x y z h1 h2
    unfold condLt natCmp at *
    have a : x < y := by
      rcases Nat.lt_trichotomy x y with g | g | g
      · exact g
      · subst g; simp at h1
      · simp [Nat.compare_eq_gt.2 g] at h1
    have b : y < z := by
      rcases Nat.lt_trichotomy y z with g | g | g
      · exact g
      · subst g; simp at h2
      · simp [Nat.compare_eq_gt.2 g] at h2
    simp [Nat.compare_eq_lt.2 (Nat.lt_trans a b)]
  · intro x y hne
    unfold condLt natCmp
    rcases Nat.lt_trichotomy x y with g | g | g
    · left; simp [Nat.compare_eq_lt.2 g]
    · exact absurd g hne
    · right; simp [Nat.compare_eq_lt.2 g]

/-- The full statement for the original tie-break; false on the pinned tree. -/
def OrigCommStatement : Prop :=
  ∀ a b : State Nat Nat, WF a → WF b →
    MapEq (merge (accessLtOrig natCmp) a b) (merge (accessLtOrig natCmp) b a)

private def rd : Access Nat := { cond := none, level := lvlRead }
private def rdc : Access Nat := { cond := some 0, level := lvlRead }
private def sA : State Nat Nat := [(0, { mc := 1, access := rd, ac := 0 })]
private def sB : State Nat Nat := [(0, { mc := 1, access := rdc, ac := 0 })]

/-- The confirmed experiment: `a = (None, Read)`, `b = (Some c, Read)`, equal counters — neither
    is `<` the other although they differ, so each merge keeps its second argument; and
    `(Some 5, Read)`, `(Some 3, Write)` are each `<` the other. -/
theorem c32_orig_violates :
    ¬ OrigCommStatement
    ∧ get? (merge (accessLtOrig natCmp) sA sB) 0 ≠ get? (merge (accessLtOrig natCmp) sB sA) 0
    ∧ (accessLtOrig natCmp ⟨some 5, lvlRead⟩ ⟨some 3, lvlWrite⟩ = true
        ∧ accessLtOrig natCmp ⟨some 3, lvlWrite⟩ ⟨some 5, lvlRead⟩ = true)
    ∧ (accessLtOrig natCmp rd rdc = false ∧ accessLtOrig natCmp rdc rd = false ∧ rd ≠ rdc) := by
  refine ⟨?_, by decide, by decide, by decide⟩
  intro h
  have := h sA sB (by decide) (by decide) 0
  revert this
  decide

/-- Not associative either on the pinned tree (cyclic `<`). -/
theorem c32_orig_not_assoc :
    ∃ a b c : State Nat Nat, WF a ∧ WF b ∧ WF c ∧
      get? (merge (accessLtOrig natCmp) (merge (accessLtOrig natCmp) a b) c) 0
        ≠ get? (merge (accessLtOrig natCmp) a (merge (accessLtOrig natCmp) b c)) 0 := by
  refine ⟨[(0, ⟨1, ⟨none, lvlRead⟩, 0⟩)], [(0, ⟨1, ⟨some 3, lvlWrite⟩, 0⟩)],
    [(0, ⟨1, ⟨some 5, lvlRead⟩, 0⟩)], by decide, by decide, by decide, by decide⟩

/-! ## Tie to the current source text (regenerated into `P2/Extracted/C32.lean` on every run) -/

/-- The model of the loop body of `state::merge` *is* the Rust block: `mergeMemberT` is produced by
    symbolic execution (rs2lean) of the three sequential `if`s found in `state.rs` now. A changed
    comparison operator, a dropped or added assignment, another tie-break call or argument order changes
    the generated term and this theorem no longer checks. -/
theorem c32_merge_is_source (lt : Access C → Access C → Bool) (m1 m : MemberState C) :
    ((mergeMember lt m1 m).mc, (mergeMember lt m1 m).access, (mergeMember lt m1 m).ac)
      = P2.Extracted.C32.mergeMemberT lt m1.mc m1.ac m1.access m.mc m.ac m.access := by
  obtain ⟨amc, aacc, aac⟩ := m1
  obtain ⟨bmc, bacc, bac⟩ := m
  unfold mergeMember P2.Extracted.C32.mergeMemberT
  simp only
  rcases Nat.lt_trichotomy amc bmc with h | h | h
  · have h1 : ¬ amc > bmc := by omega
    have h2 : ¬ amc = bmc := by omega
    simp [h1, h2]
  · subst h
    simp only [gt_iff_lt, Nat.lt_irrefl, if_false, if_true]
    rcases Nat.lt_trichotomy aac bac with g | g | g
    · have g1 : ¬ bac < aac := by omega
      have g2 : ¬ aac = bac := by omega
      simp [g1, g2]
    · subst g
      by_cases hl : lt aacc bacc = true <;> simp [hl]
    · have g2 : ¬ aac = bac := by omega
      simp [g]
  · have h2 : ¬ amc = bmc := by omega
    simp [h]

/-- The frame around the three `if`s: start from `state_2`, iterate `state_1`, insert absent members. -/
theorem c32_merge_frame_is_source :
    (P2.Extracted.C32.mergeStart, P2.Extracted.C32.mergeLoop, P2.Extracted.C32.mergeAbsent)
      = ("state_2.clone()", "(id, member_state_1) in state_1.members",
         "next_state.members.insert(id, member_state_1)") := by decide

/-- The repaired tie-break of the model *is* `merge_tie_break_less` as written in `state.rs` now
    (`tieBreakT`: its nested `match`, translated arm by arm). -/
theorem c32_tie_break_is_source (cmpC : C → C → Option Ordering) (a b : Access C) :
    accessLtFix cmpC a b = P2.Extracted.C32.tieBreakT (condLt cmpC) a.level b.level a.cond b.cond := by
  unfold accessLtFix P2.Extracted.C32.tieBreakT
  cases compare a.level b.level <;> simp only
  cases a.cond <;> cases b.cond <;> rfl

/-! ### Non-vacuity -/

/-- The repaired merge on the failing pair now commutes (and picks the conditioned access). -/
example : get? (merge (accessLtFix natCmp) sA sB) 0 = get? (merge (accessLtFix natCmp) sB sA) 0
    ∧ get? (merge (accessLtFix natCmp) sA sB) 0 = some { mc := 1, access := rdc, ac := 0 } := by
  decide

/-- A two-member instance with different counters: hypotheses of `c32_repaired_aci` hold. -/
example : WF ([(0, ⟨1, rd, 0⟩), (1, ⟨2, rdc, 1⟩)] : State Nat Nat)
    ∧ WF ([(1, ⟨2, ⟨some 1, lvlWrite⟩, 1⟩), (2, ⟨3, rd, 0⟩)] : State Nat Nat) := by decide

example : LinearCmp natCmp := natCmp_linear

/-- `C = ()`: `partial_cmp` is constantly `Some(Equal)`. -/
example : LinearCmp (fun (_ _ : Unit) => some Ordering.eq) :=
  ⟨fun _ => rfl, fun _ _ _ h => by simp [condLt] at h, fun x y h => absurd rfl h⟩

end P2.C32
