/-
C17 — An ephemeral subscription never stalls on invalid messages.
Property theorems (namespace `P2.C17`) about the poll-level transition system of
`P2/Model/EphSub.lean`: all interleavings of pushes (valid / invalid items, overrunning the ring
= lagged), close and scheduled polls — any finite schedule, any channel capacity.
-/
import P2.Model.EphSub
import P2.Extracted.C17

namespace P2.C17
open P2.EphSub

/-! ### reachability over all schedules -/

/-- One transition of the repaired system / of the pinned tree's system. -/
def Step (s t : St) : Prop := ∃ a, step s a = some t
def StepOrig (s t : St) : Prop := ∃ a, stepOrig s a = some t

/-- States reachable from `init cap` under any finite schedule of enabled actions. -/
inductive Reach (cap : Nat) : St → Prop where
  | init : Reach cap (init cap)
  | step {s t : St} : Reach cap s → Step s t → Reach cap t

inductive ReachOrig (cap : Nat) : St → Prop where
  | init : ReachOrig cap (init cap)
  | step {s t : St} : ReachOrig cap s → StepOrig s t → ReachOrig cap t

/-- Running a schedule (list of actions), `none` if some action was not enabled. -/
def runSched (stepf : St → Action → Option St) : St → List Action → Option St
  | s, [] => some s
  | s, a :: as => match stepf s a with
    | some s' => runSched stepf s' as
    | none => none

theorem reach_of_runSched (cap : Nat) (as : List Action) (s t : St) (hs : Reach cap s)
    (h : runSched step s as = some t) : Reach cap t := by
  induction as generalizing s with
  | nil => simp [runSched] at h; subst h; exact hs
  | cons a as ih =>
    simp only [runSched] at h
    cases hst : step s a with
    | none => simp [hst] at h
    | some s' =>
      simp only [hst] at h
      exact ih s' (Reach.step hs ⟨a, hst⟩) h

/-! ### the stall predicate -/

/-- The task is idle: not scheduled (nobody will poll it) and the stream has not ended. -/
def Idle (s : St) : Prop := s.scheduled = false ∧ s.done = false

/-- A stall: the task is idle although the channel still holds something for it — a valid message
    (`valids s.queue ≠ []`), or anything at all — and no waker is registered that a later event
    would fire. The property forbids the first; the invariant below excludes all of it. -/
def Stalled (s : St) : Prop := Idle s ∧ valids s.queue ≠ []

/-- The invariant of the repaired system: an idle task has seen the channel empty and left its waker
    there (so the next push or close wakes it). -/
def Inv (s : St) : Prop :=
  Idle s → s.queue = [] ∧ s.lag = false ∧ s.wakerSet = true ∧ s.closed = false

/-! ### facts about the inner poll and the repaired loop -/

/-- Size of what the inner stream still has to hand out. -/
def pendingWork (s : St) : Nat := s.queue.length + (if s.lag then 1 else 0)

/-- What a completed outer poll guarantees (pre-state `s`, outcome `o`, post-state `t`). -/
def PollSpec (s : St) (o : Out) (t : St) : Prop :=
  t.scheduled = s.scheduled ∧ t.done = s.done ∧ t.closed = s.closed ∧ t.yielded = s.yielded ∧
  (match o with
   | .ready id => ∃ pre, valids pre = [] ∧ s.queue = pre ++ .valid id :: t.queue ∧ t.lag = false
   | .pending => valids s.queue = [] ∧ t.queue = [] ∧ t.lag = false ∧ t.wakerSet = true ∧ s.closed = false
   | .ended => valids s.queue = [] ∧ t.queue = [] ∧ t.lag = false ∧ s.closed = true)

private theorem spec_of_lag (s : St) (o : Out) (t : St) (h : PollSpec { s with lag := false } o t) :
    PollSpec s o t := by
  obtain ⟨h1, h2, h3, h4, h5⟩ := h
  exact ⟨h1, h2, h3, h4, by cases o <;> exact h5⟩

private theorem spec_of_invalid (s : St) (q : List Item) (hq : s.queue = .invalid :: q) (o : Out) (t : St)
    (h : PollSpec { s with queue := q } o t) : PollSpec s o t := by
  obtain ⟨h1, h2, h3, h4, h5⟩ := h
  refine ⟨h1, h2, h3, h4, ?_⟩
  cases o with
  | ready id =>
    obtain ⟨pre, hp1, hp2, hp3⟩ := h5
    refine ⟨.invalid :: pre, by simpa [valids] using hp1, ?_, hp3⟩
    simp only at hp2
    rw [hq, hp2]; rfl
  | pending =>
    obtain ⟨a, b, c, d, e⟩ := h5
    exact ⟨by rw [hq]; simpa [valids] using a, b, c, d, e⟩
  | ended =>
    obtain ⟨a, b, c, d⟩ := h5
    exact ⟨by rw [hq]; simpa [valids] using a, b, c, d⟩

private theorem pollCoreFuel_spec (fuel : Nat) (s : St) (hf : pendingWork s + 1 ≤ fuel) :
    PollSpec s (pollCoreFuel fuel s).1 (pollCoreFuel fuel s).2 := by
  induction fuel generalizing s with
  | zero => simp [pendingWork] at hf
  | succ fuel ih =>
    by_cases hlag : s.lag = true
    · have hin : innerPoll s = (.lagged, { s with lag := false }) := by simp [innerPoll, hlag]
      have hf' : pendingWork { s with lag := false } + 1 ≤ fuel := by
        simp only [pendingWork, hlag, if_true] at hf; simp [pendingWork]; omega
      have hrec : pollCoreFuel (fuel + 1) s = pollCoreFuel fuel { s with lag := false } := by
        simp [pollCoreFuel, hin]
      rw [hrec]
      exact spec_of_lag s _ _ (ih _ hf')
    · have hlag' : s.lag = false := by simpa using hlag
      cases hq : s.queue with
      | nil =>
        by_cases hc : s.closed = true
        · have hin : innerPoll s = (.ended, s) := by simp [innerPoll, hlag', hq, hc]
          have hrec : pollCoreFuel (fuel + 1) s = (.ended, s) := by simp [pollCoreFuel, hin]
          rw [hrec]
          exact ⟨rfl, rfl, rfl, rfl, by simp [hq, valids, hlag', hc]⟩
        · have hc' : s.closed = false := by simpa using hc
          have hin : innerPoll s = (.pending, { s with wakerSet := true }) := by
            simp [innerPoll, hlag', hq, hc']
          have hrec : pollCoreFuel (fuel + 1) s = (.pending, { s with wakerSet := true }) := by
            simp [pollCoreFuel, hin]
          rw [hrec]
          exact ⟨rfl, rfl, rfl, rfl, by simp [hq, valids, hlag', hc']⟩
      | cons i q =>
        have hin : innerPoll s = (.item i, { s with queue := q }) := by simp [innerPoll, hlag', hq]
        cases i with
        | valid id =>
          have hrec : pollCoreFuel (fuel + 1) s = (.ready id, { s with queue := q }) := by
            simp [pollCoreFuel, hin]
          rw [hrec]
          exact ⟨rfl, rfl, rfl, rfl, ⟨[], rfl, by simp [hq], hlag'⟩⟩
        | invalid =>
          have hrec : pollCoreFuel (fuel + 1) s = pollCoreFuel fuel { s with queue := q } := by
            simp [pollCoreFuel, hin]
          have hf' : pendingWork { s with queue := q } + 1 ≤ fuel := by
            simp only [pendingWork, hq, hlag', List.length_cons] at hf ⊢; simp at hf ⊢; omega
          rw [hrec]
          exact spec_of_invalid s q hq _ _ (ih _ hf')

theorem pollCore_spec (s : St) : PollSpec s (pollCore s).1 (pollCore s).2 := by
  unfold pollCore
  apply pollCoreFuel_spec
  unfold pendingWork; split <;> omega

/-- Unfolding of an enabled scheduled poll. -/
theorem pollWith_some (core : St → Out × St) (s t : St) (h : pollWith core s = some t) :
    s.scheduled = true ∧ s.done = false ∧
    t = afterPoll (core { s with scheduled := false, polls := s.polls + 1 }).2
          (core { s with scheduled := false, polls := s.polls + 1 }).1 := by
  unfold pollWith at h
  by_cases hen : s.scheduled = true ∧ ¬ s.done = true
  · rw [if_pos hen] at h
    injection h with h
    exact ⟨hen.1, by simpa using hen.2, h.symm⟩
  · rw [if_neg hen] at h; cases h

private theorem inv_afterPoll (s0 : St) (o : Out) (t1 : St)
    (hspec : PollSpec s0 o t1) : Inv (afterPoll t1 o) := by
  obtain ⟨h1, h2, h3, h4, h5⟩ := hspec
  cases o with
  | ready id => intro hidle; simp [afterPoll, Idle] at hidle
  | ended => intro hidle; simp [afterPoll, Idle] at hidle
  | pending =>
    obtain ⟨_, hq, hl, hw, hcl⟩ := h5
    intro _
    exact ⟨hq, hl, hw, by rw [show (afterPoll t1 Out.pending).closed = t1.closed from rfl, h3]; exact hcl⟩

private theorem progress_afterPoll (s0 : St) (o : Out) (t1 : St) (hsch : s0.scheduled = false)
    (hspec : PollSpec s0 o t1) :
    (∃ id pre, valids pre = [] ∧ s0.queue = pre ++ .valid id :: (afterPoll t1 o).queue ∧
        (afterPoll t1 o).yielded = s0.yielded ++ [id] ∧ (afterPoll t1 o).scheduled = true ∧
        (afterPoll t1 o).lag = false ∧ (afterPoll t1 o).done = s0.done) ∨
    (valids s0.queue = [] ∧ (afterPoll t1 o).queue = [] ∧ (afterPoll t1 o).yielded = s0.yielded ∧
        (afterPoll t1 o).scheduled = false) := by
  obtain ⟨h1, h2, h3, h4, h5⟩ := hspec
  cases o with
  | ready id =>
    obtain ⟨pre, hp1, hp2, hp3⟩ := h5
    left
    exact ⟨id, pre, hp1, hp2, by simp [afterPoll, h4], rfl, hp3, h2⟩
  | pending =>
    obtain ⟨hv, hq, _, _, _⟩ := h5
    right
    exact ⟨hv, hq, h4, by rw [show (afterPoll t1 Out.pending).scheduled = t1.scheduled from rfl, h1, hsch]⟩
  | ended =>
    obtain ⟨hv, hq, _, _⟩ := h5
    right
    exact ⟨hv, hq, h4, by rw [show (afterPoll t1 Out.ended).scheduled = t1.scheduled from rfl, h1, hsch]⟩

/-! ### the invariant holds along every schedule -/

private theorem inv_wake (s : St) (h : Inv s) : Inv (wake s) := by
  unfold wake
  by_cases hw : s.wakerSet = true
  · simp only [hw, if_true]; intro hidle; simp [Idle] at hidle
  · simp only [hw]; exact h

theorem inv_init (cap : Nat) : Inv (init cap) := by
  intro h; simp [Idle, init] at h

theorem inv_step (s t : St) (hI : Inv s) (hst : Step s t) : Inv t := by
  obtain ⟨a, ha⟩ := hst
  cases a with
  | push i =>
    simp only [step, stepWith] at ha
    by_cases hc : s.closed = true
    · simp [hc] at ha
    · simp only [hc] at ha
      injection ha with ha; subst ha
      unfold push wake
      -- whichever branch: if the waker was set the task becomes scheduled, otherwise it was not idle
      intro hidle
      by_cases hw : s.wakerSet = true
      · exfalso; revert hidle; split <;> simp [Idle, hw]
      · have hnot : ¬ Idle s := by
          intro hid; have := hI hid; exact hw this.2.2.1
        exfalso; apply hnot
        revert hidle; split <;> simp [Idle, hw]
  | close =>
    simp only [step, stepWith] at ha
    by_cases hc : s.closed = true
    · simp [hc] at ha
    · simp only [hc] at ha
      injection ha with ha; subst ha
      unfold close wake
      intro hidle
      by_cases hw : s.wakerSet = true
      · exfalso; revert hidle; simp [Idle, hw]
      · have hnot : ¬ Idle s := by
          intro hid; have := hI hid; exact hw this.2.2.1
        exfalso; apply hnot
        revert hidle; simp [Idle, hw]
  | poll =>
    obtain ⟨_, _, rfl⟩ := pollWith_some pollCore s t ha
    exact inv_afterPoll _ _ _ (pollCore_spec _)

/-- **C17 (invariant)**: in every state reachable under any schedule, an idle task has an empty
    channel behind it and its waker registered. -/
theorem c17_inv_reach (cap : Nat) (s : St) (h : Reach cap s) : Inv s := by
  induction h with
  | init => exact inv_init cap
  | step _ hst ih => exact inv_step _ _ ih hst

/-- **C17 (no stall)**: no reachable state of the repaired system has a valid message queued while
    the task is idle — for every capacity and every interleaving of valid, invalid and lagged items. -/
theorem c17_no_stall (cap : Nat) (s : St) (h : Reach cap s) : ¬ Stalled s := by
  rintro ⟨hidle, hv⟩
  have := c17_inv_reach cap s h hidle
  apply hv; rw [this.1]; rfl

/-- … and whatever arrives next wakes it: an idle reachable task has its waker registered. -/
theorem c17_idle_will_wake (cap : Nat) (s : St) (h : Reach cap s) (hidle : Idle s) (i : Item) :
    (push s i).scheduled = true := by
  have hinv := c17_inv_reach cap s h hidle
  unfold push wake
  split <;> simp [hinv.2.2.1]

/-! ### liveness: the queued valid messages are yielded after finitely many polls -/

/-- One scheduled poll of the repaired system either yields the first valid message of the queue
    (skipping only invalid / lagged items) or finds no valid message left. -/
theorem c17_poll_progress (s s' : St) (h : poll s = some s') :
    (∃ id pre, valids pre = [] ∧ s.queue = pre ++ .valid id :: s'.queue ∧
        s'.yielded = s.yielded ++ [id] ∧ s'.scheduled = true ∧ s'.lag = false ∧ s'.done = s.done) ∨
    (valids s.queue = [] ∧ s'.queue = [] ∧ s'.yielded = s.yielded ∧ s'.scheduled = false) := by
  obtain ⟨_, _, rfl⟩ := pollWith_some pollCore s s' h
  exact progress_afterPoll { s with scheduled := false, polls := s.polls + 1 } _ _ rfl (pollCore_spec _)

private theorem valids_append (a b : List Item) : valids (a ++ b) = valids a ++ valids b := by
  induction a with
  | nil => rfl
  | cons x xs ih => cases x <;> simp [valids, ih]

/-- **C17 (eventually yielded)**: from any state in which the task is scheduled (and the stream not
    ended), with no further events, running the executor yields *all* valid messages of the queue,
    in order, within `(number of valid messages) + 1` polls — no matter how many invalid or lagged
    items sit in between. -/
theorem c17_eventually (n : Nat) (s : St) (hs : s.scheduled = true) (hd : s.done = false)
    (hn : (valids s.queue).length = n) :
    (runExec (n + 1) s).yielded = s.yielded ++ valids s.queue ∧
    valids (runExec (n + 1) s).queue = [] := by
  induction n generalizing s with
  | zero =>
    have hv : valids s.queue = [] := List.eq_nil_of_length_eq_zero hn
    cases hp : poll s with
    | none => simp [poll, pollWith, hs, hd] at hp
    | some s' =>
      have hrun : runExec (0 + 1) s = s' := by
        simp only [runExec, runExecWith]
        rw [show pollWith pollCore s = some s' from hp]
      rw [hrun]
      rcases c17_poll_progress s s' hp with ⟨id, pre, _, hq, _⟩ | ⟨_, hq, hy, _⟩
      · rw [hq, valids_append] at hv; simp [valids] at hv
      · simp [hv, hy, hq, valids]
  | succ n ih =>
    cases hp : poll s with
    | none => simp [poll, pollWith, hs, hd] at hp
    | some s' =>
      have hrun : runExec (n + 1 + 1) s = runExec (n + 1) s' := by
        simp only [runExec, runExecWith]
        rw [show pollWith pollCore s = some s' from hp]
      rw [hrun]
      rcases c17_poll_progress s s' hp with ⟨id, pre, hpre, hq, hy, hsch, _, hdone⟩ | ⟨hv, _, _, _⟩
      · have hvq : valids s.queue = id :: valids s'.queue := by
          rw [hq, valids_append, hpre]; simp [valids]
        have hn' : (valids s'.queue).length = n := by rw [hvq] at hn; simpa using hn
        have := ih s' hsch (by rw [hdone, hd]) hn'
        refine ⟨?_, this.2⟩
        rw [this.1, hy, hvq]; simp
      · rw [hv] at hn; simp at hn

/-- **C17 (any run length)**: however long the run of invalid (or lagged-over) items buffered in front of
    a valid message is — `pre` is an arbitrary list without valid items, no bound on its length — a
    *single* scheduled poll of the repaired code skips all of it and yields that message. (Also a
    consequence of `c17_eventually` with `n = 1`; stated separately because a per-poll skip budget is
    exactly what would break it.) -/
theorem c17_any_run_length (s : St) (pre : List Item) (id : Nat) (hs : s.scheduled = true)
    (hd : s.done = false) (hq : s.queue = pre ++ [.valid id]) (hpre : valids pre = []) :
    ∃ s', poll s = some s' ∧ s'.yielded = s.yielded ++ [id] ∧ valids s'.queue = [] := by
  cases hp : poll s with
  | none => simp [poll, pollWith, hs, hd] at hp
  | some s' =>
    refine ⟨s', rfl, ?_⟩
    have hv : valids s.queue = [id] := by rw [hq, valids_append, hpre]; simp [valids]
    rcases c17_poll_progress s s' hp with ⟨id', pre', hpre', hq', hy, _, _, _⟩ | ⟨hv', _, _, _⟩
    · have h2 : valids s.queue = id' :: valids s'.queue := by
        rw [hq', valids_append, hpre']; simp [valids]
      rw [hv] at h2
      injection h2 with h3 h4
      subst h3
      exact ⟨hy, h4.symm⟩
    · rw [hv] at hv'; cases hv'

/-! ### the pinned tree stalls -/

/-- **The pinned tree violates C17**: queue `[invalid, valid 0]`, one scheduled poll → the outer poll
    returns `Pending`, the task is idle, no waker is registered and the valid message is still queued. -/
theorem c17_orig_violates :
    ∃ s, ReachOrig 4 s ∧ Stalled s ∧ s.wakerSet = false := by
  refine ⟨{ cap := 4, queue := [.valid 0], lag := false, closed := false, wakerSet := false,
            scheduled := false, done := false, yielded := [], polls := 1, wakes := 0 }, ?_, ?_, rfl⟩
  · have h1 : ReachOrig 4 (push (init 4) .invalid) :=
      ReachOrig.step ReachOrig.init ⟨.push .invalid, by rfl⟩
    have h2 : ReachOrig 4 (push (push (init 4) .invalid) (.valid 0)) :=
      ReachOrig.step h1 ⟨.push (.valid 0), by rfl⟩
    exact ReachOrig.step h2 ⟨.poll, by decide⟩
  · exact ⟨⟨rfl, rfl⟩, by decide⟩

/-- Same for a lagged item: capacity 1, two valid messages pushed (the first is overwritten), one
    poll → `Pending` with the second message still queued. -/
theorem c17_orig_violates_lagged :
    ∃ s, runSched stepOrig (init 1) [.push (.valid 0), .push (.valid 1), .poll] = some s ∧
      Stalled s ∧ s.wakerSet = false := by
  refine ⟨{ cap := 1, queue := [.valid 1], lag := false, closed := false, wakerSet := false,
            scheduled := false, done := false, yielded := [], polls := 1, wakes := 0 }, by decide, ?_, rfl⟩
  exact ⟨⟨rfl, rfl⟩, by decide⟩

/-! ### tie to the source text (regenerated from /repo on every run by props/C17_extract.py) -/

/-- The control-flow shape of the current `poll_next` is the one `pollCore` models: an unbounded `loop`
    whose only exits are `ready!` of the inner stream's poll (inner `Pending`: waker registered), the yield of
    a valid message and the end of the stream — no hand-written `Poll::Pending`, no `break`, no skip budget
    (`for`/`while` head), nothing after the loop, no manual wake. -/
theorem c17_loop_shape :
    P2.Extracted.C17.loopHead = "loop" ∧ P2.Extracted.C17.afterLoop = "" ∧
    P2.Extracted.C17.pendingCount = 0 ∧ P2.Extracted.C17.readyMacroCount = 1 ∧
    P2.Extracted.C17.innerPolled = "self.inner.poll_next_unpin(cx)" ∧
    P2.Extracted.C17.wakeCalls = 0 ∧ P2.Extracted.C17.breakCount = 0 ∧
    P2.Extracted.C17.returnsInLoop =
      ["Poll::Ready(Some(EphemeralMessage{topic:self.topic,inner:wrapped,}))", "Poll::Ready(None)"] := by
  decide

/-! ### non-vacuity: the same schedules on the repaired system -/

example : (runSched step (init 4) [.push .invalid, .push (.valid 0), .poll]).map (·.yielded) = some [0] := by
  decide
example : (runSched step (init 1) [.push (.valid 0), .push (.valid 1), .poll]).map (·.yielded) = some [1] := by
  decide
example : (runExec 3 ((push (push (push (init 8) .invalid) (.valid 0)) .invalid) |> (push · (.valid 1)))).yielded
    = [0, 1] := by decide
example : Reach 4 (push (push (init 4) .invalid) (.valid 0)) :=
  Reach.step (Reach.step Reach.init ⟨.push .invalid, by rfl⟩) ⟨.push (.valid 0), by rfl⟩

example : (runSched step (init 128) ((List.replicate 40 (Action.push .invalid)) ++ [.push (.valid 0), .poll])).map
    (fun s => (s.yielded, s.polls)) = some ([0], 1) := by decide

end P2.C17
