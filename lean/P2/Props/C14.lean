/-
C14 — Every pipeline submission completes with its own result.

Model: `P2/Model/Tasks.lean` (labelled transition system, any number of submitters, `pc : Nat → PC`).
Everything below is for ALL schedules: `Reach v sid s` is "s is reachable by some finite sequence of enabled
actions", for an arbitrary assignment `sid` of operation ids to submitters (equal ids allowed).
-/
import P2.Model.Tasks
import P2.Extracted.C14

namespace P2.C14
open P2.Tasks

/-- The task ref a submitter currently holds a clone of. -/
def refOf : PC → Option Nat
  | .tracked x => some x
  | .sent x => some x
  | .gap x => some x
  | .reg x _ => some x
  | .chk x _ => some x
  | .wait x => some x
  | .woken x => some x
  | _ => none

/-- A submitter is inside `ready()` (event sent) and has not returned. -/
def inReady : PC → Bool
  | .sent _ => true
  | .gap _ => true
  | .reg _ _ => true
  | .chk _ _ => true
  | .wait _ => true
  | .woken _ => true
  | _ => false

/-- An event for operation id `i` is still in the channel or being worked on by the pipeline thread. -/
def PendingEv (q : List Res) (p : PPC) (i : Nat) : Prop :=
  (∃ e ∈ q, e.id = i) ∨ (∃ e, p = .work e ∧ e.id = i)

/-- Invariant common to both variants (typing of refs, results and events). -/
structure Inv (sid : Nat → Nat) (s : St) : Prop where
  refOk   : ∀ t x, refOf (s.pc t) = some x → x < s.next ∧ s.owner x = sid t
  tasksOk : ∀ i x, s.tasks i = some x → x < s.next ∧ s.owner x = i
  resOk   : ∀ x r, s.result x = some r → x < s.next ∧ r.id = s.owner x ∧ r.id = sid r.src
  queueOk : ∀ e, e ∈ s.queue → e.id = sid e.src
  workOk  : ∀ e, s.pipe = .work e → e.id = sid e.src
  setOk   : ∀ x e, s.pipe = .setRes x e → e.id = sid e.src ∧ s.owner x = e.id ∧ x < s.next
  doneOk  : ∀ t r, s.pc t = .done r → r.id = sid t ∧ r.id = sid r.src
  /-- a live task (no result yet) is still in the tracker map, or the pipeline thread is just completing it -/
  liveOk  : ∀ x, x < s.next → s.result x = none → s.tasks (s.owner x) = some x ∨ ∃ e, s.pipe = .setRes x e
  /-- a submitter inside `ready()` on a live task that is still in the map has its event pending -/
  pendOk  : ∀ t x, inReady (s.pc t) = true → refOf (s.pc t) = some x → s.result x = none →
              s.tasks (sid t) = some x → PendingEv s.queue s.pipe (sid t)
  notifOk : ∀ x, s.pipe = .notify x → s.result x ≠ none

/-- Invariant of the repaired `Task::ready`. -/
structure InvFixed (sid : Nat → Nat) (s : St) : Prop extends Inv sid s where
  wokenOk : ∀ t x, (s.pc t = .woken x ∨ s.pc t = .reg x true ∨ s.pc t = .chk x true) → s.result x ≠ none
  waitOk  : ∀ t x, (s.pc t = .wait x ∨ s.pc t = .chk x false) → s.result x = none ∨ s.pipe = .notify x
  noGap   : ∀ t x, s.pc t ≠ .gap x
  noPanic : ∀ t, s.pc t ≠ .panicked


attribute [local grind] upd refOf inReady lockHeld PendingEv

private theorem refOf_wake (x : Nat) (p : PC) : refOf (wake x p) = refOf p := by
  cases p <;> simp only [wake] <;> (try split) <;> rfl
private theorem inReady_wake (x : Nat) (p : PC) : inReady (wake x p) = inReady p := by
  cases p <;> simp only [wake] <;> (try split) <;> rfl
private theorem wake_done (x : Nat) (p : PC) (r : Res) : wake x p = .done r ↔ p = .done r := by
  cases p <;> grind [wake]
private theorem wake_panicked (x : Nat) (p : PC) : wake x p = .panicked ↔ p = .panicked := by
  cases p <;> grind [wake]
private theorem wake_missed (x : Nat) (p : PC) : wake x p = .missed ↔ p = .missed := by
  cases p <;> grind [wake]
private theorem wake_gap (x y : Nat) (p : PC) : wake x p = .gap y ↔ p = .gap y := by
  cases p <;> grind [wake]
private theorem wake_wait (x y : Nat) (p : PC) : wake x p = .wait y ↔ p = .wait y ∧ y ≠ x := by
  cases p <;> grind [wake]
private theorem wake_woken (x y : Nat) (p : PC) : wake x p = .woken y ↔ p = .woken y ∨ (p = .wait y ∧ y = x) := by
  cases p <;> grind [wake]
private theorem wake_reg (x y : Nat) (b : Bool) (p : PC) :
    wake x p = .reg y b ↔ (p = .reg y b ∧ (y ≠ x ∨ b = true)) ∨ (p = .reg y false ∧ y = x ∧ b = true) := by
  cases p with
  | reg z n => cases n <;> cases b <;> grind [wake]
  | chk z n => cases n <;> cases b <;> grind [wake]
  | _ => grind [wake]
private theorem wake_chk (x y : Nat) (b : Bool) (p : PC) :
    wake x p = .chk y b ↔ (p = .chk y b ∧ (y ≠ x ∨ b = true)) ∨ (p = .chk y false ∧ y = x ∧ b = true) := by
  cases p with
  | reg z n => cases n <;> cases b <;> grind [wake]
  | chk z n => cases n <;> cases b <;> grind [wake]
  | _ => grind [wake]

private theorem pending_append (q : List Res) (p : PPC) (e : Res) (i : Nat) :
    PendingEv (q ++ [e]) p i ↔ PendingEv q p i ∨ e.id = i := by
  simp only [PendingEv, List.mem_append, List.mem_singleton]
  grind

theorem inv_init (sid : Nat → Nat) : InvFixed sid init := by
  refine ⟨⟨?_, ?_, ?_, ?_, ?_, ?_, ?_, ?_, ?_, ?_⟩, ?_, ?_, ?_, ?_⟩ <;> simp [init, refOf, inReady]

/-- Split an `InvFixed` goal into its clauses and discharge each with `grind`. -/
local macro "inv_close" : tactic =>
  `(tactic| (refine ⟨⟨?_, ?_, ?_, ?_, ?_, ?_, ?_, ?_, ?_, ?_⟩, ?_, ?_, ?_, ?_⟩ <;> grind))

set_option hygiene false in
local macro "step_case" : tactic =>
  `(tactic| (simp only [stepFn] at hs <;> (repeat' split at hs) <;>
    first
    | contradiction
    | (simp only [Option.some.injEq] at hs; subst hs; inv_close)))

section
variable (sid : Nat → Nat) (s s' : St) (h : InvFixed sid s)
include h

private theorem inv_track (t : Nat) (hs : stepFn .fixed sid s (.track t) = some s') : InvFixed sid s' := by
  obtain ⟨⟨h1, h2, h3, h4, h5, h6, h7, h8, h9, h10⟩, g1, g2, g3, g4⟩ := h
  step_case

private theorem inv_send (t : Nat) (hs : stepFn .fixed sid s (.send t) = some s') : InvFixed sid s' := by
  obtain ⟨⟨h1, h2, h3, h4, h5, h6, h7, h8, h9, h10⟩, g1, g2, g3, g4⟩ := h
  simp only [stepFn] at hs
  split at hs
  · simp only [Option.some.injEq] at hs; subst hs
    refine ⟨⟨?_, ?_, ?_, ?_, ?_, ?_, ?_, ?_, ?_, ?_⟩, ?_, ?_, ?_, ?_⟩
    case refine_9 =>
      intro t' x hr hx hres htk
      simp only [pending_append]
      by_cases ht : t' = t
      · subst ht; exact Or.inr rfl
      · left; apply h9 t' x <;> grind
    all_goals grind
  · contradiction

private theorem inv_check (t : Nat) (hs : stepFn .fixed sid s (.check t) = some s') : InvFixed sid s' := by
  obtain ⟨⟨h1, h2, h3, h4, h5, h6, h7, h8, h9, h10⟩, g1, g2, g3, g4⟩ := h
  step_case

private theorem inv_register (t : Nat) (hs : stepFn .fixed sid s (.register t) = some s') : InvFixed sid s' := by
  obtain ⟨⟨h1, h2, h3, h4, h5, h6, h7, h8, h9, h10⟩, g1, g2, g3, g4⟩ := h
  step_case

private theorem inv_await (t : Nat) (hs : stepFn .fixed sid s (.await t) = some s') : InvFixed sid s' := by
  obtain ⟨⟨h1, h2, h3, h4, h5, h6, h7, h8, h9, h10⟩, g1, g2, g3, g4⟩ := h
  step_case

private theorem inv_recheck (t : Nat) (hs : stepFn .fixed sid s (.recheck t) = some s') : InvFixed sid s' := by
  obtain ⟨⟨h1, h2, h3, h4, h5, h6, h7, h8, h9, h10⟩, g1, g2, g3, g4⟩ := h
  step_case

private theorem inv_recv (hs : stepFn .fixed sid s .recv = some s') : InvFixed sid s' := by
  obtain ⟨⟨h1, h2, h3, h4, h5, h6, h7, h8, h9, h10⟩, g1, g2, g3, g4⟩ := h
  step_case

private theorem inv_remove (hs : stepFn .fixed sid s .remove = some s') : InvFixed sid s' := by
  obtain ⟨⟨h1, h2, h3, h4, h5, h6, h7, h8, h9, h10⟩, g1, g2, g3, g4⟩ := h
  step_case

private theorem inv_setResult (hs : stepFn .fixed sid s .setResult = some s') : InvFixed sid s' := by
  obtain ⟨⟨h1, h2, h3, h4, h5, h6, h7, h8, h9, h10⟩, g1, g2, g3, g4⟩ := h
  step_case

private theorem inv_notify (hs : stepFn .fixed sid s .notifyWaiters = some s') : InvFixed sid s' := by
  obtain ⟨⟨h1, h2, h3, h4, h5, h6, h7, h8, h9, h10⟩, g1, g2, g3, g4⟩ := h
  simp only [stepFn] at hs
  split at hs
  · simp only [Option.some.injEq] at hs; subst hs
    refine ⟨⟨?_, ?_, ?_, ?_, ?_, ?_, ?_, ?_, ?_, ?_⟩, ?_, ?_, ?_, ?_⟩ <;>
      simp only [ne_eq, refOf_wake, inReady_wake, wake_done, wake_panicked, wake_gap, wake_wait, wake_woken,
        wake_reg, wake_chk] <;> grind
  · contradiction

end

private theorem inv_step (sid : Nat → Nat) (s s' : St) (h : InvFixed sid s) (hs : Step .fixed sid s s') :
    InvFixed sid s' := by
  obtain ⟨a, ha⟩ := hs
  cases a with
  | track t => exact inv_track sid s s' h t ha
  | send t => exact inv_send sid s s' h t ha
  | check t => exact inv_check sid s s' h t ha
  | register t => exact inv_register sid s s' h t ha
  | await t => exact inv_await sid s s' h t ha
  | recheck t => exact inv_recheck sid s s' h t ha
  | recv => exact inv_recv sid s s' h ha
  | remove => exact inv_remove sid s s' h ha
  | setResult => exact inv_setResult sid s s' h ha
  | notifyWaiters => exact inv_notify sid s s' h ha

/-- The invariant holds in every reachable state of the repaired system (any schedule, any number of
    submitters, any assignment of operation ids). -/
theorem reach_inv (sid : Nat → Nat) (s : St) (h : Reach .fixed sid s) : InvFixed sid s := by
  induction h with
  | init => exact inv_init sid
  | step _ hs ih => exact inv_step sid _ _ ih hs

theorem reach_runSched (v : Variant) (sid : Nat → Nat) (as : List Act) :
    ∀ s s', Reach v sid s → runSched v sid s as = some s' → Reach v sid s' := by
  induction as with
  | nil => intro s s' h hr; simp only [runSched, Option.some.injEq] at hr; exact hr ▸ h
  | cons a as ih =>
    intro s s' h hr
    simp only [runSched] at hr
    split at hr
    · rename_i s1 h1
      exact ih s1 s' (Reach.step h ⟨a, h1⟩) hr
    · contradiction

/-- The atomic `track` never leaves a submitter between lookup and insert. -/
private theorem noMissed_step (sid : Nat → Nat) (s s' : St) (a : Act) (h : ∀ t, s.pc t ≠ .missed)
    (hs : stepFn .fixed sid s a = some s') : ∀ t, s'.pc t ≠ .missed := by
  cases a <;> simp only [stepFn] at hs <;> (repeat' split at hs) <;>
    first
    | contradiction
    | (simp only [Option.some.injEq] at hs; subst hs; simp only [ne_eq, wake_missed]; grind)

theorem reach_noMissed (sid : Nat → Nat) (s : St) (h : Reach .fixed sid s) : ∀ t, s.pc t ≠ .missed := by
  induction h with
  | init => intro t; simp [init]
  | step _ hs ih => obtain ⟨a, ha⟩ := hs; exact noMissed_step sid _ _ a ih ha

/-! ## The property -/

/-- "No lost wake-up": a submitter that awaits its `Notified` future either still has no result, or the
    notification that will wake it is the pipeline thread's very next step. -/
def NoStuckStatement (v : Variant) : Prop :=
  ∀ (sid : Nat → Nat) (s : St), Reach v sid s →
    ∀ t x, s.pc t = .wait x → s.result x = none ∨ s.pipe = .notify x

/-- C14 (safety half), repaired code: holds for every schedule and any number of submitters. -/
theorem c14_no_stuck : NoStuckStatement .fixed := by
  intro sid s h t x hw
  exact (reach_inv sid s h).waitOk t x (Or.inl hw)

/-- Stronger form: for a waiting submitter a wake-up is always still on its way — the pipeline thread is about
    to notify its task, or is completing it, or the task is live, still registered under the submitter's
    operation id, and an event carrying that id is in the channel or being processed. -/
theorem c14_wake_coming (sid : Nat → Nat) (s : St) (h : Reach .fixed sid s) (t x : Nat)
    (hw : s.pc t = .wait x) :
    s.pipe = .notify x ∨ (∃ e, s.pipe = .setRes x e) ∨
      (s.result x = none ∧ s.tasks (sid t) = some x ∧ PendingEv s.queue s.pipe (sid t)) := by
  have I := reach_inv sid s h
  rcases I.waitOk t x (Or.inl hw) with hr | hn
  · have h1 := I.refOk t x (by simp [hw, refOf])
    rcases I.liveOk x h1.1 hr with ht | hs
    · right; right
      rw [h1.2] at ht
      exact ⟨hr, ht, I.pendOk t x (by simp [hw, inReady]) (by simp [hw, refOf]) hr ht⟩
    · exact Or.inr (Or.inl hs)
  · exact Or.inl hn

/-- … and in each of these cases the pipeline thread has an enabled step: a waiting submitter never faces an
    idle pipeline with an empty channel (deadlock freedom; with `c14_no_stuck` and fair scheduling of the
    pipeline thread every `process` call returns). -/
theorem c14_pipeline_can_move (sid : Nat → Nat) (s : St) (h : Reach .fixed sid s) (t x : Nat)
    (hw : s.pc t = .wait x) :
    ∃ a, (a = .recv ∨ a = .remove ∨ a = .setResult ∨ a = .notifyWaiters) ∧
      (stepFn .fixed sid s a).isSome = true := by
  rcases c14_wake_coming sid s h t x hw with hn | ⟨e, hs⟩ | ⟨_, _, hp⟩
  · exact ⟨.notifyWaiters, by simp, by simp [stepFn, hn]⟩
  · exact ⟨.setResult, by simp, by simp [stepFn, hs]⟩
  · cases hpipe : s.pipe with
    | idle =>
      rcases hp with ⟨e, he, _⟩ | ⟨e, he, _⟩
      · cases hq : s.queue with
        | nil => simp [hq] at he
        | cons e' q => exact ⟨.recv, by simp, by simp [stepFn, hpipe, hq]⟩
      · simp [hpipe] at he
    | work e =>
      cases ht : s.tasks e.id with
      | none => exact ⟨.remove, by simp, by simp [stepFn, hpipe, ht]⟩
      | some y => exact ⟨.remove, by simp, by simp [stepFn, hpipe, ht]⟩
    | setRes y e => exact ⟨.setResult, by simp, by simp [stepFn, hpipe]⟩
    | notify y => exact ⟨.notifyWaiters, by simp, by simp [stepFn, hpipe]⟩

/-- The `expect("result exists after ready signal was fired")` in `Task::ready` never fires. -/
theorem c14_never_panics (sid : Nat → Nat) (s : St) (h : Reach .fixed sid s) (t : Nat) :
    s.pc t ≠ .panicked :=
  (reach_inv sid s h).noPanic t

/-- C14 (own result): what `process` returns to submitter `t` is the pipeline's result for an event that some
    submitter `r.src` really sent and that carries `t`'s own operation id. -/
theorem c14_own_result (sid : Nat → Nat) (s : St) (h : Reach .fixed sid s) (t : Nat) (r : Res)
    (hd : s.pc t = .done r) : r.id = sid t ∧ sid r.src = sid t := by
  have := (reach_inv sid s h).doneOk t r hd
  exact ⟨this.1, by rw [← this.2, this.1]⟩

/-! ## The pinned (original) code violates the property -/

/-- The schedule of DESIGN.md §5: S checks (None) · P sets the result · P notifies · S registers and waits. -/
def origSchedule : List Act :=
  [.track 0, .send 0, .check 0, .recv, .remove, .setResult, .notifyWaiters, .register 0]

theorem c14_orig_witness :
    ∃ s, runSched .orig (fun _ => 5) init origSchedule = some s ∧
      s.pc 0 = .wait 0 ∧ s.result 0 = some ⟨5, 0⟩ ∧ s.pipe = .idle ∧ s.queue = [] ∧ s.tasks 5 = none := by
  refine ⟨_, rfl, ?_, ?_, ?_, ?_, ?_⟩ <;> rfl

theorem c14_orig_violates : ¬ NoStuckStatement .orig := by
  intro hN
  obtain ⟨s, hr, hpc, hres, hpipe, _, _⟩ := c14_orig_witness
  have hreach := reach_runSched .orig (fun _ => 5) origSchedule init s Reach.init hr
  rcases hN _ s hreach 0 0 hpc with h | h
  · rw [hres] at h; contradiction
  · rw [hpipe] at h; contradiction

/-- A submitter that missed its notification: it waits on task `x` whose result is set, nobody is about to
    notify `x`, and `x` has left the tracker map. -/
def Dead (s : St) (t x : Nat) : Prop :=
  s.pc t = .wait x ∧ s.result x ≠ none ∧ s.pipe ≠ .notify x ∧ (∀ e, s.pipe ≠ .setRes x e) ∧
    (∀ i, s.tasks i ≠ some x) ∧ x < s.next

/-- In the original code such a submitter stays stuck under EVERY continuation of the schedule (whatever the
    other submitters and the pipeline thread do): the lost wake-up is never made up for. -/
theorem c14_orig_stuck_forever (sid : Nat → Nat) (s s' : St) (t x : Nat) (hd : Dead s t x)
    (hs : Step .orig sid s s') : Dead s' t x := by
  obtain ⟨a, ha⟩ := hs
  obtain ⟨d1, d2, d3, d4, d5, d6⟩ := hd
  cases a <;> simp only [stepFn] at ha <;> (repeat' split at ha) <;>
    first
    | contradiction
    | (simp only [Option.some.injEq] at ha; subst ha
       refine ⟨?_, ?_, ?_, ?_, ?_, ?_⟩ <;> simp only [ne_eq, wake_wait] <;> grind)

theorem c14_orig_witness_dead :
    ∃ s, runSched .orig (fun _ => 5) init origSchedule = some s ∧ Dead s 0 0 := by
  obtain ⟨s, hr, h1, h2, h3, h4, h5⟩ := c14_orig_witness
  refine ⟨s, hr, h1, by simp [h2], by simp [h3], by simp [h3], ?_, ?_⟩
  · intro i
    injection hr with hr
    subst hr
    simp [init, upd]
  · injection hr with hr
    subst hr
    simp [init]

/-! ## `track` must be atomic (or re-check): the read-locked "fast path"

`stepSplit recheck` splits `track` into `lookup` (read lock) and `insert` (write lock). With the re-check the
invariant — and with it every safety theorem above — still holds; without it two submitters of one operation that
both miss insert two tasks, the second overwrites the first, and the first submitter waits forever on a task
nobody will ever complete. -/

/-- "A wake-up is always still on its way" (the conclusion of `c14_wake_coming`) as a state predicate. -/
def WakeComing (sid : Nat → Nat) (s : St) : Prop :=
  ∀ t x, s.pc t = .wait x →
    s.pipe = .notify x ∨ (∃ e, s.pipe = .setRes x e) ∨
      (s.result x = none ∧ s.tasks (sid t) = some x ∧ PendingEv s.queue s.pipe (sid t))

theorem wakeComing_of_inv (sid : Nat → Nat) (s : St) (I : InvFixed sid s) : WakeComing sid s := by
  intro t x hw
  rcases I.waitOk t x (Or.inl hw) with hr | hn
  · have h1 := I.refOk t x (by simp [hw, refOf])
    rcases I.liveOk x h1.1 hr with ht | hs
    · right; right
      rw [h1.2] at ht
      exact ⟨hr, ht, I.pendOk t x (by simp [hw, inReady]) (by simp [hw, refOf]) hr ht⟩
    · exact Or.inr (Or.inl hs)
  · exact Or.inl hn

private theorem invS_lookup (sid : Nat → Nat) (s s' : St) (t : Nat) (h : InvFixed sid s)
    (hs : stepSplit true sid s (.lookup t) = some s') : InvFixed sid s' := by
  obtain ⟨⟨h1, h2, h3, h4, h5, h6, h7, h8, h9, h10⟩, g1, g2, g3, g4⟩ := h
  simp only [stepSplit] at hs
  (repeat' split at hs) <;>
    first
    | contradiction
    | (simp only [Option.some.injEq] at hs; subst hs; inv_close)

private theorem invS_insert (sid : Nat → Nat) (s s' : St) (t : Nat) (h : InvFixed sid s)
    (hs : stepSplit true sid s (.insert t) = some s') : InvFixed sid s' := by
  obtain ⟨⟨h1, h2, h3, h4, h5, h6, h7, h8, h9, h10⟩, g1, g2, g3, g4⟩ := h
  simp only [stepSplit, if_true] at hs
  (repeat' split at hs) <;>
    first
    | contradiction
    | (simp only [Option.some.injEq] at hs; subst hs; inv_close)

theorem invS_step (sid : Nat → Nat) (s s' : St) (a : ActS) (h : InvFixed sid s)
    (hs : stepSplit true sid s a = some s') : InvFixed sid s' := by
  cases a with
  | lookup t => exact invS_lookup sid s s' t h hs
  | insert t => exact invS_insert sid s s' t h hs
  | base b =>
    cases b with
    | track t => simp [stepSplit] at hs
    | send t => exact inv_send sid s s' h t hs
    | check t => exact inv_check sid s s' h t hs
    | register t => exact inv_register sid s s' h t hs
    | await t => exact inv_await sid s s' h t hs
    | recheck t => exact inv_recheck sid s s' h t hs
    | recv => exact inv_recv sid s s' h hs
    | remove => exact inv_remove sid s s' h hs
    | setResult => exact inv_setResult sid s s' h hs
    | notifyWaiters => exact inv_notify sid s s' h hs

theorem reachS_inv (sid : Nat → Nat) (s : St) (h : ReachS true sid s) : InvFixed sid s := by
  induction h with
  | init => exact inv_init sid
  | step a _ hs ih => exact invS_step sid _ _ a ih hs

/-- Split `track` WITH re-check under the write lock: all safety theorems carry over. -/
theorem c14_split_recheck_safe (sid : Nat → Nat) (s : St) (h : ReachS true sid s) :
    (∀ t x, s.pc t = .wait x → s.result x = none ∨ s.pipe = .notify x) ∧ WakeComing sid s ∧
    (∀ t, s.pc t ≠ .panicked) ∧ (∀ t r, s.pc t = .done r → r.id = sid t) := by
  have I := reachS_inv sid s h
  exact ⟨fun t x hw => I.waitOk t x (Or.inl hw), wakeComing_of_inv sid s I, I.noPanic,
    fun t r hd => (I.doneOk t r hd).1⟩

theorem reachS_runSplit (rc : Bool) (sid : Nat → Nat) (as : List ActS) :
    ∀ s s', ReachS rc sid s → runSplit rc sid s as = some s' → ReachS rc sid s' := by
  induction as with
  | nil => intro s s' h hr; simp only [runSplit, Option.some.injEq] at hr; exact hr ▸ h
  | cons a as ih =>
    intro s s' h hr
    simp only [runSplit] at hr
    split at hr
    · rename_i s1 h1
      exact ih s1 s' (ReachS.step a h h1) hr
    · contradiction

/-- Two submitters of operation 5: both look up (miss), both insert — the second insert overwrites the first —
    both wait; the pipeline completes the task still in the map (submitter 1's) with the first event and finds no
    task for the second event. -/
def orphanSchedule : List ActS :=
  [.lookup 0, .lookup 1, .insert 0, .insert 1, .base (.send 0), .base (.send 1),
   .base (.register 0), .base (.check 0), .base (.await 0), .base (.register 1), .base (.check 1), .base (.await 1),
   .base .recv, .base .remove, .base .setResult, .base .notifyWaiters, .base (.recheck 1),
   .base .recv, .base .remove]

/-- A submitter waiting on a task that has no result, is not in the tracker map any more and is not being
    completed by the pipeline thread. -/
def Orphan (s : St) (t x : Nat) : Prop :=
  s.pc t = .wait x ∧ s.result x = none ∧ (∀ i, s.tasks i ≠ some x) ∧ (∀ e, s.pipe ≠ .setRes x e) ∧
    s.pipe ≠ .notify x ∧ x < s.next

theorem c14_split_norecheck_orphans :
    ∃ s, runSplit false (fun _ => 5) init orphanSchedule = some s ∧ Orphan s 0 0 ∧
      s.pc 1 = .done ⟨5, 0⟩ ∧ s.queue = [] ∧ s.pipe = .idle := by
  refine ⟨_, rfl, ⟨rfl, rfl, ?_, ?_, ?_, ?_⟩, rfl, rfl, rfl⟩
  · intro i; by_cases h : i = 5 <;> simp [init, upd, h]
  · intro e; simp
  · simp
  · simp [init]

/-- Split `track` WITHOUT re-check violates "a wake-up is always on its way" … -/
theorem c14_split_norecheck_violates : ¬ (∀ sid s, ReachS false sid s → WakeComing sid s) := by
  intro hall
  obtain ⟨s, hr, ho, _, hq, hp⟩ := c14_split_norecheck_orphans
  have hreach := reachS_runSplit false (fun _ => 5) orphanSchedule init s ReachS.init hr
  obtain ⟨h1, h2, h3, h4, h5, _⟩ := ho
  rcases hall _ s hreach 0 0 h1 with h | ⟨e, h⟩ | ⟨_, h, _⟩
  · exact h5 h
  · exact h4 e h
  · exact h3 _ h

/-- … and the orphaned submitter stays orphaned under EVERY continuation of the schedule. -/
theorem c14_split_norecheck_orphan_forever (sid : Nat → Nat) (s s' : St) (a : ActS) (t x : Nat)
    (ho : Orphan s t x) (hs : stepSplit false sid s a = some s') : Orphan s' t x := by
  obtain ⟨o1, o2, o3, o4, o5, o6⟩ := ho
  cases a with
  | lookup u =>
    simp only [stepSplit] at hs
    (repeat' split at hs) <;>
      first
      | contradiction
      | (simp only [Option.some.injEq] at hs; subst hs
         refine ⟨?_, ?_, ?_, ?_, ?_, ?_⟩ <;> grind)
  | insert u =>
    simp only [stepSplit] at hs
    (repeat' split at hs) <;>
      first
      | contradiction
      | (simp only [Option.some.injEq] at hs; subst hs
         refine ⟨?_, ?_, ?_, ?_, ?_, ?_⟩ <;> grind)
  | base b =>
    cases b <;> simp only [stepSplit, stepFn] at hs <;> (repeat' split at hs) <;>
      first
      | contradiction
      | (simp only [Option.some.injEq] at hs; subst hs
         refine ⟨?_, ?_, ?_, ?_, ?_, ?_⟩ <;> simp only [ne_eq, wake_wait] <;> grind)

/-! ## `track` must precede `send`

If the event is sent first, the pipeline thread may finish it and call `mark_as_done` before anything is tracked:
that call is a no-op, the result is dropped, and the task the submitter tracks afterwards is never completed. -/

theorem reachR_runReorder (sid : Nat → Nat) (as : List ActR) :
    ∀ s s', ReachR sid s → runReorder sid s as = some s' → ReachR sid s' := by
  induction as with
  | nil => intro s s' h hr; simp only [runReorder, Option.some.injEq] at hr; exact hr ▸ h
  | cons a as ih =>
    intro s s' h hr
    simp only [runReorder] at hr
    split at hr
    · rename_i s1 h1
      exact ih s1 s' (ReachR.step a h h1) hr
    · contradiction

/-- S sends · P receives, finds no task (`mark_as_done` no-op) · S tracks a fresh task and waits for it. -/
def droppedSchedule : List ActR :=
  [.sendEarly 0, .base .recv, .base .remove, .base (.track 0), .enter 0,
   .base (.register 0), .base (.check 0), .base (.await 0)]

theorem c14_send_before_track_drops_result :
    ∃ s, runReorder (fun _ => 5) init droppedSchedule = some s ∧
      s.pc 0 = .wait 0 ∧ s.result 0 = none ∧ s.queue = [] ∧ s.pipe = .idle ∧ s.tasks 5 = some 0 := by
  refine ⟨_, rfl, rfl, rfl, rfl, rfl, rfl⟩

/-- Send-before-track violates "a wake-up is always on its way": the submitter waits on a live task for which no
    event is in the channel or in the pipeline. -/
theorem c14_send_before_track_violates : ¬ (∀ sid s, ReachR sid s → WakeComing sid s) := by
  intro hall
  obtain ⟨s, hr, hpc, hres, hq, hp, _⟩ := c14_send_before_track_drops_result
  have hreach := reachR_runReorder (fun _ => 5) droppedSchedule init s ReachR.init hr
  rcases hall _ s hreach 0 0 hpc with h | ⟨e, h⟩ | ⟨_, _, h⟩
  · rw [hp] at h; contradiction
  · rw [hp] at h; contradiction
  · rcases h with ⟨e, he, _⟩ | ⟨e, he, _⟩
    · rw [hq] at he; simp at he
    · rw [hp] at he; contradiction

/-- The order the theorems are proved for is the order of the source: in `Pipeline::process` the first of the three
    calls is `self.tasks.track(`, then `self.pipeline_tx.send(`, and `task.ready().await` is the last expression
    (re-extracted from p2panda/src/processor/pipeline.rs on every run; the extraction fails for any other order). -/
theorem c14_process_order_in_source : P2.Extracted.C14.processFirstCall = "track" := rfl

/-! ## The result check of `ready()` must wait for the result lock

Two submitters of one operation share one task. The pipeline completes it (result set, the single
`notify_waiters()` fired) before submitter 1 enters `ready()`; submitter 1 registers, finds the result mutex
taken by submitter 0 (who is cloning the result), skips the check (`try_lock`) and awaits a `Notified` created
after the only notification. -/

theorem reachT_runTryLock (sid : Nat → Nat) (as : List ActT) :
    ∀ s s', ReachT sid s → runTryLock sid s as = some s' → ReachT sid s' := by
  induction as with
  | nil => intro s s' h hr; simp only [runTryLock, Option.some.injEq] at hr; exact hr ▸ h
  | cons a as ih =>
    intro s s' h hr
    simp only [runTryLock] at hr
    split at hr
    · rename_i s1 h1
      exact ih s1 s' (ReachT.step a h h1) hr
    · contradiction

def lateWaiterSchedule : List ActT :=
  [.base (.track 0), .base (.track 1), .base (.send 0), .base (.send 1),
   .base .recv, .base .remove, .base .setResult, .base .notifyWaiters,
   .base (.register 0), .base (.check 0),          -- submitter 0 returns the result (holds the mutex meanwhile)
   .base (.register 1), .checkSkip 1, .base (.await 1)]

theorem c14_trylock_late_waiter_stuck :
    ∃ s, runTryLock (fun _ => 5) init lateWaiterSchedule = some s ∧
      s.pc 0 = .done ⟨5, 0⟩ ∧ s.pc 1 = .wait 0 ∧ s.result 0 = some ⟨5, 0⟩ ∧ s.pipe = .idle := by
  refine ⟨_, rfl, rfl, rfl, rfl, rfl⟩

/-- With `try_lock` the no-lost-wake-up statement is false: a waiter sits in `wait` although its task's result is
    set and no notification is coming. (For the code's `lock().await` the statement is `c14_no_stuck`.) -/
theorem c14_trylock_violates :
    ¬ (∀ sid s, ReachT sid s → ∀ t x, s.pc t = .wait x → s.result x = none ∨ s.pipe = .notify x) := by
  intro hall
  obtain ⟨s, hr, _, hpc, hres, hp⟩ := c14_trylock_late_waiter_stuck
  have hreach := reachT_runTryLock (fun _ => 5) lateWaiterSchedule init s ReachT.init hr
  rcases hall _ s hreach 1 0 hpc with h | h
  · rw [hres] at h; contradiction
  · rw [hp] at h; contradiction

/-- The early result check of `Task::ready` takes the mutex with `.lock().await` (re-extracted from tasks.rs on
    every run; the extraction fails for `try_lock` or any other shape). -/
theorem c14_ready_check_waits_for_lock_in_source : P2.Extracted.C14.readyCheckLock = "lock().await" := rfl

/-! ### … and the source really is the atomic form

`trackCriticalSection` is re-extracted from p2panda/src/processor/tasks.rs on every run: the body of
`TaskTracker::track` must be ONE write-locked get-or-insert (the extraction itself fails when the function has any
other shape, e.g. a read-locked fast path in front), and `trackFirstLock` is the first lock the function takes. -/

theorem c14_track_is_atomic_in_source :
    P2.Extracted.C14.trackFirstLock = "write" ∧
    P2.Extracted.C14.trackCriticalSection =
      "let mut inner = self.0.write().await; match inner.get(&id) { Some(task) => task.clone(), None => { let task = Task::<T, ID>::new(id); inner.insert(id, task.clone()); task } }" :=
  ⟨rfl, rfl⟩

/-! ## Termination: "eventually returns" without a fairness assumption

Every action strictly decreases a natural-number measure, so every run of `N` submitters is finite (at most
`12 * N` steps from the initial state); and in every reachable state a submitter that has not returned yet has an
enabled action of its own or an enabled pipeline action (`c14_progress`). Hence a run can only stop in a state
where all `N` submitters have returned, and it must stop. -/

def rank : PC → Nat
  | .idle => 12
  | .missed => 12
  | .tracked _ => 11
  | .sent _ => 6
  | .reg _ _ => 5
  | .chk _ _ => 4
  | .gap _ => 4
  | .wait _ => 3
  | .woken _ => 2
  | .done _ => 0
  | .panicked => 0

def pipeRank : PPC → Nat
  | .idle => 0
  | .notify _ => 1
  | .setRes _ _ => 2
  | .work _ => 3

def total : Nat → (Nat → Nat) → Nat
  | 0, _ => 0
  | n + 1, f => total n f + f n

/-- The measure: what the `N` submitters and the pipeline thread still have to do. -/
def mu (N : Nat) (s : St) : Nat :=
  total N (fun t => rank (s.pc t)) + pipeRank s.pipe + 4 * s.queue.length

/-- The action is a pipeline action or belongs to one of the submitters `0 … N-1`. -/
def ActBelow (N : Nat) : Act → Prop
  | .track t => t < N
  | .send t => t < N
  | .check t => t < N
  | .register t => t < N
  | .await t => t < N
  | .recheck t => t < N
  | _ => True

private theorem total_le (N : Nat) (f g : Nat → Nat) (h : ∀ t, f t ≤ g t) : total N f ≤ total N g := by
  induction N with
  | zero => simp [total]
  | succ n ih => simp only [total]; have := h n; omega

private theorem total_rank_upd (pc : Nat → PC) (p' : PC) (N t0 : Nat) (h : t0 < N) :
    total N (fun t => rank (upd pc t0 p' t)) + rank (pc t0) = total N (fun t => rank (pc t)) + rank p' := by
  induction N with
  | zero => omega
  | succ n ih =>
    simp only [total]
    by_cases hn : t0 = n
    · subst hn
      have hsame : total t0 (fun t => rank (upd pc t0 p' t)) = total t0 (fun t => rank (pc t)) := by
        clear ih h
        -- below t0 nothing changed
        have : ∀ m, m ≤ t0 → total m (fun t => rank (upd pc t0 p' t)) = total m (fun t => rank (pc t)) := by
          intro m
          induction m with
          | zero => intro _; rfl
          | succ k ihk =>
            intro hk
            simp only [total]
            have hne : k ≠ t0 := by omega
            rw [ihk (by omega)]
            simp [upd, hne]
        exact this t0 (Nat.le_refl _)
      rw [hsame]
      simp [upd]
      omega
    · have hlt : t0 < n := by omega
      have := ih hlt
      have hne : n ≠ t0 := fun h' => hn h'.symm
      simp only [upd, hne, if_false]
      simp only [upd] at this
      omega

private theorem rank_wake_le (x : Nat) (p : PC) : rank (wake x p) ≤ rank p := by
  cases p <;> simp only [wake] <;> (try split) <;> simp [rank]

private theorem mu_lt_of_upd (N t : Nat) (ht : t < N) (s s' : St) (p' : PC)
    (hpc : s'.pc = upd s.pc t p') (hpipe : s'.pipe = s.pipe)
    (h : rank p' + 4 * s'.queue.length < rank (s.pc t) + 4 * s.queue.length) : mu N s' < mu N s := by
  have := total_rank_upd s.pc p' N t ht
  simp only [mu, hpc, hpipe]
  omega

set_option hygiene false in
local macro "tid_case" t:term : tactic =>
  `(tactic| (simp only [ActBelow] at hb
             simp only [stepFn] at hs
             (repeat' split at hs) <;>
               first
               | contradiction
               | (simp only [Option.some.injEq] at hs
                  subst hs
                  refine mu_lt_of_upd N $t hb s _ _ rfl rfl ?_
                  simp_all [rank]
                  try omega)))

set_option hygiene false in
local macro "pipe_case" : tactic =>
  `(tactic| (simp only [stepFn] at hs
             (repeat' split at hs) <;>
               first
               | contradiction
               | (simp only [Option.some.injEq] at hs
                  subst hs
                  simp_all [mu, pipeRank]
                  try omega)))

/-- Every enabled action of the repaired system strictly decreases the measure. -/
theorem c14_step_decreases (sid : Nat → Nat) (N : Nat) (s s' : St) (a : Act) (hb : ActBelow N a)
    (hs : stepFn .fixed sid s a = some s') : mu N s' < mu N s := by
  cases a with
  | track t => tid_case t
  | send t => tid_case t
  | check t => tid_case t
  | register t => tid_case t
  | await t => tid_case t
  | recheck t => tid_case t
  | recv => pipe_case
  | remove => pipe_case
  | setResult => pipe_case
  | notifyWaiters =>
    simp only [stepFn] at hs
    split at hs
    · rename_i x hx
      simp only [Option.some.injEq] at hs
      subst hs
      have := total_le N (fun t => rank (wake x (s.pc t))) (fun t => rank (s.pc t)) (fun t => rank_wake_le x _)
      simp only [mu, hx, pipeRank]
      omega
    · contradiction

/-- A schedule whose actions all belong to the pipeline or to the submitters `0 … N-1`. -/
def SchedBelow (N : Nat) (as : List Act) : Prop := ∀ a, a ∈ as → ActBelow N a

/-- C14 (termination): every run of the repaired system is finite — a schedule that can be executed from `s` is
    no longer than the measure of `s` … -/
theorem c14_runs_are_finite (sid : Nat → Nat) (N : Nat) (as : List Act) :
    ∀ (s s' : St), SchedBelow N as → runSched .fixed sid s as = some s' → as.length + mu N s' ≤ mu N s := by
  induction as with
  | nil =>
    intro s s' _ hr
    simp only [runSched, Option.some.injEq] at hr
    subst hr
    simp
  | cons a as ih =>
    intro s s' hb hr
    simp only [runSched] at hr
    split at hr
    · rename_i s1 h1
      have hd := c14_step_decreases sid N s s1 a (hb a (by simp)) h1
      have := ih s1 s' (fun x hx => hb x (by simp [hx])) hr
      simp only [List.length_cons]
      omega
    · contradiction

theorem mu_init (N : Nat) : mu N init = 12 * N := by
  have : ∀ n, total n (fun _ => rank PC.idle) = 12 * n := by
    intro n
    induction n with
    | zero => rfl
    | succ k ih => simp only [total, ih]; simp [rank]; omega
  simp [mu, init, pipeRank, this]

/-- … in particular `N` submitters are through after at most `12 * N` steps, whatever the interleaving. -/
theorem c14_terminates (sid : Nat → Nat) (N : Nat) (as : List Act) (s' : St) (hb : SchedBelow N as)
    (hr : runSched .fixed sid init as = some s') : as.length ≤ 12 * N := by
  have := c14_runs_are_finite sid N as init s' hb hr
  rw [mu_init] at this
  omega

/-- C14 (progress): in every reachable state a submitter that has not returned has an enabled action of its own,
    or the pipeline thread has one — the system never stops before every `process` call has returned. -/
theorem c14_progress (sid : Nat → Nat) (s : St) (h : Reach .fixed sid s) (t : Nat)
    (hnd : ∀ r, s.pc t ≠ .done r) :
    ∃ a, (a = .track t ∨ a = .send t ∨ a = .check t ∨ a = .register t ∨ a = .await t ∨ a = .recheck t ∨
          a = .recv ∨ a = .remove ∨ a = .setResult ∨ a = .notifyWaiters) ∧
      (stepFn .fixed sid s a).isSome = true := by
  have I := reach_inv sid s h
  cases hpc : s.pc t with
  | idle =>
    cases hpipe : s.pipe with
    | idle => exact ⟨.track t, by simp, by cases ht : s.tasks (sid t) <;> simp [stepFn, hpc, hpipe, lockHeld, ht]⟩
    | work e => exact ⟨.track t, by simp, by cases ht : s.tasks (sid t) <;> simp [stepFn, hpc, hpipe, lockHeld, ht]⟩
    | setRes x e => exact ⟨.setResult, by simp, by simp [stepFn, hpipe]⟩
    | notify x => exact ⟨.notifyWaiters, by simp, by simp [stepFn, hpipe]⟩
  | missed => exact absurd hpc (reach_noMissed sid s h t)
  | tracked x => exact ⟨.send t, by simp, by simp [stepFn, hpc]⟩
  | sent x => exact ⟨.register t, by simp, by simp [stepFn, hpc]⟩
  | gap x => exact absurd hpc (I.noGap t x)
  | reg x n => exact ⟨.check t, by simp, by cases hr : s.result x <;> simp [stepFn, hpc, hr]⟩
  | chk x n => exact ⟨.await t, by simp, by simp [stepFn, hpc]⟩
  | wait x =>
    obtain ⟨a, ha, he⟩ := c14_pipeline_can_move sid s h t x hpc
    exact ⟨a, by rcases ha with h1 | h1 | h1 | h1 <;> simp [h1], he⟩
  | woken x => exact ⟨.recheck t, by simp, by cases hr : s.result x <;> simp [stepFn, hpc, hr]⟩
  | done r => exact absurd hpc (hnd r)
  | panicked => exact absurd hpc (I.noPanic t)

/-! ## Non-vacuity: the hypotheses of the theorems are met by concrete reachable states -/

/-- A reachable state of the repaired system in which a submitter really waits (so `c14_no_stuck`,
    `c14_wake_coming`, `c14_pipeline_can_move` are about something) … -/
example : ∃ s, Reach .fixed (fun _ => 5) s ∧ s.pc 0 = .wait 0 ∧ s.result 0 = none :=
  ⟨_, reach_runSched .fixed (fun _ => 5) [.track 0, .send 0, .register 0, .check 0, .await 0] init _ Reach.init rfl,
    rfl, rfl⟩

/-- … the defect's schedule on the repaired system: the notification arrives while the submitter sits between
    check and await, and it returns its own result … -/
example : ∃ s, Reach .fixed (fun _ => 5) s ∧ s.pc 0 = .done ⟨5, 0⟩ :=
  ⟨_, reach_runSched .fixed (fun _ => 5)
      [.track 0, .send 0, .register 0, .check 0, .recv, .remove, .setResult, .notifyWaiters, .await 0, .recheck 0]
      init _ Reach.init rfl, rfl⟩

/-- … and two submitters of the same operation, the second one tracking after the first task was removed:
    it is completed by its own (second) event. -/
example : ∃ s, Reach .fixed (fun _ => 7) s ∧ s.pc 0 = .done ⟨7, 0⟩ ∧ s.pc 1 = .done ⟨7, 1⟩ :=
  ⟨_, reach_runSched .fixed (fun _ => 7)
      [.track 0, .send 0, .recv, .remove, .setResult, .notifyWaiters, .track 1, .send 1, .register 0, .check 0,
       .register 1, .check 1, .await 1, .recv, .remove, .setResult, .notifyWaiters, .recheck 1]
      init _ Reach.init rfl, rfl, rfl⟩

end P2.C14
