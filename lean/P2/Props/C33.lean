/-
C33 — Only authorized actors change group membership.

`add / remove / modify / promote / demote / create / merge / removeUnsafe` are the transcriptions of
`p2panda-auth/src/group/crdt/state.rs`, `GroupCrdt.decide` the one of `GroupCrdt::validate`
(+ the state stored by `process`) relative to the states at the operation's dependencies
(`P2/Model/GroupCrdt.lean`). `promoteOrig` / `demoteOrig` are the pinned tree's versions, whose
no-op shortcut skipped every check (`c33_orig_violates`).
-/
import P2.Model.GroupState
import P2.Model.GroupCrdt
import P2.Lemmas.GroupState
import P2.Extracted.C33

namespace P2.C33
open P2.GroupState P2.GroupCrdt

set_option linter.unusedSectionVars false
variable {C K : Type} [DecidableEq K] [DecidableEq C]

/-- `k` is known to the group and currently an active member (odd member counter). -/
def Active (s : State K C) (k : K) : Prop := ∃ m, get? s k = some m ∧ m.isMember = true

/-- `k` is an active member with `Manage` access. -/
def ActiveManager (s : State K C) (k : K) : Prop :=
  ∃ m, get? s k = some m ∧ m.isMember = true ∧ m.isManager = true

theorem ActiveManager.active {s : State K C} {k : K} (h : ActiveManager s k) : Active s k := by
  obtain ⟨m, h1, h2, _⟩ := h; exact ⟨m, h1, h2⟩

/-! ## `state::add` -/

/-- `add` succeeds exactly when the adder is an active manager and the added identity is not a
    current member. -/
theorem c33_add_ok_iff (s : State K C) (adder added : K) (acc : Access C) :
    (∃ s', add s adder added acc = .ok s') ↔ ActiveManager s adder ∧ ¬ Active s added := by
  unfold add ActiveManager Active
  cases h1 : get? s adder with
  | none => simp
  | some a =>
    cases hm : a.isMember <;> cases hg : a.isManager <;> simp [hm, hg]
    cases h2 : get? s added with
    | none => simp
    | some m => cases hm2 : m.isMember <;> simp [hm2]

/-- The error variants of `add`, in the code's order of checks. -/
theorem c33_add_err (s : State K C) (adder added : K) (acc : Access C) (e : Err K) :
    add s adder added acc = .error e ↔
      (get? s adder = none ∧ e = .unrecognisedActor adder)
      ∨ (∃ a, get? s adder = some a ∧ a.isMember = false ∧ e = .inactiveActor adder)
      ∨ (∃ a, get? s adder = some a ∧ a.isMember = true ∧ a.isManager = false
            ∧ e = .insufficientAccess adder)
      ∨ (ActiveManager s adder ∧ Active s added ∧ e = .alreadyAdded added) := by
  rw [eq_comm]
  unfold add ActiveManager Active
  cases h1 : get? s adder with
  | none => simp
  | some a =>
    cases hm : a.isMember <;> cases hg : a.isManager <;> simp [hm, hg]
    cases h2 : get? s added with
    | none => simp
    | some m => cases hm2 : m.isMember <;> simp [hm2]

/-- Effect of a successful `add`: only the added identity's entry changes; it becomes active with
    the given access, its member counter incremented (or 1 if new). -/
theorem c33_add_effect (s s' : State K C) (adder added : K) (acc : Access C)
    (h : add s adder added acc = .ok s') (k : K) :
    get? s' k = if k = added then
        some { mc := (match get? s added with | some m => m.mc + 1 | none => 1), access := acc, ac := 0 }
      else get? s k := by
  unfold add at h
  cases h1 : get? s adder with
  | none => simp [h1] at h
  | some a =>
    simp only [h1] at h
    cases hm : a.isMember <;> cases hg : a.isManager <;> simp [hm, hg] at h
    cases h2 : get? s added with
    | none =>
      simp only [h2] at h
      injection h with h; subst h
      rw [get?_append_single]
      by_cases hk : k = added
      · subst hk; simp [h2]
      · have : ¬ added = k := fun e => hk e.symm
        simp only [hk, this, if_false]
        cases get? s k <;> rfl
    | some m =>
      simp only [h2] at h
      cases hm2 : m.isMember <;> simp [hm2] at h
      subst h
      rw [get?_setVal]
      simp [h2]

/-! ## `state::remove` -/

/-- `remove` succeeds exactly when the remover is active and (a manager or removing itself) and the
    removed identity is an active member. -/
theorem c33_remove_ok_iff (s : State K C) (remover removed : K) :
    (∃ s', remove s remover removed = .ok s') ↔
      Active s remover ∧ (ActiveManager s remover ∨ remover = removed) ∧ Active s removed := by
  unfold remove ActiveManager Active
  cases h1 : get? s remover with
  | none => simp
  | some a =>
    cases hm : a.isMember <;> simp [hm]
    by_cases he : remover = removed
    · subst he
      simp [h1, hm]
    · simp only [he, not_false_eq_true, and_true, or_false]
      cases hg : a.isManager <;> simp
      cases h2 : get? s removed with
      | none => simp
      | some m => cases hm2 : m.isMember <;> simp [hm2]

theorem c33_remove_err (s : State K C) (remover removed : K) (e : Err K) :
    remove s remover removed = .error e ↔
      (get? s remover = none ∧ e = .unrecognisedActor remover)
      ∨ (∃ a, get? s remover = some a ∧ a.isMember = false ∧ e = .inactiveActor remover)
      ∨ (∃ a, get? s remover = some a ∧ a.isMember = true ∧ a.isManager = false ∧ remover ≠ removed
            ∧ e = .insufficientAccess remover)
      ∨ (Active s remover ∧ (ActiveManager s remover ∨ remover = removed)
            ∧ get? s removed = none ∧ e = .unrecognisedMember removed)
      ∨ (Active s remover ∧ (ActiveManager s remover ∨ remover = removed)
            ∧ (∃ m, get? s removed = some m ∧ m.isMember = false) ∧ e = .alreadyRemoved removed) := by
  rw [eq_comm]
  unfold remove ActiveManager Active
  cases h1 : get? s remover with
  | none => simp
  | some a =>
    cases hm : a.isMember <;> simp [hm]
    by_cases he : remover = removed
    · subst he
      simp [h1, hm]
    · simp only [he, not_false_eq_true, and_true, or_false]
      cases hg : a.isManager <;> simp
      cases h2 : get? s removed with
      | none => simp
      | some m => cases hm2 : m.isMember <;> simp [hm2]

/-- Effect of a successful `remove`: only the removed identity's entry changes; it becomes inactive. -/
theorem c33_remove_effect (s s' : State K C) (remover removed : K)
    (h : remove s remover removed = .ok s') (k : K) :
    (k ≠ removed → get? s' k = get? s k)
    ∧ ∃ m, get? s removed = some m ∧ m.isMember = true
        ∧ get? s' removed = some { mc := m.mc + 1, access := m.access, ac := 0 } := by
  unfold remove at h
  cases h1 : get? s remover with
  | none => simp [h1] at h
  | some a =>
    simp only [h1] at h
    split at h
    · simp at h
    · split at h
      · simp at h
      · cases h2 : get? s removed with
        | none => simp [h2] at h
        | some m =>
          simp only [h2] at h
          cases hm2 : m.isMember <;> simp [hm2] at h
          subst h
          refine ⟨fun hk => by rw [get?_setVal]; simp [hk], m, rfl, hm2, ?_⟩
          rw [get?_setVal]; simp [h2]

/-! ## `state::modify`, `promote`, `demote` -/

theorem c33_modify_ok_iff (s : State K C) (modifier modified : K) (acc : Access C) :
    (∃ s', GroupState.modify s modifier modified acc = .ok s') ↔
      ActiveManager s modifier ∧ Active s modified := by
  unfold GroupState.modify ActiveManager Active
  cases h1 : get? s modifier with
  | none => simp
  | some a =>
    cases hm : a.isMember <;> cases hg : a.isManager <;> simp [hm, hg]
    cases h2 : get? s modified with
    | none => simp
    | some m =>
      cases hm2 : m.isMember <;> simp [hm2]
      by_cases hacc : m.access = acc <;> simp [hacc]

theorem c33_modify_err (s : State K C) (modifier modified : K) (acc : Access C) (e : Err K) :
    GroupState.modify s modifier modified acc = .error e ↔
      (get? s modifier = none ∧ e = .unrecognisedActor modifier)
      ∨ (∃ a, get? s modifier = some a ∧ a.isMember = false ∧ e = .inactiveActor modifier)
      ∨ (∃ a, get? s modifier = some a ∧ a.isMember = true ∧ a.isManager = false
            ∧ e = .insufficientAccess modifier)
      ∨ (ActiveManager s modifier ∧ (∃ m, get? s modified = some m ∧ m.isMember = false)
            ∧ e = .inactiveMember modified)
      ∨ (ActiveManager s modifier ∧ get? s modified = none ∧ e = .unrecognisedMember modified) := by
  rw [eq_comm]
  unfold GroupState.modify ActiveManager
  cases h1 : get? s modifier with
  | none => simp
  | some a =>
    cases hm : a.isMember <;> cases hg : a.isManager <;> simp [hm, hg]
    cases h2 : get? s modified with
    | none => simp
    | some m =>
      cases hm2 : m.isMember <;> simp [hm2]
      by_cases hacc : m.access = acc <;> simp [hacc]

/-- Effect of a successful `modify`: membership counters untouched everywhere; only the modified
    member's access (and access counter) may change. -/
theorem c33_modify_effect (s s' : State K C) (modifier modified : K) (acc : Access C)
    (h : GroupState.modify s modifier modified acc = .ok s') (k : K) :
    (k ≠ modified → get? s' k = get? s k)
    ∧ ∃ m, get? s modified = some m ∧ m.isMember = true ∧
        get? s' modified = some (if m.access = acc then m else { mc := m.mc, access := acc, ac := m.ac + 1 }) := by
  unfold GroupState.modify at h
  cases h1 : get? s modifier with
  | none => simp [h1] at h
  | some a =>
    simp only [h1] at h
    cases hm : a.isMember <;> cases hg : a.isManager <;> simp [hm, hg] at h
    cases h2 : get? s modified with
    | none => simp [h2] at h
    | some m =>
      simp only [h2] at h
      cases hm2 : m.isMember <;> simp [hm2] at h
      by_cases hacc : m.access = acc
      · simp [hacc] at h
        subst h
        exact ⟨fun _ => rfl, m, rfl, hm2, by simp [hacc, h2]⟩
      · simp [hacc] at h
        subst h
        refine ⟨fun hk => by rw [get?_setVal]; simp [hk], m, rfl, hm2, ?_⟩
        rw [get?_setVal]; simp [h2, hacc]

private theorem isActiveManager_iff (s : State K C) (k : K) :
    isActiveManager s k = true ↔ ActiveManager s k := by
  unfold isActiveManager ActiveManager
  cases get? s k with
  | none => simp
  | some a => simp

/-- `promote` (repaired tree) succeeds exactly when the promoter is an active manager and the
    promoted identity an active member — the no-op shortcut included. -/
theorem c33_promote_ok_iff (s : State K C) (promoter promoted : K) (acc : Access C) :
    (∃ s', promote s promoter promoted acc = .ok s') ↔
      ActiveManager s promoter ∧ Active s promoted := by
  unfold promote
  cases h2 : get? s promoted with
  | none =>
    simp only [reduceCtorEq, exists_false, false_iff, not_and]
    intro _ ⟨m, hm, _⟩
    rw [h2] at hm; exact absurd hm (by simp)
  | some m =>
    simp only
    by_cases hc : (m.isManager && m.isMember && isActiveManager s promoter) = true
    · simp only [hc, if_true, Except.ok.injEq, exists_eq', true_iff]
      simp only [Bool.and_eq_true] at hc
      exact ⟨(isActiveManager_iff s promoter).1 hc.2, m, h2, hc.1.2⟩
    · simp only [hc]
      exact c33_modify_ok_iff s promoter promoted acc

theorem c33_demote_ok_iff (s : State K C) (demoter demoted : K) (acc : Access C) :
    (∃ s', demote s demoter demoted acc = .ok s') ↔
      ActiveManager s demoter ∧ Active s demoted := by
  unfold demote
  cases h2 : get? s demoted with
  | none =>
    simp only [reduceCtorEq, exists_false, false_iff, not_and]
    intro _ ⟨m, hm, _⟩
    rw [h2] at hm; exact absurd hm (by simp)
  | some m =>
    simp only
    by_cases hc : (m.isPuller && m.isMember && isActiveManager s demoter) = true
    · simp only [hc, if_true, Except.ok.injEq, exists_eq', true_iff]
      simp only [Bool.and_eq_true] at hc
      exact ⟨(isActiveManager_iff s demoter).1 hc.2, m, h2, hc.1.2⟩
    · simp only [hc]
      exact c33_modify_ok_iff s demoter demoted acc

/-- A successful `promote` / `demote` is either the identity (shortcut) or a successful `modify`. -/
theorem c33_promote_result (s s' : State K C) (p t : K) (acc : Access C)
    (h : promote s p t acc = .ok s') : s' = s ∨ GroupState.modify s p t acc = .ok s' := by
  unfold promote at h
  cases h2 : get? s t with
  | none => simp [h2] at h
  | some m =>
    simp only [h2] at h
    split at h
    · left; injection h with h; exact h.symm
    · right; exact h

theorem c33_demote_result (s s' : State K C) (p t : K) (acc : Access C)
    (h : demote s p t acc = .ok s') : s' = s ∨ GroupState.modify s p t acc = .ok s' := by
  unfold demote at h
  cases h2 : get? s t with
  | none => simp [h2] at h
  | some m =>
    simp only [h2] at h
    split at h
    · left; injection h with h; exact h.symm
    · right; exact h

/-! ## `validate` / `process` -/

/-- What the property demands of an accepted non-create action, in the member state `my` of the
    operation's group at its dependencies. -/
def Authorised (my : MState C) (author : Nat) : Action C → Prop
  | .create _ => True
  | .add m _ => ActiveManager my (.individual author) ∧ ¬ Active my m
  | .remove m => Active my (.individual author)
      ∧ (ActiveManager my (.individual author) ∨ Member.individual author = m) ∧ Active my m
  | .promote m _ => ActiveManager my (.individual author) ∧ Active my m
  | .demote m _ => ActiveManager my (.individual author) ∧ Active my m

private theorem stateAction_ok_authorised (my my' : MState C) (author : Nat) (action : Action C)
    (h : stateAction my author action = .ok my') : Authorised my author action := by
  cases action with
  | create l => trivial
  | add m a => exact (c33_add_ok_iff my _ m a).1 ⟨my', h⟩
  | remove m => exact (c33_remove_ok_iff my _ m).1 ⟨my', h⟩
  | promote m a => exact (c33_promote_ok_iff my _ m a).1 ⟨my', h⟩
  | demote m a => exact (c33_demote_ok_iff my _ m a).1 ⟨my', h⟩

/-- `c33_accept_sound`: whenever `validate`/`process` accept an operation, it is new, passes the
    manager-group and cycle guards, is not filtered, and its action *succeeded* on the group's
    member state at the dependencies — hence its author was an active manager there (or removed
    itself, or created the group) and the action was valid there; the stored state is exactly
    that successful application. -/
theorem c33_accept_sound (known : Bool) (op : Op C) (atDeps gs' : GroupStates C) (ignore : List Nat)
    (h : GroupCrdt.decide known op atDeps ignore = .accept gs') :
    known = false
    ∧ managerGroupGuard op.action = none
    ∧ wouldCreateCycle atDeps op.group op.action = false
    ∧ op.id ∉ ignore
    ∧ ∃ my my', (if op.action.isCreate then my = [] else gget? atDeps op.group = some my)
        ∧ stateAction my op.author op.action = .ok my'
        ∧ gs' = gupsert atDeps op.group my'
        ∧ Authorised my op.author op.action := by
  unfold GroupCrdt.decide at h
  cases hk : known with
  | true => simp [hk] at h
  | false =>
    simp only [hk, Bool.false_eq_true, if_false] at h
    cases hg : managerGroupGuard op.action with
    | some g => simp [hg] at h
    | none =>
      simp only [hg] at h
      cases hc : wouldCreateCycle atDeps op.group op.action with
      | true => simp [hc] at h
      | false =>
        simp only [hc, Bool.false_eq_true, if_false] at h
        refine ⟨rfl, rfl, rfl, ?_⟩
        unfold applyAction at h
        cases hcr : op.action.isCreate with
        | true =>
          simp only [hcr, if_true] at h
          by_cases hf : op.id ∈ ignore
          · simp [hf] at h
          · simp only [hf, if_false] at h
            cases hs : stateAction [] op.author op.action with
            | error e => simp [hs] at h
            | ok my' =>
              simp only [hs] at h
              injection h with h
              exact ⟨hf, [], my', by simp, hs, h.symm, stateAction_ok_authorised _ _ _ _ hs⟩
        | false =>
          simp only [hcr, Bool.false_eq_true, if_false] at h
          cases hgg : gget? atDeps op.group with
          | none => simp [hgg] at h
          | some my =>
            simp only [hgg] at h
            by_cases hf : op.id ∈ ignore
            · simp [hf] at h
            · simp only [hf, if_false] at h
              cases hs : stateAction my op.author op.action with
              | error e => simp [hs] at h
              | ok my' =>
                simp only [hs] at h
                injection h with h
                exact ⟨hf, my, my', by simp, hs, h.symm, stateAction_ok_authorised _ _ _ _ hs⟩

/-- A replica as far as `process` without rebuild touches it: the processed ids and the stored states. -/
structure Replica (C : Type) where
  ops : List Nat
  states : List (Nat × GroupStates C)

/-- `process` (non-rebuild path) as a step on the replica: only an accepted operation yields a new replica. -/
def step (r : Replica C) (op : Op C) (atDeps : GroupStates C) (ignore : List Nat) : Option (Replica C) :=
  match GroupCrdt.decide (decide (op.id ∈ r.ops)) op atDeps ignore with
  | .accept gs => some { ops := op.id :: r.ops, states := (op.id, gs) :: r.states }
  | _ => none

/-- `c33_reject_unchanged`: a rejected operation produces no new replica (the API consumes the old
    one and returns only the error; the caller's copy is untouched), and an already processed id is
    always rejected. -/
theorem c33_reject_unchanged (r : Replica C) (op : Op C) (atDeps : GroupStates C) (ignore : List Nat) :
    (step r op atDeps ignore = none ↔ ∀ gs, GroupCrdt.decide (decide (op.id ∈ r.ops)) op atDeps ignore ≠ .accept gs)
    ∧ (op.id ∈ r.ops → step r op atDeps ignore = none) := by
  constructor
  · unfold step
    cases h : GroupCrdt.decide (decide (op.id ∈ r.ops)) op atDeps ignore <;> simp
  · intro hin
    unfold step GroupCrdt.decide
    simp [hin]

/-! ## Nobody becomes a member without an accepted create or add -/

private theorem active_of_get? {s : State K C} {k : K} {m : MemberState C}
    (h : get? s k = some m) (hm : m.isMember = true) : Active s k := ⟨m, h, hm⟩

theorem c33_add_members (s s' : State K C) (adder added : K) (acc : Access C)
    (h : add s adder added acc = .ok s') (k : K) (hk : Active s' k) : Active s k ∨ k = added := by
  by_cases e : k = added
  · exact Or.inr e
  · left
    obtain ⟨m, h1, h2⟩ := hk
    rw [c33_add_effect s s' adder added acc h k] at h1
    simp only [e, if_false] at h1
    exact ⟨m, h1, h2⟩

theorem c33_remove_members (s s' : State K C) (remover removed : K)
    (h : remove s remover removed = .ok s') (k : K) (hk : Active s' k) : Active s k := by
  obtain ⟨hne, m, hm1, hm2, hm3⟩ := c33_remove_effect s s' remover removed h k
  by_cases e : k = removed
  · subst e; exact ⟨m, hm1, hm2⟩
  · obtain ⟨m', h1, h2⟩ := hk
    rw [hne e] at h1
    exact ⟨m', h1, h2⟩

theorem c33_modify_members (s s' : State K C) (a t : K) (acc : Access C)
    (h : GroupState.modify s a t acc = .ok s') (k : K) (hk : Active s' k) : Active s k := by
  obtain ⟨hne, m, hm1, hm2, _⟩ := c33_modify_effect s s' a t acc h k
  by_cases e : k = t
  · subst e; exact ⟨m, hm1, hm2⟩
  · obtain ⟨m', h1, h2⟩ := hk
    rw [hne e] at h1
    exact ⟨m', h1, h2⟩

theorem c33_promote_members (s s' : State K C) (a t : K) (acc : Access C)
    (h : promote s a t acc = .ok s') (k : K) (hk : Active s' k) : Active s k := by
  rcases c33_promote_result s s' a t acc h with e | e
  · subst e; exact hk
  · exact c33_modify_members s s' a t acc e k hk

theorem c33_demote_members (s s' : State K C) (a t : K) (acc : Access C)
    (h : demote s a t acc = .ok s') (k : K) (hk : Active s' k) : Active s k := by
  rcases c33_demote_result s s' a t acc h with e | e
  · subst e; exact hk
  · exact c33_modify_members s s' a t acc e k hk

private theorem create_fold_keys (l : List (K × Access C)) (s : State K C) (k : K) :
    (get? (l.foldl (fun s p => upsert s p.1 { mc := 1, access := p.2, ac := 0 }) s) k).isSome →
      (get? s k).isSome ∨ k ∈ l.map (·.1) := by
  induction l generalizing s with
  | nil => intro h; exact Or.inl h
  | cons p l ih =>
    intro h
    simp only [List.foldl_cons] at h
    rcases ih _ h with h' | h'
    · rw [get?_upsert] at h'
      by_cases e : k = p.1
      · right; simp [e]
      · simp only [e, if_false] at h'; exact Or.inl h'
    · right; simp only [List.map_cons, List.mem_cons]; exact Or.inr h'

theorem c33_create_members (l : List (K × Access C)) (k : K) (hk : Active (create l) k) :
    k ∈ l.map (·.1) := by
  obtain ⟨m, h1, _⟩ := hk
  have := create_fold_keys l ([] : State K C) k (by unfold create at h1; rw [h1]; rfl)
  rcases this with h | h
  · simp [get?] at h
  · exact h

theorem c33_merge_members (lt : Access C → Access C → Bool) (a b : State K C) (wa : WF a) (k : K)
    (hk : Active (merge lt a b) k) : Active a k ∨ Active b k := by
  obtain ⟨m, h1, h2⟩ := hk
  rw [get?_merge lt a b wa] at h1
  cases ha : get? a k with
  | none =>
    rw [ha] at h1
    exact Or.inr ⟨m, h1, h2⟩
  | some x =>
    cases hb : get? b k with
    | none =>
      rw [ha, hb] at h1
      simp only [mergeOpt, Option.some.injEq] at h1
      subst h1
      exact Or.inl ⟨x, ha, h2⟩
    | some y =>
      rw [ha, hb] at h1
      simp only [mergeOpt, Option.some.injEq] at h1
      rw [mergeMember_eq] at h1
      split at h1
      · subst h1; exact Or.inl ⟨x, ha, h2⟩
      · subst h1; exact Or.inr ⟨y, hb, h2⟩

theorem c33_removeUnsafe_members (s : State K C) (r k : K) (hk : Active (removeUnsafe s r) k) :
    Active s k := by
  unfold removeUnsafe at hk
  cases h : get? s r with
  | none => simpa [h] using hk
  | some m =>
    simp only [h] at hk
    split at hk
    · obtain ⟨m', h1, h2⟩ := hk
      rw [get?_setVal] at h1
      by_cases e : k = r
      · subst e
        simp only [if_true, h, Option.isSome_some, Option.some.injEq] at h1
        subst h1
        rename_i hodd
        simp only [MemberState.isMember, beq_iff_eq] at h2
        simp only [bne_iff_ne, ne_eq] at hodd
        omega
      · simp only [e, if_false] at h1
        exact ⟨m', h1, h2⟩
    · exact hk

/-- Member states reachable from the operations of the code, with the list of identities that some
    applied `create` listed or some *successful* `add` targeted. -/
inductive Reach (lt : Access C → Access C → Bool) : List K → State K C → Prop where
  | create (l : List (K × Access C)) : Reach lt (l.map (·.1)) (GroupState.create l)
  | add {I s s'} (a k : K) (acc : Access C) : Reach lt I s → GroupState.add s a k acc = .ok s' →
      Reach lt (k :: I) s'
  | remove {I s s'} (a k : K) : Reach lt I s → GroupState.remove s a k = .ok s' → Reach lt I s'
  | promote {I s s'} (a k : K) (acc : Access C) : Reach lt I s →
      GroupState.promote s a k acc = .ok s' → Reach lt I s'
  | demote {I s s'} (a k : K) (acc : Access C) : Reach lt I s →
      GroupState.demote s a k acc = .ok s' → Reach lt I s'
  | merge {I J a b} : Reach lt I a → Reach lt J b → Reach lt (I ++ J) (GroupState.merge lt a b)
  | removeUnsafe {I s} (k : K) : Reach lt I s → Reach lt I (GroupState.removeUnsafe s k)

private theorem wf_create (l : List (K × Access C)) : WF (GroupState.create l) := by
  unfold GroupState.create
  suffices ∀ s : State K C, WF s →
      WF (l.foldl (fun s p => upsert s p.1 { mc := 1, access := p.2, ac := 0 }) s) from
    this [] (by simp [WF, keys])
  induction l with
  | nil => intro s h; exact h
  | cons p l ih => intro s h; exact ih _ (wf_upsert s _ _ h)

private theorem wf_of_ok_add (s s' : State K C) (a k : K) (acc : Access C) (hw : WF s)
    (h : GroupState.add s a k acc = .ok s') : WF s' := by
  unfold GroupState.add at h
  cases h1 : get? s a with
  | none => simp [h1] at h
  | some x =>
    simp only [h1] at h
    cases hm : x.isMember <;> cases hg : x.isManager <;> simp [hm, hg] at h
    cases h2 : get? s k with
    | none =>
      simp only [h2] at h; injection h with h; subst h
      exact wf_append_single s k _ hw h2
    | some m =>
      simp only [h2] at h
      cases hm2 : m.isMember <;> simp [hm2] at h
      subst h; exact wf_setVal s k _ hw

private theorem wf_of_ok_remove (s s' : State K C) (a k : K) (hw : WF s)
    (h : GroupState.remove s a k = .ok s') : WF s' := by
  unfold GroupState.remove at h
  cases h1 : get? s a with
  | none => simp [h1] at h
  | some x =>
    simp only [h1] at h
    split at h
    · simp at h
    · split at h
      · simp at h
      · cases h2 : get? s k with
        | none => simp [h2] at h
        | some m =>
          simp only [h2] at h
          cases hm2 : m.isMember <;> simp [hm2] at h
          subst h; exact wf_setVal s k _ hw

private theorem wf_of_ok_modify (s s' : State K C) (a k : K) (acc : Access C) (hw : WF s)
    (h : GroupState.modify s a k acc = .ok s') : WF s' := by
  unfold GroupState.modify at h
  cases h1 : get? s a with
  | none => simp [h1] at h
  | some x =>
    simp only [h1] at h
    cases hm : x.isMember <;> cases hg : x.isManager <;> simp [hm, hg] at h
    cases h2 : get? s k with
    | none => simp [h2] at h
    | some m =>
      simp only [h2] at h
      cases hm2 : m.isMember <;> simp [hm2] at h
      by_cases hacc : m.access = acc
      · simp [hacc] at h; subst h; exact hw
      · simp [hacc] at h; subst h; exact wf_setVal s k _ hw

private theorem wf_removeUnsafe (s : State K C) (k : K) (hw : WF s) : WF (GroupState.removeUnsafe s k) := by
  unfold GroupState.removeUnsafe
  cases get? s k with
  | none => exact hw
  | some m =>
    simp only
    split
    · exact wf_setVal s k _ hw
    · exact hw

/-- `c33_members_introduced`: in every state reachable through `create / add / remove / promote /
    demote / merge / apply_remove_unsafe`, an active member was listed by some applied `create` or
    targeted by some successful `add`. -/
theorem c33_members_introduced (lt : Access C → Access C → Bool) (I : List K) (s : State K C)
    (h : Reach lt I s) : WF s ∧ ∀ k, Active s k → k ∈ I := by
  induction h with
  | create l => exact ⟨wf_create l, fun k hk => c33_create_members l k hk⟩
  | add a k acc _ hadd ih =>
    refine ⟨wf_of_ok_add _ _ a k acc ih.1 hadd, fun x hx => ?_⟩
    rcases c33_add_members _ _ a k acc hadd x hx with h | h
    · exact List.mem_cons_of_mem _ (ih.2 x h)
    · subst h; exact List.mem_cons_self
  | remove a k _ hrem ih =>
    exact ⟨wf_of_ok_remove _ _ a k ih.1 hrem, fun x hx => ih.2 x (c33_remove_members _ _ a k hrem x hx)⟩
  | promote a k acc _ hp ih =>
    refine ⟨?_, fun x hx => ih.2 x (c33_promote_members _ _ a k acc hp x hx)⟩
    rcases c33_promote_result _ _ a k acc hp with e | e
    · subst e; exact ih.1
    · exact wf_of_ok_modify _ _ a k acc ih.1 e
  | demote a k acc _ hp ih =>
    refine ⟨?_, fun x hx => ih.2 x (c33_demote_members _ _ a k acc hp x hx)⟩
    rcases c33_demote_result _ _ a k acc hp with e | e
    · subst e; exact ih.1
    · exact wf_of_ok_modify _ _ a k acc ih.1 e
  | merge _ _ iha ihb =>
    refine ⟨wf_merge lt _ _ ihb.1, fun x hx => ?_⟩
    rcases c33_merge_members lt _ _ iha.1 x hx with h | h
    · exact List.mem_append_left _ (iha.2 x h)
    · exact List.mem_append_right _ (ihb.2 x h)
  | removeUnsafe k _ ih =>
    exact ⟨wf_removeUnsafe _ k ih.1, fun x hx => ih.2 x (c33_removeUnsafe_members _ k x hx)⟩

/-! ## The defect of the pinned tree -/

/-- The acceptance rule as a statement about a `promote` function. -/
def PromoteSound (f : State Nat Nat → Nat → Nat → Access Nat → Except (Err Nat) (State Nat Nat)) : Prop :=
  ∀ s p t acc, (∃ s', f s p t acc = .ok s') → ActiveManager s p ∧ Active s t

/-- On the pinned tree a `promote` whose target already is a manager (a `demote` whose target
    already has `Pull`) returned `Ok` before any check: accepted for an actor unknown to the group,
    and for a target that is no longer a member. -/
theorem c33_orig_violates :
    ¬ PromoteSound promoteOrig ∧ ¬ PromoteSound demoteOrig
    ∧ promoteOrig ([(0, ⟨1, ⟨none, lvlManage⟩, 0⟩)] : State Nat Nat) 9 0 ⟨none, lvlManage⟩
        = .ok [(0, ⟨1, ⟨none, lvlManage⟩, 0⟩)]
    ∧ demoteOrig ([(0, ⟨2, ⟨none, lvlPull⟩, 0⟩)] : State Nat Nat) 9 0 ⟨none, lvlPull⟩
        = .ok [(0, ⟨2, ⟨none, lvlPull⟩, 0⟩)] := by
  refine ⟨?_, ?_, rfl, rfl⟩
  · intro h
    have := (h [(0, ⟨1, ⟨none, lvlManage⟩, 0⟩)] 9 0 ⟨none, lvlManage⟩ ⟨_, rfl⟩).1
    obtain ⟨m, hm, _⟩ := this
    have e : get? ([(0, ⟨1, ⟨none, lvlManage⟩, 0⟩)] : State Nat Nat) 9 = none := rfl
    rw [e] at hm; cases hm
  · intro h
    have := (h [(0, ⟨2, ⟨none, lvlPull⟩, 0⟩)] 9 0 ⟨none, lvlPull⟩ ⟨_, rfl⟩).1
    obtain ⟨m, hm, _⟩ := this
    have e : get? ([(0, ⟨2, ⟨none, lvlPull⟩, 0⟩)] : State Nat Nat) 9 = none := rfl
    rw [e] at hm; cases hm

theorem c33_repaired_promote_sound : PromoteSound promote ∧ PromoteSound demote :=
  ⟨fun s p t acc h => (c33_promote_ok_iff s p t acc).1 h,
   fun s p t acc h => (c33_demote_ok_iff s p t acc).1 h⟩

/-! ## Tie to the current source text (regenerated into `P2/Extracted/C33.lean` on every run) -/

section Source
set_option linter.unusedSimpArgs false
open P2.Extracted.C33

/-- the id is a key of the member map -/
def knownB (s : State K C) (k : K) : Bool := (get? s k).isSome
/-- the id is an active member -/
def memberB (s : State K C) (k : K) : Bool :=
  match get? s k with
  | some m => m.isMember
  | none => false
/-- the id's stored access level is Manage (whether active or not) -/
def managerB (s : State K C) (k : K) : Bool :=
  match get? s k with
  | some m => m.isManager
  | none => false
def pullerB (s : State K C) (k : K) : Bool :=
  match get? s k with
  | some m => m.isPuller
  | none => false

def errName : Err K → String
  | .alreadyAdded _ => "AlreadyAdded"
  | .alreadyRemoved _ => "AlreadyRemoved"
  | .insufficientAccess _ => "InsufficientAccess"
  | .inactiveActor _ => "InactiveActor"
  | .inactiveMember _ => "InactiveMember"
  | .unrecognisedActor _ => "UnrecognisedActor"
  | .unrecognisedMember _ => "UnrecognisedMember"

def errOf {α : Type} : Except (Err K) α → Option String
  | .ok _ => none
  | .error e => some (errName e)

/-- The rejections of the model's `add` are exactly the early-return chain of `state::add` as it stands
    in `state.rs` now (`addChecksT`: each `return Err(..)` with its guard, in source order). A reordered,
    dropped, added or altered check changes the generated chain and this theorem no longer checks. -/
theorem c33_add_checks_are_source (s : State K C) (adder added : K) (acc : Access C) :
    errOf (add s adder added acc) =
      addChecksT (knownB s adder) (memberB s adder) (managerB s adder) (knownB s added) (memberB s added)
        (decide (adder = added)) := by
  unfold add addChecksT knownB memberB managerB
  cases h1 : get? s adder with
  | none => simp [errOf, errName]
  | some a =>
    cases hm : a.isMember <;> cases hg : a.isManager <;> simp [errOf, errName, hm, hg]
    cases h2 : get? s added with
    | none => simp [errOf]
    | some m => cases hm2 : m.isMember <;> simp [errOf, errName, hm2]

theorem c33_remove_checks_are_source (s : State K C) (remover removed : K) :
    errOf (remove s remover removed) =
      removeChecksT (knownB s remover) (memberB s remover) (managerB s remover) (knownB s removed)
        (memberB s removed) (decide (remover = removed)) := by
  unfold remove removeChecksT knownB memberB managerB
  cases h1 : get? s remover with
  | none => simp [errOf, errName]
  | some a =>
    cases hm : a.isMember <;> simp [errOf, errName, hm]
    by_cases he : remover = removed
    · subst he
      simp [h1, hm, errOf]
    · cases hg : a.isManager <;> simp [errOf, errName, he]
      all_goals
        cases h2 : get? s removed with
        | none => simp [errOf, errName]
        | some m => cases hm2 : m.isMember <;> simp [errOf, errName, hm2]

theorem c33_modify_checks_are_source (s : State K C) (modifier modified : K) (acc : Access C) :
    errOf (GroupState.modify s modifier modified acc) =
      modifyChecksT (knownB s modifier) (memberB s modifier) (managerB s modifier) (knownB s modified)
        (memberB s modified) (decide (modifier = modified)) := by
  unfold GroupState.modify modifyChecksT knownB memberB managerB
  cases h1 : get? s modifier with
  | none => simp [errOf, errName]
  | some a =>
    cases hm : a.isMember <;> cases hg : a.isManager <;> simp [errOf, errName, hm, hg]
    cases h2 : get? s modified with
    | none => simp [errOf, errName]
    | some m =>
      cases hm2 : m.isMember <;> simp [errOf, errName, hm2]
      by_cases hacc : m.access = acc <;> simp [hacc, errOf]

/-- Which identity each error carries (actor / target), in source order; the model's error variants
    carry the same ones (`c33_add_err`, `c33_remove_err`, `c33_modify_err`). -/
theorem c33_err_args_are_source :
    addErrArgs = ["UnrecognisedActor:actor", "InactiveActor:actor", "InsufficientAccess:actor", "AlreadyAdded:target"]
    ∧ removeErrArgs = ["UnrecognisedActor:actor", "InactiveActor:actor", "InsufficientAccess:actor",
        "UnrecognisedMember:target", "AlreadyRemoved:target"]
    ∧ modifyErrArgs = ["UnrecognisedActor:actor", "InactiveActor:actor", "InsufficientAccess:actor",
        "InactiveMember:target", "UnrecognisedMember:target"] := by
  decide

private def interp (s : State K C) (viaModify : Except (Err K) (State K C)) (target : K) (r : String) :
    Except (Err K) (State K C) :=
  if r = "same" then .ok s else if r = "modify" then viaModify else .error (.unrecognisedMember target)

/-- The model's `promote` / `demote` are the functions in `state.rs` now (translated whole by rs2lean):
    unknown target first, then the no-op shortcut exactly under `target at level ∧ target active ∧
    is_active_manager(actor)`, else `modify`. Removing one conjunct of the repaired shortcut (the pinned
    tree's defect) breaks this theorem. -/
theorem c33_promote_is_source (s : State K C) (p t : K) (acc : Access C) :
    promote s p t acc =
      interp s (GroupState.modify s p t acc) t
        (promoteT (knownB s t) (memberB s t) (managerB s t) (isActiveManager s p)) := by
  cases h : get? s t with
  | none =>
    have hk : knownB s t = false := by simp [knownB, h]
    simp [promote, h, promoteT, hk, interp]
  | some m =>
    have hk : knownB s t = true := by simp [knownB, h]
    have hm : memberB s t = m.isMember := by simp [memberB, h]
    have hg : managerB s t = m.isManager := by simp [managerB, h]
    simp only [promote, h, promoteT, hk, hm, hg, interp]
    cases h1 : m.isManager <;> cases h2 : m.isMember <;> cases h3 : isActiveManager s p <;> simp

theorem c33_demote_is_source (s : State K C) (p t : K) (acc : Access C) :
    demote s p t acc =
      interp s (GroupState.modify s p t acc) t
        (demoteT (knownB s t) (memberB s t) (pullerB s t) (isActiveManager s p)) := by
  cases h : get? s t with
  | none =>
    have hk : knownB s t = false := by simp [knownB, h]
    simp [demote, h, demoteT, hk, interp]
  | some m =>
    have hk : knownB s t = true := by simp [knownB, h]
    have hm : memberB s t = m.isMember := by simp [memberB, h]
    have hg : pullerB s t = m.isPuller := by simp [pullerB, h]
    simp only [demote, h, demoteT, hk, hm, hg, interp]
    cases h1 : m.isPuller <;> cases h2 : m.isMember <;> cases h3 : isActiveManager s p <;> simp

/-- The state updates of the model are the closure bodies in `state.rs` / `mod.rs` now (symbolically
    executed): re-add (`member_counter += 1`, new access, access counter 0), remove (`+= 1`, counter 0),
    modify (access replaced and access counter `+= 1` only if the access differs), `apply_remove_unsafe`
    (`+= 1` only if odd), the fresh entries of `add` / `create`, and `is_member` = odd member counter. -/
theorem c33_updates_are_source (m : MemberState C) (acc : Access C) :
    (m.isMember = false → addModifyT m.mc m.ac m.access acc = (m.mc + 1, acc, 0))
    ∧ (m.isMember = true → removeModifyT m.mc m.ac m.access = (m.mc + 1, m.access, 0))
    ∧ modifyModifyT m.mc m.ac m.access acc
        = (if m.access ≠ acc then (m.mc, acc, m.ac + 1) else (m.mc, m.access, m.ac))
    ∧ (removeUnsafeT m.mc).1 = (if m.mc % 2 != 0 then m.mc + 1 else m.mc)
    ∧ m.isMember = isMemberT m.mc
    ∧ addInsert = "member_counter: 1, access, access_counter: 0,"
    ∧ createEntry = "member_counter: 1, access: access.clone(), access_counter: 0,"
    ∧ isActiveManagerBody = "state .members .get(actor) .is_some_and(|actor_state| actor_state.is_member() && actor_state.is_manager())" := by
  refine ⟨?_, ?_, ?_, ?_, ?_, by decide, by decide, by decide⟩
  · intro h
    simp only [MemberState.isMember, beq_eq_false_iff_ne, ne_eq] at h
    simp [addModifyT, h]
  · intro h
    simp only [MemberState.isMember, beq_iff_eq] at h
    simp [removeModifyT, h]
  · unfold modifyModifyT
    by_cases h : m.access = acc <;> simp [h]
  · unfold removeUnsafeT
    by_cases h : m.mc % 2 = 0 <;> simp [h]
  · unfold MemberState.isMember isMemberT
    have : m.mc % 2 = 0 ∨ m.mc % 2 = 1 := by omega
    rcases this with h | h <;> simp [h]

/-- The merge that builds the state an operation is judged on is the loop body of `state::merge` as it
    stands in `state.rs` now (same tie as `c32_merge_is_source`): "the side with the higher member counter
    wins completely, the access counter only breaks ties" cannot be edited without breaking this. -/
theorem c33_merge_is_source (lt : Access C → Access C → Bool) (m1 m : MemberState C) :
    ((mergeMember lt m1 m).mc, (mergeMember lt m1 m).access, (mergeMember lt m1 m).ac)
      = mergeMemberT lt m1.mc m1.ac m1.access m.mc m.ac m.access := by
  obtain ⟨amc, aacc, aac⟩ := m1
  obtain ⟨bmc, bacc, bac⟩ := m
  unfold mergeMember mergeMemberT
  simp only
  rcases Nat.lt_trichotomy amc bmc with h | h | h
  · have h1 : ¬ amc > bmc := by omega
    have h2 : ¬ amc = bmc := by omega
    simp [h1, h2]
  · subst h
    simp only [gt_iff_lt, Nat.lt_irrefl, if_false, if_true]
    rcases Nat.lt_trichotomy aac bac with g | g | g
    · have g1 : ¬ bac < aac := by omega
      have g2 : ¬ aac = bac := by omega
      simp [g1, g2]
    · subst g
      by_cases hl : lt aacc bacc = true <;> simp [hl]
    · simp [g]
  · have h2 : ¬ amc = bmc := by omega
    simp [h]

/-- `validate` rejects in the order duplicate → manager group → cycle → state change error, judges the
    action on `temp_y.inner.current_state()`, the manager-group guard covers exactly `Add | Promote`;
    `apply_action` tests the filter before applying the action and `expect`s the group for non-create
    actions — the order and shapes transcribed in `GroupCrdt.decide` / `applyAction`. -/
theorem c33_validate_order_is_source :
    validateOrder.map (·.1) = ["DuplicateOperation", "ManagerGroupsNotAllowed", "GroupCycle", "StateChangeError"]
    ∧ validateOrder.map (·.2) = ["y.inner.operations.contains_key(&operation.id())",
        "member.is_group() && access.is_manage() =>", "temp_y.inner.would_create_cycle(operation)", "=>"]
    ∧ managerGuardPattern = "GroupAction::Add { member, access } | GroupAction::Promote { member, access }"
    ∧ validateStateUsed = "temp_y.inner.current_state()"
    ∧ filterBeforeAction = true
    ∧ applyActionMissingGroup = "if action.is_create() { GroupMembersState::default() } else { groups_y .remove(&group_id) .expect(\"group already present in states map\") }" := by
  exact ⟨rfl, rfl, rfl, rfl, rfl, rfl⟩

end Source

/-! ### Non-vacuity -/

private def mgr : MemberState Nat := ⟨1, ⟨none, lvlManage⟩, 0⟩
private def rdr : MemberState Nat := ⟨1, ⟨none, lvlRead⟩, 0⟩
private def g0 : State Nat Nat := [(0, mgr), (1, rdr)]

example : ActiveManager g0 0 ∧ ¬ Active g0 2 ∧ (∃ s', add g0 0 2 ⟨some 4, lvlWrite⟩ = .ok s') :=
  ⟨⟨mgr, rfl, rfl, rfl⟩,
   (by rintro ⟨m, h, _⟩; have e : get? g0 2 = none := rfl; rw [e] at h; cases h), _, rfl⟩
example : add g0 1 2 ⟨none, lvlRead⟩ = .error (.insufficientAccess 1) := rfl
example : remove g0 1 1 = .ok [(0, mgr), (1, ⟨2, ⟨none, lvlRead⟩, 0⟩)] := rfl
example : promote g0 9 0 ⟨none, lvlManage⟩ = .error (.unrecognisedActor 9) := rfl
example : ∃ I s, Reach (accessLtFix (fun (x y : Nat) => some (compare x y))) I s ∧ Active s (2 : Nat) :=
  ⟨_, _, Reach.add 0 2 ⟨none, lvlRead⟩ (Reach.create [(0, ⟨none, lvlManage⟩)]) rfl,
    ⟨_, rfl, rfl⟩⟩

end P2.C33
