/-
C26 — Wire framing decodes exactly the encoded message sequence.
Model: `P2/Model/Codec.lean` (transcription of `p2panda-net/src/codec.rs` + FramedRead loop).
All theorems hold for every message type `M`, every payload (de)serialiser with
`de (ser m) = some m`, every `max_frame_len`, every message list and every chunking.
-/
import P2.Model.Codec
import P2.Extracted.C26

namespace P2.C26
open P2.Codec

set_option linter.unusedSectionVars false
set_option linter.unusedVariables false
set_option linter.unusedSimpArgs false

/-! ## Length prefix -/

theorem be32_length (n : Nat) : (be32 n).length = 4 := rfl

theorem fromBe32_be32 (n : Nat) (h : n < 4294967296) : fromBe32 (be32 n) = n := by
  simp only [fromBe32, be32, List.getD_cons_zero, List.getD_cons_succ]
  omega

theorem be32_bytes (n : Nat) : ∀ b ∈ be32 n, b < 256 := by
  intro b hb
  simp only [be32, List.mem_cons, List.not_mem_nil, or_false] at hb
  omega

section
variable {M : Type} (max : Nat) (ser : M → List Nat) (de : List Nat → Option M)

/-! ## One `decode` call -/

theorem decodeStep_frame_append (p : List Nat) (m : M) (X : List Nat)
    (hmax : p.length ≤ max) (h32 : p.length < 4294967296) (hde : de p = some m) :
    decodeStep max de (frame p ++ X) = .ok (some (m, X)) := by
  have hlen : (frame p ++ X).length = 4 + p.length + X.length := by
    simp [frame, be32_length]; omega
  have htake : (frame p ++ X).take 4 = be32 p.length := by
    simp [frame, List.append_assoc, List.take_append, be32_length, be32]
  have hpay : ((frame p ++ X).drop 4).take p.length = p := by
    simp [frame, List.append_assoc, List.drop_append, be32_length, List.take_append]
  have hrest : (frame p ++ X).drop (4 + p.length) = X := by
    have : frame p ++ X = (be32 p.length ++ p) ++ X := rfl
    rw [this, List.drop_append]
    simp [be32_length]
  unfold decodeStep
  rw [htake, fromBe32_be32 _ h32, hpay, hrest, hde, hlen]
  have h1 : ¬ (4 + p.length + X.length < 4) := by omega
  have h2 : ¬ (p.length > max) := by omega
  have h3 : ¬ (4 + p.length + X.length < 4 + p.length) := by omega
  simp [h1, h2, h3]

theorem decodeStep_some_length {buf : List Nat} {m : M} {rest : List Nat}
    (h : decodeStep max de buf = .ok (some (m, rest))) : rest.length + 4 ≤ buf.length := by
  unfold decodeStep at h
  split at h
  · cases h
  · split at h
    · cases h
    · split at h
      · cases h
      · split at h
        · cases h
        · injection h with h; injection h with h; injection h with _ h
          subst h; simp; omega

/-- More bytes behind a decodable buffer do not change what `decode` returns. -/
theorem decodeStep_append_some {buf : List Nat} {m : M} {rest : List Nat} (c : List Nat)
    (h : decodeStep max de buf = .ok (some (m, rest))) :
    decodeStep max de (buf ++ c) = .ok (some (m, rest ++ c)) := by
  unfold decodeStep at h ⊢
  split at h
  · cases h
  · rename_i h4
    split at h
    · cases h
    · rename_i hmx
      split at h
      · cases h
      · rename_i hfull
        have ht : (buf ++ c).take 4 = buf.take 4 := by
          rw [List.take_append_of_le_length (by omega)]
        have hp : ((buf ++ c).drop 4).take (fromBe32 (buf.take 4)) =
            (buf.drop 4).take (fromBe32 (buf.take 4)) := by
          rw [List.drop_append_of_le_length (by omega),
            List.take_append_of_le_length (by simp; omega)]
        have hd : (buf ++ c).drop (4 + fromBe32 (buf.take 4)) =
            buf.drop (4 + fromBe32 (buf.take 4)) ++ c := by
          rw [List.drop_append_of_le_length (by omega)]
        have h1 : ¬ ((buf ++ c).length < 4) := by simp; omega
        have h3 : ¬ ((buf ++ c).length < 4 + fromBe32 (buf.take 4)) := by simp; omega
        rw [ht, hp, hd]
        simp only [h1, hmx, h3, if_false]
        split at h
        · cases h
        · rename_i m' hm
          injection h with h; injection h with h; injection h with h1' h2'
          subst h1'; subst h2'
          simp [hm]

theorem decodeStep_append_err {buf : List Nat} {e : Err} (c : List Nat)
    (h : decodeStep max de buf = .error e) : decodeStep max de (buf ++ c) = .error e := by
  unfold decodeStep at h ⊢
  split at h
  · cases h
  · rename_i h4
    have ht : (buf ++ c).take 4 = buf.take 4 := by
      rw [List.take_append_of_le_length (by omega)]
    have h1 : ¬ ((buf ++ c).length < 4) := by simp; omega
    rw [ht]
    simp only [h1, if_false]
    split at h
    · rename_i hmx; simpa [hmx] using h
    · rename_i hmx
      split at h
      · cases h
      · rename_i hfull
        have hp : ((buf ++ c).drop 4).take (fromBe32 (buf.take 4)) =
            (buf.drop 4).take (fromBe32 (buf.take 4)) := by
          rw [List.drop_append_of_le_length (by omega),
            List.take_append_of_le_length (by simp; omega)]
        have h3 : ¬ ((buf ++ c).length < 4 + fromBe32 (buf.take 4)) := by simp; omega
        rw [hp]
        simp only [hmx, h3, if_false]
        split at h
        · rename_i hm; simpa [hm] using h
        · cases h

/-! ## The drain loop: fuel is irrelevant once it exceeds the buffer length -/

theorem drain_fuel : ∀ (f f' : Nat) (buf : List Nat), buf.length < f → buf.length < f' →
    drain max de f buf = drain max de f' buf := by
  intro f
  induction f with
  | zero => intro f' buf h; omega
  | succ f ih =>
    intro f' buf h h'
    cases f' with
    | zero => omega
    | succ f' =>
      simp only [drain]
      cases hs : decodeStep max de buf with
      | error e => rfl
      | ok o =>
        cases o with
        | none => rfl
        | some mr =>
          obtain ⟨m, rest⟩ := mr
          have hl := decodeStep_some_length max de hs
          simp only
          rw [ih f' rest (by omega) (by omega)]

/-- Unfolding equation of the drain loop. -/
theorem drainAll_unfold (buf : List Nat) :
    drainAll max de buf =
      match decodeStep max de buf with
      | .error e => ([], buf, some e)
      | .ok none => ([], buf, none)
      | .ok (some (m, rest)) =>
        ((m :: (drainAll max de rest).1), (drainAll max de rest).2.1, (drainAll max de rest).2.2) := by
  have hdef : ∀ b, drainAll max de b = drain max de (b.length + 1) b := fun _ => rfl
  rw [hdef buf]
  simp only [drain]
  cases hs : decodeStep max de buf with
  | error e => rfl
  | ok o =>
    cases o with
    | none => rfl
    | some mr =>
      obtain ⟨m, rest⟩ := mr
      have hl := decodeStep_some_length max de hs
      simp only
      rw [hdef rest, drain_fuel max de buf.length (rest.length + 1) rest (by omega) (by omega)]

/-- After draining without error the buffer holds an incomplete frame only. -/
theorem drainAll_drained : ∀ (n : Nat) (buf : List Nat), buf.length ≤ n →
    (drainAll max de buf).2.2 = none → decodeStep max de (drainAll max de buf).2.1 = .ok none := by
  intro n
  induction n with
  | zero =>
    intro buf hn _
    have : buf = [] := List.eq_nil_of_length_eq_zero (by omega)
    subst this
    rw [drainAll_unfold]; simp [decodeStep]
  | succ n ih =>
    intro buf hn h
    rw [drainAll_unfold] at h ⊢
    cases hs : decodeStep max de buf with
    | error e => rw [hs] at h; simp at h
    | ok o =>
      cases o with
      | none => simp [hs]
      | some mr =>
        obtain ⟨m, rest⟩ := mr
        have hl := decodeStep_some_length max de hs
        rw [hs] at h
        simp only at h ⊢
        exact ih rest (by omega) h

/-- Splitting the input of the drain loop: draining `buf ++ c` is draining `buf`, then (unless
    that failed) draining what was left together with `c`. -/
theorem drainAll_append : ∀ (n : Nat) (buf c : List Nat), buf.length ≤ n →
    drainAll max de (buf ++ c) =
      match (drainAll max de buf).2.2 with
      | some e => ((drainAll max de buf).1, (drainAll max de buf).2.1 ++ c, some e)
      | none =>
        ((drainAll max de buf).1 ++ (drainAll max de ((drainAll max de buf).2.1 ++ c)).1,
         (drainAll max de ((drainAll max de buf).2.1 ++ c)).2.1,
         (drainAll max de ((drainAll max de buf).2.1 ++ c)).2.2) := by
  intro n
  induction n with
  | zero =>
    intro buf c hn
    have : buf = [] := List.eq_nil_of_length_eq_zero (by omega)
    subst this
    have h0 : drainAll max de ([] : List Nat) = ([], [], none) := by
      rw [drainAll_unfold]; simp [decodeStep]
    simp [h0]
  | succ n ih =>
    intro buf c hn
    cases hs : decodeStep max de buf with
    | error e =>
      have hb : drainAll max de buf = ([], buf, some e) := by rw [drainAll_unfold, hs]
      rw [hb, drainAll_unfold, decodeStep_append_err max de c hs]
    | ok o =>
      cases o with
      | none =>
        have hb : drainAll max de buf = ([], buf, none) := by rw [drainAll_unfold, hs]
        rw [hb]; simp
      | some mr =>
        obtain ⟨m, rest⟩ := mr
        have hl := decodeStep_some_length max de hs
        have hb : drainAll max de buf =
            ((m :: (drainAll max de rest).1), (drainAll max de rest).2.1,
              (drainAll max de rest).2.2) := by rw [drainAll_unfold, hs]
        rw [hb, drainAll_unfold (buf := buf ++ c), decodeStep_append_some max de c hs]
        simp only
        rw [ih rest c (by omega)]
        cases (drainAll max de rest).2.2 with
        | some e => rfl
        | none => simp

/-! ## Chunking is irrelevant (for *every* byte stream, well-formed or not) -/

/-- Two outcomes agree on the yielded messages and the error, and on the buffer if no error. -/
def Same (a b : List M × List Nat × Option Err) : Prop :=
  a.1 = b.1 ∧ a.2.2 = b.2.2 ∧ (a.2.2 = none → a.2.1 = b.2.1)

theorem feedAll_same_drainAll : ∀ (cs : List (List Nat)) (buf : List Nat),
    decodeStep max de buf = .ok none →
    Same (feedAll max de buf cs) (drainAll max de (buf ++ cs.flatten)) := by
  intro cs
  induction cs with
  | nil =>
    intro buf hb
    have : drainAll max de buf = ([], buf, none) := by rw [drainAll_unfold, hb]
    simp [feedAll, Same, this]
  | cons c cs ih =>
    intro buf hb
    have happ := drainAll_append max de (buf ++ c).length (buf ++ c) cs.flatten (Nat.le_refl _)
    have hfl : buf ++ (c :: cs).flatten = (buf ++ c) ++ cs.flatten := by simp
    rw [hfl, happ]
    simp only [feedAll, feed]
    cases he : (drainAll max de (buf ++ c)).2.2 with
    | some e => simp [Same]
    | none =>
      have hd := drainAll_drained max de _ (buf ++ c) (Nat.le_refl _) he
      have := ih _ hd
      obtain ⟨h1, h2, h3⟩ := this
      simp only [Same] at h1 h2 h3 ⊢
      refine ⟨by rw [h1], h2, h3⟩

/-- **Chunking irrelevance**: the stream of decoded items (and the terminating error, if any)
    depends only on the concatenation of the chunks — for any bytes whatsoever. -/
theorem c26_chunking (chunks chunks' : List (List Nat)) (h : chunks.flatten = chunks'.flatten) :
    runStream max de chunks = runStream max de chunks' := by
  have hnil : decodeStep max de ([] : List Nat) = .ok none := by simp [decodeStep]
  have a := feedAll_same_drainAll max de chunks [] hnil
  have b := feedAll_same_drainAll max de chunks' [] hnil
  simp only [List.nil_append] at a b
  rw [h] at a
  obtain ⟨a1, a2, a3⟩ := a
  obtain ⟨b1, b2, b3⟩ := b
  unfold runStream
  simp only
  rw [a1, b1, a2, b2]
  cases he : (drainAll max de chunks'.flatten).2.2 with
  | some e => rfl
  | none =>
    rw [a3 (a2.trans he), b3 (b2.trans he)]

/-! ## Well-formed streams -/

/-- A message the codec accepts: payload within `max_frame_len` and within the `u32` prefix. -/
def Fits (m : M) : Prop := (ser m).length ≤ max ∧ (ser m).length < 4294967296

theorem drainAll_frames (hde : ∀ m, de (ser m) = some m) :
    ∀ (ms : List M) (r : List Nat), (∀ m ∈ ms, Fits max ser m) →
      decodeStep max de r = .ok none →
      drainAll max de (frames (ms.map ser) ++ r) = (ms, r, none) := by
  intro ms
  induction ms with
  | nil =>
    intro r _ hr
    simp only [frames, List.map_nil, List.flatten_nil, List.nil_append]
    rw [drainAll_unfold, hr]
  | cons m ms ih =>
    intro r hf hr
    have hm := hf m (List.mem_cons_self ..)
    have hfr : frames ((m :: ms).map ser) ++ r = frame (ser m) ++ (frames (ms.map ser) ++ r) := by
      simp [frames]
    rw [hfr, drainAll_unfold,
      decodeStep_frame_append max de (ser m) m _ hm.1 hm.2 (hde m)]
    simp only
    rw [ih r (fun x hx => hf x (List.mem_cons_of_mem _ hx)) hr]

/-- `encodeAll` succeeds exactly on fitting messages and then produces their frames, appended. -/
theorem encodeAll_ok_iff : ∀ (ms : List M) (dst out : List Nat),
    encodeAll max ser ms dst = .ok out ↔
      ((∀ m ∈ ms, Fits max ser m) ∧ out = dst ++ frames (ms.map ser)) := by
  intro ms
  induction ms with
  | nil => intro dst out; simp [encodeAll, frames, eq_comm]
  | cons m ms ih =>
    intro dst out
    simp only [encodeAll, encode]
    by_cases h1 : (ser m).length > max
    · simp only [h1, if_true]
      constructor
      · intro h; cases h
      · intro h; have := (h.1 m (List.mem_cons_self ..)).1; omega
    · by_cases h2 : (ser m).length ≥ 4294967296
      · simp only [h1, h2, if_true, if_false]
        constructor
        · intro h; cases h
        · intro h; have := (h.1 m (List.mem_cons_self ..)).2; omega
      · simp only [h1, h2, if_false]
        rw [ih]
        have hfr : frames ((m :: ms).map ser) = be32 (ser m).length ++ ser m ++ frames (ms.map ser) := by
          simp [frames, frame]
        rw [hfr]
        constructor
        · rintro ⟨ha, hb⟩
          refine ⟨?_, by rw [hb]; simp [List.append_assoc]⟩
          intro x hx
          rcases List.mem_cons.1 hx with rfl | hx
          · exact ⟨by omega, by omega⟩
          · exact ha x hx
        · rintro ⟨ha, hb⟩
          exact ⟨fun x hx => ha x (List.mem_cons_of_mem _ hx), by rw [hb]; simp [List.append_assoc]⟩

/-! ## Property theorems -/

/-- **Round trip, any chunking.** Any sequence of fitting messages, framed and delivered in any
    chunks (empty ones, chunks splitting a length prefix, several frames in one chunk, …),
    comes out of the `FramedRead` loop as exactly that sequence, with no error. -/
theorem c26_roundtrip (hde : ∀ m, de (ser m) = some m) (ms : List M) (chunks : List (List Nat))
    (hfit : ∀ m ∈ ms, (ser m).length ≤ max ∧ (ser m).length < 4294967296)
    (hch : chunks.flatten = frames (ms.map ser)) :
    runStream max de chunks = (ms, none) := by
  rw [c26_chunking max de chunks [frames (ms.map ser)] (by simpa using hch)]
  have hnil : decodeStep max de ([] : List Nat) = .ok none := by simp [decodeStep]
  have h := drainAll_frames max ser de hde ms [] hfit hnil
  simp only [List.append_nil] at h
  have h0 : drainAll max de ([] : List Nat) = ([], [], none) := by
    rw [drainAll_unfold, hnil]
  simp [runStream, feedAll, feed, h, h0]

/-- Round trip stated against the encoder: whatever `Codec::encode` wrote for a message list
    (into an empty buffer), split anyhow, decodes to that list. -/
theorem c26_roundtrip_encode (hde : ∀ m, de (ser m) = some m) (ms : List M) (bytes : List Nat)
    (chunks : List (List Nat)) (henc : encodeAll max ser ms [] = .ok bytes)
    (hch : chunks.flatten = bytes) : runStream max de chunks = (ms, none) := by
  obtain ⟨hfit, hb⟩ := (encodeAll_ok_iff max ser ms [] bytes).1 henc
  exact c26_roundtrip max ser de hde ms chunks hfit (by rw [hch, hb]; simp)

/-- **Incomplete frame.** Every strict prefix of a fitting frame makes `decode` answer "need
    more bytes": nothing is yielded, no error, the buffer is kept. -/
theorem c26_prefix (p : List Nat) (k : Nat) (hmax : p.length ≤ max) (h32 : p.length < 4294967296)
    (hk : k < (frame p).length) : decodeStep max de ((frame p).take k) = (.ok none : Except Err _) := by
  unfold decodeStep
  have hfl : (frame p).length = 4 + p.length := by
    simp only [frame, List.length_append, be32_length]
  have hl : ((frame p).take k).length = k := by simp [List.length_take]; omega
  by_cases h4 : k < 4
  · simp [hl, h4]
  · have ht : ((frame p).take k).take 4 = be32 p.length := by
      rw [List.take_take]
      have : min 4 k = 4 := by omega
      rw [this]; simp [frame, List.take_append, be32_length, be32]
    rw [ht, fromBe32_be32 _ h32, hl]
    have h2 : ¬ (p.length > max) := by omega
    have h3 : k < 4 + p.length := by omega
    simp [h4, h2, h3]

/-- Stream form: complete frames followed by a strict prefix of one more fitting frame yield
    exactly the complete messages; at end-of-file the leftover bytes are reported as an error
    (never as a message). -/
theorem c26_prefix_stream (hde : ∀ m, de (ser m) = some m) (ms : List M) (p : List Nat) (k : Nat)
    (chunks : List (List Nat)) (hfit : ∀ m ∈ ms, Fits max ser m)
    (hmax : p.length ≤ max) (h32 : p.length < 4294967296) (hk : k < (frame p).length)
    (hch : chunks.flatten = frames (ms.map ser) ++ (frame p).take k) :
    runStream max de chunks = (ms, if k = 0 then none else some Err.eof) := by
  rw [c26_chunking max de chunks [frames (ms.map ser) ++ (frame p).take k] (by simpa using hch)]
  have hpre := c26_prefix max de p k hmax h32 hk
  have h := drainAll_frames max ser de hde ms _ hfit hpre
  have hl : ((frame p).take k).length = k := by simp [List.length_take]; omega
  have hdr : drainAll max de ((frame p).take k) = ([], (frame p).take k, none) := by
    rw [drainAll_unfold, hpre]
  have hemp : ((frame p).take k).isEmpty = decide (k = 0) := by
    cases hq : List.take k (frame p) with
    | nil => rw [hq] at hl; simp at hl; simp [← hl]
    | cons a t =>
      rw [hq] at hl; simp at hl
      have : k ≠ 0 := by omega
      simp [this]
  simp only [runStream, feedAll, feed, List.nil_append, h, hdr, List.append_nil, hemp]
  by_cases hk0 : k = 0 <;> simp [hk0]

/-- **Too large is rejected on both sides.** -/
theorem c26_too_large :
    (∀ (m : M) (dst : List Nat), (ser m).length > max → encode max ser m dst = .error .tooLarge)
    ∧ (∀ buf : List Nat, 4 ≤ buf.length → fromBe32 (buf.take 4) > max →
        decodeStep max de buf = .error .tooLarge) := by
  constructor
  · intro m dst h; simp [encode, h]
  · intro buf h4 h
    unfold decodeStep
    have : ¬ (buf.length < 4) := by omega
    simp [this, h]

/-- Stream form: after any fitting messages, a length prefix announcing more than
    `max_frame_len` ends the stream with `TooLargeMessage` — whatever follows, however chunked,
    and without waiting for the announced bytes. -/
theorem c26_too_large_stream (hde : ∀ m, de (ser m) = some m) (ms : List M) (n : Nat)
    (tail : List Nat) (chunks : List (List Nat)) (hfit : ∀ m ∈ ms, Fits max ser m)
    (hn : n > max) (h32 : n < 4294967296)
    (hch : chunks.flatten = frames (ms.map ser) ++ (be32 n ++ tail)) :
    runStream max de chunks = (ms, some Err.tooLarge) := by
  rw [c26_chunking max de chunks [frames (ms.map ser) ++ (be32 n ++ tail)] (by simpa using hch)]
  have hbad : decodeStep max de (be32 n ++ tail) = .error .tooLarge := by
    apply (c26_too_large max ser de).2
    · simp [be32_length]
    · rw [List.take_append_of_le_length (by simp [be32_length])]
      have : (be32 n).take 4 = be32 n := by simp [be32]
      rw [this, fromBe32_be32 _ h32]; exact hn
  -- drain the good frames, then hit the error
  have hnil : decodeStep max de ([] : List Nat) = .ok none := by simp [decodeStep]
  have hgood := drainAll_frames max ser de hde ms [] hfit hnil
  simp only [List.append_nil] at hgood
  have happ := drainAll_append max de _ (frames (ms.map ser)) (be32 n ++ tail) (Nat.le_refl _)
  rw [hgood] at happ
  simp only [List.nil_append] at happ
  have hdr : drainAll max de (be32 n ++ tail) = ([], be32 n ++ tail, some Err.tooLarge) := by
    rw [drainAll_unfold, hbad]
  rw [hdr] at happ
  simp [runStream, feedAll, feed, happ]

/-- **No smaller frame is rejected.** A message whose payload is within `max_frame_len` (and
    within the `u32` prefix) is accepted by `encode`, which appends exactly its frame, and that
    frame — with anything behind it — is accepted by `decode`. -/
theorem c26_not_smaller (hde : ∀ m, de (ser m) = some m) (m : M) (dst X : List Nat)
    (hmax : (ser m).length ≤ max) (h32 : (ser m).length < 4294967296) :
    encode max ser m dst = .ok (dst ++ frame (ser m))
    ∧ decodeStep max de (frame (ser m) ++ X) = .ok (some (m, X)) := by
  constructor
  · have h1 : ¬ ((ser m).length > max) := by omega
    have h2 : ¬ ((ser m).length ≥ 4294967296) := by omega
    simp [encode, h1, h2, frame, List.append_assoc]
  · exact decodeStep_frame_append max de (ser m) m X hmax h32 (hde m)

/-- The threshold is exact: `encode` fails iff the payload is larger than `max_frame_len`
    (for payloads the 4-byte prefix can express). -/
theorem c26_threshold_exact (m : M) (dst : List Nat) (h32 : (ser m).length < 4294967296) :
    (encode max ser m dst = .error .tooLarge ↔ (ser m).length > max) := by
  by_cases h1 : (ser m).length > max
  · simp [encode, h1]
  · have h2 : ¬ ((ser m).length ≥ 4294967296) := by omega
    simp [encode, h1, h2]

end

/-- With the default `max_frame_len` read from the current source every accepted payload length
    fits the 4-byte prefix (`u32::try_from(..).expect(..)` cannot fire). -/
theorem c26_default_max_fits_prefix : P2.Extracted.C26.defaultMaxFrameLen < 4294967296 := by decide

/-- Tie to the source text: whether the model's `encode` accepts a message is, for payloads the
    4-byte prefix can express, exactly the decision `rs2lean` regenerates from the current body
    of `Codec::encode` (size check → `Err(TooLargeMessage)`, otherwise write and `Ok(())`). -/
theorem c26_encode_check_is_source {M : Type} (max : Nat) (ser : M → List Nat) (m : M) (dst : List Nat)
    (h32 : (ser m).length < 4294967296) :
    (match encode max ser m dst with | .ok _ => true | .error _ => false)
      = P2.Extracted.C26.encodeCheckT (ser m).length max := by
  unfold encode P2.Extracted.C26.encodeCheckT
  have h2 : ¬ ((ser m).length ≥ 4294967296) := by omega
  by_cases h1 : (ser m).length > max <;> simp [h1, h2]

/-- Tie to the source text: the model's `decodeStep` **is** the Lean term `rs2lean` regenerates
    from the current body of `Codec::decode` (result and buffer after the call) — the two length
    comparisons, their order, the early returns and the `advance(4 + frame_len)`. Comparing
    `4 + frame_len` with the maximum, `>=`, decoding before the frame is complete, advancing by
    `frame_len` only … all change the generated term and break this theorem. -/
theorem c26_decode_is_source {M : Type} (max : Nat) (de : List Nat → Option M) (buf : List Nat) :
    decodeStep max de buf =
      (match P2.Extracted.C26.decodeT Err.tooLarge Err.postcard fromBe32 max de buf with
       | (.error e, _) => .error e
       | (.ok none, _) => .ok none
       | (.ok (some m), rest) => .ok (some (m, rest))) := by
  unfold decodeStep P2.Extracted.C26.decodeT
  by_cases h1 : buf.length < 4
  · simp [h1]
  · by_cases h2 : fromBe32 (buf.take 4) > max
    · simp [h1, h2]
    · by_cases h3 : buf.length < 4 + fromBe32 (buf.take 4)
      · simp [h1, h2, h3]
      · simp only [h1, h2, h3, if_false]
        cases de ((buf.drop 4).take (fromBe32 (buf.take 4))) <;> rfl

/-! ## Non-vacuity -/
-- two payloads, chunked so that the first length prefix is split, with an empty chunk, and the
-- second frame arriving together with the tail of the first
example : runStream (M := List Nat) 8 some
    [[0, 0], [], [0, 3, 7], [8, 9, 0, 0, 0, 1, 5]] = ([[7, 8, 9], [5]], none) := by decide
example : frames [[7, 8, 9], [5]] = [0, 0, 0, 3, 7, 8, 9, 0, 0, 0, 1, 5] := by decide
example : encodeAll (M := List Nat) 8 id [[7, 8, 9], [5]] [] = .ok [0, 0, 0, 3, 7, 8, 9, 0, 0, 0, 1, 5] := by
  rfl
-- truncated stream and oversize announcement
example : runStream (M := List Nat) 8 some [[0, 0, 0, 3, 7]] = ([], some Err.eof) := by decide
example : runStream (M := List Nat) 2 some [[0, 0, 0, 1, 5, 0, 0], [0, 3]] = ([[5]], some Err.tooLarge) := by
  decide
example : encode (M := List Nat) 2 id [7, 8, 9] [] = .error Err.tooLarge := by rfl

end P2.C26
