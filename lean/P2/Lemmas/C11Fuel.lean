/-
C11: termination of `process_pending` (the model's recursion-depth bound is never exhausted) and the
drain lemma (`next` until `None` returns everything that is queued).
-/
import P2.Lemmas.C11

namespace P2.C11
open P2.Orderer

/-! ## Drain -/

private theorem nq_map_le (f : RRow → RRow) (hf : ∀ r, (f r).inq = true → r.inq = true) (rs : List RRow) :
    ((rs.map f).filter (·.inq)).length ≤ (rs.filter (·.inq)).length := by
  induction rs with
  | nil => simp
  | cons r rs ih =>
    simp only [List.map_cons, List.filter_cons]
    cases h1 : (f r).inq with
    | true =>
      have h2 := hf r h1
      simp only [h2, if_true, List.length_cons]; omega
    | false =>
      cases h2 : r.inq with
      | true => simp only [Bool.false_eq_true, if_true, if_false, List.length_cons]; omega
      | false => simp only [Bool.false_eq_true, if_false]; exact ih

private theorem nq_map_lt (f : RRow → RRow) (hf : ∀ r, (f r).inq = true → r.inq = true) (rs : List RRow)
    (m : RRow) (hm : m ∈ rs) (hq : m.inq = true) (hfm : (f m).inq = false) :
    ((rs.map f).filter (·.inq)).length + 1 ≤ (rs.filter (·.inq)).length := by
  induction rs with
  | nil => simp at hm
  | cons r rs ih =>
    simp only [List.map_cons, List.filter_cons]
    rcases List.mem_cons.1 hm with rfl | hm'
    · have := nq_map_le f hf rs
      simp only [hfm, hq, Bool.false_eq_true, if_true, if_false, List.length_cons]; omega
    · have := ih hm'
      cases h1 : (f r).inq with
      | true =>
        have h2 := hf r h1
        simp only [h2, if_true, List.length_cons]; omega
      | false =>
        cases h2 : r.inq with
        | true => simp only [Bool.false_eq_true, if_true, if_false, List.length_cons]; omega
        | false => simp only [Bool.false_eq_true, if_false]; exact this

private theorem takeF_inq (x : Nat) (r : RRow) :
    (if r.id == x then RRow.mk r.id r.idx false else r).inq = true → r.inq = true := by
  by_cases h : r.id = x <;> simp [h]

private theorem count_map_lt (rs : List RRow) (m : RRow) (hm : m ∈ rs) (hq : m.inq = true) :
    ((rs.map (fun r => if r.id == m.id then RRow.mk r.id r.idx false else r)).filter (·.inq)).length + 1
      ≤ (rs.filter (·.inq)).length :=
  nq_map_lt _ (takeF_inq m.id) rs m hm hq (by simp)

theorem drain_spec (s : St) (n : Nat) (hn : queueLen s ≤ n) (r : RRow) (hr : r ∈ s.ready)
    (hq : r.inq = true) : r.id ∈ (drain n s).2 ∧ queueLen (drain n s).1 = 0 := by
  induction n generalizing s r with
  | zero =>
    exfalso
    have : r ∈ s.ready.filter (·.inq) := List.mem_filter.2 ⟨hr, hq⟩
    unfold queueLen at hn
    have h0 : (s.ready.filter (·.inq)).length = 0 := by omega
    rw [List.length_eq_zero_iff] at h0
    rw [h0] at this; simp at this
  | succ n ih =>
    unfold drain
    cases hm : minInq s.ready with
    | none =>
      have := minInq_none _ hm r hr
      rw [hq] at this; simp at this
    | some m =>
      obtain ⟨hmem, hmq, _⟩ := minInq_some _ _ hm
      have htk : takeNextReady s =
          ({ s with ready := s.ready.map (fun r => if r.id == m.id then RRow.mk r.id r.idx false else r) }, some m.id) := by
        simp [takeNextReady, hm]
      rw [htk]
      simp only
      have hlt := count_map_lt s.ready m hmem hmq
      have hn' : queueLen { s with ready := s.ready.map (fun r => if r.id == m.id then RRow.mk r.id r.idx false else r) } ≤ n := by
        unfold queueLen at hn ⊢; simp only; omega
      by_cases hid : r.id = m.id
      · refine ⟨by rw [hid]; exact List.mem_cons_self, ?_⟩
        -- queue length of the final state: use the IH on any queued row, or it is already 0
        by_cases hz : queueLen { s with ready := s.ready.map (fun r => if r.id == m.id then RRow.mk r.id r.idx false else r) } = 0
        · -- nothing queued any more: drain stops immediately with the same state
          have hall : ∀ r' ∈ (s.ready.map (fun r => if r.id == m.id then RRow.mk r.id r.idx false else r)), r'.inq = false := by
            intro r' hr'
            unfold queueLen at hz
            rw [List.length_eq_zero_iff] at hz
            cases hq' : r'.inq with
            | false => rfl
            | true =>
              have : r' ∈ (s.ready.map (fun r => if r.id == m.id then RRow.mk r.id r.idx false else r)).filter (·.inq) :=
                List.mem_filter.2 ⟨hr', hq'⟩
              simp only at hz
              rw [hz] at this; simp at this
          cases n with
          | zero => simpa [drain] using hz
          | succ n =>
            unfold drain
            have hmn : minInq (s.ready.map (fun r => if r.id == m.id then RRow.mk r.id r.idx false else r)) = none := by
              cases hmm : minInq (s.ready.map (fun r => if r.id == m.id then RRow.mk r.id r.idx false else r)) with
              | none => rfl
              | some m' =>
                obtain ⟨h1, h2, _⟩ := minInq_some _ _ hmm
                rw [hall m' h1] at h2; simp at h2
            simp only [takeNextReady, hmn]
            exact hz
        · -- some row is still queued: the IH applies to it
          unfold queueLen at hz
          have hne : (s.ready.map (fun r => if r.id == m.id then RRow.mk r.id r.idx false else r)).filter (·.inq) ≠ [] := by
            intro h; apply hz; simp only; rw [h]; rfl
          obtain ⟨r', hr'⟩ := List.exists_mem_of_ne_nil _ hne
          rw [List.mem_filter] at hr'
          exact (ih _ hn' r' hr'.1 hr'.2).2
      · have hr' : r ∈ s.ready.map (fun r => if r.id == m.id then RRow.mk r.id r.idx false else r) :=
          List.mem_map.2 ⟨r, hr, by simp [hid]⟩
        have := ih _ hn' r hr' hq
        exact ⟨List.mem_cons_of_mem _ this.1, this.2⟩

/-! ## Termination measure -/

/-- Distinct children that still have pending rows. -/
def children (s : St) : List Nat := dd (s.pending.map (·.child))

/-- Children that can still be visited below `key`: not ready yet, or marked ready after `key`. -/
def cand (s : St) (key : Nat) : List Nat :=
  (children s).filter (fun c => decide (c ∉ readyIds s) || decide (pos key (readyIds s) < pos c (readyIds s)))

theorem length_dd_le {α : Type} [DecidableEq α] (l : List α) : (dd l).length ≤ l.length := by
  induction l with
  | nil => simp [dd]
  | cons x xs ih =>
    unfold dd
    split <;> simp <;> omega

theorem cand_length_le (s : St) (key : Nat) : (cand s key).length ≤ s.pending.length := by
  unfold cand children
  have h1 := List.length_filter_le
    (fun c => decide (c ∉ readyIds s) || decide (pos key (readyIds s) < pos c (readyIds s))) (dd (s.pending.map (·.child)))
  have h2 := length_dd_le (s.pending.map (·.child))
  simp only [List.length_map] at h2
  omega

theorem mem_children (s : St) (c : Nat) : c ∈ children s ↔ ∃ row ∈ s.pending, row.child = c := by
  simp [children, mem_dd]

theorem mem_cand (s : St) (key c : Nat) :
    c ∈ cand s key ↔ c ∈ children s ∧ (c ∉ readyIds s ∨ pos key (readyIds s) < pos c (readyIds s)) := by
  simp [cand, List.mem_filter]

section Term
variable (deps : Nat → List Nat) (P : List Nat) (out : List Nat)

theorem cand_lt (s0 t : St) (key c : Nat) (hc0 : Core deps P s0 out) (hct : Core deps P t out)
    (hk : key ∈ readyIds s0) (hrow : ∃ row ∈ s0.pending, row.id = key ∧ row.child = c)
    (hpre : readyIds s0 <+: readyIds t) (hshr : ∀ row ∈ t.pending, row ∈ s0.pending)
    (hcr : c ∈ readyIds t) : (cand t c).length < (cand s0 key).length := by
  obtain ⟨row, hrowm, hrid, hrch⟩ := hrow
  have hkd : key ∈ deps c := by
    have := (hc0.p.rows row hrowm).2.1
    rw [hrid, hrch] at this; exact this
  obtain ⟨l2, hl2⟩ := hpre
  have hsub0 : ∀ a ∈ readyIds s0, a ∈ readyIds t := fun a ha => by rw [← hl2]; simp [ha]
  have hpos0 : ∀ a ∈ readyIds s0, pos a (readyIds t) = pos a (readyIds s0) := fun a ha => by
    rw [← hl2]; exact pos_append_of_mem a _ _ ha
  have hcin : c ∈ cand s0 key := by
    rw [mem_cand, mem_children]
    refine ⟨⟨row, hrowm, hrch⟩, ?_⟩
    by_cases hc : c ∈ readyIds s0
    · exact Or.inr (hc0.r.acyc c hc key hkd).2
    · exact Or.inl hc
  have hnd0 : (cand s0 key).Nodup := (nodup_dd _).filter _
  have hndt : (cand t c).Nodup := (nodup_dd _).filter _
  have hsub : cand t c ⊆ (cand s0 key).erase c := by
    intro a ha
    rw [mem_cand, mem_children] at ha
    obtain ⟨⟨row', hrow', hch'⟩, hcond⟩ := ha
    have hane : a ≠ c := by
      rintro rfl
      rcases hcond with h | h
      · exact h hcr
      · omega
    rw [hnd0.mem_erase_iff]
    refine ⟨hane, ?_⟩
    rw [mem_cand, mem_children]
    refine ⟨⟨row', hshr row' hrow', hch'⟩, ?_⟩
    by_cases ha0 : a ∈ readyIds s0
    · right
      rcases hcond with h | h
      · exact absurd (hsub0 a ha0) h
      · have h1 := (hct.r.acyc c hcr key hkd).2
        rw [hpos0 key hk] at h1
        rw [hpos0 a ha0] at h
        omega
    · exact Or.inl ha0
  have hle := (List.subperm_of_subset hndt hsub).length_le
  rw [List.length_erase_of_mem hcin] at hle
  have : 0 < (cand s0 key).length := List.length_pos_of_mem hcin
  omega

variable (chk : Chk) (ord : Ord)

/-- `process_pending` returns when the measure is below the fuel (hypothesis form for the loop). -/
def TermSpec (fuel : Nat) : Prop :=
  ∀ (s : St) (key : Nat), Core deps P s out → key ∈ readyIds s → (cand s key).length < fuel →
    ∃ s', processPending chk ord fuel s key = some s'

theorem loop_total (hchk : ChkOk chk) (hord : ∀ l x, x ∈ ord l ↔ x ∈ l) (fuel : Nat)
    (IH : TermSpec deps P out chk ord fuel) (s0 : St) (key : Nat) (hc0 : Core deps P s0 out)
    (hk : key ∈ readyIds s0) (hM : (cand s0 key).length < fuel + 1) :
    ∀ (rest : List (Nat × List Nat)) (s : St),
      (∀ cp ∈ rest, (cp.1 ∈ P ∧ ∀ d, d ∈ cp.2 ↔ d ∈ deps cp.1) ∧ ∃ row ∈ s0.pending, row.id = key ∧ row.child = cp.1) →
      Core deps P s out → readyIds s0 <+: readyIds s → (∀ row ∈ s.pending, row ∈ s0.pending) →
      ∃ s', forM' (fun s d => if chk s d.2 then processPending chk ord fuel (markReady s d.1) d.1 else some s) s rest
        = some s' := by
  intro rest
  induction rest with
  | nil => intro s _ _ _ _; exact ⟨s, rfl⟩
  | cons cp rest ih =>
    intro s hrest hc hpre hshr
    have hrest' := fun cp' h => hrest cp' (List.mem_cons_of_mem _ h)
    obtain ⟨⟨hcpP, hcpd⟩, hrow⟩ := hrest cp (by simp)
    simp only [forM']
    cases hck : chk s cp.2 with
    | false => simp only [Bool.false_eq_true, if_false]; exact ih s hrest' hc hpre hshr
    | true =>
      simp only [if_true]
      have hdeps : ∀ d ∈ deps cp.1, d ∈ readyIds s :=
        fun d hd => (hchk s cp.2 hc.r.nodup).1 hck d ((hcpd d).2 hd)
      have hct : Core deps P (markReady s cp.1) out :=
        ⟨hc.r.pres_markReady cp.1 hcpP hdeps, hc.p.pres_markReady cp.1⟩
      have hcr : cp.1 ∈ readyIds (markReady s cp.1) := (mem_readyIds_markReady s cp.1 cp.1).2 (Or.inr rfl)
      have hpre_t : readyIds s0 <+: readyIds (markReady s cp.1) := hpre.trans (prefix_markReady s cp.1)
      have hshr_t : ∀ row ∈ (markReady s cp.1).pending, row ∈ s0.pending := by
        rw [markReady_pending]; exact hshr
      have hlt := cand_lt deps P out s0 (markReady s cp.1) key cp.1 hc0 hct hk hrow hpre_t hshr_t hcr
      obtain ⟨t', ht'⟩ := IH (markReady s cp.1) cp.1 hct hcr (by omega)
      rw [ht']
      have hpost := processPending_spec deps P out chk ord hchk hord fuel (markReady s cp.1) cp.1 t'
        (fun _ => True) (fun _ => True) hct hcr (fun _ _ => Or.inl trivial) (fun _ _ _ => Or.inl trivial) ht'
      exact ih t' hrest' hpost.core (hpre_t.trans hpost.pre) (fun row h => hshr_t row (hpost.shrink row h))

theorem processPending_total (hchk : ChkOk chk) (hord : ∀ l x, x ∈ ord l ↔ x ∈ l) :
    ∀ fuel, TermSpec deps P out chk ord fuel := by
  intro fuel
  induction fuel with
  | zero => intro s key _ _ h; omega
  | succ fuel IH =>
    intro s key hc hk hM
    unfold processPending
    cases hg : getNextPending s key with
    | none => exact ⟨s, rfl⟩
    | some D =>
      simp only
      have hsound := getNextPending_sound hc.p key D hg
      obtain ⟨t, ht⟩ := loop_total deps P out chk ord hchk hord fuel IH s key hc hk hM (ord D) s
        (fun cp hcp => by
          have hcpD := (hord D cp).1 hcp
          refine ⟨hsound cp hcpD, ?_⟩
          obtain ⟨row, hrow, hid, rfl⟩ := (mem_getNextPending s key D hg cp).1 hcpD
          exact ⟨row, hrow, hid, rfl⟩)
        hc (List.prefix_refl _) (fun row h => h)
      rw [ht]; exact ⟨_, rfl⟩

end Term

theorem process_total (deps : Nat → List Nat) (chk : Chk) (ord : Ord) (hchk : ChkOk chk)
    (hord : ∀ l x, x ∈ ord l ↔ x ∈ l) {P : List Nat} {s : St} {out : List Nat} (h : Inv deps P s out) (x : Nat) :
    ∃ s', process chk ord s x (deps x) = some s' := by
  unfold process
  cases hck : chk s (deps x) with
  | false => exact ⟨markPending s x (deps x), by simp⟩
  | true =>
    simp only [if_true]
    have hdeps := (hchk s (deps x) h.core.r.nodup).1 hck
    have hsub : ∀ y ∈ P, y ∈ x :: P := fun y hy => List.mem_cons_of_mem _ hy
    have hc1 : Core deps (x :: P) (markReady s x) out :=
      ⟨(h.core.r.mono hsub).pres_markReady x (by simp) hdeps, (h.core.p.mono x (Or.inr hdeps)).pres_markReady x⟩
    apply processPending_total deps (x :: P) out chk ord hchk hord (fuelFor s) (markReady s x) x hc1
      ((mem_readyIds_markReady s x x).2 (Or.inr rfl))
    have := cand_length_le (markReady s x) x
    rw [markReady_pending] at this
    unfold fuelFor; omega

theorem run_total_from (deps : Nat → List Nat) (chk : Chk) (ord : Ord) (hchk : ChkOk chk)
    (hord : ∀ l x, x ∈ ord l ↔ x ∈ l) :
    ∀ (ops : List Op) (P : List Nat) (s : St) (out : List Nat), Inv deps P s out → WF deps ops →
      ∃ s' out', run chk ord s out ops = some (s', out') := by
  intro ops
  induction ops with
  | nil => intro P s out _ _; exact ⟨s, out, rfl⟩
  | cons op ops ih =>
    intro P s out h hwf
    have hwf' : WF deps ops := fun k ds hm => hwf k ds (List.mem_cons_of_mem _ hm)
    cases op with
    | proc k ds =>
      have hds : ds = deps k := hwf k ds (by simp)
      subst hds
      obtain ⟨s1, hs1⟩ := process_total deps chk ord hchk hord h k
      simp only [run, hs1]
      exact ih (k :: P) s1 out (process_spec deps chk ord hchk hord h k s1 hs1) hwf'
    | next =>
      simp only [run]
      have hn := next_spec deps h
      cases hx : takeNextReady s with
      | mk s1 o =>
        rw [hx] at hn
        cases o with
        | none => exact ih P s1 out hn hwf'
        | some x => exact ih P s1 (out ++ [x]) hn hwf'

theorem run_total (deps : Nat → List Nat) (ord : Ord) (hord : ∀ l x, x ∈ ord l ↔ x ∈ l)
    (ops : List Op) (hwf : WF deps ops) : ∃ s out, run readyChk ord Orderer.empty [] ops = some (s, out) :=
  run_total_from deps readyChk ord readyChk_ok hord ops [] _ [] (inv_empty deps) hwf

end P2.C11
