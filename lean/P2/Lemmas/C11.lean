/-
Helper lemmas for C11 (causal orderer). Store-level facts about the model functions of
`P2/Model/Orderer.lean`, the invariants and their preservation by every store operation.
-/
import P2.Model.Orderer
import Batteries.Data.List.Perm

namespace P2.C11
open P2.Orderer

/-! ## Lists -/

theorem mem_dd {α : Type} [DecidableEq α] (l : List α) (a : α) : a ∈ dd l ↔ a ∈ l := by
  induction l with
  | nil => simp [dd]
  | cons x xs ih =>
    unfold dd
    by_cases h : x ∈ xs
    · simp only [h, if_true, ih, List.mem_cons]
      constructor
      · exact Or.inr
      · rintro (rfl | h') <;> assumption
    · simp only [h, if_false, List.mem_cons, ih]

theorem nodup_dd {α : Type} [DecidableEq α] (l : List α) : (dd l).Nodup := by
  induction l with
  | nil => simp [dd]
  | cons x xs ih =>
    unfold dd
    by_cases h : x ∈ xs
    · simp only [h, if_true]; exact ih
    · simp only [h, if_false, List.nodup_cons]
      exact ⟨fun h' => h ((mem_dd xs x).1 h'), ih⟩

theorem mem_insertSorted (x a : Nat) (l : List Nat) : a ∈ insertSorted x l ↔ a = x ∨ a ∈ l := by
  induction l with
  | nil => simp [insertSorted]
  | cons y ys ih =>
    unfold insertSorted
    by_cases h : x ≤ y
    · simp [h]
    · simp only [h, if_false, List.mem_cons, ih]
      constructor
      · rintro (h1 | h1 | h1) <;> simp [h1]
      · rintro (h1 | h1 | h1) <;> simp [h1]

theorem mem_sort (l : List Nat) (a : Nat) : a ∈ sort l ↔ a ∈ l := by
  induction l with
  | nil => simp [sort]
  | cons y ys ih =>
    have : sort (y :: ys) = insertSorted y (sort ys) := rfl
    rw [this, mem_insertSorted, ih, List.mem_cons]

/-! ## Ready table -/

theorem mem_readyIds (s : St) (x : Nat) : x ∈ readyIds s ↔ ∃ r ∈ s.ready, r.id = x := by
  simp [readyIds]

theorem isReady_iff (s : St) (x : Nat) : isReady s x = true ↔ x ∈ readyIds s := by
  simp [isReady, readyIds]

theorem isReady_false_iff (s : St) (x : Nat) : isReady s x = false ↔ x ∉ readyIds s := by
  rw [← isReady_iff]; cases isReady s x <;> simp

private theorem foldl_max_ge (rs : List RRow) (m : Nat) :
    m ≤ rs.foldl (fun m r => max m r.idx) m ∧ ∀ r ∈ rs, r.idx ≤ rs.foldl (fun m r => max m r.idx) m := by
  induction rs generalizing m with
  | nil => simp
  | cons r rs ih =>
    simp only [List.foldl_cons, List.mem_cons]
    have h := ih (max m r.idx)
    refine ⟨by omega, ?_⟩
    rintro r' (rfl | h')
    · omega
    · exact h.2 r' h'

theorem le_maxIdx (rs : List RRow) (r : RRow) (h : r ∈ rs) : r.idx ≤ maxIdx rs :=
  (foldl_max_ge rs 0).2 r h

/-- Exactly what `markReady` does to the table. -/
theorem markReady_cases (s : St) (x : Nat) :
    (x ∉ readyIds s ∧ markReady s x = { s with ready := s.ready ++ [RRow.mk x (maxIdx s.ready + 1) true] }) ∨
    (∃ r ∈ s.ready, r.id = x ∧ r.inq = true ∧ markReady s x = s) ∨
    (∃ r ∈ s.ready, r.id = x ∧ r.inq = false ∧
      markReady s x = { s with ready := s.ready.map (fun r => if r.id == x then RRow.mk x (maxIdx s.ready + 1) true else r) }) := by
  unfold markReady
  cases hf : s.ready.find? (fun r => r.id == x) with
  | none =>
    left
    refine ⟨?_, rfl⟩
    rw [mem_readyIds]
    rintro ⟨r, hr, rfl⟩
    have := List.find?_eq_none.1 hf r hr
    simp at this
  | some r =>
    right
    have hmem := List.mem_of_find?_eq_some hf
    have hid : r.id = x := by
      have := List.find?_some hf
      simpa using this
    cases hq : r.inq with
    | true => left; exact ⟨r, hmem, hid, hq, by simp [hq]⟩
    | false => right; exact ⟨r, hmem, hid, hq, by simp [hq]⟩

theorem markReady_pending (s : St) (x : Nat) : (markReady s x).pending = s.pending := by
  rcases markReady_cases s x with ⟨_, h⟩ | ⟨r, _, _, _, h⟩ | ⟨r, _, _, _, h⟩ <;> rw [h]

private theorem map_id_replace (rs : List RRow) (x q : Nat) :
    (rs.map (fun r => if r.id == x then RRow.mk x q true else r)).map (·.id) = rs.map (·.id) := by
  induction rs with
  | nil => rfl
  | cons r rs ih =>
    simp only [List.map_cons, ih, List.cons.injEq, and_true]
    by_cases h : r.id = x
    · simp [h]
    · simp [h]

theorem readyIds_markReady (s : St) (x : Nat) :
    readyIds (markReady s x) = if x ∈ readyIds s then readyIds s else readyIds s ++ [x] := by
  rcases markReady_cases s x with ⟨hn, h⟩ | ⟨r, hr, hid, _, h⟩ | ⟨r, hr, hid, _, h⟩
  · rw [h, if_neg hn]; simp [readyIds]
  · have : x ∈ readyIds s := (mem_readyIds s x).2 ⟨r, hr, hid⟩
    rw [h]; simp [this]
  · have : x ∈ readyIds s := (mem_readyIds s x).2 ⟨r, hr, hid⟩
    rw [h]; simp only [this, if_true]
    exact map_id_replace s.ready x _

theorem mem_readyIds_markReady (s : St) (x y : Nat) :
    y ∈ readyIds (markReady s x) ↔ y ∈ readyIds s ∨ y = x := by
  rw [readyIds_markReady]
  by_cases h : x ∈ readyIds s
  · simp only [h, if_true]
    constructor
    · exact Or.inl
    · rintro (h' | rfl) <;> assumption
  · simp [h]

theorem nodup_readyIds_markReady (s : St) (x : Nat) (h : (readyIds s).Nodup) :
    (readyIds (markReady s x)).Nodup := by
  rw [readyIds_markReady]
  by_cases hx : x ∈ readyIds s
  · simp [hx, h]
  · simp only [hx, if_false]
    rw [List.nodup_append]
    refine ⟨h, by simp, ?_⟩
    intro a ha b hb
    simp only [List.mem_singleton] at hb
    subst hb
    intro hab; subst hab; exact hx ha

theorem prefix_markReady (s : St) (x : Nat) : readyIds s <+: readyIds (markReady s x) := by
  rw [readyIds_markReady]
  by_cases hx : x ∈ readyIds s
  · simp [hx]
  · simp only [hx, if_false]; exact List.prefix_append _ _

/-! ## `ready` query -/

/-- What a correct `ready` query must answer. -/
def ChkOk (chk : Chk) : Prop :=
  ∀ s ds, (readyIds s).Nodup → (chk s ds = true ↔ ∀ d ∈ ds, d ∈ readyIds s)

private theorem countIn_eq (s : St) (ds : List Nat) :
    countIn s ds = ((readyIds s).filter (fun i => ds.contains i)).length := by
  unfold countIn readyIds
  rw [List.filter_map, List.length_map]
  rfl

theorem readyChk_ok : ChkOk readyChk := by
  intro s ds hn
  unfold readyChk
  rw [countIn_eq]
  simp only [beq_iff_eq]
  have hFn : ((readyIds s).filter (fun i => ds.contains i)).Nodup := hn.filter _
  have hDn := nodup_dd ds
  have hFsub : (readyIds s).filter (fun i => ds.contains i) ⊆ dd ds := by
    intro a ha
    rw [List.mem_filter] at ha
    rw [mem_dd]
    simpa using ha.2
  constructor
  · intro hlen d hd
    have hperm := (List.subperm_of_subset hFn hFsub).perm_of_length_le (by omega)
    have : d ∈ (readyIds s).filter (fun i => ds.contains i) := hperm.mem_iff.2 ((mem_dd ds d).2 hd)
    exact (List.mem_filter.1 this).1
  · intro hall
    apply List.Perm.length_eq
    rw [List.perm_ext_iff_of_nodup hFn hDn]
    intro a
    rw [List.mem_filter, mem_dd]
    constructor
    · intro h; simpa using h.2
    · intro h; exact ⟨hall a h, by simpa using h⟩

/-- The pinned query is *not* a correct `ready` query. -/
theorem readyChkOrig_not_ok : ¬ ChkOk readyChkOrig := by
  intro h
  have := (h { ready := [RRow.mk 0 1 true], pending := [] } [0, 0] (by decide)).2 (by decide)
  revert this; decide

/-! ## Released sequence -/

/-- Every item of the sequence is preceded by all of its dependencies. -/
def SafeOut (deps : Nat → List Nat) (out : List Nat) : Prop :=
  ∀ i (h : i < out.length), ∀ d ∈ deps out[i], d ∈ out.take i

theorem safeOut_nil (deps : Nat → List Nat) : SafeOut deps [] := by
  intro i h; simp at h

theorem safeOut_snoc (deps : Nat → List Nat) (out : List Nat) (x : Nat) (h : SafeOut deps out)
    (hx : ∀ d ∈ deps x, d ∈ out) : SafeOut deps (out ++ [x]) := by
  intro i hi d hd
  simp only [List.length_append, List.length_cons, List.length_nil] at hi
  by_cases hlt : i < out.length
  · rw [List.getElem_append_left hlt] at hd
    rw [List.take_append_of_le_length (by omega)]
    exact h i hlt d hd
  · have hi' : i = out.length := by omega
    subst hi'
    simp only [List.getElem_append_right (Nat.le_refl _), Nat.sub_self, List.getElem_cons_zero] at hd
    simp [hx d hd]

/-! ## Position in the (append-only) list of ready ids = order of first `mark_ready` -/

def pos (a : Nat) : List Nat → Nat
  | [] => 0
  | b :: l => if a = b then 0 else pos a l + 1

theorem pos_append_of_mem (a : Nat) (l1 l2 : List Nat) (h : a ∈ l1) : pos a (l1 ++ l2) = pos a l1 := by
  induction l1 with
  | nil => simp at h
  | cons b l ih =>
    simp only [List.cons_append, pos]
    by_cases hab : a = b
    · simp [hab]
    · simp only [hab, if_false]
      rcases List.mem_cons.1 h with h | h
      · exact absurd h hab
      · rw [ih h]

theorem pos_append_of_not_mem (a : Nat) (l1 l2 : List Nat) (h : a ∉ l1) :
    pos a (l1 ++ l2) = l1.length + pos a l2 := by
  induction l1 with
  | nil => simp
  | cons b l ih =>
    simp only [List.mem_cons, not_or] at h
    simp only [List.cons_append, pos, h.1, if_false, ih h.2, List.length_cons]
    omega

theorem pos_lt_length (a : Nat) (l : List Nat) (h : a ∈ l) : pos a l < l.length := by
  induction l with
  | nil => simp at h
  | cons b l ih =>
    simp only [pos, List.length_cons]
    by_cases hab : a = b
    · simp [hab]
    · simp only [hab, if_false]
      rcases List.mem_cons.1 h with h | h
      · exact absurd h hab
      · have := ih h; omega

/-! ## Invariants -/

/-- Items whose whole dependency closure has been delivered (well-founded: least fixpoint). -/
inductive Avail (deps : Nat → List Nat) (P : List Nat) : Nat → Prop
  | mk (x : Nat) : x ∈ P → (∀ d ∈ deps x, Avail deps P d) → Avail deps P x

theorem Avail.mono {deps : Nat → List Nat} {P P' : List Nat} (hsub : ∀ x ∈ P, x ∈ P') {x : Nat}
    (h : Avail deps P x) : Avail deps P' x := by
  induction h with
  | mk x hx _ ih => exact Avail.mk x (hsub x hx) ih

theorem Avail.congr {deps deps' : Nat → List Nat} (hd : ∀ x d, d ∈ deps x ↔ d ∈ deps' x) {P : List Nat} {x : Nat}
    (h : Avail deps P x) : Avail deps' P x := by
  induction h with
  | mk x hx _ ih => exact Avail.mk x hx (fun d hd' => ih d ((hd x d).2 hd'))

/-- Ready-table invariant. `P` = ids delivered so far, `out` = ids returned by `next` so far. -/
structure RInv (deps : Nat → List Nat) (P : List Nat) (s : St) (out : List Nat) : Prop where
  nodup : (readyIds s).Nodup
  taken : ∀ r ∈ s.ready, r.inq = false → r.id ∈ out
  depsOk : ∀ r ∈ s.ready, ∀ d ∈ deps r.id,
    ∃ rd ∈ s.ready, rd.id = d ∧ (d ∈ out ∨ (rd.inq = true ∧ rd.idx < r.idx))
  avail : ∀ x ∈ readyIds s, Avail deps P x
  outReady : ∀ x ∈ out, x ∈ readyIds s
  acyc : ∀ x ∈ readyIds s, ∀ d ∈ deps x, d ∈ readyIds s ∧ pos d (readyIds s) < pos x (readyIds s)

theorem RInv.mono {deps : Nat → List Nat} {P P' : List Nat} {s : St} {out : List Nat}
    (hsub : ∀ x ∈ P, x ∈ P') (h : RInv deps P s out) : RInv deps P' s out :=
  ⟨h.nodup, h.taken, h.depsOk, fun x hx => (h.avail x hx).mono hsub, h.outReady, h.acyc⟩

theorem RInv.pres_markReady {deps : Nat → List Nat} {P : List Nat} {s : St} {out : List Nat}
    (h : RInv deps P s out) (x : Nat) (hxP : x ∈ P) (hdeps : ∀ d ∈ deps x, d ∈ readyIds s) :
    RInv deps P (markReady s x) out := by
  have hav : ∀ y ∈ readyIds (markReady s x), Avail deps P y := by
    intro y hy
    rcases (mem_readyIds_markReady s x y).1 hy with hy | rfl
    · exact h.avail y hy
    · exact Avail.mk y hxP (fun d hd => h.avail d (hdeps d hd))
  have hout : ∀ y ∈ out, y ∈ readyIds (markReady s x) := fun y hy =>
    (mem_readyIds_markReady s x y).2 (Or.inl (h.outReady y hy))
  have hacyc : ∀ y ∈ readyIds (markReady s x), ∀ d ∈ deps y,
      d ∈ readyIds (markReady s x) ∧ pos d (readyIds (markReady s x)) < pos y (readyIds (markReady s x)) := by
    rw [readyIds_markReady]
    by_cases hx : x ∈ readyIds s
    · simp only [hx, if_true]; exact h.acyc
    · simp only [hx, if_false]
      intro y hy d hd
      simp only [List.mem_append, List.mem_singleton] at hy
      rcases hy with hy | rfl
      · obtain ⟨h1, h2⟩ := h.acyc y hy d hd
        refine ⟨by simp [h1], ?_⟩
        rw [pos_append_of_mem d _ _ h1, pos_append_of_mem y _ _ hy]; exact h2
      · have h1 := hdeps d hd
        refine ⟨by simp [h1], ?_⟩
        rw [pos_append_of_mem d _ _ h1, pos_append_of_not_mem y _ _ hx]
        have := pos_lt_length d _ h1; omega
  refine ⟨nodup_readyIds_markReady s x h.nodup, ?_, ?_, hav, hout, hacyc⟩
  · -- taken
    rcases markReady_cases s x with ⟨_, he⟩ | ⟨_, _, _, _, he⟩ | ⟨r0, _, _, _, he⟩
    · rw [he]; intro r hr hq
      simp only [List.mem_append, List.mem_singleton] at hr
      rcases hr with hr | rfl
      · exact h.taken r hr hq
      · simp at hq
    · rw [he]; exact h.taken
    · rw [he]; intro r hr hq
      simp only [List.mem_map] at hr
      obtain ⟨r1, hr1, rfl⟩ := hr
      by_cases hid : r1.id = x
      · simp [hid] at hq
      · simp only [beq_iff_eq, hid, if_false] at hq ⊢
        exact h.taken r1 hr1 hq
  · -- depsOk
    rcases markReady_cases s x with ⟨hn, he⟩ | ⟨_, _, _, _, he⟩ | ⟨r0, hr0, hid0, hq0, he⟩
    · rw [he]; intro r hr d hd
      simp only [List.mem_append, List.mem_singleton] at hr
      rcases hr with hr | rfl
      · obtain ⟨rd, hrd, h1, h2⟩ := h.depsOk r hr d hd
        exact ⟨rd, by simp [hrd], h1, h2⟩
      · obtain ⟨rd, hrd, hrid⟩ := (mem_readyIds s d).1 (hdeps d hd)
        refine ⟨rd, by simp [hrd], hrid, ?_⟩
        by_cases hdo : d ∈ out
        · exact Or.inl hdo
        · right
          have hq : rd.inq = true := by
            cases hq : rd.inq with
            | true => rfl
            | false => exact absurd (hrid ▸ h.taken rd hrd hq) hdo
          exact ⟨hq, by have := le_maxIdx s.ready rd hrd; simp only; omega⟩
    · rw [he]; exact h.depsOk
    · rw [he]
      have hxout : x ∈ out := hid0 ▸ h.taken r0 hr0 hq0
      intro r hr d hd
      simp only [List.mem_map] at hr
      obtain ⟨r1, hr1, rfl⟩ := hr
      have hrid : (if (r1.id == x) = true then RRow.mk x (maxIdx s.ready + 1) true else r1).id = r1.id := by
        by_cases hid : r1.id = x <;> simp [hid]
      rw [hrid] at hd
      obtain ⟨rd, hrd, h1, h2⟩ := h.depsOk r1 hr1 d hd
      refine ⟨if (rd.id == x) = true then RRow.mk x (maxIdx s.ready + 1) true else rd,
        List.mem_map.2 ⟨rd, hrd, rfl⟩, ?_, ?_⟩
      · by_cases hid : rd.id = x <;> simp [hid, ← h1]
      · rcases h2 with h2 | ⟨h2, h3⟩
        · exact Or.inl h2
        · by_cases hdo : d ∈ out
          · exact Or.inl hdo
          · right
            have hne : rd.id ≠ x := by
              intro hh; rw [h1] at hh; rw [hh] at hdo; exact hdo hxout
            simp only [beq_iff_eq, hne, if_false]
            refine ⟨h2, ?_⟩
            by_cases hid : r1.id = x
            · simp only [beq_iff_eq, hid, if_true]
              have := le_maxIdx s.ready rd hrd; omega
            · simp only [beq_iff_eq, hid, if_false]; exact h3

/-! ## `take_next_ready` -/

theorem minInq_none (rs : List RRow) (h : minInq rs = none) : ∀ r ∈ rs, r.inq = false := by
  induction rs with
  | nil => simp
  | cons r rs ih =>
    unfold minInq at h
    cases hm : minInq rs with
    | none =>
      simp only [hm] at h
      intro r' hr'
      rcases List.mem_cons.1 hr' with rfl | hr'
      · cases hq : r'.inq <;> simp [hq] at h ⊢
      · exact ih hm r' hr'
    | some m =>
      simp only [hm] at h
      split at h <;> simp at h

theorem minInq_some (rs : List RRow) (m : RRow) (h : minInq rs = some m) :
    m ∈ rs ∧ m.inq = true ∧ ∀ r ∈ rs, r.inq = true → m.idx ≤ r.idx := by
  induction rs generalizing m with
  | nil => simp [minInq] at h
  | cons r rs ih =>
    unfold minInq at h
    cases hm : minInq rs with
    | none =>
      simp only [hm] at h
      have hnone := minInq_none rs hm
      cases hq : r.inq with
      | false => simp [hq] at h
      | true =>
        simp only [hq, if_true, Option.some.injEq] at h
        subst h
        refine ⟨by simp, hq, ?_⟩
        intro r' hr' hq'
        rcases List.mem_cons.1 hr' with rfl | hr'
        · exact Nat.le_refl _
        · rw [hnone r' hr'] at hq'; simp at hq'
    | some m0 =>
      simp only [hm] at h
      obtain ⟨h1, h2, h3⟩ := ih m0 hm
      by_cases hc : (r.inq && decide (r.idx ≤ m0.idx)) = true
      · simp only [hc, if_true, Option.some.injEq] at h
        subst h
        simp only [Bool.and_eq_true, decide_eq_true_eq] at hc
        refine ⟨by simp, hc.1, ?_⟩
        intro r' hr' hq'
        rcases List.mem_cons.1 hr' with rfl | hr'
        · exact Nat.le_refl _
        · have := h3 r' hr' hq'; omega
      · simp only [hc, Bool.false_eq_true, if_false, Option.some.injEq] at h
        subst h
        refine ⟨by simp [h1], h2, ?_⟩
        intro r' hr' hq'
        rcases List.mem_cons.1 hr' with rfl | hr'
        · simp only [Bool.and_eq_true, decide_eq_true_eq, not_and] at hc
          have := hc hq'; omega
        · exact h3 r' hr' hq'

theorem takeNextReady_none (s : St) (h : (takeNextReady s).2 = none) :
    (takeNextReady s).1 = s ∧ ∀ r ∈ s.ready, r.inq = false := by
  unfold takeNextReady at h ⊢
  cases hm : minInq s.ready with
  | none => exact ⟨rfl, minInq_none _ hm⟩
  | some m => simp [hm] at h

theorem takeNextReady_pending (s : St) : (takeNextReady s).1.pending = s.pending := by
  unfold takeNextReady
  cases minInq s.ready <;> rfl

private theorem map_id_take (rs : List RRow) (x : Nat) :
    (rs.map (fun r => if r.id == x then RRow.mk r.id r.idx false else r)).map (·.id) = rs.map (·.id) := by
  induction rs with
  | nil => rfl
  | cons r rs ih =>
    simp only [List.map_cons, ih, List.cons.injEq, and_true]
    by_cases h : r.id = x <;> simp [h]

theorem readyIds_takeNextReady (s : St) : readyIds (takeNextReady s).1 = readyIds s := by
  unfold takeNextReady
  cases minInq s.ready with
  | none => rfl
  | some m => exact map_id_take s.ready m.id

theorem RInv.pres_takeNext {deps : Nat → List Nat} {P : List Nat} {s : St} {out : List Nat}
    (h : RInv deps P s out) (hs : SafeOut deps out) (x : Nat) (hx : (takeNextReady s).2 = some x) :
    RInv deps P (takeNextReady s).1 (out ++ [x]) ∧ SafeOut deps (out ++ [x]) := by
  have hids := readyIds_takeNextReady s
  unfold takeNextReady at hx ⊢
  cases hm : minInq s.ready with
  | none => simp [hm] at hx
  | some m =>
    simp only [hm, Option.some.injEq] at hx ⊢
    subst hx
    obtain ⟨hmem, hmq, hmin⟩ := minInq_some _ _ hm
    simp only [takeNextReady, hm] at hids
    have hdepsOut : ∀ d ∈ deps m.id, d ∈ out := by
      intro d hd
      obtain ⟨rd, hrd, _, h2⟩ := h.depsOk m hmem d hd
      rcases h2 with h2 | ⟨h2, h3⟩
      · exact h2
      · have := hmin rd hrd h2; omega
    refine ⟨⟨by rw [hids]; exact h.nodup, ?_, ?_, by rw [hids]; exact h.avail, ?_, by rw [hids]; exact h.acyc⟩,
      safeOut_snoc deps out m.id hs hdepsOut⟩
    · intro r hr hq
      simp only [List.mem_map] at hr
      obtain ⟨r1, hr1, rfl⟩ := hr
      by_cases hid : r1.id = m.id
      · simp [hid]
      · simp only [beq_iff_eq, hid, if_false] at hq ⊢
        simp [h.taken r1 hr1 hq]
    · intro r hr d hd
      simp only [List.mem_map] at hr
      obtain ⟨r1, hr1, rfl⟩ := hr
      have hrid : (if (r1.id == m.id) = true then RRow.mk r1.id r1.idx false else r1).id = r1.id := by
        by_cases hid : r1.id = m.id <;> simp [hid]
      have hridx : (if (r1.id == m.id) = true then RRow.mk r1.id r1.idx false else r1).idx = r1.idx := by
        by_cases hid : r1.id = m.id <;> simp [hid]
      rw [hrid] at hd
      obtain ⟨rd, hrd, h1, h2⟩ := h.depsOk r1 hr1 d hd
      refine ⟨if (rd.id == m.id) = true then RRow.mk rd.id rd.idx false else rd,
        List.mem_map.2 ⟨rd, hrd, rfl⟩, ?_, ?_⟩
      · by_cases hid : rd.id = m.id <;> simp [hid, ← h1]
      · rcases h2 with h2 | ⟨h2, h3⟩
        · left; simp [h2]
        · by_cases hid : rd.id = m.id
          · left; rw [← h1, hid]; simp
          · right
            rw [hridx, if_neg (by simpa using hid)]; exact ⟨h2, h3⟩
    · intro y hy
      rw [hids]
      simp only [List.mem_append, List.mem_singleton] at hy
      rcases hy with hy | rfl
      · exact h.outReady y hy
      · exact (mem_readyIds s _).2 ⟨m, hmem, rfl⟩

/-! ## Pending table -/

/-- A pending row belongs to a complete group `(id, child, ·, digest)` describing `deps child`. -/
def GroupRow (deps : Nat → List Nat) (P : List Nat) (pend : List PRow) (row : PRow) : Prop :=
  row.digest = sort (deps row.child) ∧ row.id ∈ deps row.child ∧ row.parent ∈ deps row.child ∧
  row.child ∈ P ∧ ∀ p ∈ deps row.child, PRow.mk row.id row.child p row.digest ∈ pend

/-- Pending-table invariant: rows come in complete groups, and every delivered, not yet ready item
    still has a group under each of its not yet ready dependencies. -/
structure PInv (deps : Nat → List Nat) (P : List Nat) (s : St) : Prop where
  rows : ∀ row ∈ s.pending, GroupRow deps P s.pending row
  cover : ∀ y ∈ P, y ∉ readyIds s → ∀ d ∈ deps y, d ∉ readyIds s →
    PRow.mk d y d (sort (deps y)) ∈ s.pending

theorem mem_removePending (s : St) (key : Nat) (row : PRow) :
    row ∈ (removePending s key).pending ↔ row ∈ s.pending ∧ row.id ≠ key := by
  simp [removePending]

theorem readyIds_removePending (s : St) (key : Nat) : readyIds (removePending s key) = readyIds s := rfl

theorem PInv.pres_markReady {deps : Nat → List Nat} {P : List Nat} {s : St} (h : PInv deps P s) (x : Nat) :
    PInv deps P (markReady s x) := by
  refine ⟨?_, ?_⟩
  · rw [markReady_pending]; exact h.rows
  · intro y hy hny d hd hnd
    rw [markReady_pending]
    exact h.cover y hy (fun hh => hny ((mem_readyIds_markReady s x y).2 (Or.inl hh))) d hd
      (fun hh => hnd ((mem_readyIds_markReady s x d).2 (Or.inl hh)))

theorem PInv.pres_removePending {deps : Nat → List Nat} {P : List Nat} {s : St} (h : PInv deps P s)
    (key : Nat) (hk : key ∈ readyIds s) : PInv deps P (removePending s key) := by
  refine ⟨?_, ?_⟩
  · intro row hrow
    rw [mem_removePending] at hrow
    obtain ⟨h1, h2, h3, h4, h5⟩ := h.rows row hrow.1
    refine ⟨h1, h2, h3, h4, ?_⟩
    intro p hp
    rw [mem_removePending]
    exact ⟨h5 p hp, hrow.2⟩
  · intro y hy hny d hd hnd
    rw [mem_removePending]
    refine ⟨h.cover y hy hny d hd hnd, ?_⟩
    intro hh; simp only at hh; subst hh; exact hnd hk

theorem PInv.mono {deps : Nat → List Nat} {P : List Nat} {s : St} (h : PInv deps P s) (x : Nat)
    (hx : x ∈ readyIds s ∨ ∀ d ∈ deps x, d ∈ readyIds s) : PInv deps (x :: P) s := by
  refine ⟨?_, ?_⟩
  · intro row hrow
    obtain ⟨h1, h2, h3, h4, h5⟩ := h.rows row hrow
    exact ⟨h1, h2, h3, List.mem_cons_of_mem _ h4, h5⟩
  · intro y hy hny d hd hnd
    rcases List.mem_cons.1 hy with rfl | hy
    · rcases hx with hx | hx
      · exact absurd hx hny
      · exact absurd (hx d hd) hnd
    · exact h.cover y hy hny d hd hnd

theorem getNextPending_none_iff (s : St) (key : Nat) :
    getNextPending s key = none ↔ ∀ row ∈ s.pending, row.id ≠ key := by
  unfold getNextPending
  simp only
  split
  · rename_i hemp
    simp only [true_iff]
    intro row hrow hid
    have : (row.child, row.digest) ∈ dd ((s.pending.filter (fun r => r.id == key)).map (fun r => (r.child, r.digest))) := by
      rw [mem_dd]; exact List.mem_map.2 ⟨row, by simp [hrow, hid], rfl⟩
    rw [List.isEmpty_iff] at hemp
    rw [hemp] at this; simp at this
  · rename_i hemp
    simp only [reduceCtorEq, false_iff]
    intro hall
    apply hemp
    rw [List.isEmpty_iff]
    cases hl : dd ((s.pending.filter (fun r => r.id == key)).map (fun r => (r.child, r.digest))) with
    | nil => rfl
    | cons a l =>
      have : a ∈ dd ((s.pending.filter (fun r => r.id == key)).map (fun r => (r.child, r.digest))) := by
        rw [hl]; simp
      rw [mem_dd, List.mem_map] at this
      obtain ⟨row, hrow, _⟩ := this
      rw [List.mem_filter] at hrow
      exact absurd (by simpa using hrow.2) (hall row hrow.1)

theorem mem_getNextPending (s : St) (key : Nat) (D : List (Nat × List Nat))
    (h : getNextPending s key = some D) (cp : Nat × List Nat) :
    cp ∈ D ↔ ∃ row ∈ s.pending, row.id = key ∧ cp = (row.child,
      sort ((s.pending.filter (fun r => r.child == row.child && r.digest == row.digest)).map (·.parent))) := by
  unfold getNextPending at h
  simp only at h
  split at h
  · simp at h
  · simp only [Option.some.injEq] at h
    subst h
    rw [mem_dd, List.mem_map]
    constructor
    · rintro ⟨cd, hcd, rfl⟩
      rw [mem_dd, List.mem_map] at hcd
      obtain ⟨row, hrow, rfl⟩ := hcd
      rw [List.mem_filter] at hrow
      exact ⟨row, hrow.1, by simpa using hrow.2, rfl⟩
    · rintro ⟨row, hrow, hid, rfl⟩
      refine ⟨(row.child, row.digest), ?_, rfl⟩
      rw [mem_dd, List.mem_map]
      exact ⟨row, by simp [hrow, hid], rfl⟩

theorem getNextPending_sound {deps : Nat → List Nat} {P : List Nat} {s : St} (hP : PInv deps P s)
    (key : Nat) (D : List (Nat × List Nat)) (h : getNextPending s key = some D) :
    ∀ cp ∈ D, cp.1 ∈ P ∧ ∀ d, d ∈ cp.2 ↔ d ∈ deps cp.1 := by
  intro cp hcp
  obtain ⟨row, hrow, hid, rfl⟩ := (mem_getNextPending s key D h cp).1 hcp
  obtain ⟨h1, h2, h3, h4, h5⟩ := hP.rows row hrow
  refine ⟨h4, ?_⟩
  intro d
  simp only
  rw [mem_sort, List.mem_map]
  constructor
  · rintro ⟨r', hr', rfl⟩
    rw [List.mem_filter] at hr'
    have hc : r'.child = row.child := by have := hr'.2; simp at this; exact this.1
    have := (hP.rows r' hr'.1).2.2.1
    rw [hc] at this; exact this
  · intro hd
    exact ⟨PRow.mk row.id row.child d row.digest, by simp [h5 d hd], rfl⟩

theorem getNextPending_complete (s : St) (key : Nat) (D : List (Nat × List Nat))
    (h : getNextPending s key = some D) (row : PRow) (hrow : row ∈ s.pending) (hid : row.id = key) :
    row.child ∈ D.map (·.1) := by
  rw [List.mem_map]
  exact ⟨_, (mem_getNextPending s key D h _).2 ⟨row, hrow, hid, rfl⟩, rfl⟩

/-! ## `process_pending` -/

/-- Invariant that holds at every point of a `process` call. -/
structure Core (deps : Nat → List Nat) (P : List Nat) (s : St) (out : List Nat) : Prop where
  r : RInv deps P s out
  p : PInv deps P s

/-- Delivered, all dependencies ready, but itself not in the ready table. -/
def Stuck (deps : Nat → List Nat) (P : List Nat) (s : St) (y : Nat) : Prop :=
  y ∈ P ∧ y ∉ readyIds s ∧ ∀ d ∈ deps y, d ∈ readyIds s

/-- Post-condition of `process_pending` / of its loop. `W`: items some caller will still check;
    `A`: keys whose rows some caller will still remove. -/
structure Post (deps : Nat → List Nat) (P : List Nat) (out : List Nat) (s s' : St) (W A : Nat → Prop) : Prop where
  core : Core deps P s' out
  stuck : ∀ y, Stuck deps P s' y → W y
  clean : ∀ row ∈ s'.pending, row.id ∈ readyIds s' → A row.id
  mono : ∀ x ∈ readyIds s, x ∈ readyIds s'
  pre : readyIds s <+: readyIds s'
  shrink : ∀ row ∈ s'.pending, row ∈ s.pending

section PP
variable (deps : Nat → List Nat) (P : List Nat) (out : List Nat) (chk : Chk) (ord : Ord)

/-- Specification of `process_pending` as a hypothesis (the induction hypothesis on the fuel). -/
def PPSpec (fuel : Nat) : Prop :=
  ∀ (s : St) (key : Nat) (s' : St) (W A : Nat → Prop),
    Core deps P s out → key ∈ readyIds s →
    (∀ y, Stuck deps P s y → W y ∨ PRow.mk key y key (sort (deps y)) ∈ s.pending) →
    (∀ row ∈ s.pending, row.id ∈ readyIds s → A row.id ∨ row.id = key) →
    processPending chk ord fuel s key = some s' →
    Post deps P out s s' W A

theorem loop_spec (hchk : ChkOk chk) (fuel : Nat) (IH : PPSpec deps P out chk ord fuel) :
    ∀ (rest : List (Nat × List Nat)) (s s' : St) (W A : Nat → Prop),
      Core deps P s out →
      (∀ cp ∈ rest, cp.1 ∈ P ∧ ∀ d, d ∈ cp.2 ↔ d ∈ deps cp.1) →
      (∀ y, Stuck deps P s y → W y ∨ y ∈ rest.map (·.1)) →
      (∀ row ∈ s.pending, row.id ∈ readyIds s → A row.id) →
      forM' (fun s d => if chk s d.2 then processPending chk ord fuel (markReady s d.1) d.1 else some s) s rest
        = some s' →
      Post deps P out s s' W A := by
  intro rest
  induction rest with
  | nil =>
    intro s s' W A hc _ hst hcl hrun
    simp only [forM', Option.some.injEq] at hrun
    subst hrun
    refine ⟨hc, ?_, hcl, fun x hx => hx, List.prefix_refl _, fun row h => h⟩
    intro y hy
    rcases hst y hy with h | h
    · exact h
    · simp at h
  | cons cp rest ih =>
    intro s s' W A hc hrest hst hcl hrun
    have hcp := hrest cp (by simp)
    have hrest' : ∀ cp' ∈ rest, cp'.1 ∈ P ∧ ∀ d, d ∈ cp'.2 ↔ d ∈ deps cp'.1 :=
      fun cp' h => hrest cp' (List.mem_cons_of_mem _ h)
    simp only [forM'] at hrun
    have hiff := hchk s cp.2 hc.r.nodup
    cases hck : chk s cp.2 with
    | false =>
      simp only [hck, Bool.false_eq_true, if_false] at hrun
      refine ih s s' W A hc hrest' ?_ hcl hrun
      intro y hy
      rcases hst y hy with h | h
      · exact Or.inl h
      · right
        simp only [List.map_cons, List.mem_cons] at h
        rcases h with rfl | h
        · exfalso
          have : chk s cp.2 = true := hiff.2 (fun d hd => hy.2.2 d ((hcp.2 d).1 hd))
          rw [hck] at this; simp at this
        · exact h
    | true =>
      simp only [hck, if_true] at hrun
      have hdeps : ∀ d ∈ deps cp.1, d ∈ readyIds s := fun d hd => hiff.1 hck d ((hcp.2 d).2 hd)
      cases hpp : processPending chk ord fuel (markReady s cp.1) cp.1 with
      | none => simp [hpp] at hrun
      | some t =>
        simp only [hpp] at hrun
        have hct : Core deps P (markReady s cp.1) out :=
          ⟨hc.r.pres_markReady cp.1 hcp.1 hdeps, hc.p.pres_markReady cp.1⟩
        have hpost := IH (markReady s cp.1) cp.1 t (fun y => W y ∨ y ∈ rest.map (·.1)) A hct
          ((mem_readyIds_markReady s cp.1 cp.1).2 (Or.inr rfl)) ?_ ?_ hpp
        · have hpost2 := ih t s' W A hpost.core hrest' hpost.stuck hpost.clean hrun
          exact ⟨hpost2.core, hpost2.stuck, hpost2.clean,
            fun x hx => hpost2.mono x (hpost.mono x ((mem_readyIds_markReady s cp.1 x).2 (Or.inl hx))),
            (prefix_markReady s cp.1).trans (hpost.pre.trans hpost2.pre),
            fun row h => by
              have := hpost.shrink row (hpost2.shrink row h)
              rwa [markReady_pending] at this⟩
        · -- stuck items after marking `cp.1`
          intro y hy
          have hyne : y ≠ cp.1 := fun hh => hy.2.1 ((mem_readyIds_markReady s cp.1 y).2 (Or.inr hh))
          have hynr : y ∉ readyIds s := fun hh => hy.2.1 ((mem_readyIds_markReady s cp.1 y).2 (Or.inl hh))
          by_cases hall : ∀ d ∈ deps y, d ∈ readyIds s
          · rcases hst y ⟨hy.1, hynr, hall⟩ with h | h
            · exact Or.inl (Or.inl h)
            · simp only [List.map_cons, List.mem_cons] at h
              rcases h with h | h
              · exact absurd h hyne
              · exact Or.inl (Or.inr h)
          · right
            rw [markReady_pending]
            simp only [Classical.not_forall, Classical.not_imp] at hall
            obtain ⟨d, hd, hnd⟩ := hall
            have : d = cp.1 := by
              rcases (mem_readyIds_markReady s cp.1 d).1 (hy.2.2 d hd) with h | h
              · exact absurd h hnd
              · exact h
            subst this
            exact hc.p.cover y hy.1 hynr _ hd hnd
        · intro row hrow hrid
          rw [markReady_pending] at hrow
          rcases (mem_readyIds_markReady s cp.1 row.id).1 hrid with h | h
          · exact Or.inl (hcl row hrow h)
          · exact Or.inr h

theorem processPending_spec (hchk : ChkOk chk) (hord : ∀ l x, x ∈ ord l ↔ x ∈ l) :
    ∀ fuel, PPSpec deps P out chk ord fuel := by
  intro fuel
  induction fuel with
  | zero => intro s key s' W A _ _ _ _ h; simp [processPending] at h
  | succ fuel IH =>
    intro s key s' W A hc hkey hst hcl hrun
    unfold processPending at hrun
    cases hg : getNextPending s key with
    | none =>
      simp only [hg, Option.some.injEq] at hrun
      subst hrun
      have hno := (getNextPending_none_iff s key).1 hg
      refine ⟨hc, ?_, ?_, fun x hx => hx, List.prefix_refl _, fun row h => h⟩
      · intro y hy
        rcases hst y hy with h | h
        · exact h
        · exact absurd rfl (hno _ h)
      · intro row hrow hrid
        rcases hcl row hrow hrid with h | h
        · exact h
        · exact absurd h (hno row hrow)
    | some D =>
      simp only [hg] at hrun
      cases hl : forM' (fun s d => if chk s d.2 then processPending chk ord fuel (markReady s d.1) d.1 else some s)
          s (ord D) with
      | none => simp [hl] at hrun
      | some t =>
        simp only [hl, Option.some.injEq] at hrun
        subst hrun
        have hsound := getNextPending_sound hc.p key D hg
        have hpost := loop_spec deps P out chk ord hchk fuel IH (ord D) s t W (fun i => A i ∨ i = key) hc
          (fun cp hcp => hsound cp ((hord D cp).1 hcp)) ?_ hcl hl
        · have hkt : key ∈ readyIds t := hpost.mono key hkey
          refine ⟨⟨?_, hpost.core.p.pres_removePending key hkt⟩, ?_, ?_, ?_, hpost.pre, ?_⟩
          · exact ⟨hpost.core.r.nodup, hpost.core.r.taken, hpost.core.r.depsOk, hpost.core.r.avail,
              hpost.core.r.outReady, hpost.core.r.acyc⟩
          · intro y hy; exact hpost.stuck y hy
          · intro row hrow hrid
            rw [mem_removePending] at hrow
            rcases hpost.clean row hrow.1 hrid with h | h
            · exact h
            · exact absurd h hrow.2
          · exact hpost.mono
          · intro row hrow
            rw [mem_removePending] at hrow
            exact hpost.shrink row hrow.1
        · intro y hy
          rcases hst y hy with h | h
          · exact Or.inl h
          · right
            have := getNextPending_complete s key D hg _ h rfl
            rw [List.mem_map] at this ⊢
            obtain ⟨cp, hcp, hcp1⟩ := this
            exact ⟨cp, (hord D cp).2 hcp, hcp1⟩

end PP

/-! ## `mark_pending` -/

theorem mem_insertRow (a : List PRow) (r row : PRow) : row ∈ insertRow a r ↔ row ∈ a ∨ row = r := by
  unfold insertRow
  have hc : a.contains r = true ↔ r ∈ a := by simp
  by_cases h : r ∈ a
  · rw [if_pos (hc.2 h)]
    constructor
    · exact Or.inl
    · rintro (h' | rfl)
      · exact h'
      · exact h
  · rw [if_neg (fun hh => h (hc.1 hh))]; simp

private theorem mem_inner (f : Nat → PRow) (l : List Nat) (acc : List PRow) (row : PRow) :
    row ∈ l.foldl (fun a b => insertRow a (f b)) acc ↔ row ∈ acc ∨ ∃ b ∈ l, row = f b := by
  induction l generalizing acc with
  | nil => simp
  | cons b l ih =>
    simp only [List.foldl_cons, ih, mem_insertRow, List.mem_cons]
    constructor
    · rintro ((h | h) | ⟨b', hb', h⟩)
      · exact Or.inl h
      · exact Or.inr ⟨b, Or.inl rfl, h⟩
      · exact Or.inr ⟨b', Or.inr hb', h⟩
    · rintro (h | ⟨b', rfl | hb', h⟩)
      · exact Or.inl (Or.inl h)
      · exact Or.inl (Or.inr h)
      · exact Or.inr ⟨b', hb', h⟩

private theorem mem_outer (s : St) (x : Nat) (ps l : List Nat) (acc : List PRow) (row : PRow) :
    row ∈ l.foldl (fun acc key => if isReady s key then acc
        else ps.foldl (fun acc2 p => insertRow acc2 (PRow.mk key x p ps)) acc) acc
    ↔ row ∈ acc ∨ ∃ k ∈ l, isReady s k = false ∧ ∃ p ∈ ps, row = PRow.mk k x p ps := by
  induction l generalizing acc with
  | nil => simp
  | cons k l ih =>
    simp only [List.foldl_cons, ih, List.mem_cons]
    cases hk : isReady s k with
    | true =>
      simp only [if_true]
      constructor
      · rintro (h | ⟨k', hk', h⟩)
        · exact Or.inl h
        · exact Or.inr ⟨k', Or.inr hk', h⟩
      · rintro (h | ⟨k', rfl | hk', h⟩)
        · exact Or.inl h
        · rw [hk] at h; simp at h
        · exact Or.inr ⟨k', hk', h⟩
    | false =>
      simp only [Bool.false_eq_true, if_false, mem_inner (fun p => PRow.mk k x p ps)]
      constructor
      · rintro ((h | h) | ⟨k', hk', h⟩)
        · exact Or.inl h
        · exact Or.inr ⟨k, Or.inl rfl, hk, h⟩
        · exact Or.inr ⟨k', Or.inr hk', h⟩
      · rintro (h | ⟨k', rfl | hk', h⟩)
        · exact Or.inl (Or.inl h)
        · exact Or.inl (Or.inr h.2)
        · exact Or.inr ⟨k', hk', h⟩

theorem mem_markPending (s : St) (x : Nat) (ds : List Nat) (row : PRow) :
    row ∈ (markPending s x ds).pending ↔
      row ∈ s.pending ∨ ∃ k ∈ ds, k ∉ readyIds s ∧ ∃ p ∈ ds, row = PRow.mk k x p (sort ds) := by
  unfold markPending
  simp only
  rw [mem_outer]
  constructor
  · rintro (h | ⟨k, hk, hkr, p, hp, h⟩)
    · exact Or.inl h
    · exact Or.inr ⟨k, (mem_sort ds k).1 hk, (isReady_false_iff s k).1 hkr, p, (mem_sort ds p).1 hp, h⟩
  · rintro (h | ⟨k, hk, hkr, p, hp, h⟩)
    · exact Or.inl h
    · exact Or.inr ⟨k, (mem_sort ds k).2 hk, (isReady_false_iff s k).2 hkr, p, (mem_sort ds p).2 hp, h⟩

theorem readyIds_markPending (s : St) (x : Nat) (ds : List Nat) : readyIds (markPending s x ds) = readyIds s := rfl

theorem ready_markPending (s : St) (x : Nat) (ds : List Nat) : (markPending s x ds).ready = s.ready := rfl

/-! ## Quiescent invariant (between two store calls of the user) -/

structure Inv (deps : Nat → List Nat) (P : List Nat) (s : St) (out : List Nat) : Prop where
  core : Core deps P s out
  live : ∀ y, ¬ Stuck deps P s y
  clean : ∀ row ∈ s.pending, row.id ∉ readyIds s
  safe : SafeOut deps out

theorem inv_empty (deps : Nat → List Nat) : Inv deps [] Orderer.empty [] := by
  refine ⟨⟨⟨?_, ?_, ?_, ?_, ?_, ?_⟩, ⟨?_, ?_⟩⟩, ?_, ?_, safeOut_nil deps⟩ <;>
    simp [Orderer.empty, readyIds, Stuck]

theorem RInv.of_ready_eq {deps : Nat → List Nat} {P : List Nat} {s s' : St} {out : List Nat}
    (h : RInv deps P s out) (hr : s'.ready = s.ready) : RInv deps P s' out := by
  have hids : readyIds s' = readyIds s := by simp [readyIds, hr]
  exact ⟨hids ▸ h.nodup, hr ▸ h.taken, hr ▸ h.depsOk, hids ▸ h.avail, hids ▸ h.outReady, hids ▸ h.acyc⟩

theorem PInv.of_eq {deps : Nat → List Nat} {P : List Nat} {s s' : St}
    (h : PInv deps P s) (hr : readyIds s' = readyIds s) (hp : s'.pending = s.pending) : PInv deps P s' :=
  ⟨hp ▸ h.rows, by rw [hr, hp]; exact h.cover⟩

section Top
variable (deps : Nat → List Nat) (chk : Chk) (ord : Ord)

theorem process_spec (hchk : ChkOk chk) (hord : ∀ l x, x ∈ ord l ↔ x ∈ l)
    {P : List Nat} {s : St} {out : List Nat} (h : Inv deps P s out) (x : Nat) (s' : St)
    (hp : process chk ord s x (deps x) = some s') : Inv deps (x :: P) s' out := by
  unfold process at hp
  have hiff := hchk s (deps x) h.core.r.nodup
  have hsub : ∀ y ∈ P, y ∈ x :: P := fun y hy => List.mem_cons_of_mem _ hy
  cases hck : chk s (deps x) with
  | true =>
    simp only [hck, if_true] at hp
    have hdeps := hiff.1 hck
    have hc0 : Core deps (x :: P) s out := ⟨h.core.r.mono hsub, h.core.p.mono x (Or.inr hdeps)⟩
    have hc1 : Core deps (x :: P) (markReady s x) out :=
      ⟨hc0.r.pres_markReady x (by simp) hdeps, hc0.p.pres_markReady x⟩
    have hpost := processPending_spec deps (x :: P) out chk ord hchk hord (fuelFor s) (markReady s x) x s'
      (fun _ => False) (fun _ => False) hc1 ((mem_readyIds_markReady s x x).2 (Or.inr rfl)) ?_ ?_ hp
    · exact ⟨hpost.core, fun y hy => hpost.stuck y hy, fun row hrow hrid => hpost.clean row hrow hrid, h.safe⟩
    · intro y hy
      right
      rw [markReady_pending]
      have hyne : y ≠ x := fun hh => hy.2.1 ((mem_readyIds_markReady s x y).2 (Or.inr hh))
      have hynr : y ∉ readyIds s := fun hh => hy.2.1 ((mem_readyIds_markReady s x y).2 (Or.inl hh))
      have hyP : y ∈ P := by
        rcases List.mem_cons.1 hy.1 with hh | hh
        · exact absurd hh hyne
        · exact hh
      by_cases hall : ∀ d ∈ deps y, d ∈ readyIds s
      · exact absurd ⟨hyP, hynr, hall⟩ (h.live y)
      · simp only [Classical.not_forall, Classical.not_imp] at hall
        obtain ⟨d, hd, hnd⟩ := hall
        have : d = x := by
          rcases (mem_readyIds_markReady s x d).1 (hy.2.2 d hd) with hh | hh
          · exact absurd hh hnd
          · exact hh
        subst this
        exact h.core.p.cover y hyP hynr _ hd hnd
    · intro row hrow hrid
      rw [markReady_pending] at hrow
      rcases (mem_readyIds_markReady s x row.id).1 hrid with hh | hh
      · exact absurd hh (h.clean row hrow)
      · exact Or.inr hh
  | false =>
    simp only [hck, Bool.false_eq_true, if_false, Option.some.injEq] at hp
    subst hp
    have hnot : ¬ ∀ d ∈ deps x, d ∈ readyIds s := fun hh => by
      have := hiff.2 hh; rw [hck] at this; simp at this
    refine ⟨⟨(h.core.r.mono hsub).of_ready_eq (ready_markPending s x (deps x)), ⟨?_, ?_⟩⟩, ?_, ?_, h.safe⟩
    · -- rows
      intro row hrow
      rcases (mem_markPending s x (deps x) row).1 hrow with hold | ⟨k, hk, hkr, p, hp, rfl⟩
      · obtain ⟨h1, h2, h3, h4, h5⟩ := h.core.p.rows row hold
        exact ⟨h1, h2, h3, hsub _ h4, fun p hp => (mem_markPending s x (deps x) _).2 (Or.inl (h5 p hp))⟩
      · refine ⟨rfl, hk, hp, by simp, ?_⟩
        intro p' hp'
        exact (mem_markPending s x (deps x) _).2 (Or.inr ⟨k, hk, hkr, p', hp', rfl⟩)
    · -- cover
      intro y hy hny d hd hnd
      rw [readyIds_markPending] at hny hnd
      rcases List.mem_cons.1 hy with rfl | hy
      · exact (mem_markPending s y (deps y) _).2 (Or.inr ⟨d, hd, hnd, d, hd, rfl⟩)
      · exact (mem_markPending s x (deps x) _).2 (Or.inl (h.core.p.cover y hy hny d hd hnd))
    · -- live
      intro y hy
      obtain ⟨hyP, hny, hall⟩ := hy
      rw [readyIds_markPending] at hny hall
      rcases List.mem_cons.1 hyP with rfl | hyP
      · exact hnot hall
      · exact h.live y ⟨hyP, hny, hall⟩
    · -- clean
      intro row hrow
      rw [readyIds_markPending]
      rcases (mem_markPending s x (deps x) row).1 hrow with hold | ⟨k, hk, hkr, p, hp, rfl⟩
      · exact h.clean row hold
      · exact hkr

theorem next_spec {P : List Nat} {s : St} {out : List Nat} (h : Inv deps P s out) :
    Inv deps P (takeNextReady s).1 (match (takeNextReady s).2 with | none => out | some x => out ++ [x]) := by
  have hids := readyIds_takeNextReady s
  have hpend := takeNextReady_pending s
  cases hx : (takeNextReady s).2 with
  | none =>
    simp only
    rw [(takeNextReady_none s hx).1]; exact h
  | some x =>
    simp only
    obtain ⟨hr, hs⟩ := h.core.r.pres_takeNext h.safe x hx
    refine ⟨⟨hr, h.core.p.of_eq hids hpend⟩, ?_, ?_, hs⟩
    · intro y hy
      unfold Stuck at hy
      rw [hids] at hy
      exact h.live y hy
    · rw [hids, hpend]; exact h.clean

/-- Histories in which every id comes with its one dependency list. -/
def WF (ops : List Op) : Prop := ∀ k ds, Op.proc k ds ∈ ops → ds = deps k

/-- Executable form of `WF` for concrete histories. -/
def wfb : Op → Bool
  | Op.proc k ds => ds == deps k
  | Op.next => true

theorem wf_of_all (ops : List Op) (h : ops.all (wfb deps) = true) : WF deps ops := by
  intro k ds hm
  have := List.all_eq_true.1 h _ hm
  simpa [wfb] using this

/-- Ids delivered by a history. -/
def delivered : List Op → List Nat
  | [] => []
  | Op.proc k _ :: ops => k :: delivered ops
  | Op.next :: ops => delivered ops

theorem run_spec (hchk : ChkOk chk) (hord : ∀ l x, x ∈ ord l ↔ x ∈ l) :
    ∀ (ops : List Op) (P : List Nat) (s : St) (out : List Nat) (s' : St) (out' : List Nat),
      Inv deps P s out → WF deps ops → run chk ord s out ops = some (s', out') →
      ∃ P', Inv deps P' s' out' ∧ (∀ x, x ∈ P' ↔ x ∈ P ∨ x ∈ delivered ops) ∧ (∃ t, out' = out ++ t) := by
  intro ops
  induction ops with
  | nil =>
    intro P s out s' out' h _ hrun
    simp only [run, Option.some.injEq, Prod.mk.injEq] at hrun
    obtain ⟨rfl, rfl⟩ := hrun
    exact ⟨P, h, by simp [delivered], ⟨[], by simp⟩⟩
  | cons op ops ih =>
    intro P s out s' out' h hwf hrun
    have hwf' : WF deps ops := fun k ds hm => hwf k ds (List.mem_cons_of_mem _ hm)
    cases op with
    | proc k ds =>
      have hds : ds = deps k := hwf k ds (by simp)
      subst hds
      simp only [run] at hrun
      cases hp : process chk ord s k (deps k) with
      | none => simp [hp] at hrun
      | some s1 =>
        simp only [hp] at hrun
        obtain ⟨P', hI, hP', ht⟩ := ih (k :: P) s1 out s' out' (process_spec deps chk ord hchk hord h k s1 hp) hwf' hrun
        refine ⟨P', hI, ?_, ht⟩
        intro x; rw [hP' x]; simp only [delivered, List.mem_cons]
        constructor
        · rintro ((h1 | h1) | h1)
          · exact Or.inr (Or.inl h1)
          · exact Or.inl h1
          · exact Or.inr (Or.inr h1)
        · rintro (h1 | h1 | h1)
          · exact Or.inl (Or.inr h1)
          · exact Or.inl (Or.inl h1)
          · exact Or.inr h1
    | next =>
      simp only [run] at hrun
      have hn := next_spec deps h
      cases hx : takeNextReady s with
      | mk s1 o =>
        rw [hx] at hn hrun
        cases o with
        | none =>
          simp only at hn hrun
          obtain ⟨P', hI, hP', ht⟩ := ih P s1 out s' out' hn hwf' hrun
          exact ⟨P', hI, by simpa [delivered] using hP', ht⟩
        | some x =>
          simp only at hn hrun
          obtain ⟨P', hI, hP', t, ht⟩ := ih P s1 (out ++ [x]) s' out' hn hwf' hrun
          exact ⟨P', hI, by simpa [delivered] using hP', ⟨x :: t, by simp [ht]⟩⟩

end Top

end P2.C11
