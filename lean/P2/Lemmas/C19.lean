/-
Helper lemmas for C19: specifications of the transcribed store queries (`maxSeq`, `selectLog`,
`getHeights`), of `compare`, and the de-duplication filter.
-/
import P2.Model.SyncPair

namespace P2.C19
open P2.Sync

set_option linter.unusedSimpArgs false

/-! ### insertion sorts -/

theorem mem_insSorted (x y : Nat) (l : List Nat) : y ∈ insSorted x l ↔ y = x ∨ y ∈ l := by
  induction l with
  | nil => simp [insSorted]
  | cons z zs ih =>
    simp only [insSorted]
    split
    · simp
    · split
      · rename_i h; subst h; simp
      · simp [ih]; constructor
        · rintro (h | h | h) <;> simp [h]
        · rintro (h | h | h) <;> simp [h]

theorem mem_sortDedup (y : Nat) (l : List Nat) : y ∈ sortDedup l ↔ y ∈ l := by
  induction l with
  | nil => simp [sortDedup]
  | cons x xs ih =>
    have : sortDedup (x :: xs) = insSorted x (sortDedup xs) := rfl
    rw [this, mem_insSorted, ih]; simp

theorem mem_insBySeq (e x : SOp) (l : List SOp) : x ∈ insBySeq e l ↔ x = e ∨ x ∈ l := by
  induction l with
  | nil => simp [insBySeq]
  | cons z zs ih =>
    simp only [insBySeq]
    split
    · simp
    · simp [ih]; constructor
      · rintro (h | h | h) <;> simp [h]
      · rintro (h | h | h) <;> simp [h]

theorem mem_sortBySeq (x : SOp) (l : List SOp) : x ∈ sortBySeq l ↔ x ∈ l := by
  induction l with
  | nil => simp [sortBySeq]
  | cons e es ih =>
    have : sortBySeq (e :: es) = insBySeq e (sortBySeq es) := rfl
    rw [this, mem_insBySeq, ih]; simp

/-- membership in a selected range -/
theorem mem_selectLog (store : List SOp) (a l : Nat) (r : Range) (e : SOp) :
    e ∈ selectLog store a l r ↔ e ∈ store ∧ e.a = a ∧ e.l = l ∧ inRange r e.s = true := by
  simp [selectLog, mem_sortBySeq, and_assoc]

/-! ### `MAX(seq_num)` -/

/-- `h` is the height of log `(a, l)` in `store` -/
def IsHeight (store : List SOp) (a l h : Nat) : Prop :=
  (∃ e ∈ store, e.a = a ∧ e.l = l ∧ e.s = h) ∧ ∀ e ∈ store, e.a = a → e.l = l → e.s ≤ h

def maxStep (a l : Nat) (acc : Option Nat) (e : SOp) : Option Nat :=
  if e.a = a ∧ e.l = l then
    match acc with
    | none => some e.s
    | some m => some (max m e.s)
  else acc

theorem maxSeq_eq (store : List SOp) (a l : Nat) : maxSeq store a l = store.foldl (maxStep a l) none := rfl

theorem foldl_maxStep_spec (a l : Nat) (store : List SOp) (acc : Option Nat) :
    (store.foldl (maxStep a l) acc = none ↔ acc = none ∧ ∀ e ∈ store, ¬(e.a = a ∧ e.l = l)) ∧
    (∀ h, store.foldl (maxStep a l) acc = some h →
      ((acc = some h) ∨ ∃ e ∈ store, e.a = a ∧ e.l = l ∧ e.s = h) ∧
      (∀ m, acc = some m → m ≤ h) ∧ ∀ e ∈ store, e.a = a → e.l = l → e.s ≤ h) := by
  induction store generalizing acc with
  | nil =>
    simp only [List.foldl_nil, List.not_mem_nil, false_and, exists_false, or_false, false_imp_iff,
      implies_true, and_true, true_and]
    intro h hh
    refine ⟨hh, ?_⟩
    intro m hm; rw [hh] at hm; simp at hm; omega
  | cons x xs ih =>
    simp only [List.foldl_cons]
    have ih' := ih (maxStep a l acc x)
    constructor
    · rw [ih'.1]
      unfold maxStep
      by_cases hx : x.a = a ∧ x.l = l
      · simp only [hx, and_self, if_true]
        cases acc <;> simp [hx]
      · simp only [hx, if_false]
        constructor
        · rintro ⟨h1, h2⟩; exact ⟨h1, by intro e he; rcases List.mem_cons.mp he with rfl | he; exact hx; exact h2 e he⟩
        · rintro ⟨h1, h2⟩; exact ⟨h1, fun e he => h2 e (List.mem_cons_of_mem _ he)⟩
    · intro h hh
      obtain ⟨h1, h2, h3⟩ := ih'.2 h hh
      unfold maxStep at h1 h2
      by_cases hx : x.a = a ∧ x.l = l
      · simp only [hx, and_self, if_true] at h1 h2
        cases acc with
        | none =>
          simp only [reduceCtorEq, false_or] at h1 ⊢
          refine ⟨?_, by simp, ?_⟩
          · rcases h1 with h1 | ⟨e, he, h1⟩
            · exact ⟨x, by simp, hx.1, hx.2, by simpa using h1⟩
            · exact ⟨e, by simp [he], h1⟩
          · intro e he ha hl
            rcases List.mem_cons.mp he with rfl | he
            · exact h2 _ rfl
            · exact h3 e he ha hl
        | some m =>
          have hm := h2 (max m x.s) rfl
          refine ⟨?_, ?_, ?_⟩
          · rcases h1 with h1 | ⟨e, he, h1⟩
            · simp only [Option.some.injEq] at h1
              by_cases hmx : x.s ≤ m
              · left; simp only [Option.some.injEq]; omega
              · right; exact ⟨x, by simp, hx.1, hx.2, by omega⟩
            · right; exact ⟨e, by simp [he], h1⟩
          · intro m' hm'; simp only [Option.some.injEq] at hm'; omega
          · intro e he ha hl
            rcases List.mem_cons.mp he with rfl | he
            · omega
            · exact h3 e he ha hl
      · simp only [hx, if_false] at h1 h2
        refine ⟨?_, h2, ?_⟩
        · rcases h1 with h1 | ⟨e, he, h1⟩
          · exact Or.inl h1
          · exact Or.inr ⟨e, by simp [he], h1⟩
        · intro e he ha hl
          rcases List.mem_cons.mp he with rfl | he
          · exact absurd ⟨ha, hl⟩ hx
          · exact h3 e he ha hl

theorem maxSeq_none (store : List SOp) (a l : Nat) :
    maxSeq store a l = none ↔ ∀ e ∈ store, ¬(e.a = a ∧ e.l = l) := by
  rw [maxSeq_eq, (foldl_maxStep_spec a l store none).1]; simp

theorem maxSeq_some (store : List SOp) (a l h : Nat) :
    maxSeq store a l = some h ↔ IsHeight store a l h := by
  constructor
  · intro hh
    rw [maxSeq_eq] at hh
    obtain ⟨h1, _, h3⟩ := (foldl_maxStep_spec a l store none).2 h hh
    simp only [reduceCtorEq, false_or] at h1
    exact ⟨h1, h3⟩
  · rintro ⟨⟨e, he, ha, hl, hs⟩, hmax⟩
    cases hm : maxSeq store a l with
    | none => exact absurd ⟨ha, hl⟩ ((maxSeq_none store a l).mp hm e he)
    | some m =>
      rw [maxSeq_eq] at hm
      obtain ⟨h1, _, h3⟩ := (foldl_maxStep_spec a l store none).2 m hm
      simp only [reduceCtorEq, false_or] at h1
      obtain ⟨e', he', ha', hl', hs'⟩ := h1
      have := h3 e he ha hl
      have := hmax e' he' ha' hl'
      congr 1; omega

/-! ### heights, `compare` -/

theorem mem_getHeights {store : List SOp} {a : Nat} {logs : List Nat} {m : LogMap}
    (hm : getHeights store a logs = some m) (l h : Nat) :
    (l, h) ∈ m ↔ l ∈ logs ∧ maxSeq store a l = some h := by
  unfold getHeights at hm
  simp only at hm
  split at hm
  · simp at hm
  · simp only [Option.some.injEq] at hm
    subst hm
    simp only [List.mem_filterMap, mem_sortDedup, Option.map_eq_some_iff, Prod.mk.injEq]
    constructor
    · rintro ⟨x, hx, h', hh, rfl, rfl⟩; exact ⟨hx, hh⟩
    · rintro ⟨hl, hh⟩; exact ⟨l, hl, h, hh, rfl, rfl⟩

theorem getHeights_isSome {store : List SOp} {a : Nat} {logs : List Nat} {l h : Nat}
    (hl : l ∈ logs) (hh : maxSeq store a l = some h) : ∃ m, getHeights store a logs = some m := by
  unfold getHeights
  simp only
  split
  · rename_i he
    have : (l, h) ∈ List.filterMap (fun l => Option.map (fun h => (l, h)) (maxSeq store a l)) (sortDedup logs) := by
      simp only [List.mem_filterMap, mem_sortDedup, Option.map_eq_some_iff, Prod.mk.injEq]
      exact ⟨l, hl, h, hh, rfl, rfl⟩
    rw [List.isEmpty_iff] at he
    rw [he] at this; simp at this
  · exact ⟨_, rfl⟩

theorem mem_haveOf (r : Replica) (au : Nat) (m : LogMap) :
    (au, m) ∈ haveOf r ↔ ∃ logs, (au, logs) ∈ r.scope ∧ getHeights r.store au logs = some m := by
  simp only [haveOf, List.mem_filterMap, Option.map_eq_some_iff, Prod.mk.injEq, Prod.exists]
  constructor
  · rintro ⟨a', logs, hmem, m', hg, rfl, rfl⟩; exact ⟨logs, hmem, hg⟩
  · rintro ⟨logs, hmem, hg⟩; exact ⟨au, logs, hmem, m, hg, rfl, rfl⟩

theorem mem_needsOfAuthor (m rl : LogMap) (l : Nat) (r : Range) :
    (l, r) ∈ needsOfAuthor m rl ↔
      ∃ h, (l, h) ∈ m ∧ ((rl.lookup l = none ∧ r = (none, some h)) ∨
                          ∃ rh, rl.lookup l = some rh ∧ rh < h ∧ r = (some rh, some h)) := by
  simp only [needsOfAuthor, List.mem_filterMap, Prod.exists]
  constructor
  · rintro ⟨l', h, hmem, hf⟩
    try simp only at hf
    split at hf
    · rename_i hlk
      simp only [Option.some.injEq, Prod.mk.injEq] at hf
      obtain ⟨rfl, rfl⟩ := hf
      exact ⟨h, hmem, Or.inl ⟨hlk, rfl⟩⟩
    · rename_i rh hlk
      split at hf
      · rename_i hlt
        simp only [Option.some.injEq, Prod.mk.injEq] at hf
        obtain ⟨rfl, rfl⟩ := hf
        exact ⟨h, hmem, Or.inr ⟨rh, hlk, hlt, rfl⟩⟩
      · simp at hf
  · rintro ⟨h, hmem, hc⟩
    refine ⟨l, h, hmem, ?_⟩
    try simp only
    rcases hc with ⟨hlk, rfl⟩ | ⟨rh, hlk, hlt, rfl⟩
    · rw [hlk]
    · rw [hlk]; simp [hlt]

theorem mem_compare (loc rem : Heights) (au : Nat) (rs : List (Nat × Range)) :
    (au, rs) ∈ Sync.compare loc rem ↔
      ∃ m, (au, m) ∈ loc ∧
        ((rem.lookup au = none ∧ rs = m.map fun lh => (lh.1, (none, some lh.2))) ∨
         ∃ rl, rem.lookup au = some rl ∧ m ≠ rl ∧ rs = needsOfAuthor m rl ∧ rs ≠ []) := by
  simp only [Sync.compare, List.mem_filterMap, Prod.exists]
  constructor
  · rintro ⟨a', m, hmem, hf⟩
    try simp only at hf
    split at hf
    · rename_i hlk
      simp only [Option.some.injEq, Prod.mk.injEq] at hf
      obtain ⟨rfl, rfl⟩ := hf
      exact ⟨m, hmem, Or.inl ⟨hlk, rfl⟩⟩
    · rename_i rl hlk
      split at hf
      · simp at hf
      · rename_i hne
        split at hf
        · simp at hf
        · rename_i hnonempty
          simp only [Option.some.injEq, Prod.mk.injEq] at hf
          obtain ⟨rfl, rfl⟩ := hf
          refine ⟨m, hmem, Or.inr ⟨rl, hlk, hne, rfl, ?_⟩⟩
          intro h; rw [h] at hnonempty; simp at hnonempty
  · rintro ⟨m, hmem, hc⟩
    refine ⟨au, m, hmem, ?_⟩
    try simp only
    rcases hc with ⟨hlk, rfl⟩ | ⟨rl, hlk, hne, rfl, hnn⟩
    · rw [hlk]
    · rw [hlk]
      simp only [hne, if_false]
      have : (needsOfAuthor m rl).isEmpty = false := by
        cases h : needsOfAuthor m rl with
        | nil => exact absurd h hnn
        | cons _ _ => rfl
      simp [this]

theorem lookup_some_mem {β : Type} (k : Nat) (v : β) (l : List (Nat × β)) (h : l.lookup k = some v) :
    (k, v) ∈ l := by
  induction l with
  | nil => simp at h
  | cons x xs ih =>
    obtain ⟨k', v'⟩ := x
    simp only [List.lookup_cons] at h
    by_cases hk : k = k'
    · subst hk; simp at h; subst h; simp
    · have : (k == k') = false := by simpa using hk
      rw [this] at h
      exact List.mem_cons_of_mem _ (ih h)

theorem lookup_none_not_mem {β : Type} (k : Nat) (l : List (Nat × β)) (h : l.lookup k = none) (v : β) :
    (k, v) ∉ l := by
  induction l with
  | nil => simp
  | cons x xs ih =>
    obtain ⟨k', v'⟩ := x
    simp only [List.lookup_cons] at h
    by_cases hk : k = k'
    · subst hk; simp at h
    · have : (k == k') = false := by simpa using hk
      rw [this] at h
      simp only [List.mem_cons, Prod.mk.injEq, not_or, not_and]
      exact ⟨fun h' => absurd h' hk, ih h⟩

theorem mem_sendList (a b : Replica) (e : SOp) :
    e ∈ sendList a b ↔ ∃ au rs, (au, rs) ∈ needs a b ∧ ∃ l r, (l, r) ∈ rs ∧ e ∈ selectLog a.store au l r := by
  simp only [sendList, List.mem_flatMap, Prod.exists]

end P2.C19
