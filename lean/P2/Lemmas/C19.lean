/-
Helper lemmas for C19: specifications of the transcribed store queries (`maxSeq`, `selectLog`,
`getHeights`), of `compare`, and the de-duplication filter.
-/
import P2.Model.SyncPair

namespace P2.C19
open P2.Sync

set_option linter.unusedSimpArgs false

/-! ### insertion sorts -/

theorem mem_insSorted (x y : Nat) (l : List Nat) : y ∈ insSorted x l ↔ y = x ∨ y ∈ l := by
  induction l with
  | nil => simp [insSorted]
  | cons z zs ih =>
    simp only [insSorted]
    split
    · simp
    · split
      · rename_i h; subst h; simp
      · simp [ih]; constructor
        · rintro (h | h | h) <;> simp [h]
        · rintro (h | h | h) <;> simp [h]

theorem mem_sortDedup (y : Nat) (l : List Nat) : y ∈ sortDedup l ↔ y ∈ l := by
  induction l with
  | nil => simp [sortDedup]
  | cons x xs ih =>
    have : sortDedup (x :: xs) = insSorted x (sortDedup xs) := rfl
    rw [this, mem_insSorted, ih]; simp

theorem mem_insBySeq (e x : SOp) (l : List SOp) : x ∈ insBySeq e l ↔ x = e ∨ x ∈ l := by
  induction l with
  | nil => simp [insBySeq]
  | cons z zs ih =>
    simp only [insBySeq]
    split
    · simp
    · simp [ih]; constructor
      · rintro (h | h | h) <;> simp [h]
      · rintro (h | h | h) <;> simp [h]

theorem mem_sortBySeq (x : SOp) (l : List SOp) : x ∈ sortBySeq l ↔ x ∈ l := by
  induction l with
  | nil => simp [sortBySeq]
  | cons e es ih =>
    have : sortBySeq (e :: es) = insBySeq e (sortBySeq es) := rfl
    rw [this, mem_insBySeq, ih]; simp

/-- membership in a selected range -/
theorem mem_selectLog (store : List SOp) (a l : Nat) (r : Range) (e : SOp) :
    e ∈ selectLog store a l r ↔ e ∈ store ∧ e.a = a ∧ e.l = l ∧ inRange r e.s = true := by
  simp [selectLog, mem_sortBySeq, and_assoc]

/-! ### `MAX(seq_num)` -/

/-- `h` is the height of log `(a, l)` in `store` -/
def IsHeight (store : List SOp) (a l h : Nat) : Prop :=
  (∃ e ∈ store, e.a = a ∧ e.l = l ∧ e.s = h) ∧ ∀ e ∈ store, e.a = a → e.l = l → e.s ≤ h

def maxStep (a l : Nat) (acc : Option Nat) (e : SOp) : Option Nat :=
  if e.a = a ∧ e.l = l then
    match acc with
    | none => some e.s
    | some m => some (max m e.s)
  else acc

theorem maxSeq_eq (store : List SOp) (a l : Nat) : maxSeq store a l = store.foldl (maxStep a l) none := rfl

theorem foldl_maxStep_spec (a l : Nat) (store : List SOp) (acc : Option Nat) :
    (store.foldl (maxStep a l) acc = none ↔ acc = none ∧ ∀ e ∈ store, ¬(e.a = a ∧ e.l = l)) ∧
    (∀ h, store.foldl (maxStep a l) acc = some h →
      ((acc = some h) ∨ ∃ e ∈ store, e.a = a ∧ e.l = l ∧ e.s = h) ∧
      (∀ m, acc = some m → m ≤ h) ∧ ∀ e ∈ store, e.a = a → e.l = l → e.s ≤ h) := by
  induction store generalizing acc with
  | nil =>
    simp only [List.foldl_nil, List.not_mem_nil, false_and, exists_false, or_false, false_imp_iff,
      implies_true, and_true, true_and]
    intro h hh
    refine ⟨hh, ?_⟩
    intro m hm; rw [hh] at hm; simp at hm; omega
  | cons x xs ih =>
    simp only [List.foldl_cons]
    have ih' := ih (maxStep a l acc x)
    constructor
    · rw [ih'.1]
      unfold maxStep
      by_cases hx : x.a = a ∧ x.l = l
      · simp only [hx, and_self, if_true]
        cases acc <;> simp [hx]
      · simp only [hx, if_false]
        constructor
        · rintro ⟨h1, h2⟩; exact ⟨h1, by intro e he; rcases List.mem_cons.mp he with rfl | he; exact hx; exact h2 e he⟩
        · rintro ⟨h1, h2⟩; exact ⟨h1, fun e he => h2 e (List.mem_cons_of_mem _ he)⟩
    · intro h hh
      obtain ⟨h1, h2, h3⟩ := ih'.2 h hh
      unfold maxStep at h1 h2
      by_cases hx : x.a = a ∧ x.l = l
      · simp only [hx, and_self, if_true] at h1 h2
        cases acc with
        | none =>
          simp only [reduceCtorEq, false_or] at h1 ⊢
          refine ⟨?_, by simp, ?_⟩
          · rcases h1 with h1 | ⟨e, he, h1⟩
            · exact ⟨x, by simp, hx.1, hx.2, by simpa using h1⟩
            · exact ⟨e, by simp [he], h1⟩
          · intro e he ha hl
            rcases List.mem_cons.mp he with rfl | he
            · exact h2 _ rfl
            · exact h3 e he ha hl
        | some m =>
          have hm := h2 (max m x.s) rfl
          refine ⟨?_, ?_, ?_⟩
          · rcases h1 with h1 | ⟨e, he, h1⟩
            · simp only [Option.some.injEq] at h1
              by_cases hmx : x.s ≤ m
              · left; simp only [Option.some.injEq]; omega
              · right; exact ⟨x, by simp, hx.1, hx.2, by omega⟩
            · right; exact ⟨e, by simp [he], h1⟩
          · intro m' hm'; simp only [Option.some.injEq] at hm'; omega
          · intro e he ha hl
            rcases List.mem_cons.mp he with rfl | he
            · omega
            · exact h3 e he ha hl
      · simp only [hx, if_false] at h1 h2
        refine ⟨?_, h2, ?_⟩
        · rcases h1 with h1 | ⟨e, he, h1⟩
          · exact Or.inl h1
          · exact Or.inr ⟨e, by simp [he], h1⟩
        · intro e he ha hl
          rcases List.mem_cons.mp he with rfl | he
          · exact absurd ⟨ha, hl⟩ hx
          · exact h3 e he ha hl

theorem maxSeq_none (store : List SOp) (a l : Nat) :
    maxSeq store a l = none ↔ ∀ e ∈ store, ¬(e.a = a ∧ e.l = l) := by
  rw [maxSeq_eq, (foldl_maxStep_spec a l store none).1]; simp

theorem maxSeq_some (store : List SOp) (a l h : Nat) :
    maxSeq store a l = some h ↔ IsHeight store a l h := by
  constructor
  · intro hh
    rw [maxSeq_eq] at hh
    obtain ⟨h1, _, h3⟩ := (foldl_maxStep_spec a l store none).2 h hh
    simp only [reduceCtorEq, false_or] at h1
    exact ⟨h1, h3⟩
  · rintro ⟨⟨e, he, ha, hl, hs⟩, hmax⟩
    cases hm : maxSeq store a l with
    | none => exact absurd ⟨ha, hl⟩ ((maxSeq_none store a l).mp hm e he)
    | some m =>
      rw [maxSeq_eq] at hm
      obtain ⟨h1, _, h3⟩ := (foldl_maxStep_spec a l store none).2 m hm
      simp only [reduceCtorEq, false_or] at h1
      obtain ⟨e', he', ha', hl', hs'⟩ := h1
      have := h3 e he ha hl
      have := hmax e' he' ha' hl'
      congr 1; omega

/-! ### heights, `compare` -/

theorem mem_getHeights {store : List SOp} {a : Nat} {logs : List Nat} {m : LogMap}
    (hm : getHeights store a logs = some m) (l h : Nat) :
    (l, h) ∈ m ↔ l ∈ logs ∧ maxSeq store a l = some h := by
  unfold getHeights at hm
  simp only at hm
  split at hm
  · simp at hm
  · simp only [Option.some.injEq] at hm
    subst hm
    simp only [List.mem_filterMap, mem_sortDedup, Option.map_eq_some_iff, Prod.mk.injEq]
    constructor
    · rintro ⟨x, hx, h', hh, rfl, rfl⟩; exact ⟨hx, hh⟩
    · rintro ⟨hl, hh⟩; exact ⟨l, hl, h, hh, rfl, rfl⟩

theorem getHeights_isSome {store : List SOp} {a : Nat} {logs : List Nat} {l h : Nat}
    (hl : l ∈ logs) (hh : maxSeq store a l = some h) : ∃ m, getHeights store a logs = some m := by
  unfold getHeights
  simp only
  split
  · rename_i he
    have : (l, h) ∈ List.filterMap (fun l => Option.map (fun h => (l, h)) (maxSeq store a l)) (sortDedup logs) := by
      simp only [List.mem_filterMap, mem_sortDedup, Option.map_eq_some_iff, Prod.mk.injEq]
      exact ⟨l, hl, h, hh, rfl, rfl⟩
    rw [List.isEmpty_iff] at he
    rw [he] at this; simp at this
  · exact ⟨_, rfl⟩

theorem mem_haveOf (r : Replica) (au : Nat) (m : LogMap) :
    (au, m) ∈ haveOf r ↔ ∃ logs, (au, logs) ∈ r.scope ∧ getHeights r.store au logs = some m := by
  simp only [haveOf, List.mem_filterMap, Option.map_eq_some_iff, Prod.mk.injEq, Prod.exists]
  constructor
  · rintro ⟨a', logs, hmem, m', hg, rfl, rfl⟩; exact ⟨logs, hmem, hg⟩
  · rintro ⟨logs, hmem, hg⟩; exact ⟨au, logs, hmem, m, hg, rfl, rfl⟩

theorem mem_needsOfAuthor (m rl : LogMap) (l : Nat) (r : Range) :
    (l, r) ∈ needsOfAuthor m rl ↔
      ∃ h, (l, h) ∈ m ∧ ((rl.lookup l = none ∧ r = (none, some h)) ∨
                          ∃ rh, rl.lookup l = some rh ∧ rh < h ∧ r = (some rh, some h)) := by
  simp only [needsOfAuthor, List.mem_filterMap, Prod.exists]
  constructor
  · rintro ⟨l', h, hmem, hf⟩
    try simp only at hf
    split at hf
    · rename_i hlk
      simp only [Option.some.injEq, Prod.mk.injEq] at hf
      obtain ⟨rfl, rfl⟩ := hf
      exact ⟨h, hmem, Or.inl ⟨hlk, rfl⟩⟩
    · rename_i rh hlk
      split at hf
      · rename_i hlt
        simp only [Option.some.injEq, Prod.mk.injEq] at hf
        obtain ⟨rfl, rfl⟩ := hf
        exact ⟨h, hmem, Or.inr ⟨rh, hlk, hlt, rfl⟩⟩
      · simp at hf
  · rintro ⟨h, hmem, hc⟩
    refine ⟨l, h, hmem, ?_⟩
    try simp only
    rcases hc with ⟨hlk, rfl⟩ | ⟨rh, hlk, hlt, rfl⟩
    · rw [hlk]
    · rw [hlk]; simp [hlt]

theorem mem_compare (loc rem : Heights) (au : Nat) (rs : List (Nat × Range)) :
    (au, rs) ∈ Sync.compare loc rem ↔
      ∃ m, (au, m) ∈ loc ∧
        ((rem.lookup au = none ∧ rs = m.map fun lh => (lh.1, (none, some lh.2))) ∨
         ∃ rl, rem.lookup au = some rl ∧ m ≠ rl ∧ rs = needsOfAuthor m rl ∧ rs ≠ []) := by
  simp only [Sync.compare, List.mem_filterMap, Prod.exists]
  constructor
  · rintro ⟨a', m, hmem, hf⟩
    try simp only at hf
    split at hf
    · rename_i hlk
      simp only [Option.some.injEq, Prod.mk.injEq] at hf
      obtain ⟨rfl, rfl⟩ := hf
      exact ⟨m, hmem, Or.inl ⟨hlk, rfl⟩⟩
    · rename_i rl hlk
      split at hf
      · simp at hf
      · rename_i hne
        split at hf
        · simp at hf
        · rename_i hnonempty
          simp only [Option.some.injEq, Prod.mk.injEq] at hf
          obtain ⟨rfl, rfl⟩ := hf
          refine ⟨m, hmem, Or.inr ⟨rl, hlk, hne, rfl, ?_⟩⟩
          intro h; rw [h] at hnonempty; simp at hnonempty
  · rintro ⟨m, hmem, hc⟩
    refine ⟨au, m, hmem, ?_⟩
    try simp only
    rcases hc with ⟨hlk, rfl⟩ | ⟨rl, hlk, hne, rfl, hnn⟩
    · rw [hlk]
    · rw [hlk]
      simp only [hne, if_false]
      have : (needsOfAuthor m rl).isEmpty = false := by
        cases h : needsOfAuthor m rl with
        | nil => exact absurd h hnn
        | cons _ _ => rfl
      simp [this]

theorem lookup_some_mem {β : Type} (k : Nat) (v : β) (l : List (Nat × β)) (h : l.lookup k = some v) :
    (k, v) ∈ l := by
  induction l with
  | nil => simp at h
  | cons x xs ih =>
    obtain ⟨k', v'⟩ := x
    simp only [List.lookup_cons] at h
    by_cases hk : k = k'
    · subst hk; simp at h; subst h; simp
    · have : (k == k') = false := by simpa using hk
      rw [this] at h
      exact List.mem_cons_of_mem _ (ih h)

theorem lookup_none_not_mem {β : Type} (k : Nat) (l : List (Nat × β)) (h : l.lookup k = none) (v : β) :
    (k, v) ∉ l := by
  induction l with
  | nil => simp
  | cons x xs ih =>
    obtain ⟨k', v'⟩ := x
    simp only [List.lookup_cons] at h
    by_cases hk : k = k'
    · subst hk; simp at h
    · have : (k == k') = false := by simpa using hk
      rw [this] at h
      simp only [List.mem_cons, Prod.mk.injEq, not_or, not_and]
      exact ⟨fun h' => absurd h' hk, ih h⟩

theorem mem_sendList (a b : Replica) (e : SOp) :
    e ∈ sendList a b ↔ ∃ au rs, (au, rs) ∈ needs a b ∧ ∃ l r, (l, r) ∈ rs ∧ e ∈ selectLog a.store au l r := by
  simp only [sendList, List.mem_flatMap, Prod.exists]

/-! ### what a replica announces -/

theorem lookup_filterMap_keyed {β : Type} (ks : List Nat) (f : Nat → Option β) (k : Nat) :
    (ks.filterMap fun x => (f x).map fun v => (x, v)).lookup k = if k ∈ ks then f k else none := by
  induction ks with
  | nil => simp
  | cons x xs ih =>
    simp only [List.filterMap_cons]
    cases hfx : f x with
    | none =>
      simp only [Option.map_none, ih, List.mem_cons]
      by_cases hk : k = x
      · subst hk; simp [hfx]
      · simp [hk]
    | some v =>
      simp only [Option.map_some, List.lookup_cons, List.mem_cons]
      by_cases hk : k = x
      · subst hk; simp [hfx]
      · have : (k == x) = false := by simpa using hk
        simp [this, ih, hk]

theorem lookup_getHeights {store : List SOp} {a : Nat} {logs : List Nat} {m : LogMap}
    (hm : getHeights store a logs = some m) (l : Nat) :
    m.lookup l = if l ∈ logs then maxSeq store a l else none := by
  unfold getHeights at hm
  simp only at hm
  split at hm
  · simp at hm
  · simp only [Option.some.injEq] at hm
    subst hm
    rw [lookup_filterMap_keyed]
    simp [mem_sortDedup]

theorem getHeights_none {store : List SOp} {a : Nat} {logs : List Nat}
    (hm : getHeights store a logs = none) (l : Nat) (hl : l ∈ logs) : maxSeq store a l = none := by
  cases h : maxSeq store a l with
  | none => rfl
  | some x =>
    obtain ⟨m, hm'⟩ := getHeights_isSome hl h
    rw [hm] at hm'; simp at hm'

theorem lookup_haveOf_aux (store : List SOp) (scope : List (Nat × List Nat)) (au : Nat)
    (hnd : (scope.map (·.1)).Nodup) :
    (scope.filterMap fun al => (getHeights store al.1 al.2).map fun m => (al.1, m)).lookup au =
      match scope.lookup au with
      | none => none
      | some logs => getHeights store au logs := by
  induction scope with
  | nil => simp
  | cons x xs ih =>
    obtain ⟨a', logs'⟩ := x
    simp only [List.map_cons, List.nodup_cons] at hnd
    simp only [List.filterMap_cons, List.lookup_cons]
    by_cases hk : au = a'
    · subst hk
      simp only [beq_self_eq_true]
      cases hg : getHeights store au logs' with
      | some m => simp
      | none =>
        simp only [Option.map_none]
        rw [ih hnd.2]
        -- `au` does not occur again
        have : xs.lookup au = none := by
          cases h : xs.lookup au with
          | none => rfl
          | some v =>
            have := lookup_some_mem _ _ _ h
            exact absurd (List.mem_map.mpr ⟨(au, v), this, rfl⟩) hnd.1
        simp [this]
    · have hb : (au == a') = false := by simpa using hk
      simp only [hb]
      cases hg : getHeights store a' logs' with
      | some m => simp [List.lookup_cons, hb, ih hnd.2]
      | none => simp [ih hnd.2]

theorem lookup_scope_of_mem (scope : List (Nat × List Nat)) (hnd : (scope.map (·.1)).Nodup)
    (au : Nat) (logs : List Nat) (h : (au, logs) ∈ scope) : scope.lookup au = some logs := by
  induction scope with
  | nil => simp at h
  | cons x xs ih =>
    obtain ⟨a', logs'⟩ := x
    simp only [List.map_cons, List.nodup_cons] at hnd
    rcases List.mem_cons.mp h with heq | hmem
    · simp only [Prod.mk.injEq] at heq
      obtain ⟨rfl, rfl⟩ := heq
      simp [List.lookup_cons]
    · have hne : au ≠ a' := by
        intro heq; subst heq
        exact hnd.1 (List.mem_map.mpr ⟨(au, logs), hmem, rfl⟩)
      have hb : (au == a') = false := by simpa using hne
      simp [List.lookup_cons, hb, ih hnd.2 hmem]

/-! ### totals -/

theorem sendList_eq_flat (a b : Replica) :
    sendList a b = (flattenNeeds (needs a b)).flatMap fun t => selectLog a.store t.1 t.2.1 t.2.2 := by
  unfold sendList flattenNeeds
  generalize needs a b = n
  induction n with
  | nil => rfl
  | cons x xs ih =>
    simp only [List.flatMap_cons, List.flatMap_append, ih]
    congr 1
    induction x.2 with
    | nil => rfl
    | cons y ys ih2 => simp [List.flatMap_cons, ih2]

theorem foldl_totals (store : List SOp) (ts : List (Nat × Nat × Range)) (acc : Nat × Nat) :
    ts.foldl (totalsStep store) acc =
    (acc.1 + (ts.flatMap fun t => selectLog store t.1 t.2.1 t.2.2).length,
     acc.2 + sumBytes (ts.flatMap fun t => selectLog store t.1 t.2.1 t.2.2)) := by
  induction ts generalizing acc with
  | nil => simp [sumBytes]
  | cons t ts ih =>
    simp only [List.foldl_cons, List.flatMap_cons, List.length_append]
    rw [ih]
    simp only [totalsStep, getSize, sumBytes, List.map_append, List.sum_append]
    ext <;> simp <;> omega

/-! ### order and uniqueness -/

theorem insSorted_sorted (x : Nat) (l : List Nat) (h : l.Pairwise (· < ·)) :
    (insSorted x l).Pairwise (· < ·) := by
  induction l with
  | nil => simp [insSorted]
  | cons y ys ih =>
    simp only [insSorted]
    rw [List.pairwise_cons] at h
    split
    · rename_i hlt
      refine List.pairwise_cons.mpr ⟨?_, List.pairwise_cons.mpr h⟩
      intro z hz
      rcases List.mem_cons.mp hz with rfl | hz
      · exact hlt
      · exact Nat.lt_trans hlt (h.1 z hz)
    · split
      · exact List.pairwise_cons.mpr h
      · rename_i h1 h2
        refine List.pairwise_cons.mpr ⟨?_, ih h.2⟩
        intro z hz
        rcases (mem_insSorted x z ys).mp hz with rfl | hz
        · omega
        · exact h.1 z hz

theorem sortDedup_sorted (l : List Nat) : (sortDedup l).Pairwise (· < ·) := by
  induction l with
  | nil => simp [sortDedup]
  | cons x xs ih => exact insSorted_sorted x _ ih

theorem insBySeq_sorted (e : SOp) (l : List SOp) (h : l.Pairwise (fun x y => x.s ≤ y.s)) :
    (insBySeq e l).Pairwise (fun x y => x.s ≤ y.s) := by
  induction l with
  | nil => simp [insBySeq]
  | cons y ys ih =>
    simp only [insBySeq]
    rw [List.pairwise_cons] at h
    split
    · rename_i hle
      refine List.pairwise_cons.mpr ⟨?_, List.pairwise_cons.mpr h⟩
      intro z hz
      rcases List.mem_cons.mp hz with rfl | hz
      · exact hle
      · exact Nat.le_trans hle (h.1 z hz)
    · rename_i hnle
      refine List.pairwise_cons.mpr ⟨?_, ih h.2⟩
      intro z hz
      rcases (mem_insBySeq e z ys).mp hz with rfl | hz
      · omega
      · exact h.1 z hz

theorem sortBySeq_sorted (l : List SOp) : (sortBySeq l).Pairwise (fun x y => x.s ≤ y.s) := by
  induction l with
  | nil => simp [sortBySeq]
  | cons x xs ih => exact insBySeq_sorted x _ ih

theorem insBySeq_nodup (e : SOp) (l : List SOp) (he : e ∉ l) (h : l.Nodup) : (insBySeq e l).Nodup := by
  induction l with
  | nil => simp [insBySeq]
  | cons y ys ih =>
    simp only [insBySeq]
    have hy := List.nodup_cons.mp h
    split
    · exact List.nodup_cons.mpr ⟨he, h⟩
    · refine List.nodup_cons.mpr ⟨?_, ih (fun hm => he (List.mem_cons_of_mem _ hm)) hy.2⟩
      intro hm
      rcases (mem_insBySeq e y ys).mp hm with rfl | hm
      · exact he (by simp)
      · exact hy.1 hm

theorem sortBySeq_nodup (l : List SOp) (h : l.Nodup) : (sortBySeq l).Nodup := by
  induction l with
  | nil => simp [sortBySeq]
  | cons x xs ih =>
    have hx := List.nodup_cons.mp h
    exact insBySeq_nodup x _ (fun hm => hx.1 ((mem_sortBySeq x xs).mp hm)) (ih hx.2)

/-- stored rows are distinct and `(author, log, seq)` names one operation -/
def ValidStore (st : List SOp) : Prop :=
  st.Nodup ∧ ∀ x ∈ st, ∀ y ∈ st, x.a = y.a → x.l = y.l → x.s = y.s → x = y

/-- the order relation of the property: different operations, ascending within a log -/
def Before (x y : SOp) : Prop := x ≠ y ∧ (x.a = y.a → x.l = y.l → x.s < y.s)

theorem selectLog_before (store : List SOp) (hv : ValidStore store) (a l : Nat) (r : Range) :
    (selectLog store a l r).Pairwise Before := by
  have hs := sortBySeq_sorted (store.filter fun e => e.a = a && e.l = l && inRange r e.s)
  have hn := sortBySeq_nodup _ (hv.1.filter fun e => e.a = a && e.l = l && inRange r e.s)
  have hboth := hs.and (List.nodup_iff_pairwise_ne.mp hn)
  refine List.Pairwise.imp_of_mem ?_ hboth
  intro x y hx hy hxy
  have hx' := (mem_selectLog store a l r x).mp hx
  have hy' := (mem_selectLog store a l r y).mp hy
  refine ⟨hxy.2, fun _ _ => ?_⟩
  have hne : x.s ≠ y.s := by
    intro heq
    exact hxy.2 (hv.2 x hx'.1 y hy'.1 (by rw [hx'.2.1, hy'.2.1]) (by rw [hx'.2.2.1, hy'.2.2.1]) heq)
  have := hxy.1
  omega

theorem getHeights_keys {store : List SOp} {a : Nat} {logs : List Nat} {m : LogMap}
    (hm : getHeights store a logs = some m) : m.Pairwise (fun p q => p.1 ≠ q.1) := by
  unfold getHeights at hm
  simp only at hm
  split at hm
  · simp at hm
  · simp only [Option.some.injEq] at hm
    subst hm
    refine List.Pairwise.filterMap _ ?_ (sortDedup_sorted logs)
    intro x y hxy p hp q hq
    simp only [Option.map_eq_some_iff] at hp hq
    obtain ⟨_, _, rfl⟩ := hp
    obtain ⟨_, _, rfl⟩ := hq
    simp only [ne_eq]
    omega

theorem needsOfAuthor_keys (m rl : LogMap) (hm : m.Pairwise (fun p q => p.1 ≠ q.1)) :
    (needsOfAuthor m rl).Pairwise (fun p q => p.1 ≠ q.1) := by
  unfold needsOfAuthor
  refine List.Pairwise.filterMap _ ?_ hm
  intro x y hxy p hp q hq
  have hp1 : p.1 = x.1 := by
    split at hp
    · simp at hp; rw [← hp]
    · split at hp
      · simp at hp; rw [← hp]
      · simp at hp
  have hq1 : q.1 = y.1 := by
    split at hq
    · simp at hq; rw [← hq]
    · split at hq
      · simp at hq; rw [← hq]
      · simp at hq
  rw [hp1, hq1]; exact hxy

theorem haveOf_keys (r : Replica) (hs : (r.scope.map (·.1)).Nodup) :
    (haveOf r).Pairwise (fun p q => p.1 ≠ q.1) := by
  unfold haveOf
  have hsc : r.scope.Pairwise (fun p q => p.1 ≠ q.1) := by
    have := List.nodup_iff_pairwise_ne.mp hs
    exact List.pairwise_map.mp this
  refine List.Pairwise.filterMap _ ?_ hsc
  intro x y hxy p hp q hq
  simp only [Option.map_eq_some_iff] at hp hq
  obtain ⟨_, _, rfl⟩ := hp
  obtain ⟨_, _, rfl⟩ := hq
  exact hxy

theorem compare_keys (loc rem : Heights) (hl : loc.Pairwise (fun p q => p.1 ≠ q.1)) :
    (Sync.compare loc rem).Pairwise (fun p q => p.1 ≠ q.1) := by
  unfold Sync.compare
  refine List.Pairwise.filterMap _ ?_ hl
  intro x y hxy p hp q hq
  have hp1 : p.1 = x.1 := by
    split at hp
    · simp at hp; rw [← hp]
    · split at hp
      · simp at hp
      · simp only at hp
        split at hp
        · simp at hp
        · simp at hp; rw [← hp]
  have hq1 : q.1 = y.1 := by
    split at hq
    · simp at hq; rw [← hq]
    · split at hq
      · simp at hq
      · simp only at hq
        split at hq
        · simp at hq
        · simp at hq; rw [← hq]
  rw [hp1, hq1]; exact hxy

/-! ### de-duplication of pairwise different operations, ingest -/

theorem insert_fresh (s : Dedup.Buf Nat) (x : Nat) (h : x ∉ s.set) :
    (s.insert x).2 = true ∧ ∀ y ∈ (s.insert x).1.set, y = x ∨ y ∈ s.set := by
  unfold Dedup.Buf.insert
  simp only [h, if_false, true_and]
  intro y hy
  simp only [List.mem_cons] at hy
  rcases hy with rfl | hy
  · exact Or.inl rfl
  · right
    split at hy
    · split at hy
      · exact List.mem_of_mem_erase hy
      · exact hy
    · exact hy

theorem dedupFilter_fresh (buf : Dedup.Buf Nat) (l : List SOp) (hn : (l.map (·.id)).Nodup)
    (hd : ∀ e ∈ l, e.id ∉ buf.set) : dedupFilter buf l = l := by
  induction l generalizing buf with
  | nil => rfl
  | cons e es ih =>
    simp only [List.map_cons, List.nodup_cons] at hn
    have hf := insert_fresh buf e.id (hd e (by simp))
    simp only [dedupFilter, hf.1, if_true]
    congr 1
    apply ih _ hn.2
    intro x hx hmem
    rcases hf.2 _ hmem with h | h
    · exact hn.1 (List.mem_map.mpr ⟨x, hx, h⟩)
    · exact hd x (List.mem_cons_of_mem _ hx) h

theorem mem_ingest (st ops : List SOp)
    (hid : ∀ x, x ∈ st ∨ x ∈ ops → ∀ y, y ∈ st ∨ y ∈ ops → x.id = y.id → x = y) (z : SOp) :
    z ∈ ingest st ops ↔ z ∈ st ∨ z ∈ ops := by
  unfold ingest
  induction ops generalizing st with
  | nil => simp
  | cons e es ih =>
    simp only [List.foldl_cons]
    split
    · rename_i hany
      simp only [List.any_eq_true, decide_eq_true_eq] at hany
      obtain ⟨x, hx, hxe⟩ := hany
      have hex : x = e := hid x (Or.inl hx) e (Or.inr (by simp)) hxe
      subst hex
      rw [ih st (fun p hp q hq => hid p (hp.imp id (List.mem_cons_of_mem _)) q (hq.imp id (List.mem_cons_of_mem _)))]
      constructor
      · rintro (h | h)
        · exact Or.inl h
        · exact Or.inr (List.mem_cons_of_mem _ h)
      · rintro (h | h)
        · exact Or.inl h
        · rcases List.mem_cons.mp h with rfl | h
          · exact Or.inl hx
          · exact Or.inr h
    · rw [ih (st ++ [e])]
      · simp only [List.mem_append, List.mem_cons, List.not_mem_nil, or_false]
        constructor
        · rintro ((h | h) | h)
          · exact Or.inl h
          · exact Or.inr (Or.inl h)
          · exact Or.inr (Or.inr h)
        · rintro (h | h | h)
          · exact Or.inl (Or.inl h)
          · exact Or.inl (Or.inr h)
          · exact Or.inr h
      · intro p hp q hq
        apply hid
        · simp only [List.mem_append, List.mem_singleton] at hp
          rcases hp with (hp | rfl) | hp
          · exact Or.inl hp
          · exact Or.inr (by simp)
          · exact Or.inr (List.mem_cons_of_mem _ hp)
        · simp only [List.mem_append, List.mem_singleton] at hq
          rcases hq with (hq | rfl) | hq
          · exact Or.inl hq
          · exact Or.inr (by simp)
          · exact Or.inr (List.mem_cons_of_mem _ hq)

/-- `maxSeq` only depends on which rows are present -/
theorem maxSeq_congr (s1 s2 : List SOp) (a l : Nat)
    (h : ∀ x, x.a = a → x.l = l → (x ∈ s1 ↔ x ∈ s2)) : maxSeq s1 a l = maxSeq s2 a l := by
  cases h1 : maxSeq s1 a l with
  | none =>
    symm
    rw [maxSeq_none] at h1 ⊢
    intro e he hk
    exact h1 e ((h e hk.1 hk.2).mpr he) hk
  | some v =>
    symm
    rw [maxSeq_some] at h1 ⊢
    obtain ⟨⟨e, he, ha, hl, hs⟩, hmax⟩ := h1
    exact ⟨⟨e, (h e ha hl).mp he, ha, hl, hs⟩, fun x hx hxa hxl => hmax x ((h x hxa hxl).mpr hx) hxa hxl⟩

end P2.C19
