/-
Helper lemmas for C21: boundary facts, enabledness of actions as propositions, the reachable-state
invariant of the two-peer system, the measure, and the arithmetic cores of the deadlock analyses.
-/
import P2.Model.SyncSched

namespace P2.C21
open P2.Sched

set_option linter.unusedSimpArgs false

/-! ### batch boundaries -/

theorem boundaryFrom_ge (acc : Nat) (bs : List Nat) (s : Nat) (h : boundaryFrom acc bs s = true) : acc ≤ s := by
  induction bs generalizing acc with
  | nil => simp [boundaryFrom] at h; omega
  | cons n rest ih =>
    cases rest with
    | nil => simp [boundaryFrom] at h; omega
    | cons m rest' =>
      simp only [boundaryFrom, Bool.or_eq_true, beq_iff_eq] at h
      rcases h with h | h
      · omega
      · have := ih (acc + n) h; omega

theorem boundaryFrom_total (acc : Nat) (bs : List Nat) : boundaryFrom acc bs (acc + syncTotal bs) = true := by
  induction bs generalizing acc with
  | nil => simp [boundaryFrom, syncTotal]
  | cons n rest ih =>
    cases rest with
    | nil => simp [boundaryFrom, syncTotal]; omega
    | cons m rest' =>
      simp only [boundaryFrom, Bool.or_eq_true, beq_iff_eq]
      right
      have := ih (acc + n)
      have hs : acc + syncTotal (n :: m :: rest') = acc + n + syncTotal (m :: rest') := by
        simp [syncTotal, List.sum_cons]; omega
      rw [hs]; exact this

theorem boundary_ge (bs : List Nat) (s : Nat) (h : boundary bs s = true) : 2 ≤ s :=
  boundaryFrom_ge 2 bs s h

theorem boundary_total (bs : List Nat) : boundary bs (total bs) = true := boundaryFrom_total 2 bs

theorem total_ge (bs : List Nat) : 2 ≤ total bs := by simp [total]

/-! ### enabledness as propositions -/

theorem canEnq_iff (me : Peer) (T : Nat) :
    canEnq me T = true ↔
      me.w = false ∧ me.s < T ∧ (me.s = 0 ∨ (me.s = 1 ∧ 1 ≤ me.r) ∨ (2 ≤ me.s ∧ 2 ≤ me.r)) := by
  simp [canEnq, and_assoc, or_assoc]

theorem canFlush_iff (c : Nat) (me other : Peer) :
    canFlush c me other = true ↔ me.w = true ∧ me.s - other.r ≤ c := by
  simp [canFlush]

theorem canRecv_orig_iff (bs : List Nat) (me other : Peer) :
    canRecv false bs me other = true ↔
      me.r < other.s ∧ me.w = false ∧
        ((me.r = 0 ∧ me.s = 1) ∨ (me.r = 1 ∧ me.s = 2) ∨ (2 ≤ me.r ∧ boundary bs me.s = true)) := by
  simp [canRecv, and_assoc, or_assoc]

theorem canRecv_alt_iff (bs : List Nat) (me other : Peer) :
    canRecv true bs me other = true ↔
      me.r < other.s ∧
        ((me.r = 0 ∧ me.s = 1) ∨ (me.r = 1 ∧ me.s = 2) ∨
         (2 ≤ me.r ∧ 2 ≤ me.s ∧ (me.w = true ∨ boundary bs me.s = true))) := by
  simp [canRecv, and_assoc, or_assoc]

theorem stepPeer_none (c : Nat) (alt : Bool) (bs : List Nat) (me other : Peer) :
    (∀ k, stepPeer c alt bs me other k = none) ↔
      canEnq me (total bs) = false ∧ canFlush c me other = false ∧ canRecv alt bs me other = false := by
  constructor
  · intro h
    have h1 := h .enq; have h2 := h .flush; have h3 := h .recv
    simp only [stepPeer] at h1 h2 h3
    refine ⟨?_, ?_, ?_⟩
    · cases hq : canEnq me (total bs) <;> simp_all
    · cases hq : canFlush c me other <;> simp_all
    · cases hq : canRecv alt bs me other <;> simp_all
  · rintro ⟨h1, h2, h3⟩ k
    cases k <;> simp [stepPeer, h1, h2, h3]

theorem stuck_iff (cfg : Cfg) (st : St) :
    stuck cfg st = true ↔
      (canEnq st.a (total cfg.ba) = false ∧ canFlush cfg.c st.a st.b = false ∧ canRecv cfg.alt cfg.ba st.a st.b = false) ∧
      (canEnq st.b (total cfg.bb) = false ∧ canFlush cfg.c st.b st.a = false ∧ canRecv cfg.alt cfg.bb st.b st.a = false) := by
  simp only [stuck, allActs, List.all_cons, List.all_nil, Bool.and_true, Bool.and_eq_true, stepFn,
    if_true, Bool.false_eq_true, if_false, Option.isNone_map, stepPeer]
  constructor
  · rintro ⟨h1, h2, h3, h4, h5, h6⟩
    refine ⟨⟨?_, ?_, ?_⟩, ⟨?_, ?_, ?_⟩⟩
    · cases hq : canEnq st.a (total cfg.ba) <;> simp_all
    · cases hq : canFlush cfg.c st.a st.b <;> simp_all
    · cases hq : canRecv cfg.alt cfg.ba st.a st.b <;> simp_all
    · cases hq : canEnq st.b (total cfg.bb) <;> simp_all
    · cases hq : canFlush cfg.c st.b st.a <;> simp_all
    · cases hq : canRecv cfg.alt cfg.bb st.b st.a <;> simp_all
  · rintro ⟨⟨h1, h2, h3⟩, ⟨h4, h5, h6⟩⟩
    simp [h1, h2, h3, h4, h5, h6]

/-! ### invariant of reachable states -/

def PInv (T : Nat) (me other : Peer) : Prop :=
  me.s ≤ T ∧ (me.w = true → 1 ≤ me.s) ∧ (me.r = 0 → me.s ≤ 1) ∧ (me.r ≤ 1 → me.s ≤ 2) ∧
  (1 ≤ me.r → 1 ≤ me.s) ∧ (2 ≤ me.r → 2 ≤ me.s) ∧ me.r ≤ other.s

def Inv (cfg : Cfg) (st : St) : Prop :=
  PInv (total cfg.ba) st.a st.b ∧ PInv (total cfg.bb) st.b st.a

theorem inv_init (cfg : Cfg) : Inv cfg init := by
  simp [Inv, PInv, init]

/-- one peer moves: its own invariant is kept, and the other's only mentions `s`, which grows -/
theorem pinv_step (c : Nat) (alt : Bool) (bs : List Nat) (T' : Nat) (me other me' : Peer) (k : Kind)
    (h : stepPeer c alt bs me other k = some me')
    (hme : PInv (total bs) me other) (hother : PInv T' other me) :
    PInv (total bs) me' other ∧ PInv T' other me' := by
  obtain ⟨s, w, r⟩ := me
  obtain ⟨s', w', r'⟩ := other
  simp only [PInv] at hme hother ⊢
  cases k with
  | enq =>
    simp only [stepPeer] at h
    split at h
    · rename_i hq
      rw [canEnq_iff] at hq
      simp only [Option.some.injEq] at h; subst h
      simp only at hq ⊢
      refine ⟨⟨?_, ?_, ?_, ?_, ?_, ?_, ?_⟩, ⟨hother.1, hother.2.1, hother.2.2.1, hother.2.2.2.1, hother.2.2.2.2.1, hother.2.2.2.2.2.1, ?_⟩⟩ <;> omega
    · simp at h
  | flush =>
    simp only [stepPeer] at h
    split at h
    · simp only [Option.some.injEq] at h; subst h
      refine ⟨⟨hme.1, by simp, hme.2.2.1, hme.2.2.2.1, hme.2.2.2.2.1, hme.2.2.2.2.2.1, hme.2.2.2.2.2.2⟩, hother⟩
    · simp at h
  | recv =>
    simp only [stepPeer] at h
    split at h
    · rename_i hq
      simp only [Option.some.injEq] at h; subst h
      cases alt with
      | false =>
        rw [canRecv_orig_iff] at hq
        simp only at hq ⊢
        have hb := boundary_ge bs s
        refine ⟨⟨hme.1, hme.2.1, ?_, ?_, ?_, ?_, ?_⟩, hother⟩ <;>
          (rcases hq with ⟨h1, _, h3 | h3 | h3⟩ <;> first | omega | (have := hb h3.2; omega))
      | true =>
        rw [canRecv_alt_iff] at hq
        simp only at hq ⊢
        refine ⟨⟨hme.1, hme.2.1, ?_, ?_, ?_, ?_, ?_⟩, hother⟩ <;>
          (rcases hq with ⟨h1, h3 | h3 | h3⟩ <;> omega)
    · simp at h

theorem inv_step (cfg : Cfg) (st st' : St) (act : Act) (h : stepFn cfg st act = some st')
    (hi : Inv cfg st) : Inv cfg st' := by
  unfold stepFn at h
  split at h
  · simp only [Option.map_eq_some_iff] at h
    obtain ⟨a', ha, rfl⟩ := h
    have := pinv_step cfg.c cfg.alt cfg.ba (total cfg.bb) st.a st.b a' act.k ha hi.1 hi.2
    exact ⟨this.1, this.2⟩
  · simp only [Option.map_eq_some_iff] at h
    obtain ⟨b', hb, rfl⟩ := h
    have := pinv_step cfg.c cfg.alt cfg.bb (total cfg.ba) st.b st.a b' act.k hb hi.2 hi.1
    exact ⟨this.2, this.1⟩

theorem inv_run (cfg : Cfg) (st st' : St) (sched : List Act) (h : runSched cfg st sched = some st')
    (hi : Inv cfg st) : Inv cfg st' := by
  induction sched generalizing st with
  | nil => simp [runSched] at h; subst h; exact hi
  | cons a rest ih =>
    simp only [runSched] at h
    split at h
    · simp at h
    · rename_i st1 hs
      exact ih st1 h (inv_step cfg st st1 a hs hi)

/-! ### measure: every action consumes exactly one unit -/

def peerMeasure (T T' : Nat) (me : Peer) : Nat := 2 * (T - me.s) + (T' - me.r) + (if me.w then 1 else 0)

/-- messages still to enqueue (twice) + messages still to receive + pending sends -/
def measure (cfg : Cfg) (st : St) : Nat :=
  peerMeasure (total cfg.ba) (total cfg.bb) st.a + peerMeasure (total cfg.bb) (total cfg.ba) st.b

theorem peerMeasure_step (c : Nat) (alt : Bool) (bs : List Nat) (T' : Nat) (me other me' : Peer) (k : Kind)
    (h : stepPeer c alt bs me other k = some me') (ho : other.s ≤ T') :
    peerMeasure (total bs) T' me' + 1 = peerMeasure (total bs) T' me := by
  obtain ⟨s, w, r⟩ := me
  cases k with
  | enq =>
    simp only [stepPeer] at h
    split at h
    · rename_i hq
      rw [canEnq_iff] at hq
      simp only [Option.some.injEq] at h; subst h
      simp only at hq
      simp only [peerMeasure, hq.1, if_true, Bool.false_eq_true, if_false]
      omega
    · simp at h
  | flush =>
    simp only [stepPeer] at h
    split at h
    · rename_i hq
      rw [canFlush_iff] at hq
      simp only [Option.some.injEq] at h; subst h
      simp only at hq
      simp [peerMeasure, hq.1]
    · simp at h
  | recv =>
    simp only [stepPeer] at h
    split at h
    · rename_i hq
      simp only [Option.some.injEq] at h; subst h
      have hlt : r < other.s := by
        cases alt with
        | false => exact ((canRecv_orig_iff bs _ other).mp hq).1
        | true => exact ((canRecv_alt_iff bs _ other).mp hq).1
      simp only [peerMeasure]
      omega
    · simp at h

theorem measure_step (cfg : Cfg) (st st' : St) (act : Act) (h : stepFn cfg st act = some st')
    (hi : Inv cfg st) : measure cfg st' + 1 = measure cfg st := by
  unfold stepFn at h
  split at h
  · simp only [Option.map_eq_some_iff] at h
    obtain ⟨a', ha, rfl⟩ := h
    have := peerMeasure_step cfg.c cfg.alt cfg.ba (total cfg.bb) st.a st.b a' act.k ha hi.2.1
    simp only [measure]; omega
  · simp only [Option.map_eq_some_iff] at h
    obtain ⟨b', hb, rfl⟩ := h
    have := peerMeasure_step cfg.c cfg.alt cfg.bb (total cfg.ba) st.b st.a b' act.k hb hi.1.1
    simp only [measure]; omega

theorem measure_run (cfg : Cfg) (st st' : St) (sched : List Act) (h : runSched cfg st sched = some st')
    (hi : Inv cfg st) : measure cfg st' + sched.length = measure cfg st := by
  induction sched generalizing st with
  | nil => simp [runSched] at h; subst h; simp
  | cons a rest ih =>
    simp only [runSched] at h
    split at h
    · simp at h
    · rename_i st1 hs
      have h1 := ih st1 h (inv_step cfg st st1 a hs hi)
      have h2 := measure_step cfg st st1 a hs hi
      simp only [List.length_cons]; omega

/-! ### a deadlocking schedule of the pinned design when both sides exceed the capacity -/

theorem runSched_append (cfg : Cfg) (st : St) (x y : List Act) :
    runSched cfg st (x ++ y) = (runSched cfg st x).bind fun st' => runSched cfg st' y := by
  induction x generalizing st with
  | nil => simp [runSched]
  | cons a rest ih =>
    simp only [List.cons_append, runSched]
    cases stepFn cfg st a with
    | none => simp
    | some st' => simp [ih]

/-- `n` rounds of "enqueue, send resolves" by one peer -/
def pump (p : Bool) : Nat → List Act
  | 0 => []
  | n + 1 => ⟨p, .enq⟩ :: ⟨p, .flush⟩ :: pump p n

theorem pumpA (cfg : Cfg) (b : Peer) (hb : b.r = 2) (n k : Nat) (hk : k + n ≤ cfg.c)
    (hT : 2 + k + n ≤ total cfg.ba) :
    runSched cfg { a := ⟨2 + k, false, 2⟩, b := b } (pump true n) =
      some { a := ⟨2 + k + n, false, 2⟩, b := b } := by
  induction n generalizing k with
  | zero => simp [pump, runSched]
  | succ n ih =>
    have h1 : stepFn cfg { a := ⟨2 + k, false, 2⟩, b := b } ⟨true, .enq⟩ =
        some { a := ⟨2 + k + 1, true, 2⟩, b := b } := by
      have : 2 + k < total cfg.ba := by omega
      simp [stepFn, stepPeer, canEnq, this]
    have h2 : stepFn cfg { a := ⟨2 + k + 1, true, 2⟩, b := b } ⟨true, .flush⟩ =
        some { a := ⟨2 + k + 1, false, 2⟩, b := b } := by
      have : 2 + k + 1 - b.r ≤ cfg.c := by rw [hb]; omega
      simp [stepFn, stepPeer, canFlush, this]
    simp only [pump, runSched, h1, h2]
    have := ih (k + 1) (by omega) (by omega)
    have e1 : 2 + (k + 1) = 2 + k + 1 := by omega
    rw [e1] at this
    have e2 : 2 + k + 1 + n = 2 + k + (n + 1) := by omega
    rw [e2] at this
    exact this

theorem pumpB (cfg : Cfg) (a : Peer) (ha : a.r = 2) (n k : Nat) (hk : k + n ≤ cfg.c)
    (hT : 2 + k + n ≤ total cfg.bb) :
    runSched cfg { a := a, b := ⟨2 + k, false, 2⟩ } (pump false n) =
      some { a := a, b := ⟨2 + k + n, false, 2⟩ } := by
  induction n generalizing k with
  | zero => simp [pump, runSched]
  | succ n ih =>
    have h1 : stepFn cfg { a := a, b := ⟨2 + k, false, 2⟩ } ⟨false, .enq⟩ =
        some { a := a, b := ⟨2 + k + 1, true, 2⟩ } := by
      have : 2 + k < total cfg.bb := by omega
      simp [stepFn, stepPeer, canEnq, this]
    have h2 : stepFn cfg { a := a, b := ⟨2 + k + 1, true, 2⟩ } ⟨false, .flush⟩ =
        some { a := a, b := ⟨2 + k + 1, false, 2⟩ } := by
      have : 2 + k + 1 - a.r ≤ cfg.c := by rw [ha]; omega
      simp [stepFn, stepPeer, canFlush, this]
    simp only [pump, runSched, h1, h2]
    have := ih (k + 1) (by omega) (by omega)
    have e1 : 2 + (k + 1) = 2 + k + 1 := by omega
    rw [e1] at this
    have e2 : 2 + k + 1 + n = 2 + k + (n + 1) := by omega
    rw [e2] at this
    exact this

/-- the two sequential exchanges (`Have`, then `PreSync | Done`) -/
def handshake : List Act :=
  [⟨true, .enq⟩, ⟨true, .flush⟩, ⟨false, .enq⟩, ⟨false, .flush⟩, ⟨true, .recv⟩, ⟨false, .recv⟩,
   ⟨true, .enq⟩, ⟨true, .flush⟩, ⟨false, .enq⟩, ⟨false, .flush⟩, ⟨true, .recv⟩, ⟨false, .recv⟩]

theorem handshake_run (cfg : Cfg) (horig : cfg.alt = false) (hc : 1 ≤ cfg.c) :
    runSched cfg init handshake = some { a := ⟨2, false, 2⟩, b := ⟨2, false, 2⟩ } := by
  have ha := total_ge cfg.ba
  have hb := total_ge cfg.bb
  have t1 : 0 < total cfg.ba := by omega
  have t2 : 0 < total cfg.bb := by omega
  have t3 : 1 < total cfg.ba := by omega
  have t4 : 1 < total cfg.bb := by omega
  have c1 : 1 ≤ cfg.c := hc
  have c2 : 2 - 1 ≤ cfg.c := by omega
  have bA : boundary cfg.ba 2 = true := by
    unfold boundary
    cases cfg.ba with
    | nil => simp [boundaryFrom]
    | cons n rest => cases rest <;> simp [boundaryFrom]
  simp [handshake, runSched, stepFn, stepPeer, canEnq, canFlush, canRecv, init, horig, t1, t2, t3, t4, c1]

end P2.C21
