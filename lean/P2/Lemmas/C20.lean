/-
Helper lemmas for C20 (and reused by C19/C22): the sender invariant `Inv` (what has been sent at
each program point of the repaired `LogSync::run`), monotonicity of the transcript, the receiver
invariant `RInv`.  The property theorems are in `P2/Props/C20.lean`.
-/
import P2.Model.SyncProto

namespace P2.C20
open P2.Sync

set_option linter.unusedSimpArgs false

/-- Invariant of the repaired session: where the program counter is determines what has been
    sent, and once `Done` is out the session is at a point from which nothing more is sent. -/
def Inv (s : St) : Prop :=
  match s.pc with
  | .heights _ _ | .sendHave _ => s.sent = [] ∧ s.doneSent = false
  | .recvHave _ | .sizes _ _ _ _ | .sendPre _ _ _ => (∃ h, s.sent = [Msg.have h]) ∧ s.doneSent = false
  | .recvPre _ _ _ => (s.doneSent = false ∧ Open s.sent) ∨ (s.doneSent = true ∧ Closed s.sent)
  | .sync rest => (s.doneSent = false ∧ Open s.sent) ∨ (s.doneSent = true ∧ Closed s.sent ∧ rest = [])
  | .batchLog _ _ _ _ _ | .batchOps _ _ _ _ _ | .sendDone => s.doneSent = false ∧ Open s.sent
  | .fin none => Closed s.sent
  | .fin (some _) | .spin | .mismatch => Shape s.sent

theorem open_snoc_op {sent : List Msg} (o : Op) (h : Open sent) : Open (sent ++ [Msg.op o]) := by
  obtain ⟨h, n, b, ops, rfl⟩ := h
  exact ⟨h, n, b, ops ++ [o], by simp⟩

theorem open_snoc_done {sent : List Msg} (h : Open sent) : Closed (sent ++ [Msg.done]) := by
  obtain ⟨h, n, b, ops, rfl⟩ := h
  exact Or.inr ⟨h, n, b, ops, by simp⟩

theorem inv_shape (s : St) (h : Inv s) : Shape s.sent := by
  unfold Inv at h
  split at h
  all_goals first
    | exact h
    | exact Or.inr (Or.inr h)
    | exact Or.inl (Or.inl h.1)
    | exact Or.inl (Or.inr h.1)
    | exact Or.inr (Or.inl h.2)
    | (rcases h with h | h
       · exact Or.inr (Or.inl h.2)
       · exact Or.inr (Or.inr h.2))
    | (rcases h with h | h
       · exact Or.inr (Or.inl h.2)
       · exact Or.inr (Or.inr h.2.1))

theorem inv_fail (s : St) (e : Err) (h : Shape s.sent) : Inv (fail s e) := by
  simpa [Inv, fail] using h

theorem inv_settle (cfg : Cfg) (s : St) (h : Inv s) : Inv (settle cfg s) := by
  have hs := inv_shape s h
  unfold settle
  split
  · rename_i hpc
    split
    · split
      · rename_i hd
        unfold Inv at h
        rw [hpc] at h
        rcases h with h | h
        · rw [hd] at h; exact absurd h.1 (by simp)
        · simpa [Inv] using h.2.1
      · simpa [Inv] using hs
    · split
      · split
        · exact inv_fail s _ hs
        · simpa [Inv] using hs
      · exact h
  · exact h

theorem inv_afterLog (t : St) (a : Nat) (logs : List (Nat × Range)) (rest : Ranges)
    (hp : t.pc = afterLog a logs rest) (hd : t.doneSent = false) (ho : Open t.sent) : Inv t := by
  unfold afterLog at hp
  split at hp
  · unfold Inv; rw [hp]; exact ⟨hd, ho⟩
  · split at hp
    · unfold Inv; rw [hp]; exact ⟨hd, ho⟩
    · unfold Inv; rw [hp]; exact Or.inl ⟨hd, ho⟩

theorem inv_afterOp (t : St) (a : Nat) (ops : List Op) (logs : List (Nat × Range)) (rest : Ranges)
    (hp : t.pc = afterOp a ops logs rest) (hd : t.doneSent = false) (ho : Open t.sent) : Inv t := by
  unfold afterOp at hp
  split at hp
  · unfold Inv; rw [hp]; exact ⟨hd, ho⟩
  · exact inv_afterLog t a logs rest hp hd ho

theorem sendArm_nil_iff (rest : Ranges) : sendArm rest = none ↔ rest = [] := by
  induction rest with
  | nil => simp [sendArm]
  | cons x xs ih =>
    obtain ⟨a, logs⟩ := x
    cases logs with
    | nil =>
      simp only [sendArm]
      split
      · simp
      · rename_i hne
        simp only [ih, reduceCtorEq, iff_false]
        intro h; subst h; simp at hne
    | cons l ls => obtain ⟨l, r⟩ := l; simp [sendArm]

theorem inv_congr {s t : St} (hp : t.pc = s.pc) (hsent : t.sent = s.sent) (hd : t.doneSent = s.doneSent)
    (h : Inv s) : Inv t := by
  unfold Inv at *
  rw [hp, hsent, hd]
  exact h

theorem inv_enterSync (cfg : Cfg) (hf : cfg.fixDone = true) (s : St) (needs : Ranges)
    (h : (s.doneSent = false ∧ Open s.sent) ∨ (s.doneSent = true ∧ Closed s.sent)) :
    Inv (enterSync cfg s needs) := by
  unfold enterSync
  apply inv_settle
  rcases h with h | h
  · exact Or.inl h
  · refine Or.inr ⟨h.1, h.2, ?_⟩
    simp [hf, h.1]

theorem inv_recvSync (cfg : Cfg) (s : St) (r : RecvItem) (h : Inv s) : Inv (recvSync cfg s r) := by
  have hs := inv_shape s h
  unfold recvSync
  split
  · exact inv_settle _ _ (inv_congr rfl rfl rfl h)
  · exact inv_fail _ _ hs
  · exact inv_fail _ _ hs
  · simp only
    split
    · exact inv_congr rfl rfl rfl h
    · split
      · exact inv_congr rfl rfl rfl h
      · exact inv_fail _ _ hs
  · exact inv_settle _ _ (inv_congr rfl rfl rfl h)
  · exact inv_fail _ _ hs

theorem inv_step (cfg : Cfg) (hf : cfg.fixDone = true) (s : St) (i : In) (h : Inv s) :
    Inv (step cfg s i) := by
  have hs := inv_shape s h
  obtain ⟨pc, sent, events, recvd, doneSent, doneRecv, streamClosed, dedup, m⟩ := s
  cases pc <;> cases i <;> simp only [step] <;> first | (simpa [Inv] using hs) | skip
  case heights.heights todo acc r =>
    simp only [Inv] at h
    split
    · simpa [Inv] using hs
    · split
      · exact inv_fail _ _ hs
      · split <;> simpa [Inv] using h
  case sendHave.send loc ok =>
    simp only [Inv] at h
    split
    · simp only [Inv, h.1, h.2, List.nil_append, and_true]; exact ⟨loc, rfl⟩
    · exact inv_fail _ _ hs
  case recvHave.recv loc r =>
    simp only [Inv] at h
    split
    · exact inv_fail _ _ hs
    · exact inv_fail _ _ hs
    · split <;> simpa [Inv] using h
    · exact inv_fail _ _ hs
  case sizes.size needs todo ops bytes r =>
    simp only [Inv] at h
    split
    · simpa [Inv] using hs
    · split
      · exact inv_fail _ _ hs
      · split <;> simpa [Inv] using h
  case sendPre.send needs ops bytes ok =>
    simp only [Inv] at h
    obtain ⟨⟨hh, hsent⟩, hd⟩ := h
    subst hsent
    by_cases hb : bytes > 0
    · simp only [hb, if_true]
      split
      · exact Or.inl ⟨hd, hh, ops, bytes, [], rfl⟩
      · exact inv_fail _ _ hs
    · simp only [hb, if_false]
      split
      · exact Or.inr ⟨rfl, Or.inl ⟨hh, rfl⟩⟩
      · exact inv_fail _ _ hs
  case recvPre.recv needs ops bytes r =>
    simp only [Inv] at h
    split
    · exact inv_fail _ _ hs
    · exact inv_fail _ _ hs
    · split
      · exact inv_enterSync cfg hf _ needs h
      · exact inv_fail _ _ hs
    · split
      · exact inv_enterSync cfg hf _ needs h
      · exact inv_fail _ _ hs
    · exact inv_fail _ _ hs
  case sync.recv rest r =>
    split
    · simpa [Inv] using hs
    · exact inv_recvSync cfg _ r h
  case sendDone.send ok =>
    simp only [Inv] at h
    split
    · exact inv_settle _ _ (Or.inr ⟨rfl, open_snoc_done h.2, rfl⟩)
    · exact inv_fail _ _ hs
  case batchLog.entries a l r logs rest r' =>
    simp only [Inv] at h
    split
    · exact inv_fail _ _ hs
    · exact inv_settle _ _ (inv_afterLog _ a logs rest rfl h.1 h.2)
    · exact inv_settle _ _ (inv_afterLog _ a logs rest rfl h.1 h.2)
    · exact h
  case batchOps.send a o ops logs rest ok =>
    simp only [Inv] at h
    split
    · split
      · rename_i o' ops'
        exact inv_afterOp _ a (o' :: ops') logs rest rfl h.1 (open_snoc_op o h.2)
      · exact inv_settle _ _ (inv_afterOp _ a [] logs rest rfl h.1 (open_snoc_op o h.2))
    · exact inv_fail _ _ hs
  case sync.entries rest r =>
    simp only [Inv] at h
    split
    · rename_i a _ _ logs rest' harm
      have hopen : doneSent = false ∧ Open sent := by
        rcases h with h | h
        · exact h
        · rw [h.2.2] at harm; simp [sendArm] at harm
      split
      · exact inv_fail _ _ hs
      · exact inv_settle _ _ (inv_afterLog _ a logs rest' rfl hopen.1 hopen.2)
      · exact inv_settle _ _ (inv_afterLog _ a logs rest' rfl hopen.1 hopen.2)
      · exact hopen
    · simpa [Inv] using hs
  case sync.send rest ok =>
    simp only [Inv] at h
    split
    · rename_i harm
      have hopen : doneSent = false ∧ Open sent := by
        rcases h with h | h
        · exact h
        · rw [h.2.2] at harm; simp [sendArm] at harm
      split
      · exact inv_settle _ _ (Or.inr ⟨rfl, open_snoc_done hopen.2, rfl⟩)
      · exact inv_fail _ _ hs
    · simpa [Inv] using hs

theorem inv_init (cfg : Cfg) : Inv (init cfg) := by
  unfold init
  cases cfg.scope <;> simp [Inv]

theorem inv_run (cfg : Cfg) (hf : cfg.fixDone = true) (script : List In) : Inv (run cfg script) := by
  unfold run
  have : ∀ (s : St), Inv s → Inv (script.foldl (step cfg) s) := by
    induction script with
    | nil => intro s h; exact h
    | cons i rest ih => intro s h; exact ih _ (inv_step cfg hf s i h)
  exact this _ (inv_init cfg)

/-! ### Transcripts only grow; a complete transcript never grows -/

@[simp] theorem fail_sent (s : St) (e : Err) : (fail s e).sent = s.sent := rfl

@[simp] theorem settle_sent (cfg : Cfg) (s : St) : (settle cfg s).sent = s.sent := by
  unfold settle
  repeat' split
  all_goals rfl

@[simp] theorem enterSync_sent (cfg : Cfg) (s : St) (n : Ranges) : (enterSync cfg s n).sent = s.sent := by
  simp [enterSync]

@[simp] theorem recvSync_sent (cfg : Cfg) (s : St) (r : RecvItem) : (recvSync cfg s r).sent = s.sent := by
  unfold recvSync
  cases r with
  | closed => simp
  | err => simp
  | garbage b => simp
  | msg m =>
    cases m with
    | op o => cases hd : (s.dedup.insert o.id).2 <;> cases hr : cfg.rx <;> simp [hd]
    | «have» h => simp
    | preSync n b => simp
    | done => simp

theorem step_sent_prefix (cfg : Cfg) (s : St) (i : In) : s.sent <+: (step cfg s i).sent := by
  obtain ⟨pc, sent, events, recvd, doneSent, doneRecv, streamClosed, dedup, m⟩ := s
  cases pc <;> cases i <;> simp only [step] <;> repeat' split
  all_goals simp

theorem run_append (cfg : Cfg) (a b : List In) : run cfg (a ++ b) = b.foldl (step cfg) (run cfg a) := by
  simp [run, List.foldl_append]

theorem run_sent_prefix (cfg : Cfg) (a b : List In) : (run cfg a).sent <+: (run cfg (a ++ b)).sent := by
  rw [run_append]
  generalize run cfg a = s
  induction b generalizing s with
  | nil => exact List.prefix_refl _
  | cons i rest ih => exact List.IsPrefix.trans (step_sent_prefix cfg s i) (ih _)

theorem closed_ends_done {t : List Msg} (h : Closed t) : ∃ pre, t = pre ++ [Msg.done] := by
  rcases h with ⟨hh, h⟩ | ⟨hh, n, b, ops, h⟩
  · exact ⟨[Msg.have hh], by simp [h]⟩
  · exact ⟨Msg.have hh :: Msg.preSync n b :: List.map Msg.op ops, by simp [h]⟩

/-! ### Receiving side: a session that completes has read exactly up to the remote's `Done` -/

/-- program points of the `Sync` state and after -/
def late : Pc → Bool
  | .sync _ | .batchLog _ _ _ _ _ | .batchOps _ _ _ _ _ | .sendDone | .fin _ | .spin | .mismatch => true
  | _ => false

/-- Receiver invariant (any `cfg`): once the remote's `Done` has been read it is the last item
    taken from the stream, and `Ok` is only returned after it has been read. -/
def RInv (s : St) : Prop :=
  (s.doneRecv = true → s.recvd.getLast? = some (RecvItem.msg Msg.done) ∧ late s.pc = true) ∧
  (s.pc = .fin none → s.doneRecv = true)

theorem rinv_congr {s t : St} (hp : t.pc = s.pc) (hr : t.recvd = s.recvd) (hd : t.doneRecv = s.doneRecv)
    (h : RInv s) : RInv t := by
  unfold RInv at *
  rw [hp, hr, hd]; exact h

theorem rinv_fail (s : St) (e : Err) (h : RInv s) : RInv (fail s e) := by
  unfold RInv fail at *
  refine ⟨fun hd => ⟨(h.1 hd).1, rfl⟩, fun hp => by simp at hp⟩

theorem rinv_mismatch {s t : St} (h : RInv s) (hp : t.pc = .mismatch) (hr : t.recvd = s.recvd)
    (hd : t.doneRecv = s.doneRecv) : RInv t := by
  unfold RInv at *
  rw [hp, hr, hd]
  exact ⟨fun hd => ⟨(h.1 hd).1, rfl⟩, fun hp => by simp at hp⟩

theorem rinv_settle (cfg : Cfg) (s : St) (h : RInv s) : RInv (settle cfg s) := by
  unfold settle
  split
  · split
    · rename_i hd
      split
      · exact ⟨fun _ => ⟨(h.1 hd).1, rfl⟩, fun _ => hd⟩
      · exact ⟨fun _ => ⟨(h.1 hd).1, rfl⟩, fun hp => by simp at hp⟩
    · rename_i hnd
      split
      · split
        · exact rinv_fail s _ h
        · exact ⟨fun hd => absurd hd hnd, fun hp => by simp at hp⟩
      · exact h
  · exact h

/-- moving between late program points (not to `Ok`) keeps the invariant -/
theorem rinv_late {s t : St} (h : RInv s) (hl' : late t.pc = true) (hne : t.pc ≠ .fin none)
    (hr : t.recvd = s.recvd) (hd : t.doneRecv = s.doneRecv) : RInv t := by
  unfold RInv at *
  rw [hr, hd]
  exact ⟨fun hd => ⟨(h.1 hd).1, hl'⟩, fun hp => absurd hp hne⟩

theorem rinv_of_not_done (t : St) (hd : t.doneRecv = false) (hp : t.pc ≠ .fin none) : RInv t :=
  ⟨fun h => by rw [hd] at h; exact absurd h (by simp), fun h => absurd h hp⟩

theorem late_afterLog (a : Nat) (logs : List (Nat × Range)) (rest : Ranges) :
    late (afterLog a logs rest) = true ∧ afterLog a logs rest ≠ .fin none := by
  unfold afterLog
  split
  · simp [late]
  · split <;> simp [late]

theorem late_afterOp (a : Nat) (ops : List Op) (logs : List (Nat × Range)) (rest : Ranges) :
    late (afterOp a ops logs rest) = true ∧ afterOp a ops logs rest ≠ .fin none := by
  unfold afterOp
  split
  · simp [late]
  · exact late_afterLog a logs rest

theorem rinv_recvSync (cfg : Cfg) (s : St) (r : RecvItem) (hl : late s.pc = true)
    (hne : s.pc ≠ .fin none) (hnd : s.doneRecv = false) : RInv (recvSync cfg s r) := by
  unfold recvSync
  cases r with
  | closed => exact rinv_settle _ _ (rinv_of_not_done _ hnd hne)
  | err => exact rinv_fail _ _ (rinv_of_not_done _ hnd hne)
  | garbage b => exact rinv_fail _ _ (rinv_of_not_done _ hnd hne)
  | msg m =>
    cases m with
    | op o =>
      simp only
      split
      · exact rinv_of_not_done _ hnd hne
      · split
        · exact rinv_of_not_done _ hnd hne
        · exact rinv_fail _ _ (rinv_of_not_done _ hnd hne)
    | «have» h' => exact rinv_fail _ _ (rinv_of_not_done _ hnd hne)
    | preSync n b => exact rinv_fail _ _ (rinv_of_not_done _ hnd hne)
    | done =>
      apply rinv_settle
      exact ⟨fun _ => ⟨by simp, hl⟩, fun hp => absurd hp hne⟩

theorem rinv_step (cfg : Cfg) (s : St) (i : In) (h : RInv s) : RInv (step cfg s i) := by
  obtain ⟨pc, sent, events, recvd, doneSent, doneRecv, streamClosed, dedup, m⟩ := s
  have hearly : late pc = false → doneRecv = false := by
    intro hl
    cases hd : doneRecv with
    | false => rfl
    | true => have := (h.1 hd).2; simp only at this; rw [hl] at this; exact absurd this (by simp)
  cases pc <;> cases i <;> simp only [step] <;> first | exact rinv_mismatch h rfl rfl rfl | skip
  case heights.heights todo acc r =>
    have hnd := hearly rfl
    repeat' split
    all_goals first
      | exact rinv_mismatch h rfl rfl rfl
      | exact rinv_fail _ _ h
      | exact rinv_of_not_done _ hnd (by simp [fail])
  case sendHave.send loc ok =>
    have hnd := hearly rfl
    split
    · exact rinv_of_not_done _ hnd (by simp [fail])
    · exact rinv_fail _ _ h
  case recvHave.recv loc r =>
    have hnd := hearly rfl
    repeat' split
    all_goals first
      | exact rinv_fail _ _ (rinv_of_not_done _ hnd (by simp))
      | exact rinv_of_not_done _ hnd (by simp [fail])
  case sizes.size needs todo ops bytes r =>
    have hnd := hearly rfl
    repeat' split
    all_goals first
      | exact rinv_mismatch h rfl rfl rfl
      | exact rinv_fail _ _ h
      | exact rinv_of_not_done _ hnd (by simp [fail])
  case sendPre.send needs ops bytes ok =>
    have hnd := hearly rfl
    repeat' split
    all_goals first
      | exact rinv_of_not_done _ hnd (by simp [fail])
      | exact rinv_fail _ _ (rinv_of_not_done _ hnd (by simp))
  case recvPre.recv needs ops bytes r =>
    have hnd := hearly rfl
    split
    · exact rinv_fail _ _ (rinv_of_not_done _ hnd (by simp))
    · exact rinv_fail _ _ (rinv_of_not_done _ hnd (by simp))
    · split
      · exact rinv_settle _ _ (rinv_of_not_done _ hnd (by simp))
      · exact rinv_fail _ _ (rinv_of_not_done _ hnd (by simp))
    · split
      · apply rinv_settle
        exact ⟨fun _ => ⟨by simp, rfl⟩, fun hp => by simp at hp⟩
      · exact ⟨fun _ => ⟨by simp [fail], rfl⟩, fun hp => by simp [fail] at hp⟩
    · exact rinv_fail _ _ (rinv_of_not_done _ hnd (by simp))
  case sync.recv rest r =>
    split
    · exact rinv_mismatch h rfl rfl rfl
    · rename_i hnd
      exact rinv_recvSync cfg _ r rfl (by simp) (by simpa using hnd)
  case sendDone.send ok =>
    split
    · exact rinv_settle _ _ (rinv_late h rfl (by simp) rfl rfl)
    · exact rinv_fail _ _ h
  case batchLog.entries a l r logs rest r' =>
    split
    · exact rinv_fail _ _ h
    · exact rinv_settle _ _ (rinv_late h (late_afterLog a logs rest).1 (late_afterLog a logs rest).2 rfl rfl)
    · exact rinv_settle _ _ (rinv_late h (late_afterLog a logs rest).1 (late_afterLog a logs rest).2 rfl rfl)
    · exact rinv_late h rfl (by simp) rfl rfl
  case batchOps.send a o ops logs rest ok =>
    split
    · split
      · rename_i o' ops'
        exact rinv_late h (late_afterOp a (o' :: ops') logs rest).1 (late_afterOp a (o' :: ops') logs rest).2 rfl rfl
      · exact rinv_settle _ _ (rinv_late h (late_afterOp a [] logs rest).1 (late_afterOp a [] logs rest).2 rfl rfl)
    · exact rinv_fail _ _ h
  case sync.entries rest r =>
    split
    · rename_i a _ _ logs rest' harm
      split
      · exact rinv_fail _ _ h
      · exact rinv_settle _ _ (rinv_late h (late_afterLog a logs rest').1 (late_afterLog a logs rest').2 rfl rfl)
      · exact rinv_settle _ _ (rinv_late h (late_afterLog a logs rest').1 (late_afterLog a logs rest').2 rfl rfl)
      · exact rinv_late h rfl (by simp) rfl rfl
    · exact rinv_mismatch h rfl rfl rfl
  case sync.send rest ok =>
    split
    · split
      · exact rinv_settle _ _ (rinv_late h rfl (by simp) rfl rfl)
      · exact rinv_fail _ _ h
    · exact rinv_mismatch h rfl rfl rfl

theorem rinv_run (cfg : Cfg) (script : List In) : RInv (run cfg script) := by
  unfold run
  have : ∀ (s : St), RInv s → RInv (script.foldl (step cfg) s) := by
    induction script with
    | nil => intro s h; exact h
    | cons i rest ih => intro s h; exact ih _ (rinv_step cfg s i h)
  apply this
  unfold init
  cases cfg.scope <;> exact ⟨fun h => by simp at h, fun h => by simp at h⟩

end P2.C20
