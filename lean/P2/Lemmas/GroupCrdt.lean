/-
Finite-map lemmas for `GroupStates` (group id ↦ member state) and `merge_states`
(`P2.Model.GroupCrdt`), used by the C31 property file.
-/
import P2.Model.GroupCrdt
import P2.Lemmas.GroupState

namespace P2.GroupCrdt
open P2.GroupState

set_option linter.unusedSectionVars false
variable {C : Type}

/-- Group ids pairwise different. -/
def GWF (gs : GroupStates C) : Prop := (gkeys gs).Nodup

/-- Every member map of the group states is a well-formed map. -/
def AllWF (gs : GroupStates C) : Prop := ∀ g s, gget? gs g = some s → WF s

/-- Two-level lookup: the entry of member `k` in group `g`. -/
def look (gs : GroupStates C) (g : Nat) (k : Member) : Option (MemberState C) :=
  match gget? gs g with
  | some s => get? s k
  | none => none

theorem gget?_cons (g' : Nat) (v : MState C) (gs : GroupStates C) (g : Nat) :
    gget? ((g', v) :: gs) g = if g' = g then some v else gget? gs g := rfl

theorem gget?_eq_none_iff (gs : GroupStates C) (g : Nat) : gget? gs g = none ↔ g ∉ gkeys gs := by
  induction gs with
  | nil => simp [gget?, gkeys]
  | cons p gs ih =>
    obtain ⟨g', v⟩ := p
    simp only [gget?_cons, gkeys, List.map_cons, List.mem_cons, not_or]
    by_cases h : g' = g
    · simp [h]
    · simp only [h, if_false]
      rw [ih]
      simp only [gkeys]
      constructor
      · intro h2; exact ⟨fun e => h e.symm, h2⟩
      · intro h2; exact h2.2

theorem gget?_map_set (gs : GroupStates C) (g : Nat) (v : MState C) (g' : Nat) :
    gget? (gs.map (fun p => if p.1 = g then (p.1, v) else p)) g' =
      if g' = g then (if (gget? gs g).isSome then some v else none) else gget? gs g' := by
  induction gs with
  | nil => simp [gget?]
  | cons p gs ih =>
    obtain ⟨a, b⟩ := p
    simp only [List.map_cons]
    by_cases ha : a = g
    · subst ha
      simp only [if_true, gget?_cons]
      by_cases hk : a = g'
      · subst hk; simp
      · have : ¬ g' = a := fun e => hk e.symm
        simp only [hk, if_false, this]
        rw [ih]; simp [this]
    · simp only [ha, if_false, gget?_cons]
      by_cases hk : a = g'
      · subst hk; simp [ha]
      · simp only [hk, if_false]
        rw [ih]

theorem gget?_append_single (gs : GroupStates C) (g : Nat) (v : MState C) (g' : Nat) :
    gget? (gs ++ [(g, v)]) g' =
      match gget? gs g' with
      | some x => some x
      | none => if g = g' then some v else none := by
  induction gs with
  | nil => simp [gget?]
  | cons p gs ih =>
    obtain ⟨a, b⟩ := p
    simp only [List.cons_append, gget?_cons]
    by_cases ha : a = g' <;> simp [ha, ih]

theorem gget?_gupsert (gs : GroupStates C) (g : Nat) (v : MState C) (g' : Nat) :
    gget? (gupsert gs g v) g' = if g' = g then some v else gget? gs g' := by
  unfold gupsert
  cases hg : gget? gs g with
  | some x => simp only [gget?_map_set, hg, Option.isSome_some, if_true]
  | none =>
    simp only [gget?_append_single]
    by_cases hk : g' = g
    · subst hk; simp [hg]
    · have : ¬ g = g' := fun e => hk e.symm
      simp only [hk, this, if_false]
      cases gget? gs g' <;> rfl

theorem gkeys_map_set (gs : GroupStates C) (g : Nat) (v : MState C) :
    gkeys (gs.map (fun p => if p.1 = g then (p.1, v) else p)) = gkeys gs := by
  induction gs with
  | nil => rfl
  | cons p gs ih =>
    simp only [gkeys, List.map_cons, List.map_map] at *
    by_cases h : p.1 = g <;> simp [h, ih]

theorem gwf_gupsert (gs : GroupStates C) (g : Nat) (v : MState C) (h : GWF gs) : GWF (gupsert gs g v) := by
  unfold gupsert
  cases hg : gget? gs g with
  | some x => unfold GWF; rw [gkeys_map_set]; exact h
  | none =>
    unfold GWF at *
    have : gkeys (gs ++ [(g, v)]) = gkeys gs ++ [g] := by simp [gkeys]
    rw [this, List.nodup_append]
    refine ⟨h, by simp, ?_⟩
    intro a ha b hb
    simp only [List.mem_singleton] at hb
    subst hb
    intro e; subst e
    exact (gget?_eq_none_iff gs a).1 hg ha

/-- Group-level merge of two optional member maps (`state::merge(state, current)`). -/
def mergeOptState (lt : Access C → Access C → Bool) : Option (MState C) → Option (MState C) → Option (MState C)
  | none, c => c
  | some s, none => some s
  | some s, some c => some (merge lt s c)

/-- One step of the inner loop of `merge_states`. -/
def mgsStep (lt : Access C → Access C → Bool) (cur : GroupStates C) (p : Nat × MState C) : GroupStates C :=
  match gget? cur p.1 with
  | some c => gupsert cur p.1 (merge lt p.2 c)
  | none => cur ++ [p]

theorem mergeGroupStates_eq (lt : Access C → Access C → Bool) (cur gs : GroupStates C) :
    mergeGroupStates lt cur gs = gs.foldl (mgsStep lt) cur := rfl

theorem gget?_mgsStep (lt : Access C → Access C → Bool) (cur : GroupStates C) (g : Nat) (s : MState C) (g' : Nat) :
    gget? (mgsStep lt cur (g, s)) g' =
      if g' = g then mergeOptState lt (some s) (gget? cur g) else gget? cur g' := by
  unfold mgsStep
  cases hg : gget? cur g with
  | some c => simp only [gget?_gupsert, mergeOptState]
  | none =>
    simp only [gget?_append_single, mergeOptState]
    by_cases hk : g' = g
    · subst hk; simp [hg]
    · have : ¬ g = g' := fun e => hk e.symm
      simp only [hk, this, if_false]
      cases gget? cur g' <;> rfl

theorem gwf_mgsStep (lt : Access C → Access C → Bool) (cur : GroupStates C) (p : Nat × MState C)
    (h : GWF cur) : GWF (mgsStep lt cur p) := by
  unfold mgsStep
  cases hg : gget? cur p.1 with
  | some c => exact gwf_gupsert _ _ _ h
  | none =>
    unfold GWF at *
    have : gkeys (cur ++ [p]) = gkeys cur ++ [p.1] := by simp [gkeys]
    rw [this, List.nodup_append]
    refine ⟨h, by simp, ?_⟩
    intro a ha b hb e
    simp only [List.mem_singleton] at hb
    rw [hb] at e; rw [e] at ha
    exact (gget?_eq_none_iff cur p.1).1 hg ha

theorem gwf_mergeGroupStates (lt : Access C → Access C → Bool) (cur gs : GroupStates C) (h : GWF cur) :
    GWF (mergeGroupStates lt cur gs) := by
  rw [mergeGroupStates_eq]
  induction gs generalizing cur with
  | nil => exact h
  | cons p gs ih => exact ih _ (gwf_mgsStep lt cur p h)

/-- `merge_states` inner loop is the group-wise merge of the two maps. -/
theorem gget?_mergeGroupStates (lt : Access C → Access C → Bool) (cur gs : GroupStates C) (h : GWF gs)
    (g : Nat) :
    gget? (mergeGroupStates lt cur gs) g = mergeOptState lt (gget? gs g) (gget? cur g) := by
  rw [mergeGroupStates_eq]
  induction gs generalizing cur with
  | nil => simp [gget?, mergeOptState]
  | cons p gs ih =>
    obtain ⟨id, s⟩ := p
    simp only [GWF, gkeys, List.map_cons, List.nodup_cons] at h
    simp only [List.foldl_cons]
    rw [ih _ h.2, gget?_mgsStep, gget?_cons]
    by_cases hk : id = g
    · subst hk
      have : gget? gs id = none := (gget?_eq_none_iff gs id).2 h.1
      simp [this, mergeOptState]
    · have : ¬ g = id := fun e => hk e.symm
      simp [hk, this]

/-- Member-level view of the inner loop. -/
theorem look_mergeGroupStates (lt : Access C → Access C → Bool) (cur gs : GroupStates C) (h : GWF gs)
    (hw : AllWF gs) (g : Nat) (k : Member) :
    look (mergeGroupStates lt cur gs) g k = mergeOpt lt (look gs g k) (look cur g k) := by
  unfold look
  rw [gget?_mergeGroupStates lt cur gs h g]
  cases hg : gget? gs g with
  | none => simp [mergeOptState, mergeOpt]
  | some s =>
    cases hc : gget? cur g with
    | none =>
      simp only [mergeOptState, mergeOpt]
      cases get? s k <;> rfl
    | some c =>
      simp only [mergeOptState]
      exact get?_merge lt s c (hw g s hg) k

theorem allWF_mergeGroupStates (lt : Access C → Access C → Bool) (cur gs : GroupStates C) (h : GWF gs)
    (hc : AllWF cur) (hg : AllWF gs) : AllWF (mergeGroupStates lt cur gs) := by
  intro g s hs
  rw [gget?_mergeGroupStates lt cur gs h g] at hs
  cases h1 : gget? gs g with
  | none => rw [h1] at hs; exact hc g s hs
  | some a =>
    cases h2 : gget? cur g with
    | none =>
      rw [h1, h2] at hs
      simp only [mergeOptState, Option.some.injEq] at hs
      subst hs; exact hg g a h1
    | some c =>
      rw [h1, h2] at hs
      simp only [mergeOptState, Option.some.injEq] at hs
      subst hs; exact wf_merge lt a c (hc g c h2)

/-! ### the accumulator map of `members_inner` -/

theorem accGet?_cons (m' : Member) (a : Access C) (acc : List (Member × Access C)) (m : Member) :
    accGet? ((m', a) :: acc) m = if m' = m then some a else accGet? acc m := rfl

theorem accGet?_accSet (acc : List (Member × Access C)) (k : Member) (v : Access C) (k' : Member) :
    accGet? (accSet acc k v) k' =
      if k' = k then (if (accGet? acc k).isSome then some v else none) else accGet? acc k' := by
  induction acc with
  | nil => simp [accSet, accGet?]
  | cons p acc ih =>
    obtain ⟨a, b⟩ := p
    simp only [accSet, List.map_cons] at *
    by_cases ha : a = k
    · subst ha
      simp only [if_true, accGet?_cons]
      by_cases hk : a = k'
      · subst hk; simp
      · have : ¬ k' = a := fun e => hk e.symm
        simp only [hk, if_false, this]
        rw [ih]; simp [this]
    · simp only [ha, if_false, accGet?_cons]
      by_cases hk : a = k'
      · subst hk; simp [ha]
      · simp only [hk, if_false]
        rw [ih]

theorem accGet?_append_single (acc : List (Member × Access C)) (k : Member) (v : Access C) (k' : Member) :
    accGet? (acc ++ [(k, v)]) k' =
      match accGet? acc k' with
      | some x => some x
      | none => if k = k' then some v else none := by
  induction acc with
  | nil => simp [accGet?]
  | cons p acc ih =>
    obtain ⟨a, b⟩ := p
    simp only [List.cons_append, accGet?_cons]
    by_cases ha : a = k' <;> simp [ha, ih]

/-- One update of a member's combined access: keep the current one unless it is `<` the next. -/
def maxStep (lt : Access C → Access C → Bool) (o : Option (Access C)) (a : Access C) : Option (Access C) :=
  match o with
  | none => some a
  | some c => if lt c a then some a else some c

theorem accGet?_combine (lt : Access C → Access C → Bool) (acc : List (Member × Access C)) (m' : Member)
    (a : Access C) (m : Member) :
    accGet? (combine lt acc m' a) m = if m' = m then maxStep lt (accGet? acc m) a else accGet? acc m := by
  unfold combine
  cases h : accGet? acc m' with
  | none =>
    rw [accGet?_append_single]
    by_cases e : m' = m
    · subst e; simp [h, maxStep]
    · simp only [e, if_false]
      cases accGet? acc m <;> rfl
  | some c =>
    by_cases hl : lt c a = true
    · simp only [hl, if_true]
      rw [accGet?_accSet]
      by_cases e : m' = m
      · subst e; simp [h, maxStep, hl]
      · have : ¬ m = m' := fun x => e x.symm
        simp [e, this]
    · simp only [hl]
      by_cases e : m' = m
      · subst e; simp [h, maxStep, hl]
      · simp [e]

end P2.GroupCrdt
