/-
Helper lemmas about `P2.Model.Heights` shared by the C06 and C07 property files.
-/
import P2.Model.Heights

namespace P2.Heights

set_option linter.unusedSectionVars false

section
variable {K V : Type} [DecidableEq K]

theorem lookup_upsert (k k' : K) (v : V) (m : List (K × V)) :
    lookup k' (upsert k v m) = if k = k' then some v else lookup k' m := by
  induction m with
  | nil =>
    by_cases h : k = k' <;> simp [upsert, lookup, h]
  | cons e t ih =>
    obtain ⟨ke, ve⟩ := e
    by_cases h1 : ke = k
    · subst h1
      by_cases h2 : ke = k' <;> simp [upsert, lookup, h2]
    · by_cases h2 : ke = k'
      · subst h2
        have : ¬ k = ke := fun h => h1 h.symm
        simp [upsert, lookup, h1, this]
      · simp [upsert, lookup, h1, h2, ih]

theorem lookup_eq_none_iff (k : K) (m : List (K × V)) : lookup k m = none ↔ k ∉ keys m := by
  induction m with
  | nil => simp [lookup, keys]
  | cons e t ih =>
    obtain ⟨ke, ve⟩ := e
    by_cases h : ke = k
    · subst h; simp [lookup, keys]
    · have h' : ¬ k = ke := fun x => h x.symm
      simp only [lookup, h, if_false, ih, keys, List.map_cons, List.mem_cons, h', false_or]

theorem mem_keys_of_mem {k : K} {v : V} {m : List (K × V)} (h : (k, v) ∈ m) : k ∈ keys m :=
  List.mem_map.2 ⟨(k, v), h, rfl⟩

theorem lookup_eq_some_iff (k : K) (v : V) (m : List (K × V)) (hnd : (keys m).Nodup) :
    lookup k m = some v ↔ (k, v) ∈ m := by
  induction m with
  | nil => simp [lookup]
  | cons e t ih =>
    obtain ⟨ke, ve⟩ := e
    have hnd' : ke ∉ keys t ∧ (keys t).Nodup := by simpa [keys] using hnd
    by_cases h : ke = k
    · subst h
      simp only [lookup, if_true, List.mem_cons, Prod.mk.injEq, true_and, Option.some.injEq]
      constructor
      · intro h; exact Or.inl h.symm
      · rintro (h | h)
        · exact h.symm
        · exact absurd (mem_keys_of_mem h) hnd'.1
    · have h' : ¬ k = ke := fun x => h x.symm
      simp only [lookup, h, if_false, ih hnd'.2, List.mem_cons, Prod.mk.injEq, h', false_and,
        false_or]

theorem lookup_some_mem {k : K} {v : V} {m : List (K × V)} (h : lookup k m = some v) :
    (k, v) ∈ m := by
  induction m with
  | nil => simp [lookup] at h
  | cons e t ih =>
    obtain ⟨ke, ve⟩ := e
    by_cases h1 : ke = k
    · subst h1
      simp only [lookup, if_true, Option.some.injEq] at h
      subst h; exact List.mem_cons_self
    · simp only [lookup, h1, if_false] at h
      exact List.mem_cons_of_mem _ (ih h)

end

/-! ### `optMax` -/

theorem optMax_none_right (a : Option Nat) : optMax a none = a := by cases a <;> rfl
theorem optMax_none_left (a : Option Nat) : optMax none a = a := rfl

theorem optMax_comm (a b : Option Nat) : optMax a b = optMax b a := by
  cases a <;> cases b <;> simp [optMax, Nat.max_comm]

theorem optMax_assoc (a b c : Option Nat) : optMax (optMax a b) c = optMax a (optMax b c) := by
  cases a <;> cases b <;> cases c <;> simp [optMax, Nat.max_assoc]

theorem optMax_idem (a : Option Nat) : optMax a a = a := by
  cases a <;> simp [optMax]

theorem optLe_optMax_left (a b : Option Nat) : optLe a (optMax a b) := by
  cases a <;> cases b <;> simp [optLe, optMax]
  exact Nat.le_max_left _ _

theorem optLe_refl (a : Option Nat) : optLe a a := by
  cases a <;> simp [optLe]

section
variable {K : Type} [DecidableEq K]

theorem lookup_advance (c : Heights K) (k : K) (h : Nat) (k' : K) :
    lookup k' (advance c k h) = if k = k' then optMax (lookup k c) (some h) else lookup k' c := by
  unfold advance
  cases hc : lookup k c with
  | none =>
    simp only [lookup_upsert, optMax]
  | some cur =>
    by_cases hge : cur ≥ h
    · simp only [hge, if_true]
      by_cases hk : k = k'
      · subst hk
        simp only [hc, optMax, if_true, Option.some.injEq]
        omega
      · simp [hk]
    · simp only [hge, if_false, lookup_upsert]
      by_cases hk : k = k'
      · simp only [hk, if_true, optMax, Option.some.injEq]
        omega
      · simp [hk]

theorem lookup_advanceAll (c : Heights K) (hs : List (K × Nat)) (k : K) :
    lookup k (advanceAll c hs) = optMax (lookup k c) (maxOf k hs) := by
  induction hs generalizing c with
  | nil => simp [advanceAll, maxOf, optMax_none_right]
  | cons e t ih =>
    have : advanceAll c (e :: t) = advanceAll (advance c e.1 e.2) t := rfl
    rw [this, ih, lookup_advance]
    by_cases hk : e.1 = k
    · subst hk
      simp only [if_true, maxOf, optMax_assoc]
    · simp only [hk, if_false, maxOf]

/-- `maxOf` is the maximum of the heights named for `k`. -/
theorem maxOf_eq_none_iff (k : K) (hs : List (K × Nat)) :
    maxOf k hs = none ↔ ∀ h, (k, h) ∉ hs := by
  induction hs with
  | nil => simp [maxOf]
  | cons e t ih =>
    obtain ⟨ke, he⟩ := e
    by_cases hk : ke = k
    · subst hk
      simp only [maxOf, if_true]
      constructor
      · intro h; cases hm : maxOf ke t <;> simp [hm, optMax] at h
      · intro h; exact absurd List.mem_cons_self (h he)
    · have hk' : ¬ k = ke := fun x => hk x.symm
      simp only [maxOf, hk, if_false, ih, List.mem_cons, Prod.mk.injEq, hk', false_and, false_or]

theorem maxOf_eq_some_iff (k : K) (hs : List (K × Nat)) (m : Nat) :
    maxOf k hs = some m ↔ (k, m) ∈ hs ∧ ∀ h, (k, h) ∈ hs → h ≤ m := by
  induction hs generalizing m with
  | nil => simp [maxOf]
  | cons e t ih =>
    obtain ⟨ke, he⟩ := e
    by_cases hk : ke = k
    · subst hk
      simp only [maxOf, if_true]
      cases hm : maxOf ke t with
      | none =>
        have hnone := (maxOf_eq_none_iff ke t).1 hm
        simp only [optMax, Option.some.injEq, List.mem_cons, Prod.mk.injEq, true_and]
        constructor
        · intro h; subst h
          refine ⟨Or.inl rfl, ?_⟩
          rintro h (h1 | h1)
          · omega
          · exact absurd h1 (hnone h)
        · rintro ⟨h1 | h1, _⟩
          · exact h1.symm
          · exact absurd h1 (hnone m)
      | some m' =>
        have hsome := (ih m').1 hm
        simp only [optMax, Option.some.injEq, List.mem_cons, Prod.mk.injEq, true_and]
        constructor
        · intro h
          refine ⟨?_, ?_⟩
          · by_cases hle : m' ≤ he
            · left; omega
            · right
              have : m = m' := by omega
              subst this; exact hsome.1
          · rintro x (hx | hx)
            · omega
            · have := hsome.2 x hx; omega
        · rintro ⟨h1, h2⟩
          have hm'le := h2 m' (Or.inr hsome.1)
          have hhe := h2 he (Or.inl rfl)
          rcases h1 with h1 | h1
          · omega
          · have := hsome.2 m h1; omega
    · have hk' : ¬ k = ke := fun x => hk x.symm
      simp only [maxOf, hk, if_false, ih, List.mem_cons, Prod.mk.injEq, hk', false_and, false_or]

theorem maxOf_perm (k : K) {hs₁ hs₂ : List (K × Nat)} (hp : hs₁.Perm hs₂) :
    maxOf k hs₁ = maxOf k hs₂ := by
  induction hp with
  | nil => rfl
  | cons x _ ih => simp only [maxOf, ih]
  | swap x y l =>
    simp only [maxOf]
    by_cases hx : x.1 = k <;> by_cases hy : y.1 = k <;> simp only [hx, hy, if_true, if_false]
    rw [← optMax_assoc, ← optMax_assoc, optMax_comm (some y.2)]
  | trans _ _ ih1 ih2 => rw [ih1, ih2]

end

end P2.Heights
