/-
Arithmetic cores of the C21 deadlock analyses, over plain numbers and booleans (kept in their own
module: the 16-way case split with `omega` is slow to check).
-/
namespace P2.C21

set_option linter.unusedSimpArgs false

/-! ### arithmetic cores of the deadlock analyses (plain numbers and booleans) -/

set_option maxHeartbeats 4000000 in
/-- `Alt`: no action enabled ⇒ both finished, for every capacity -/
theorem alt_core (c TA TB sa ra sb rb : Nat) (wa wb bA bB : Bool)
    (hTA : 2 ≤ TA) (hTB : 2 ≤ TB)
    (ia : sa ≤ TA ∧ (wa = true → 1 ≤ sa) ∧ (ra = 0 → sa ≤ 1) ∧ (ra ≤ 1 → sa ≤ 2) ∧ (1 ≤ ra → 1 ≤ sa) ∧ (2 ≤ ra → 2 ≤ sa) ∧ ra ≤ sb)
    (ib : sb ≤ TB ∧ (wb = true → 1 ≤ sb) ∧ (rb = 0 → sb ≤ 1) ∧ (rb ≤ 1 → sb ≤ 2) ∧ (1 ≤ rb → 1 ≤ sb) ∧ (2 ≤ rb → 2 ≤ sb) ∧ rb ≤ sa)
    (hbA : sa = TA → bA = true) (hbB : sb = TB → bB = true)
    (eA : ¬(wa = false ∧ sa < TA ∧ (sa = 0 ∨ (sa = 1 ∧ 1 ≤ ra) ∨ (2 ≤ sa ∧ 2 ≤ ra))))
    (fA : ¬(wa = true ∧ sa - rb ≤ c))
    (rA : ¬(ra < sb ∧ ((ra = 0 ∧ sa = 1) ∨ (ra = 1 ∧ sa = 2) ∨ (2 ≤ ra ∧ 2 ≤ sa ∧ (wa = true ∨ bA = true)))))
    (eB : ¬(wb = false ∧ sb < TB ∧ (sb = 0 ∨ (sb = 1 ∧ 1 ≤ rb) ∨ (2 ≤ sb ∧ 2 ≤ rb))))
    (fB : ¬(wb = true ∧ sb - ra ≤ c))
    (rB : ¬(rb < sa ∧ ((rb = 0 ∧ sb = 1) ∨ (rb = 1 ∧ sb = 2) ∨ (2 ≤ rb ∧ 2 ≤ sb ∧ (wb = true ∨ bB = true))))) :
    (sa = TA ∧ wa = false ∧ ra = TB) ∧ (sb = TB ∧ wb = false ∧ rb = TA) := by
  cases wa <;> cases wb <;> cases bA <;> cases bB <;> simp at * <;> omega

set_option maxHeartbeats 4000000 in
/-- `Orig`, capacity ≥ 1, A's Sync-phase messages fit into the buffer: no action enabled ⇒ both finished -/
theorem orig_core (c TA TB sa ra sb rb : Nat) (wa wb bA bB : Bool)
    (hTA : 2 ≤ TA) (hTB : 2 ≤ TB) (hc : 1 ≤ c) (hfit : TA - 2 ≤ c)
    (ia : sa ≤ TA ∧ (wa = true → 1 ≤ sa) ∧ (ra = 0 → sa ≤ 1) ∧ (ra ≤ 1 → sa ≤ 2) ∧ (1 ≤ ra → 1 ≤ sa) ∧ (2 ≤ ra → 2 ≤ sa) ∧ ra ≤ sb)
    (ib : sb ≤ TB ∧ (wb = true → 1 ≤ sb) ∧ (rb = 0 → sb ≤ 1) ∧ (rb ≤ 1 → sb ≤ 2) ∧ (1 ≤ rb → 1 ≤ sb) ∧ (2 ≤ rb → 2 ≤ sb) ∧ rb ≤ sa)
    (hbA : sa = TA → bA = true) (hbB : sb = TB → bB = true)
    (eA : ¬(wa = false ∧ sa < TA ∧ (sa = 0 ∨ (sa = 1 ∧ 1 ≤ ra) ∨ (2 ≤ sa ∧ 2 ≤ ra))))
    (fA : ¬(wa = true ∧ sa - rb ≤ c))
    (rA : ¬(ra < sb ∧ wa = false ∧ ((ra = 0 ∧ sa = 1) ∨ (ra = 1 ∧ sa = 2) ∨ (2 ≤ ra ∧ bA = true))))
    (eB : ¬(wb = false ∧ sb < TB ∧ (sb = 0 ∨ (sb = 1 ∧ 1 ≤ rb) ∨ (2 ≤ sb ∧ 2 ≤ rb))))
    (fB : ¬(wb = true ∧ sb - ra ≤ c))
    (rB : ¬(rb < sa ∧ wb = false ∧ ((rb = 0 ∧ sb = 1) ∨ (rb = 1 ∧ sb = 2) ∨ (2 ≤ rb ∧ bB = true)))) :
    (sa = TA ∧ wa = false ∧ ra = TB) ∧ (sb = TB ∧ wb = false ∧ rb = TA) := by
  cases wa <;> cases wb <;> cases bA <;> cases bB <;> simp at * <;> omega


end P2.C21
