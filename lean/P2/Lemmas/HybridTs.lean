/-
Order lemmas for the model of `HybridTimestamp` (derived lexicographic `Ord`): strict total order.
Shared by the C16, C18 and C27 property files.
-/
import P2.Model.HybridTs

namespace P2.HybridTs

theorem lt_iff (a b : HTs) :
    a < b ↔ (a.wall < b.wall ∨ (a.wall = b.wall ∧ a.logical < b.logical)) := Iff.rfl

theorem lt_irrefl (a : HTs) : ¬ a < a := by
  rw [lt_iff]; omega

theorem lt_trans {a b c : HTs} (h1 : a < b) (h2 : b < c) : a < c := by
  rw [lt_iff] at *; omega

theorem lt_asymm {a b : HTs} (h : a < b) : ¬ b < a := by
  rw [lt_iff] at *; omega

theorem lt_trichotomy (a b : HTs) : a < b ∨ a = b ∨ b < a := by
  rcases a with ⟨aw, al⟩; rcases b with ⟨bw, bl⟩
  simp only [lt_iff, HTs.mk.injEq]; omega

theorem ne_of_lt {a b : HTs} (h : a < b) : a ≠ b := by
  intro e; subst e; exact lt_irrefl a h

theorem eq_of_not_lt_not_lt {a b : HTs} (h1 : ¬ a < b) (h2 : ¬ b < a) : a = b := by
  rcases lt_trichotomy a b with h | h | h
  · exact absurd h h1
  · exact h
  · exact absurd h h2

/-- `¬ a < b` and `b ≠ a` give `b < a`. -/
theorem lt_of_not_lt_of_ne {a b : HTs} (h1 : ¬ a < b) (h2 : a ≠ b) : b < a := by
  rcases lt_trichotomy a b with h | h | h
  · exact absurd h h1
  · exact absurd h h2
  · exact h

end P2.HybridTs
