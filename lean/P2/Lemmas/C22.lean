/-
Helper lemmas for C22: the events of the inner `LogSync` session (`P2.Sync.run`) are
`MetricsExchanged · OperationReceived*` once the `Sync` state is reached and empty before; they
only grow.
-/
import P2.Model.SyncProto
import P2.Model.SyncEvents
import P2.Lemmas.C20

namespace P2.C22
open P2.Sync

set_option linter.unusedSimpArgs false

/-- `MetricsExchanged` followed by `OperationReceived` events only -/
def EvStarted (evs : List Ev) : Prop :=
  ∃ m rest, evs = Ev.metricsExchanged m :: rest ∧ ∀ e ∈ rest, ∃ id m', e = Ev.opReceived id m'

/-- 0: before the `Sync` state; 1: in the `Sync` state or returned `Ok`; 2: failed / spinning / mismatch -/
def ecls : Pc → Nat
  | .heights _ _ | .sendHave _ | .recvHave _ | .sizes _ _ _ _ | .sendPre _ _ _ | .recvPre _ _ _ => 0
  | .sync _ | .batchLog _ _ _ _ _ | .batchOps _ _ _ _ _ | .sendDone | .fin none => 1
  | .fin (some _) | .spin | .mismatch => 2

def EInv (s : St) : Prop :=
  (ecls s.pc = 0 → s.events = []) ∧ (ecls s.pc = 1 → EvStarted s.events) ∧
  (s.events = [] ∨ EvStarted s.events)

theorem einv_same {s t : St} (h : EInv s) (hev : t.events = s.events) (hc : ecls t.pc = ecls s.pc) : EInv t := by
  unfold EInv at *
  rw [hev, hc]; exact h

theorem einv_any {s t : St} (h : EInv s) (hev : t.events = s.events) (hc : ecls t.pc = 2) : EInv t := by
  unfold EInv at *
  rw [hev, hc]
  exact ⟨fun h' => by simp at h', fun h' => by simp at h', h.2.2⟩

theorem einv_fail (s : St) (e : Err) (h : EInv s) : EInv (fail s e) := einv_any h rfl rfl

theorem einv_settle (cfg : Cfg) (s : St) (h : EInv s) : EInv (settle cfg s) := by
  unfold settle
  split
  · rename_i hpc
    have h1 : ecls s.pc = 1 := by rw [hpc]; rfl
    split
    · split
      · exact einv_same h rfl (by rw [h1]; rfl)
      · exact einv_any h rfl rfl
    · split
      · split
        · exact einv_fail s _ h
        · exact einv_any h rfl rfl
      · exact h
  · exact h

theorem ecls_afterLog (a : Nat) (logs : List (Nat × Range)) (rest : Ranges) : ecls (afterLog a logs rest) = 1 := by
  unfold afterLog
  split
  · rfl
  · split <;> rfl

theorem ecls_afterOp (a : Nat) (ops : List Op) (logs : List (Nat × Range)) (rest : Ranges) :
    ecls (afterOp a ops logs rest) = 1 := by
  unfold afterOp
  split
  · rfl
  · exact ecls_afterLog a logs rest

theorem evStarted_snoc {evs : List Ev} (h : EvStarted evs) (id : Nat) (m : Metrics) :
    EvStarted (evs ++ [Ev.opReceived id m]) := by
  obtain ⟨m0, rest, rfl, hr⟩ := h
  refine ⟨m0, rest ++ [Ev.opReceived id m], by simp, ?_⟩
  intro e he
  rcases List.mem_append.mp he with he | he
  · exact hr e he
  · simp at he; exact ⟨id, m, he⟩

theorem einv_recvSync (cfg : Cfg) (s : St) (r : RecvItem) (hc : ecls s.pc = 1) (h : EInv s) :
    EInv (recvSync cfg s r) := by
  unfold recvSync
  cases r with
  | closed => exact einv_settle _ _ (einv_same h rfl rfl)
  | err => exact einv_fail _ _ (einv_same h rfl rfl)
  | garbage b => exact einv_fail _ _ (einv_same h rfl rfl)
  | msg m =>
    cases m with
    | op o =>
      simp only
      split
      · exact einv_same h rfl rfl
      · split
        · have hs := h.2.1 hc
          have hst := evStarted_snoc hs o.id
            { s.m with recvBytes := s.m.recvBytes + o.bytes, recvOps := s.m.recvOps + 1 }
          exact ⟨fun h' => by simp only at h'; rw [hc] at h'; exact absurd h' (by simp),
                 fun _ => hst, Or.inr hst⟩
        · exact einv_fail _ _ (einv_same h rfl rfl)
    | «have» h' => exact einv_fail _ _ (einv_same h rfl rfl)
    | preSync n b => exact einv_fail _ _ (einv_same h rfl rfl)
    | done => exact einv_settle _ _ (einv_same h rfl rfl)

theorem einv_enterSync (cfg : Cfg) (s : St) (needs : Ranges) (hs : EvStarted s.events) :
    EInv (enterSync cfg s needs) := by
  unfold enterSync
  apply einv_settle
  exact ⟨fun h' => by simp [ecls] at h', fun _ => hs, Or.inr hs⟩

theorem einv_step (cfg : Cfg) (s : St) (i : In) (h : EInv s) : EInv (step cfg s i) := by
  obtain ⟨pc, sent, events, recvd, doneSent, doneRecv, streamClosed, dedup, m⟩ := s
  cases pc <;> cases i <;> simp only [step] <;> first | exact einv_any h rfl rfl | skip
  case heights.heights todo acc r =>
    repeat' split
    all_goals first
      | exact einv_any h rfl rfl
      | exact einv_same h rfl rfl
  case sendHave.send loc ok =>
    split
    · exact einv_same h rfl rfl
    · exact einv_fail _ _ h
  case recvHave.recv loc r =>
    repeat' split
    all_goals first
      | exact einv_fail _ _ (einv_same h rfl rfl)
      | exact einv_same h rfl rfl
  case sizes.size needs todo ops bytes r =>
    repeat' split
    all_goals first
      | exact einv_any h rfl rfl
      | exact einv_same h rfl rfl
  case sendPre.send needs ops bytes ok =>
    repeat' split
    all_goals first
      | exact einv_same h rfl rfl
      | exact einv_fail _ _ (einv_same h rfl rfl)
  case recvPre.recv needs ops bytes r =>
    have he : events = [] := h.1 rfl
    subst he
    split
    · exact einv_fail _ _ (einv_same h rfl rfl)
    · exact einv_fail _ _ (einv_same h rfl rfl)
    · split
      · exact einv_enterSync _ _ _ ⟨_, [], rfl, by simp⟩
      · exact einv_fail _ _ (einv_same h rfl rfl)
    · split
      · exact einv_enterSync _ _ _ ⟨_, [], rfl, by simp⟩
      · exact einv_fail _ _ (einv_same h rfl rfl)
    · exact einv_fail _ _ (einv_same h rfl rfl)
  case sync.recv rest r =>
    split
    · exact einv_any h rfl rfl
    · exact einv_recvSync cfg _ r rfl h
  case sendDone.send ok =>
    split
    · exact einv_settle _ _ (einv_same h rfl rfl)
    · exact einv_fail _ _ h
  case batchLog.entries a l r logs rest r' =>
    split
    · exact einv_fail _ _ h
    · exact einv_settle _ _ (einv_same h rfl (ecls_afterLog a logs rest))
    · exact einv_settle _ _ (einv_same h rfl (ecls_afterLog a logs rest))
    · exact einv_same h rfl rfl
  case batchOps.send a o ops logs rest ok =>
    split
    · split
      · rename_i o' ops'
        exact einv_same h rfl (ecls_afterOp a (o' :: ops') logs rest)
      · exact einv_settle _ _ (einv_same h rfl (ecls_afterOp a [] logs rest))
    · exact einv_fail _ _ h
  case sync.entries rest r =>
    split
    · rename_i a _ _ logs rest' harm
      split
      · exact einv_fail _ _ h
      · exact einv_settle _ _ (einv_same h rfl (ecls_afterLog a logs rest'))
      · exact einv_settle _ _ (einv_same h rfl (ecls_afterLog a logs rest'))
      · exact einv_same h rfl rfl
    · exact einv_any h rfl rfl
  case sync.send rest ok =>
    split
    · split
      · exact einv_settle _ _ (einv_same h rfl rfl)
      · exact einv_fail _ _ h
    · exact einv_any h rfl rfl

theorem einv_init (cfg : Cfg) : EInv (init cfg) := by
  unfold init
  cases cfg.scope <;> exact ⟨fun _ => rfl, fun h => by simp [ecls] at h, Or.inl rfl⟩

/-! ### inner events only grow -/

@[simp] theorem fail_events (s : St) (e : Err) : (fail s e).events = s.events := rfl

@[simp] theorem settle_events (cfg : Cfg) (s : St) : (settle cfg s).events = s.events := by
  unfold settle
  repeat' split
  all_goals rfl

@[simp] theorem enterSync_events (cfg : Cfg) (s : St) (n : Ranges) : (enterSync cfg s n).events = s.events := by
  simp [enterSync]

theorem recvSync_events_prefix (cfg : Cfg) (s : St) (r : RecvItem) : s.events <+: (recvSync cfg s r).events := by
  unfold recvSync
  cases r with
  | closed => simp
  | err => simp
  | garbage b => simp
  | msg m =>
    cases m with
    | op o => cases hd : (s.dedup.insert o.id).2 <;> cases hr : cfg.rx <;> simp [hd]
    | «have» h => simp
    | preSync n b => simp
    | done => simp

theorem recvSync_events_prefix' (cfg : Cfg) (s : St) (r : RecvItem) (evs : List Ev) (h : s.events = evs) :
    evs <+: (recvSync cfg s r).events := by
  rw [← h]; exact recvSync_events_prefix cfg s r

theorem step_events_prefix (cfg : Cfg) (s : St) (i : In) : s.events <+: (step cfg s i).events := by
  obtain ⟨pc, sent, events, recvd, doneSent, doneRecv, streamClosed, dedup, m⟩ := s
  cases pc <;> cases i <;> simp only [step] <;> repeat' split
  all_goals first
    | exact recvSync_events_prefix' _ _ _ _ rfl
    | exact List.prefix_refl _
    | simp

end P2.C22
