/-
Helper definitions and lemmas about the header model (`P2/Model/Header.lean`), shared by the
property files C01, C02 (and C03): well-formedness, lawful extension codecs, the general
round-trip lemma, canonical-set lemmas.
-/
import P2.Model.Header

namespace P2.HeaderLemmas
open P2.Header

deriving instance DecidableEq for Except

/-! ### Well-formedness: exactly what `validate_header` + the Rust field types enforce -/

/-- `WF`: signed, payload hash present iff size > 0, backlink present iff seq > 0 (what
    `validate_header` enforces), plus the ranges of the Rust field types (`u16`, `u32`, a key that
    is a valid curve point) and the well-formedness of the extensions value. -/
structure WF {E : Type} (keyOk : Nat → Bool) (wfE : E → Prop) (h : Header E) : Prop where
  signed : h.signature.isSome
  hash_iff : h.payloadHash.isSome ↔ 0 < h.payloadSize
  backlink_iff : h.backlink.isSome ↔ 0 < h.seq
  version_u16 : h.version < 2 ^ 16
  size_u32 : h.payloadSize < 2 ^ 32
  seq_u32 : h.seq < 2 ^ 32
  key_ok : keyOk h.key = true
  ext_wf : wfE h.ext

/-- An extensions codec is lawful on `wfE` values: a zero-sized type has one value; otherwise
    decoding the encoding (followed by anything) gives the value back and consumes exactly it. -/
structure Lawful {E : Type} (c : ExtCodec E) (wfE : E → Prop) : Prop where
  zst_unique : ∀ z, c.zst = some z → ∀ e : E, e = z
  rt : c.zst = none → ∀ e rest, wfE e → c.dec (c.enc e ++ rest) = .ok (e, rest)

/-! ### Round trip -/

/-- Round trip, in the general form needed for nesting: any stream may follow. -/
theorem roundtrip_rest {E : Type} (c : ExtCodec E) (keyOk : Nat → Bool) (wfE : E → Prop)
    (hc : Lawful c wfE) (h : Header E) (hw : WF keyOk wfE h) (rest : List Tok) :
    decode c keyOk (encode c h ++ rest) = .ok (h, rest) := by
  obtain ⟨hs, hp, hb, hv, hz, hq, hk, he⟩ := hw
  obtain ⟨version, key, sig, size, ph, seq, bl, ext⟩ := h
  simp only at hs hp hb hv hz hq hk he
  cases sig with
  | none => simp at hs
  | some s =>
  cases hzst : c.zst with
  | some z =>
    have hext : ext = z := hc.zst_unique z hzst ext
    cases ph with
    | none =>
      have hsz : size = 0 := by simpa using hp
      cases bl with
      | none =>
        have hsq : seq = 0 := by simpa using hb
        subst hsz hsq
        simp [encode, decode, decodeFields, fieldCount, fieldCountWith, optCount, optBytes, hzst,
          req, reqIf, pUint, pKey, pBytes, hv, hk, hext]
      | some b =>
        have hsq : 0 < seq := by simpa using hb
        have hsq' : seq ≠ 0 := by omega
        subst hsz
        simp [encode, decode, decodeFields, fieldCount, fieldCountWith, optCount, optBytes, hzst,
          req, reqIf, pUint, pKey, pBytes, hv, hk, hq, hsq', hext]
    | some p =>
      have hsz : 0 < size := by simpa using hp
      have hsz' : size ≠ 0 := by omega
      cases bl with
      | none =>
        have hsq : seq = 0 := by simpa using hb
        subst hsq
        simp [encode, decode, decodeFields, fieldCount, fieldCountWith, optCount, optBytes, hzst,
          req, reqIf, pUint, pKey, pBytes, hv, hk, hz, hsz', hext]
      | some b =>
        have hsq : 0 < seq := by simpa using hb
        have hsq' : seq ≠ 0 := by omega
        simp [encode, decode, decodeFields, fieldCount, fieldCountWith, optCount, optBytes, hzst,
          req, reqIf, pUint, pKey, pBytes, hv, hk, hz, hq, hsz', hsq', hext]
  | none =>
    have hrt := hc.rt hzst ext rest he
    cases ph with
    | none =>
      have hsz : size = 0 := by simpa using hp
      cases bl with
      | none =>
        have hsq : seq = 0 := by simpa using hb
        subst hsz hsq
        simp [encode, decode, decodeFields, fieldCount, fieldCountWith, optCount, optBytes, hzst,
          req, reqIf, pUint, pKey, pBytes, hv, hk, hrt]
      | some b =>
        have hsq : 0 < seq := by simpa using hb
        have hsq' : seq ≠ 0 := by omega
        subst hsz
        simp [encode, decode, decodeFields, fieldCount, fieldCountWith, optCount, optBytes, hzst,
          req, reqIf, pUint, pKey, pBytes, hv, hk, hq, hsq', hrt]
    | some p =>
      have hsz : 0 < size := by simpa using hp
      have hsz' : size ≠ 0 := by omega
      cases bl with
      | none =>
        have hsq : seq = 0 := by simpa using hb
        subst hsq
        simp [encode, decode, decodeFields, fieldCount, fieldCountWith, optCount, optBytes, hzst,
          req, reqIf, pUint, pKey, pBytes, hv, hk, hz, hsz', hrt]
      | some b =>
        have hsq : 0 < seq := by simpa using hb
        have hsq' : seq ≠ 0 := by omega
        simp [encode, decode, decodeFields, fieldCount, fieldCountWith, optCount, optBytes, hzst,
          req, reqIf, pUint, pKey, pBytes, hv, hk, hz, hq, hsz', hsq', hrt]

/-! ### The three extension codecs are lawful -/

theorem unit_lawful : Lawful unitCodec (fun _ => True) :=
  ⟨fun _ _ _ => rfl, fun h => by simp [unitCodec] at h⟩

theorem custom_lawful : Lawful customCodec (fun e => e.a < 2 ^ 64) := by
  refine ⟨fun z h => by simp [customCodec] at h, ?_⟩
  intro _ e rest he
  obtain ⟨a, f⟩ := e
  simp only at he
  simp [customCodec, decodeCustom, customLoop, pUint, pBool, he]

/-- Strictly increasing = the canonical representative of a set of hashes. -/
def StrictSorted (l : List Nat) : Prop := l.Pairwise (· < ·)

instance (l : List Nat) : Decidable (StrictSorted l) := inferInstanceAs (Decidable (l.Pairwise (· < ·)))

/-- Well-formed Node extensions value: `u64` timestamp, `previous` in canonical form. -/
def NodeWF : NodeExt → Prop
  | .basic _ ts _ => ts < 2 ^ 64
  | .causal _ ts prev => ts < 2 ^ 64 ∧ StrictSorted prev

theorem setInsert_lt_all (x : Nat) (l : List Nat) (h : ∀ y ∈ l, x < y) : setInsert x l = x :: l := by
  cases l with
  | nil => rfl
  | cons y ys => simp [setInsert, h y (by simp)]

theorem canon_of_sorted (l : List Nat) (h : StrictSorted l) : canon l = l := by
  induction l with
  | nil => rfl
  | cons x xs ih =>
    have hx := List.pairwise_cons.mp h
    show setInsert x (canon xs) = x :: xs
    rw [canon] at ih
    rw [canon, ih hx.2]
    exact setInsert_lt_all x xs hx.1

theorem mem_setInsert (x y : Nat) (l : List Nat) : y ∈ setInsert x l ↔ y = x ∨ y ∈ l := by
  induction l with
  | nil => simp [setInsert]
  | cons z zs ih =>
    unfold setInsert
    split
    · simp
    · split
      · rename_i h; subst h; simp
      · simp only [List.mem_cons, ih]
        constructor
        · rintro (h | h | h) <;> simp [h]
        · rintro (h | h | h) <;> simp [h]

theorem setInsert_sorted (x : Nat) (l : List Nat) (h : StrictSorted l) : StrictSorted (setInsert x l) := by
  induction l with
  | nil => simp [setInsert, StrictSorted]
  | cons z zs ih =>
    have hz := List.pairwise_cons.mp h
    unfold setInsert
    split
    · rename_i hlt
      refine List.pairwise_cons.mpr ⟨?_, h⟩
      intro y hy
      rcases List.mem_cons.mp hy with rfl | hy
      · exact hlt
      · exact Nat.lt_trans hlt (hz.1 y hy)
    · split
      · exact h
      · rename_i h1 h2
        refine List.pairwise_cons.mpr ⟨?_, ih hz.2⟩
        intro y hy
        rcases (mem_setInsert x y zs).mp hy with rfl | hy
        · omega
        · exact hz.1 y hy

theorem canon_sorted (l : List Nat) : StrictSorted (canon l) := by
  induction l with
  | nil => simp [canon, StrictSorted]
  | cons x xs ih => exact setInsert_sorted x _ ih

theorem mem_canon (l : List Nat) (y : Nat) : y ∈ canon l ↔ y ∈ l := by
  induction l with
  | nil => simp [canon]
  | cons x xs ih =>
    show y ∈ setInsert x (canon xs) ↔ _
    rw [mem_setInsert, ih]; simp

/-- Two strictly increasing lists with the same members are equal. -/
theorem sorted_ext : ∀ (l₁ l₂ : List Nat), StrictSorted l₁ → StrictSorted l₂ →
    (∀ y, y ∈ l₁ ↔ y ∈ l₂) → l₁ = l₂
  | [], [], _, _, _ => rfl
  | [], y :: ys, _, _, h => by have := (h y).2 (by simp); simp at this
  | x :: xs, [], _, _, h => by have := (h x).1 (by simp); simp at this
  | x :: xs, y :: ys, h1, h2, h => by
    have hx := List.pairwise_cons.mp h1
    have hy := List.pairwise_cons.mp h2
    have hxy : x = y := by
      have a := (h x).1 (by simp)
      have b := (h y).2 (by simp)
      rcases List.mem_cons.mp a with a | a
      · exact a
      · rcases List.mem_cons.mp b with b | b
        · exact b.symm
        · have := hy.1 x a; have := hx.1 y b; omega
    subst hxy
    congr 1
    apply sorted_ext xs ys hx.2 hy.2
    intro z
    constructor
    · intro hz
      rcases List.mem_cons.mp ((h z).1 (List.mem_cons_of_mem _ hz)) with rfl | h'
      · exact absurd (hx.1 z hz) (by omega)
      · exact h'
    · intro hz
      rcases List.mem_cons.mp ((h z).2 (List.mem_cons_of_mem _ hz)) with rfl | h'
      · exact absurd (hy.1 z hz) (by omega)
      · exact h'

theorem hashElems_roundtrip (l : List Nat) (rest : List Tok) :
    hashElems l.length (l.map (Tok.bytes 32) ++ rest) = .ok (l, rest) := by
  induction l with
  | nil => simp [hashElems]
  | cons x xs ih => simp [hashElems, pBytes, ih]

theorem node_lawful : Lawful nodeCodec NodeWF := by
  refine ⟨fun z h => by simp [nodeCodec, nodeCodecWith] at h, ?_⟩
  intro _ e rest he
  cases e with
  | basic log ts p =>
    have : ts < 2 ^ 64 := he
    simp [nodeCodec, nodeCodecWith, encodeNodeWith, decodeNode, decodeNodeFields, req, pUint, pBytes,
      pBool, nefVersion, basicCode, nefHeaderFields, basicFields, this]
  | causal log ts prev =>
    obtain ⟨hts, hs⟩ : ts < 2 ^ 64 ∧ StrictSorted prev := he
    have hc := canon_of_sorted prev hs
    have hel := hashElems_roundtrip prev rest
    simp [nodeCodec, nodeCodecWith, encodeNodeWith, decodeNode, decodeNodeFields, req, pUint, pBytes,
      pHashSet, nefVersion, basicCode, causalCode, nefHeaderFields, causalFields, hts, hc, hel]


/-- The canonical form does not depend on the order (or multiplicity) in which a set is listed. -/
theorem canon_perm_invariant (o₁ o₂ : List Nat) (h : ∀ y, y ∈ o₁ ↔ y ∈ o₂) : canon o₁ = canon o₂ :=
  sorted_ext _ _ (canon_sorted o₁) (canon_sorted o₂) (fun y => by rw [mem_canon, mem_canon, h])

/-- An honestly signed header verifies (so `c02_verify_stable` is not vacuous). -/
theorem verify_signWith {E : Type} (c : ExtCodec E) (s : Nat) (h : Header E) (tbl : SigTable) :
    verify c ((signWith c s h).2 :: tbl) (signWith c s h).1 = true := by
  simp [verify, signWith, unsign]

end P2.HeaderLemmas
