/-
Lemmas about the store model (`P2/Model/LogStore.lean`): `latest` is the maximum of its log,
what an accepting log validation establishes, and the history invariant `Inv` shared by the
property files C03, C04 and C05.
-/
import P2.Model.LogStore

namespace P2.LogStoreLemmas
open P2.Header P2.LogStore

/-! ### `maxRow` / `latest` -/

theorem maxRow_none (rs : List Row) (h : maxRow rs = none) : rs = [] := by
  cases rs with
  | nil => rfl
  | cons r rs =>
    simp only [maxRow] at h
    split at h
    · simp at h
    · split at h <;> simp at h

theorem maxRow_some (rs : List Row) (m : Row) (h : maxRow rs = some m) :
    m ∈ rs ∧ ∀ r ∈ rs, r.seq ≤ m.seq := by
  induction rs generalizing m with
  | nil => simp [maxRow] at h
  | cons r rs ih =>
    simp only [maxRow] at h
    split at h
    · rename_i hn
      have := maxRow_none rs hn
      subst this
      simp at h
      subst h
      simp
    · rename_i m' hm'
      obtain ⟨hmem, hmax⟩ := ih m' hm'
      split at h
      · rename_i hgt
        simp at h; subst h
        refine ⟨List.mem_cons_of_mem _ hmem, ?_⟩
        intro x hx
        rcases List.mem_cons.mp hx with rfl | hx
        · omega
        · exact hmax x hx
      · rename_i hle
        simp at h; subst h
        refine ⟨by simp, ?_⟩
        intro x hx
        rcases List.mem_cons.mp hx with rfl | hx
        · omega
        · have := hmax x hx; omega

theorem mem_logRows (s : Store) (a l : Nat) (r : Row) :
    r ∈ logRows s a l ↔ r ∈ s.rows ∧ inLog a l r = true := by
  simp [logRows, List.mem_filter]

theorem latest_none (s : Store) (a l : Nat) (h : latest s a l = none) :
    ∀ r ∈ s.rows, inLog a l r = false := by
  intro r hr
  have := maxRow_none _ h
  cases hb : inLog a l r with
  | false => rfl
  | true =>
    have : r ∈ logRows s a l := (mem_logRows s a l r).2 ⟨hr, hb⟩
    simp_all

theorem latest_some (s : Store) (a l : Nat) (m : Row) (h : latest s a l = some m) :
    m ∈ s.rows ∧ inLog a l m = true ∧ ∀ r ∈ s.rows, inLog a l r = true → r.seq ≤ m.seq := by
  obtain ⟨hm, hmax⟩ := maxRow_some _ m h
  obtain ⟨hm1, hm2⟩ := (mem_logRows s a l m).1 hm
  exact ⟨hm1, hm2, fun r hr hb => hmax r ((mem_logRows s a l r).2 ⟨hr, hb⟩)⟩

theorem latest_exists (s : Store) (a l : Nat) (r : Row) (hr : r ∈ s.rows) (hb : inLog a l r = true) :
    ∃ m, latest s a l = some m := by
  cases h : latest s a l with
  | some m => exact ⟨m, rfl⟩
  | none => have := latest_none s a l h r hr; simp_all

theorem inLog_iff (a l : Nat) (r : Row) : inLog a l r = true ↔ r.author = a ∧ r.log = l := by
  simp [inLog]

/-! ### What an accepting log validation establishes -/

theorem validateBacklink_ok {E : Type} (p : Row) (h : Header E) (hv : validateBacklink p h = .ok ()) :
    p.author = h.key ∧ p.seq + 1 = h.seq ∧ h.backlink = some p.hid := by
  unfold validateBacklink at hv
  split at hv
  · simp at hv
  · rename_i h1
    split at hv
    · simp at hv
    · rename_i h2
      split at hv
      · rename_i b hb
        split at hv
        · simp at hv
        · rename_i h3
          simp only [ne_eq, Decidable.not_not] at h1 h2 h3
          exact ⟨h1, h2, by rw [hb, h3]⟩
      · simp at hv

/-- The repaired `validate_prunable_backlink` accepts only operations that lie strictly above
    everything stored of their log; unflagged ones extend the latest entry exactly. -/
theorem vpb_ok {E : Type} (past : Option Row) (h : Header E) (prune : Bool)
    (hv : validatePrunableBacklink past h prune = .ok ()) :
    (∀ p, past = some p → p.seq < h.seq) ∧
    (prune = false →
      (∀ p, past = some p → p.seq + 1 = h.seq ∧ h.backlink = some p.hid) ∧
      (past = none → h.seq = 0)) := by
  unfold validatePrunableBacklink at hv
  split at hv
  · rename_i hpos
    cases prune with
    | false =>
      simp only [Bool.not_false, if_true] at hv
      cases past with
      | none => simp at hv
      | some p =>
        obtain ⟨_, h2, h3⟩ := validateBacklink_ok p h hv
        exact ⟨fun q hq => (by cases hq; omega),
          fun _ => ⟨fun q hq => (by cases hq; exact ⟨h2, h3⟩), fun hn => (by cases hn)⟩⟩
    | true =>
      simp only [Bool.not_true, Bool.false_eq_true, if_false] at hv
      cases past with
      | none => exact ⟨fun q hq => (by cases hq), fun hf => (by cases hf)⟩
      | some p =>
        simp only at hv
        split at hv
        · simp at hv
        · split at hv
          · simp at hv
          · rename_i hle
            exact ⟨fun q hq => (by cases hq; omega), fun hf => (by cases hf)⟩
  · rename_i hz
    have hz' : h.seq = 0 := by omega
    cases past with
    | none => exact ⟨fun q hq => (by cases hq), fun _ => ⟨fun q hq => (by cases hq), fun _ => hz'⟩⟩
    | some p =>
      obtain ⟨_, h2, _⟩ := validateBacklink_ok p h hv
      omega

/-! ### The history invariant -/

section Inv
variable {E : Type}

/-- Two rows clash when they belong to the same log and carry the same sequence number. -/
def Clash (r₁ r₂ : Row) : Prop := r₁.author = r₂.author ∧ r₁.log = r₂.log ∧ r₁.seq = r₂.seq

/-- Every stored row was written from a header (`Hh` = hash of the header bytes). -/
def FromHeader (Hh : Header E → Nat) (lg : Header E → Nat) (pf : Header E → Bool) (r : Row) : Prop :=
  ∃ h : Header E, r.hid = Hh h ∧ r.id = r.hid ∧ r.author = h.key ∧ r.log = lg h ∧ r.seq = h.seq ∧
    r.prune = pf h ∧ r.backlink = h.backlink

/-- The invariant on the three components of a system state. -/
structure InvR (Hh : Header E → Nat) (lg : Header E → Nat) (pf : Header E → Bool)
    (rows : List Row) (arm prn : List (Nat × Nat × Nat)) : Prop where
  hdr : ∀ r ∈ rows, FromHeader Hh lg pf r
  uniq : rows.Pairwise (fun r₁ r₂ => ¬ Clash r₁ r₂)
  link : ∀ r ∈ rows, 0 < r.seq → r.prune = false →
    ∃ p ∈ rows, p.author = r.author ∧ p.log = r.log ∧ p.seq + 1 = r.seq ∧ r.backlink = some p.hid
  armedOk : ∀ a l n, (a, l, n) ∈ arm →
    (∃ r ∈ rows, inLog a l r = true ∧ n ≤ r.seq) ∧
    (∀ r ∈ rows, inLog a l r = true → r.seq = n → r.prune = true)
  prunedOk : ∀ a l n, (a, l, n) ∈ prn →
    (a, l, n) ∈ arm ∧ ∀ r ∈ rows, inLog a l r = true → n ≤ r.seq

def Inv (Hh : Header E → Nat) (lg : Header E → Nat) (pf : Header E → Bool) (st : Sys) : Prop :=
  InvR Hh lg pf st.store.rows st.armed st.pruned

/-- Deliveries announce operations under their real id: the claimed id is the hash of the header
    bytes (what every entry point of the node computes itself). -/
def EvOK (Hh : Header E → Nat) : Event E → Prop
  | .deliver o _ => o.op.id = o.hid ∧ o.hid = Hh o.op.header
  | .prune _ _ _ => True

theorem inv_init (Hh : Header E → Nat) (lg : Header E → Nat) (pf : Header E → Bool) :
    Inv Hh lg pf Sys.init := by
  refine ⟨?_, ?_, ?_, ?_, ?_⟩ <;> simp [Sys.init, Store.empty]

theorem uniq_of_clash {rows : List Row} (hu : rows.Pairwise (fun r₁ r₂ => ¬ Clash r₁ r₂))
    {r₁ r₂ : Row} (h₁ : r₁ ∈ rows) (h₂ : r₂ ∈ rows) (hc : Clash r₁ r₂) : r₁ = r₂ := by
  induction rows with
  | nil => simp at h₁
  | cons x xs ih =>
    obtain ⟨hx, hxs⟩ := List.pairwise_cons.mp hu
    rcases List.mem_cons.mp h₁ with rfl | h₁'
    · rcases List.mem_cons.mp h₂ with rfl | h₂'
      · rfl
      · exact absurd hc (hx r₂ h₂')
    · rcases List.mem_cons.mp h₂ with rfl | h₂'
      · exact absurd ⟨hc.1.symm, hc.2.1.symm, hc.2.2.symm⟩ (hx r₁ h₁')
      · exact ih hxs h₁' h₂'

theorem hasOp_true (s : Store) (id : Nat) (h : hasOp s id = true) : ∃ r ∈ s.rows, r.id = id := by
  simp only [hasOp, List.any_eq_true, beq_iff_eq] at h
  exact h

theorem associate_rows (s : Store) (t a l : Nat) : (associate s t a l).rows = s.rows := by
  unfold associate; split <;> rfl

theorem insertRow_rows (s : Store) (r : Row) (h : hasOp s r.id = false) :
    (insertRow s r).rows = s.rows ++ [r] := by
  unfold insertRow; simp [h]

/-- Unfolding one delivery: either the store is unchanged, or exactly one row was appended and
    the log validation accepted it against the latest entry. -/
theorem deliver_cases (c : ExtCodec E) (tbl : SigTable) (s : Store) (o : Op E) (log topic : Nat)
    (prune : Bool) (r : Store × Outcome)
    (hr : ingestStepWith validatePrunableBacklink c tbl s o log topic prune = r) :
    (r.1 = s ∧ (∃ e, r.2 = .failed e)) ∨
    (r.1 = s ∧ r.2 = .already ∧ hasOp s o.op.id = true ∧ validateOperation c tbl o.op = .ok ()) ∨
    (r.2 = .inserted ∧ r.1.rows = s.rows ++ [rowOf o log prune] ∧ hasOp s o.op.id = false ∧
      validateOperation c tbl o.op = .ok () ∧
      validatePrunableBacklink (latest s o.op.header.key log) o.op.header prune = .ok ()) := by
  subst hr
  simp only [ingestStepWith, ingestWith]
  cases hv : validateOperation c tbl o.op with
  | error e => left; exact ⟨rfl, e, rfl⟩
  | ok u =>
    cases u
    simp only
    cases hh : hasOp s o.op.id with
    | true => right; left; simp
    | false =>
      simp only [Bool.false_eq_true, if_false]
      cases hp : validatePrunableBacklink (latest s o.op.header.key log) o.op.header prune with
      | error e => left; exact ⟨rfl, e, rfl⟩
      | ok u =>
        cases u
        right; right
        refine ⟨by simp, ?_, by simp, by simp, by simp⟩
        simp only
        rw [associate_rows, insertRow_rows]
        simpa [rowOf] using hh

variable (Hh : Header E → Nat) (lg : Header E → Nat) (pf : Header E → Bool)

/-- Appending a row that lies strictly above everything stored of its log. -/
theorem invR_insert {rows : List Row} {armed pruned : List (Nat × Nat × Nat)}
    (hI : InvR Hh lg pf rows armed pruned) (r : Row)
    (hfresh : ∀ x ∈ rows, inLog r.author r.log x = true → x.seq < r.seq)
    (hhdr : FromHeader Hh lg pf r)
    (hlink : 0 < r.seq → r.prune = false →
      ∃ p ∈ rows, p.author = r.author ∧ p.log = r.log ∧ p.seq + 1 = r.seq ∧ r.backlink = some p.hid) :
    InvR Hh lg pf (rows ++ [r]) armed pruned := by
  obtain ⟨h1, h2, h3, h4, h5⟩ := hI
  refine ⟨?_, ?_, ?_, ?_, ?_⟩
  · intro x hx
    rcases List.mem_append.mp hx with hx | hx
    · exact h1 x hx
    · simp at hx; subst hx; exact hhdr
  · rw [List.pairwise_append]
    refine ⟨h2, by simp, ?_⟩
    intro x hx y hy
    simp at hy; subst hy
    intro hc
    have := hfresh x hx ((inLog_iff _ _ _).2 ⟨hc.1, hc.2.1⟩)
    have := hc.2.2
    omega
  · intro x hx hpos hpr
    rcases List.mem_append.mp hx with hx | hx
    · obtain ⟨p, hp, hp'⟩ := h3 x hx hpos hpr
      exact ⟨p, List.mem_append_left _ hp, hp'⟩
    · simp at hx; subst hx
      obtain ⟨p, hp, hp'⟩ := hlink hpos hpr
      exact ⟨p, List.mem_append_left _ hp, hp'⟩
  · intro a l n hm
    obtain ⟨⟨w, hw, hwl, hwn⟩, hflag⟩ := h4 a l n hm
    refine ⟨⟨w, List.mem_append_left _ hw, hwl, hwn⟩, ?_⟩
    intro x hx hxl hxn
    rcases List.mem_append.mp hx with hx | hx
    · exact hflag x hx hxl hxn
    · simp at hx; subst hx
      -- the new row lies above the witness `w ≥ n`, so its seq is not `n`
      have hal := (inLog_iff a l x).1 hxl
      have hw' : inLog x.author x.log w = true := by
        rw [hal.1, hal.2]; exact hwl
      have := hfresh w hw hw'
      omega
  · intro a l n hm
    obtain ⟨harm, hge⟩ := h5 a l n hm
    refine ⟨harm, ?_⟩
    intro x hx hxl
    rcases List.mem_append.mp hx with hx | hx
    · exact hge x hx hxl
    · simp at hx; subst hx
      obtain ⟨⟨w, hw, hwl, hwn⟩, _⟩ := h4 a l n harm
      have hal := (inLog_iff a l x).1 hxl
      have hw' : inLog x.author x.log w = true := by
        rw [hal.1, hal.2]; exact hwl
      have := hfresh w hw hw'
      omega

/-- Arming a prune step whose prune-flagged row is stored. -/
theorem invR_arm {rows : List Row} {armed pruned : List (Nat × Nat × Nat)}
    (hI : InvR Hh lg pf rows armed pruned) (a l n : Nat)
    (hrow : ∃ r ∈ rows, inLog a l r = true ∧ r.seq = n ∧ r.prune = true) :
    InvR Hh lg pf rows ((a, l, n) :: armed) pruned := by
  obtain ⟨h1, h2, h3, h4, h5⟩ := hI
  refine ⟨h1, h2, h3, ?_, ?_⟩
  · intro a' l' n' hm
    rcases List.mem_cons.mp hm with heq | hm
    · simp only [Prod.mk.injEq] at heq
      obtain ⟨rfl, rfl, rfl⟩ := heq
      obtain ⟨r, hr, hrl, hrn, hrp⟩ := hrow
      refine ⟨⟨r, hr, hrl, by omega⟩, ?_⟩
      intro x hx hxl hxn
      have hx' := (inLog_iff _ _ x).1 hxl
      have hr' := (inLog_iff _ _ r).1 hrl
      have : x = r := uniq_of_clash h2 hx hr ⟨by rw [hx'.1, hr'.1], by rw [hx'.2, hr'.2], by omega⟩
      rw [this]; exact hrp
    · exact h4 a' l' n' hm
  · intro a' l' n' hm
    obtain ⟨harm, hge⟩ := h5 a' l' n' hm
    exact ⟨List.mem_cons_of_mem _ harm, hge⟩

/-- Executing an armed prune step. -/
theorem invR_prune {rows : List Row} {armed pruned : List (Nat × Nat × Nat)}
    (hI : InvR Hh lg pf rows armed pruned) (a l n : Nat) (harm : (a, l, n) ∈ armed) :
    InvR Hh lg pf (rows.filter (fun r => !(inLog a l r && r.seq < n))) armed ((a, l, n) :: pruned) := by
  obtain ⟨h1, h2, h3, h4, h5⟩ := hI
  have hkeep : ∀ x, x ∈ rows.filter (fun r => !(inLog a l r && r.seq < n)) ↔
      x ∈ rows ∧ ¬ (inLog a l x = true ∧ x.seq < n) := by
    intro x
    simp only [List.mem_filter, Bool.not_eq_eq_eq_not, Bool.not_true, Bool.and_eq_false_imp,
      decide_eq_false_iff_not, Nat.not_lt, not_and]
  obtain ⟨⟨w, hw, hwl, hwn⟩, hflag⟩ := h4 a l n harm
  refine ⟨?_, ?_, ?_, ?_, ?_⟩
  · intro x hx; exact h1 x ((hkeep x).1 hx).1
  · exact h2.filter _
  · intro x hx hpos hpr
    obtain ⟨hxr, hxk⟩ := (hkeep x).1 hx
    obtain ⟨p, hp, hpa, hpl, hps, hpb⟩ := h3 x hxr hpos hpr
    refine ⟨p, (hkeep p).2 ⟨hp, ?_⟩, hpa, hpl, hps, hpb⟩
    rintro ⟨hpin, hplt⟩
    -- the predecessor would be deleted: then `x` sits exactly at the prune point and is flagged
    have hp' := (inLog_iff a l p).1 hpin
    have hxin : inLog a l x = true := (inLog_iff a l x).2 ⟨by rw [← hpa, hp'.1], by rw [← hpl, hp'.2]⟩
    have hxge : ¬ x.seq < n := fun hlt => hxk ⟨hxin, hlt⟩
    have hxn : x.seq = n := by omega
    have := hflag x hxr hxin hxn
    rw [hpr] at this; cases this
  · intro a' l' n' hm
    obtain ⟨⟨v, hv, hvl, hvn⟩, hfl⟩ := h4 a' l' n' hm
    refine ⟨?_, fun x hx => hfl x ((hkeep x).1 hx).1⟩
    by_cases hdel : inLog a l v = true ∧ v.seq < n
    · -- the witness is deleted: it is in the pruned log, whose own witness `w ≥ n` survives
      have hv' := (inLog_iff a l v).1 hdel.1
      have hv'' := (inLog_iff a' l' v).1 hvl
      have hw' := (inLog_iff a l w).1 hwl
      refine ⟨w, (hkeep w).2 ⟨hw, fun hh => by omega⟩, ?_, by omega⟩
      exact (inLog_iff a' l' w).2 ⟨by rw [hw'.1, ← hv'.1, hv''.1], by rw [hw'.2, ← hv'.2, hv''.2]⟩
    · exact ⟨v, (hkeep v).2 ⟨hv, hdel⟩, hvl, hvn⟩
  · intro a' l' n' hm
    rcases List.mem_cons.mp hm with heq | hm
    · simp only [Prod.mk.injEq] at heq
      obtain ⟨rfl, rfl, rfl⟩ := heq
      refine ⟨harm, ?_⟩
      intro x hx hxl
      have := ((hkeep x).1 hx).2
      by_cases hlt : x.seq < n'
      · exact absurd ⟨hxl, hlt⟩ this
      · omega
    · obtain ⟨ha, hge⟩ := h5 a' l' n' hm
      exact ⟨ha, fun x hx => hge x ((hkeep x).1 hx).1⟩

/-- One event preserves the invariant. -/
theorem inv_step (hinj : ∀ h₁ h₂ : Header E, Hh h₁ = Hh h₂ → h₁ = h₂)
    (c : ExtCodec E) (tbl : SigTable) (st : Sys) (e : Event E)
    (hI : Inv Hh lg pf st) (he : EvOK Hh e) :
    Inv Hh lg pf (step c tbl lg pf st e).1 := by
  cases e with
  | deliver o topic =>
    obtain ⟨hid1, hid2⟩ := he
    simp only [step, stepWith, Inv]
    generalize hr : ingestStepWith validatePrunableBacklink c tbl st.store o (lg o.op.header) topic
      (pf o.op.header) = r
    have hc := deliver_cases c tbl st.store o (lg o.op.header) topic (pf o.op.header) r hr
    rcases hc with ⟨hs, e, hf⟩ | ⟨hs, ha, hhas, hv⟩ | ⟨hins, hrows, hhas, hv, hvpb⟩
    · simp only [hf, hs]
      simpa [Inv] using hI
    · simp only [ha, hs]
      cases hp : pf o.op.header with
      | false => simpa [Inv] using hI
      | true =>
        simp only [if_true]
        apply invR_arm Hh lg pf hI
        obtain ⟨x, hx, hxid⟩ := hasOp_true _ _ hhas
        obtain ⟨h', e1, e2, e3, e4, e5, e6, _⟩ := hI.hdr x hx
        have : h' = o.op.header := hinj _ _ (by rw [← e1, ← e2, hxid, hid1, hid2])
        subst this
        exact ⟨x, hx, (inLog_iff _ _ _).2 ⟨e3, e4⟩, e5, by rw [e6, hp]⟩
    · simp only [hins, hrows]
      obtain ⟨habove, hunfl⟩ := vpb_ok _ _ _ hvpb
      have hfresh : ∀ x ∈ st.store.rows,
          inLog (rowOf o (lg o.op.header) (pf o.op.header)).author
            (rowOf o (lg o.op.header) (pf o.op.header)).log x = true →
          x.seq < (rowOf o (lg o.op.header) (pf o.op.header)).seq := by
        intro x hx hxl
        simp only [rowOf] at hxl ⊢
        obtain ⟨m, hm⟩ := latest_exists st.store _ _ x hx hxl
        have := (latest_some st.store _ _ m hm).2.2 x hx hxl
        have := habove m hm
        omega
      have hins' : InvR Hh lg pf (st.store.rows ++ [rowOf o (lg o.op.header) (pf o.op.header)])
          st.armed st.pruned := by
        apply invR_insert Hh lg pf hI _ hfresh
        · exact ⟨o.op.header, by simp [rowOf, hid2], by simp [rowOf, hid1], rfl, rfl, rfl, rfl, rfl⟩
        · intro hpos hpr
          simp only [rowOf] at hpos hpr ⊢
          have hu := hunfl hpr
          cases hl : latest st.store o.op.header.key (lg o.op.header) with
          | none => have := hu.2 hl; omega
          | some p =>
            have hu1 := hu.1 p hl
            obtain ⟨hpm, hpl, _⟩ := latest_some st.store _ _ p hl
            have hpl' := (inLog_iff _ _ p).1 hpl
            exact ⟨p, hpm, hpl'.1, hpl'.2, hu1.1, hu1.2⟩
      cases hp : pf o.op.header with
      | false => simpa [hp] using hins'
      | true =>
        simp only [if_true]
        rw [hp] at hins'
        apply invR_arm Hh lg pf hins'
        refine ⟨rowOf o (lg o.op.header) true, by simp, ?_, rfl, ?_⟩
        · simp [inLog, rowOf]
        · simp [rowOf]
  | prune a l n =>
    simp only [step, stepWith, Inv]
    cases hm : st.armed.contains (a, l, n) with
    | false => simpa [Inv] using hI
    | true =>
      simp only [if_true, pruneBelow]
      exact invR_prune Hh lg pf hI a l n (by simpa [List.contains_iff_mem] using hm)

/-- Every state reached from the empty store by well-identified events satisfies the invariant. -/
theorem inv_run (hinj : ∀ h₁ h₂ : Header E, Hh h₁ = Hh h₂ → h₁ = h₂)
    (c : ExtCodec E) (tbl : SigTable) (es : List (Event E)) (st : Sys)
    (hI : Inv Hh lg pf st) (he : ∀ e ∈ es, EvOK Hh e) :
    Inv Hh lg pf (run c tbl lg pf st es) := by
  induction es generalizing st with
  | nil => exact hI
  | cons e es ih =>
    simp only [run, runWith]
    apply ih
    · exact inv_step Hh lg pf hinj c tbl st e hI (he e (by simp))
    · intro e' he'; exact he e' (by simp [he'])

end Inv

/-! ### Ties to the source text (rs2lean) -/

/-- numbering of `OperationError` used by the regenerated definitions -/
def errCode : OpErr → Nat
  | .unsupportedVersion => 0 | .missingSignature => 1 | .signatureMismatch => 2 | .seqNumMismatch => 3
  | .inconsistentPayloadInfo => 4 | .missingPayloadHash => 5 | .payloadMismatch => 6 | .tooManyAuthors => 7
  | .seqNumNonIncremental => 8 | .backlinkMissing => 9 | .backlinkMismatch => 10

def codeOf : Except OpErr Unit → Except Nat Unit
  | .ok () => .ok ()
  | .error e => .error (errCode e)

/-- what `validate_prunable_backlink` reads of the stored latest header -/
def pastTriple (r : Row) : Nat × Nat × Nat := (r.author, r.seq, r.hid)

/-- a row carrying exactly the triple (the other columns are not read by `validate_backlink`) -/
def rowOfTriple (p : Nat × Nat × Nat) : Row :=
  { id := 0, author := p.1, log := 0, seq := p.2.1, hid := p.2.2, backlink := none, prune := false,
    payloadSize := 0, hasBody := false }

theorem validateBacklink_triple {E : Type} (r : Row) (h : Header E) :
    validateBacklink (rowOfTriple (pastTriple r)) h = validateBacklink r h := rfl

/-- The term `rs2lean` generates from the current body of `validate_prunable_backlink`
    (p2panda-core/src/prune.rs), copied here once; the property files require the freshly
    regenerated definition to be this term (`rfl`) and `vpb_eq_spec` ties it to the model. -/
def validatePrunableSpec (past : Option (Nat × Nat × Nat)) (hseq hkey : Nat) (pruneFlag : Bool)
    (validateBacklink : Nat × Nat × Nat → Except Nat Unit) : Except Nat Unit :=
  (if (hseq > 0) then (if (¬ (pruneFlag = true)) then (match past with | (some past_header_1) => (validateBacklink past_header_1) | none => (.error 9)) else (match past with | (some past_header_2) => (if (past_header_2.1 ≠ hkey) then (.error 7) else (match past with | (some past_header_3) => (if (hseq ≤ past_header_3.2.1) then (.error 8) else (.ok ())) | _ => (.ok ()))) | _ => (match past with | (some past_header_3) => (if (hseq ≤ past_header_3.2.1) then (.error 8) else (.ok ())) | _ => (.ok ())))) else (match past with | (some past_header_4) => (validateBacklink past_header_4) | none => (.ok ())))

/-- The model's repaired `validatePrunableBacklink` is the regenerated source term. -/
theorem vpb_eq_spec {E : Type} (past : Option Row) (h : Header E) (prune : Bool) :
    codeOf (validatePrunableBacklink past h prune) =
      validatePrunableSpec (past.map pastTriple) h.seq h.key prune
        (fun p => codeOf (validateBacklink (rowOfTriple p) h)) := by
  unfold validatePrunableBacklink validatePrunableSpec
  cases past with
  | none =>
    by_cases hq : h.seq > 0 <;> cases prune <;> simp [hq, codeOf, errCode]
  | some r =>
    simp only [Option.map_some, validateBacklink_triple]
    by_cases hq : h.seq > 0
    · cases prune
      · simp [hq]
      · by_cases ha : r.author = h.key
        · by_cases hle : h.seq ≤ r.seq <;> simp [hq, ha, hle, codeOf, errCode, pastTriple]
        · simp [hq, ha, codeOf, errCode, pastTriple]
    · simp [hq]

end P2.LogStoreLemmas
