/-
Finite-map lemmas about the association-list representation in `P2.Model.GroupState`
(shared by the C31 / C32 / C33 property files).
-/
import P2.Model.GroupState

namespace P2.GroupState

set_option linter.unusedSectionVars false
variable {C K : Type} [DecidableEq K]

instance (s : State K C) : Decidable (WF s) := by unfold WF; exact inferInstance

theorem get?_nil (k : K) : get? ([] : State K C) k = none := rfl

theorem get?_cons (k' : K) (v : MemberState C) (s : State K C) (k : K) :
    get? ((k', v) :: s) k = if k' = k then some v else get? s k := rfl

theorem get?_eq_none_iff (s : State K C) (k : K) : get? s k = none ↔ k ∉ keys s := by
  induction s with
  | nil => simp [get?, keys]
  | cons p s ih =>
    obtain ⟨k', v⟩ := p
    simp only [get?_cons, keys, List.map_cons, List.mem_cons, not_or]
    by_cases h : k' = k
    · simp [h]
    · simp only [h, if_false]
      rw [ih]
      simp only [keys]
      constructor
      · intro h2; exact ⟨fun e => h e.symm, h2⟩
      · intro h2; exact h2.2

theorem get?_isSome_iff (s : State K C) (k : K) : (get? s k).isSome ↔ k ∈ keys s := by
  have := get?_eq_none_iff s k
  cases h : get? s k <;> simp_all

theorem mem_of_get? (s : State K C) (k : K) (v : MemberState C) (h : get? s k = some v) :
    (k, v) ∈ s := by
  induction s with
  | nil => simp [get?] at h
  | cons p s ih =>
    obtain ⟨k', v'⟩ := p
    simp only [get?_cons] at h
    by_cases hk : k' = k
    · simp only [hk, if_true, Option.some.injEq] at h
      subst hk; subst h; exact List.mem_cons_self
    · simp only [hk, if_false] at h
      exact List.mem_cons_of_mem _ (ih h)

theorem get?_of_mem (s : State K C) (hw : WF s) (k : K) (v : MemberState C) (h : (k, v) ∈ s) :
    get? s k = some v := by
  induction s with
  | nil => simp at h
  | cons p s ih =>
    obtain ⟨k', v'⟩ := p
    simp only [WF, keys, List.map_cons, List.nodup_cons] at hw
    simp only [get?_cons]
    rcases List.mem_cons.1 h with h | h
    · simp only [Prod.mk.injEq] at h
      simp [h.1, h.2]
    · have : k' ≠ k := by
        intro e; subst e
        exact hw.1 (List.mem_map.2 ⟨(k', v), h, rfl⟩)
      simp only [this, if_false]
      exact ih hw.2 h

theorem keys_setVal (s : State K C) (k : K) (v : MemberState C) : keys (setVal s k v) = keys s := by
  induction s with
  | nil => rfl
  | cons p s ih =>
    simp only [setVal, keys, List.map_cons, List.map_map] at *
    by_cases h : p.1 = k <;> simp [h, ih]

theorem get?_setVal (s : State K C) (k : K) (v : MemberState C) (k' : K) :
    get? (setVal s k v) k' =
      if k' = k then (if (get? s k).isSome then some v else none) else get? s k' := by
  induction s with
  | nil => simp [setVal, get?]
  | cons p s ih =>
    obtain ⟨a, b⟩ := p
    simp only [setVal, List.map_cons] at *
    by_cases ha : a = k
    · subst ha
      simp only [if_true, get?_cons]
      by_cases hk : a = k'
      · subst hk; simp
      · have : ¬ k' = a := fun e => hk e.symm
        simp only [hk, if_false, this]
        rw [ih]; simp [this]
    · simp only [ha, if_false, get?_cons]
      by_cases hk : a = k'
      · subst hk; simp [ha]
      · simp only [hk, if_false]
        rw [ih]

theorem get?_append_single (s : State K C) (k : K) (v : MemberState C) (k' : K) :
    get? (s ++ [(k, v)]) k' =
      match get? s k' with
      | some x => some x
      | none => if k = k' then some v else none := by
  induction s with
  | nil => simp [get?]
  | cons p s ih =>
    obtain ⟨a, b⟩ := p
    simp only [List.cons_append, get?_cons]
    by_cases ha : a = k' <;> simp [ha, ih]

theorem keys_append_single (s : State K C) (k : K) (v : MemberState C) :
    keys (s ++ [(k, v)]) = keys s ++ [k] := by
  simp [keys]

theorem wf_setVal (s : State K C) (k : K) (v : MemberState C) (h : WF s) : WF (setVal s k v) := by
  unfold WF; rw [keys_setVal]; exact h

theorem wf_append_single (s : State K C) (k : K) (v : MemberState C) (h : WF s)
    (hk : get? s k = none) : WF (s ++ [(k, v)]) := by
  unfold WF at *
  rw [keys_append_single, List.nodup_append]
  refine ⟨h, by simp, ?_⟩
  intro a ha b hb
  simp only [List.mem_singleton] at hb
  subst hb
  intro e; subst e
  exact (get?_eq_none_iff s a).1 hk ha

theorem wf_upsert (s : State K C) (k : K) (v : MemberState C) (h : WF s) : WF (upsert s k v) := by
  unfold upsert
  cases hg : get? s k with
  | some x => exact wf_setVal s k v h
  | none => exact wf_append_single s k v h hg

theorem get?_upsert (s : State K C) (k : K) (v : MemberState C) (k' : K) :
    get? (upsert s k v) k' = if k' = k then some v else get? s k' := by
  unfold upsert
  cases hg : get? s k with
  | some x =>
    simp only [get?_setVal, hg, Option.isSome_some, if_true]
  | none =>
    simp only [get?_append_single]
    by_cases hk : k' = k
    · subst hk; simp [hg]
    · have : ¬ k = k' := fun e => hk e.symm
      simp only [hk, this, if_false]
      cases get? s k' <;> rfl

/-! ### merge -/

theorem get?_mergeStep (lt : Access C → Access C → Bool) (next : State K C)
    (id : K) (m1 : MemberState C) (k : K) :
    get? (mergeStep lt next (id, m1)) k =
      if k = id then mergeOpt lt (some m1) (get? next id) else get? next k := by
  unfold mergeStep
  cases hg : get? next id with
  | some m =>
    simp only [get?_setVal, hg, Option.isSome_some, if_true, mergeOpt]
  | none =>
    simp only [get?_append_single, mergeOpt]
    by_cases hk : k = id
    · subst hk; simp [hg]
    · have : ¬ id = k := fun e => hk e.symm
      simp only [hk, this, if_false]
      cases get? next k <;> rfl

theorem wf_mergeStep (lt : Access C → Access C → Bool) (next : State K C)
    (p : K × MemberState C) (h : WF next) : WF (mergeStep lt next p) := by
  unfold mergeStep
  cases hg : get? next p.1 with
  | some m => exact wf_setVal _ _ _ h
  | none => exact wf_append_single _ _ _ h hg

theorem wf_merge (lt : Access C → Access C → Bool) (s1 s2 : State K C) (h : WF s2) :
    WF (merge lt s1 s2) := by
  unfold merge
  induction s1 generalizing s2 with
  | nil => exact h
  | cons p s1 ih => exact ih _ (wf_mergeStep lt s2 p h)

/-- `state::merge` is the pointwise merge of the two finite maps. -/
theorem get?_merge (lt : Access C → Access C → Bool) (s1 s2 : State K C) (h1 : WF s1) (k : K) :
    get? (merge lt s1 s2) k = mergeOpt lt (get? s1 k) (get? s2 k) := by
  unfold merge
  induction s1 generalizing s2 with
  | nil => simp [get?, mergeOpt]
  | cons p s1 ih =>
    obtain ⟨id, m1⟩ := p
    simp only [WF, keys, List.map_cons, List.nodup_cons] at h1
    simp only [List.foldl_cons]
    rw [ih _ h1.2, get?_mergeStep, get?_cons]
    by_cases hk : id = k
    · subst hk
      have : get? s1 id = none := (get?_eq_none_iff s1 id).2 h1.1
      simp [this, mergeOpt]
    · have : ¬ k = id := fun e => hk e.symm
      simp [hk, this]

/-- The three sequential `if`s of `merge` select the "better" of the two entries. -/
def better (lt : Access C → Access C → Bool) (a b : MemberState C) : Prop :=
  a.mc > b.mc ∨ (a.mc = b.mc ∧ (a.ac > b.ac ∨ (a.ac = b.ac ∧ lt a.access b.access = true)))

instance (lt : Access C → Access C → Bool) (a b : MemberState C) : Decidable (better lt a b) := by
  unfold better; exact inferInstance

theorem mergeMember_eq (lt : Access C → Access C → Bool) (a b : MemberState C) :
    mergeMember lt a b = if better lt a b then a else b := by
  obtain ⟨amc, aacc, aac⟩ := a
  obtain ⟨bmc, bacc, bac⟩ := b
  unfold mergeMember better
  simp only
  rcases Nat.lt_trichotomy amc bmc with h | h | h
  · have h1 : ¬ amc > bmc := by omega
    have h2 : ¬ amc = bmc := by omega
    simp [h1, h2]
  · subst h
    simp only [gt_iff_lt, Nat.lt_irrefl, if_false, true_and, false_or, if_true]
    rcases Nat.lt_trichotomy aac bac with g | g | g
    · have g1 : ¬ bac < aac := by omega
      have g2 : ¬ aac = bac := by omega
      simp [g1, g2]
    · subst g
      by_cases hl : lt aacc bacc = true <;> simp [hl]
    · have g2 : ¬ aac = bac := by omega
      simp [g, g2]
  · have h2 : ¬ amc = bmc := by omega
    simp [h, h2]

end P2.GroupState
