/-
Helper definitions and lemmas for C40: per-session projections of an interleaved event
sequence, the declarative "contribution" of one session, sums over session ids.
-/
import P2.Model.SyncMetrics
import P2.Lemmas.Heights

namespace P2.C40
open P2.SyncMetrics P2.Heights

/-- Induction from the right end of a list. -/
theorem rev_induction {α : Type} {P : List α → Prop} (nil : P [])
    (snoc : ∀ t e, P t → P (t ++ [e])) : ∀ l, P l := by
  have h : ∀ l : List α, P l.reverse := by
    intro l
    induction l with
    | nil => exact nil
    | cons a t ih => rw [List.reverse_cons]; exact snoc _ _ ih
  intro l
  have := h l.reverse
  rwa [List.reverse_reverse] at this

/-! ## Traces of one session -/

/-- The events of session `i`, in order. -/
def proj (i : Nat) (evs : List (Nat × Ev)) : List Ev :=
  (evs.filter fun e => e.1 = i).map Prod.snd

/-- Metrics carried by an event (`SessionStarted` registers default metrics). -/
def evMetrics : Ev → Option Metrics
  | .sessionStarted => some Metrics.zero
  | .syncStarted m => some m
  | .operationReceived m => some m
  | .syncFinished m => some m
  | .sessionFinished m => some m
  | .liveModeStarted => none
  | .failed => none

def isEnd : Ev → Bool
  | .sessionFinished _ => true
  | .failed => true
  | _ => false

def isFailed : Ev → Bool
  | .failed => true
  | _ => false

/-- Bytes `(sent, received)` reported by a `SyncFinished` / `SessionFinished` event. -/
def finishBytes : Ev → Option (Nat × Nat)
  | .syncFinished m => some (m.sentBytes, m.recvBytes)
  | .sessionFinished m => some (m.sentBytes, m.recvBytes)
  | _ => none

/-- The last metrics seen for the session (default metrics if none yet). -/
def lastSeen (tr : List Ev) : Metrics :=
  tr.foldl (fun acc e => (evMetrics e).getD acc) Metrics.zero

/-- `(sent, received)` of the last `SyncFinished` / `SessionFinished` seen (`(0, 0)` if none). -/
def lastFinish (tr : List Ev) : Nat × Nat :=
  tr.foldl (fun acc e => (finishBytes e).getD acc) (0, 0)

def ended (tr : List Ev) : Bool := tr.any isEnd
def hasFailed (tr : List Ev) : Bool := tr.any isFailed

/-- **What one session contributes to the topic totals** `(sent, received)`:
    the cumulative byte counters of its last `SyncFinished` / `SessionFinished`; for a session
    that failed, the last metrics seen before the failure. -/
def contribution (tr : List Ev) : Nat × Nat :=
  if hasFailed tr then ((lastSeen tr).sentBytes, (lastSeen tr).recvBytes) else lastFinish tr

/-- Order constraints on the trace of one session: nothing follows `SessionFinished` /
    `Failed`, and `SessionStarted` can only be the first event. -/
structure WFOrder (tr : List Ev) : Prop where
  endLast : ∀ pre e post, tr = pre ++ e :: post → isEnd e = true → post = []
  startFirst : ∀ pre post, tr = pre ++ Ev.sessionStarted :: post → pre = []

/-- Well-formed trace of one session (implied by the documented session grammar): the order
    constraints, and the cumulative byte counters never decrease. -/
structure WFTrace (tr : List Ev) : Prop extends WFOrder tr where
  mono : (tr.filterMap evMetrics).Pairwise
    fun a b => a.sentBytes ≤ b.sentBytes ∧ a.recvBytes ≤ b.recvBytes

theorem lastSeen_snoc (tr : List Ev) (e : Ev) :
    lastSeen (tr ++ [e]) = (evMetrics e).getD (lastSeen tr) := by
  simp [lastSeen, List.foldl_append]

theorem lastFinish_snoc (tr : List Ev) (e : Ev) :
    lastFinish (tr ++ [e]) = (finishBytes e).getD (lastFinish tr) := by
  simp [lastFinish, List.foldl_append]

theorem ended_snoc (tr : List Ev) (e : Ev) : ended (tr ++ [e]) = (ended tr || isEnd e) := by
  simp [ended, List.any_append]

theorem hasFailed_snoc (tr : List Ev) (e : Ev) :
    hasFailed (tr ++ [e]) = (hasFailed tr || isFailed e) := by
  simp [hasFailed, List.any_append]

theorem hasFailed_le_ended (tr : List Ev) (h : ended tr = false) : hasFailed tr = false := by
  unfold ended at h; unfold hasFailed
  rw [List.any_eq_false] at *
  intro x hx
  have := h x hx
  cases x <;> simp_all [isEnd, isFailed]

/-- In a well-formed trace extended by one event, the old part contains no end event. -/
theorem WFOrder.not_ended_of_snoc {tr : List Ev} {e : Ev} (h : WFOrder (tr ++ [e])) :
    ended tr = false := by
  unfold ended
  rw [List.any_eq_false]
  intro x hx
  obtain ⟨pre, post, rfl⟩ := List.append_of_mem hx
  cases hxe : isEnd x with
  | false => simp
  | true =>
    have := h.endLast pre x (post ++ [e]) (by simp) hxe
    simp at this

theorem WFOrder.of_snoc {tr : List Ev} {e : Ev} (h : WFOrder (tr ++ [e])) : WFOrder tr := by
  refine ⟨?_, ?_⟩
  · intro pre x post hx hxe
    have := h.endLast pre x (post ++ [e]) (by rw [hx]; simp) hxe
    simp at this
  · intro pre post hx
    exact h.startFirst pre (post ++ [e]) (by rw [hx]; simp)

theorem WFOrder.start_only_first {tr : List Ev} (h : WFOrder (tr ++ [Ev.sessionStarted])) :
    tr = [] := h.startFirst tr [] rfl

theorem WFTrace.not_ended_of_snoc {tr : List Ev} {e : Ev} (h : WFTrace (tr ++ [e])) :
    ended tr = false := h.toWFOrder.not_ended_of_snoc

theorem WFTrace.of_snoc {tr : List Ev} {e : Ev} (h : WFTrace (tr ++ [e])) : WFTrace tr := by
  refine ⟨h.toWFOrder.of_snoc, ?_⟩
  have := h.mono
  rw [List.filterMap_append, List.pairwise_append] at this
  exact this.1

theorem WFTrace.start_only_first {tr : List Ev} (h : WFTrace (tr ++ [Ev.sessionStarted])) :
    tr = [] := h.toWFOrder.start_only_first

theorem lastSeen_zero_or_mem (tr : List Ev) :
    lastSeen tr = Metrics.zero ∨ lastSeen tr ∈ tr.filterMap evMetrics := by
  induction tr using rev_induction with
  | nil => left; rfl
  | snoc t e ih =>
    rw [lastSeen_snoc, List.filterMap_append]
    cases he : evMetrics e with
    | none =>
      simp only [Option.getD_none]
      rcases ih with h | h
      · left; exact h
      · right; exact List.mem_append_left _ h
    | some m =>
      right
      simp [he]

/-- The metrics of a new event dominate the last metrics seen before. -/
theorem WFTrace.lastSeen_le {tr : List Ev} {e : Ev} {m : Metrics} (h : WFTrace (tr ++ [e]))
    (he : evMetrics e = some m) :
    (lastSeen tr).sentBytes ≤ m.sentBytes ∧ (lastSeen tr).recvBytes ≤ m.recvBytes := by
  have hm := h.mono
  rw [List.filterMap_append, List.pairwise_append] at hm
  rcases lastSeen_zero_or_mem tr with hz | hmem
  · rw [hz]; simp [Metrics.zero, Metrics.sentBytes, Metrics.recvBytes]
  · exact hm.2.2 _ hmem m (by simp [he])

/-- In a well-formed, not yet ended trace the bytes already counted are at most the last
    metrics seen. -/
theorem WFTrace.lastFinish_le_lastSeen {tr : List Ev} (h : WFTrace tr) :
    (lastFinish tr).1 ≤ (lastSeen tr).sentBytes ∧ (lastFinish tr).2 ≤ (lastSeen tr).recvBytes := by
  induction tr using rev_induction with
  | nil => simp [lastFinish, lastSeen, Metrics.zero, Metrics.sentBytes, Metrics.recvBytes]
  | snoc t e ih =>
    have iht := ih h.of_snoc
    rw [lastFinish_snoc, lastSeen_snoc]
    cases e with
    | sessionStarted =>
      have : t = [] := h.start_only_first
      subst this
      simp [finishBytes, evMetrics, lastFinish, Metrics.zero, Metrics.sentBytes, Metrics.recvBytes]
    | syncStarted m =>
      have := h.lastSeen_le (m := m) rfl
      simp only [finishBytes, evMetrics, Option.getD_none, Option.getD_some]
      omega
    | operationReceived m =>
      have := h.lastSeen_le (m := m) rfl
      simp only [finishBytes, evMetrics, Option.getD_none, Option.getD_some]
      omega
    | syncFinished m => simp [finishBytes, evMetrics]
    | sessionFinished m => simp [finishBytes, evMetrics]
    | liveModeStarted => simpa [finishBytes, evMetrics] using iht
    | failed => simpa [finishBytes, evMetrics] using iht

/-! ## Projections of an interleaving -/

theorem proj_snoc (j i : Nat) (evs : List (Nat × Ev)) (e : Ev) :
    proj j (evs ++ [(i, e)]) = if i = j then proj j evs ++ [e] else proj j evs := by
  unfold proj
  rw [List.filter_append]
  by_cases h : i = j <;> simp [h]

theorem proj_nil_of_not_mem (j : Nat) (evs : List (Nat × Ev)) (h : ∀ e ∈ evs, e.1 ≠ j) :
    proj j evs = [] := by
  unfold proj
  rw [List.map_eq_nil_iff, List.filter_eq_nil_iff]
  intro e he
  simpa using h e he

/-! ## Sums over session ids -/

def sumOver (U : List Nat) (f : Nat → Nat) : Nat := (U.map f).sum

theorem sumOver_congr (U : List Nat) (f g : Nat → Nat) (h : ∀ j ∈ U, g j = f j) :
    sumOver U g = sumOver U f := by
  unfold sumOver
  congr 1
  exact List.map_congr_left h

theorem sumOver_update (U : List Nat) (hU : U.Nodup) (i : Nat) (hi : i ∈ U) (f g : Nat → Nat)
    (hfg : ∀ j, j ≠ i → g j = f j) : sumOver U g + f i = sumOver U f + g i := by
  induction U with
  | nil => simp at hi
  | cons a t ih =>
    have hnd : a ∉ t ∧ t.Nodup := by simpa using hU
    unfold sumOver at *
    simp only [List.map_cons, List.sum_cons]
    by_cases ha : a = i
    · subst ha
      have : t.map g = t.map f := List.map_congr_left (fun j hj => hfg j (fun h => hnd.1 (h ▸ hj)))
      rw [this]; omega
    · have hit : i ∈ t := by
        rcases List.mem_cons.1 hi with h | h
        · exact absurd h.symm ha
        · exact h
      have := ih hnd.2 hit
      rw [hfg a ha]; omega

theorem le_sumOver (U : List Nat) (i : Nat) (hi : i ∈ U) (f : Nat → Nat) : f i ≤ sumOver U f := by
  induction U with
  | nil => simp at hi
  | cons a t ih =>
    unfold sumOver at *
    simp only [List.map_cons, List.sum_cons]
    rcases List.mem_cons.1 hi with h | h
    · subst h; omega
    · have := ih h; omega

/-! ## Association-list facts for `remove` -/

theorem lookup_remove {V : Type} (j i : Nat) (m : List (Nat × V)) :
    lookup j (remove i m) = if j = i then none else lookup j m := by
  induction m with
  | nil => simp [remove, lookup]
  | cons e t ih =>
    obtain ⟨k, v⟩ := e
    unfold remove at *
    by_cases hk : k = i
    · subst hk
      simp only [List.filter_cons, ne_eq, not_true_eq_false, decide_false, Bool.false_eq_true,
        if_false, ih]
      by_cases hj : j = k
      · simp [hj]
      · have : ¬ k = j := fun h => hj h.symm
        simp [hj, lookup, this]
    · simp only [List.filter_cons, ne_eq, hk, not_false_eq_true, decide_true, if_true, lookup, ih]
      by_cases hj : j = i
      · subst hj; simp [hk]
      · simp [hj]

end P2.C40
