def hello := "world"
