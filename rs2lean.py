#!/usr/bin/env python3
"""
rs2lean — a small symbolic translator from a subset of Rust function bodies to Lean 4 terms.

Purpose (DESIGN.md §4.2): for decision logic that fits the subset (straight-line code, `let`, `if/else`, early
`return`, assignments to `self.<field>` / locals, arithmetic and comparisons, inlined `self.method()` calls), the
Lean definition is *regenerated from /repo's current source text on every run*; a theorem in P2/Props/Cxx.lean
then states that the hand-written model equals the regenerated definition (`… = …` by `rfl`/`simp`), so an edit
to the Rust function changes the generated term and breaks that proof obligation before any input is generated.

The translator executes the function body *symbolically*: an environment maps locals and mutable places
(`self.value`, …) to Lean terms; `if` merges the two branch states place by place into `if c then a else b`;
`return e` / the tail expression give the result.  Everything outside the subset is an error (reported by
./check as "extraction failed" = the tie no longer checks) — never a silent default.

Spec (one entry of "translate" in props/Cxx.json):
  file, fn, [impl] (text that must occur in the `impl` header enclosing the fn), lean_name,
  params  e.g. "(t l now : Nat)",  ret  e.g. "Nat × Nat",
  atoms   {rust expression text (whitespace-free) -> Lean term}   opaque leaves: fields, external calls, constants;
          `{x}` inside the Lean term is replaced by the current symbolic value of the Rust local `x`
  outputs list of "return" and/or place names ("self.value"); the generated def returns them as a tuple in this order
  inline  [method names of the same impl that are inlined when called as self.m(...)]
  ctor    {"Self": "tuple"|"<LeanCtor>"}  how `Self(a, b)` / `Self { f: a, .. }` / `Name(a,b)` are rendered
  bool_ret true if the Rust return type is bool (conditions are Props; the result is wrapped in `decide`)
  methods {name: {"value": tpl, "recv": tpl}}  templates ({recv}, {0}, {1}…) for calls on a known place; "recv" updates the place
  patterns {rust path: lean pattern/term}  for `match` arms and enum constants, e.g. {"Ordering::Less": ".lt"}
  effects {statement text: {place: lean template}}  effect of an opaque statement on modelled places ({place}/{local} = current values)
  anchor  regex inside the fn body; only the `{…}` block that follows the match is translated (body of a loop / closure)

Also supported: `match` on Option / Result / tuples / enum constants with guards and or-patterns (first-match
semantics, compiled to nested Lean `match`), `let Some(x) = e else { return … };`, let-chains
`if let Some(x) = e && cond`, closures as opaque text inside atoms keys (`.and_modify(|m| …)`).
"""
import json
import re
import sys


class TranslateError(Exception):
    pass


# ----------------------------------------------------------------------------------------------
# locating functions
# ----------------------------------------------------------------------------------------------

def strip_comments(src):
    out, i, n = [], 0, len(src)
    while i < n:
        if src.startswith("//", i):
            j = src.find("\n", i)
            i = n if j < 0 else j
        elif src.startswith("/*", i):
            j = src.find("*/", i + 2)
            i = n if j < 0 else j + 2
        elif src[i] == '"':
            j = i + 1
            while j < n and src[j] != '"':
                j += 2 if src[j] == "\\" else 1
            out.append(src[i:j + 1])
            i = j + 1
        else:
            out.append(src[i])
            i += 1
    return "".join(out)


def balanced(src, open_idx, o="{", c="}"):
    depth = 0
    for k in range(open_idx, len(src)):
        if src[k] == o:
            depth += 1
        elif src[k] == c:
            depth -= 1
            if depth == 0:
                return k
    raise TranslateError("unbalanced braces")


def find_fn(src, name, impl=None):
    """Return (signature, body_text) of `fn name` (inside an impl block whose header contains `impl` text)."""
    src = strip_comments(src)
    scope = src
    if impl:
        found = None
        for m in re.finditer(r"\bimpl\b[^{;]*\{", src):
            header = m.group(0)
            if impl in " ".join(header.split()):
                end = balanced(src, m.end() - 1)
                block = src[m.end():end]
                if re.search(r"\bfn\s+" + re.escape(name) + r"\b", block):
                    found = block
                    break
        if found is None:
            raise TranslateError(f"impl block containing {impl!r} with fn {name} not found")
        scope = found
    m = re.search(r"\bfn\s+" + re.escape(name) + r"\b[^{;]*\{", scope)
    if not m:
        raise TranslateError(f"fn {name} not found")
    end = balanced(scope, m.end() - 1)
    return " ".join(m.group(0)[:-1].split()), scope[m.end():end]


# ----------------------------------------------------------------------------------------------
# tokens
# ----------------------------------------------------------------------------------------------

TOKEN = re.compile(r"""
    (?P<ws>\s+)
  | (?P<num>\d[\d_]*(?:\.\d+)?(?:[iu](?:8|16|32|64|128|size))?)
  | (?P<id>[A-Za-z_][A-Za-z_0-9]*)
  | (?P<str>"(?:\\.|[^"\\])*")
  | (?P<op>::|->|=>|==|!=|<=|>=|&&|\|\||\+=|-=|\*=|/=|\.\.=|\.\.|[-+*/%<>=!&|.,;:(){}\[\]?#])
""", re.X)


def tokenize(s):
    toks, i = [], 0
    while i < len(s):
        m = TOKEN.match(s, i)
        if not m:
            raise TranslateError(f"cannot tokenize at: {s[i:i+30]!r}")
        i = m.end()
        if m.lastgroup != "ws":
            toks.append((m.lastgroup, m.group(0)))
    return toks


# ----------------------------------------------------------------------------------------------
# parser (Rust expression / statement subset) -> AST tuples
# ----------------------------------------------------------------------------------------------

class Parser:
    def __init__(self, toks):
        self.t, self.i = toks, 0

    def peek(self, k=0):
        return self.t[self.i + k] if self.i + k < len(self.t) else ("eof", "")

    def next(self):
        tok = self.peek()
        self.i += 1
        return tok

    def accept(self, v):
        if self.peek()[1] == v:
            self.i += 1
            return True
        return False

    def expect(self, v):
        if not self.accept(v):
            raise TranslateError(f"expected {v!r}, found {self.peek()[1]!r}")

    # block := '{' stmt* [expr] '}'   (the opening brace is already consumed by the caller when top level)
    def block_body(self, until="}"):
        stmts = []
        while self.peek()[1] != until and self.peek()[0] != "eof":
            stmts.append(self.stmt())
        return ("block", stmts)

    def block(self):
        self.expect("{")
        b = self.block_body()
        self.expect("}")
        return b

    def stmt(self):
        kind, v = self.peek()
        if v == "let" and self.peek(1)[1] in ("Some", "Ok") and self.peek(2)[1] == "(":
            self.next()
            ctor = self.next()[1]
            self.expect("(")
            var = self.next()[1]
            self.expect(")")
            self.expect("=")
            e = self.expr(no_struct=True)
            self.expect("else")
            els = self.block()
            self.expect(";")
            return ("letelse", ctor, var, e, els)
        if v == "let":
            self.next()
            self.accept("mut")
            pat = self.pattern()
            if self.accept(":"):
                self.skip_type()
            self.expect("=")
            e = self.expr()
            self.expect(";")
            return ("let", pat, e)
        if v == "return":
            self.next()
            e = None if self.peek()[1] == ";" else self.expr()
            self.accept(";")
            return ("return", e)
        if v == "#":  # attribute
            self.next()
            self.expect("[")
            depth = 1
            while depth:
                t = self.next()[1]
                depth += (t == "[") - (t == "]")
            return ("nop",)
        e = self.expr()
        if self.peek()[1] in ("=", "+=", "-=", "*=", "/="):
            op = self.next()[1]
            rhs = self.expr()
            self.expect(";")
            return ("assign", e, op, rhs)
        if self.accept(";"):
            return ("exprstmt", e)
        if e[0] in ("if", "iflet", "blockexpr", "match") and self.peek()[1] not in ("}", ".", "?") and self.peek()[0] != "eof":
            return ("exprstmt", e)
        return ("tail", e)

    def pattern(self):
        if self.accept("("):
            names = []
            while not self.accept(")"):
                names.append(self.pattern())
                self.accept(",")
            return ("ptuple", names)
        k, v = self.next()
        if k != "id":
            raise TranslateError(f"unsupported pattern at {v!r}")
        return ("pvar", v)

    def skip_type(self):
        depth = 0
        while True:
            v = self.peek()[1]
            if depth == 0 and v in ("=", ";", ")", ","):
                return
            depth += (v in "<([") - (v in ">)]")
            self.next()

    PREC = [("||",), ("&&",), ("==", "!=", "<", ">", "<=", ">="), ("|",), ("&",), ("+", "-"), ("*", "/", "%")]

    def expr(self, level=0, no_struct=False):
        if level == len(self.PREC):
            return self.cast(no_struct)
        lhs = self.expr(level + 1, no_struct)
        while self.peek()[1] in self.PREC[level] and self.peek()[0] == "op":
            op = self.next()[1]
            rhs = self.expr(level + 1, no_struct)
            lhs = ("bin", op, lhs, rhs)
        return lhs

    def cast(self, no_struct):
        e = self.unary(no_struct)
        while self.peek()[1] == "as":
            self.next()
            ty = []
            while self.peek()[0] == "id" or self.peek()[1] == "::":
                ty.append(self.next()[1])
            e = ("cast", e, "".join(ty))
        return e

    def unary(self, no_struct):
        v = self.peek()[1]
        if v in ("!", "-", "*", "&"):
            self.next()
            if v == "&":
                self.accept("mut")
            return ("un", v, self.unary(no_struct))
        return self.postfix(no_struct)

    def args(self):
        out = []
        while not self.accept(")"):
            out.append(self.expr())
            self.accept(",")
        return out

    def postfix(self, no_struct):
        e = self.primary(no_struct)
        while True:
            if self.accept("."):
                k, name = self.next()
                if k == "id" and name == "await":
                    e = ("await", e)
                elif self.peek()[1] == "(":
                    self.next()
                    e = ("mcall", e, name, self.args())
                elif self.peek()[1] == "::":  # turbofish
                    raise TranslateError("turbofish not supported")
                else:
                    e = ("field", e, name)
            elif self.peek()[1] == "(":
                self.next()
                e = ("call", e, self.args())
            elif self.accept("?"):
                e = ("try", e)
            elif self.peek()[1] == "[":
                self.next()
                idx = self.expr()
                self.expect("]")
                e = ("index", e, idx)
            else:
                return e

    def mpattern(self):
        """pattern of a match arm / let-else: _ | ident | Path | Path(p, ..) | (p, ..) | literal | &p | ref p"""
        k, v = self.peek()
        if v in ("&", "ref", "mut"):
            self.next()
            return self.mpattern()
        if v == "(":
            self.next()
            items = []
            while not self.accept(")"):
                items.append(self.mpattern())
                self.accept(",")
            return ("mp_tuple", items)
        self.next()
        if k == "num":
            return ("mp_lit", v.replace("_", ""))
        if k != "id":
            raise TranslateError(f"unsupported match pattern at {v!r}")
        if v == "_":
            return ("mp_wild",)
        path = [v]
        while self.peek()[1] == "::":
            self.next()
            path.append(self.next()[1])
        name = "::".join(path)
        if self.peek()[1] == "(":
            self.next()
            items = []
            while not self.accept(")"):
                items.append(self.mpattern())
                self.accept(",")
            return ("mp_ctor", name, items)
        if len(path) == 1 and (v[0].islower() or v[0] == "_"):
            return ("mp_var", v)
        return ("mp_ctor", name, [])

    def primary(self, no_struct):
        start = self.i
        k, v = self.next()
        if v == "move" and self.peek()[1] in ("|", "||"):
            k, v = self.next()
        if v in ("|", "||") and k == "op":
            # closure: kept as opaque text (usable only through an atoms / methods entry)
            if v == "|":
                while self.next()[1] != "|":
                    pass
            if self.peek()[1] == "{":
                self.block()
            else:
                self.expr()
            return ("closure", "".join(t[1] for t in self.t[start:self.i]))
        if v == "match":
            scrut = self.expr(no_struct=True)
            self.expect("{")
            arms = []
            while not self.accept("}"):
                pats = [self.mpattern()]
                while self.accept("|"):
                    pats.append(self.mpattern())
                guard = None
                if self.accept("if"):
                    guard = self.expr(no_struct=True)
                self.expect("=>")
                if self.peek()[1] == "{":
                    body = self.block()
                else:
                    body = ("block", [("tail", self.expr())])
                self.accept(",")
                arms.append((pats, guard, body))
            return ("match", scrut, arms)
        if k == "num":
            return ("num", re.sub(r"[iu](8|16|32|64|128|size)$", "", v).replace("_", ""))
        if k == "str":
            return ("str", v)
        if v == "(":
            if self.accept(")"):
                return ("tuple", [])
            first = self.expr()
            if self.accept(")"):
                return first
            items = [first]
            while self.accept(","):
                if self.peek()[1] == ")":
                    break
                items.append(self.expr())
            self.expect(")")
            return ("tuple", items)
        if v == "if" and self.peek()[1] == "let":
            self.next()
            ctor = self.next()[1]
            if ctor != "Some":
                raise TranslateError("only `if let Some(x) = e` is supported")
            self.expect("(")
            var = self.next()[1]
            self.expect(")")
            self.expect("=")
            scrut = self.expr(no_struct=True)
            then = self.block()
            els = self.block() if self.accept("else") else None
            return ("iflet", var, scrut, then, els)
        if v == "if":
            cond = self.expr(no_struct=True)
            then = self.block()
            els = None
            if self.accept("else"):
                if self.peek()[1] == "if":
                    els = ("block", [("tail", self.primary(no_struct))])
                else:
                    els = self.block()
            return ("if", cond, then, els)
        if v == "{":
            b = self.block_body()
            self.expect("}")
            return ("blockexpr", b)
        if k == "id":
            path = [v]
            while self.peek()[1] == "::":
                self.next()
                if self.peek()[1] == "<":
                    raise TranslateError("generic path not supported")
                path.append(self.next()[1])
            name = "::".join(path)
            if self.peek()[1] == "{" and not no_struct and path[-1][0].isupper():
                self.next()
                fields = []
                while not self.accept("}"):
                    if self.accept(".."):
                        fields.append(("..", self.expr()))
                    else:
                        fname = self.next()[1]
                        if self.accept(":"):
                            fields.append((fname, self.expr()))
                        else:
                            fields.append((fname, ("path", fname)))
                    self.accept(",")
                return ("struct", name, fields)
            return ("path", name)
        raise TranslateError(f"unsupported token {v!r}")


def unparse(e):
    """Canonical whitespace-free Rust text of an expression (key for the atoms table)."""
    k = e[0]
    if k == "num":
        return e[1]
    if k == "str":
        return e[1]
    if k == "path":
        return e[1]
    if k == "field":
        return unparse(e[1]) + "." + e[2]
    if k == "mcall":
        return unparse(e[1]) + "." + e[2] + "(" + ",".join(unparse(a) for a in e[3]) + ")"
    if k == "call":
        return unparse(e[1]) + "(" + ",".join(unparse(a) for a in e[2]) + ")"
    if k == "bin":
        return "(" + unparse(e[2]) + e[1] + unparse(e[3]) + ")"
    if k == "un":
        return e[1] + unparse(e[2])
    if k == "cast":
        return unparse(e[1]) + " as " + e[2]
    if k == "tuple":
        return "(" + ",".join(unparse(a) for a in e[1]) + ")"
    if k == "try":
        return unparse(e[1]) + "?"
    if k == "index":
        return unparse(e[1]) + "[" + unparse(e[2]) + "]"
    if k == "await":
        return unparse(e[1]) + ".await"
    if k == "closure":
        return e[1]
    return "<" + k + ">"


# ----------------------------------------------------------------------------------------------
# symbolic evaluation to Lean terms
# ----------------------------------------------------------------------------------------------

UNDEF = "«undefined-before-assignment»"
LEAN_BIN = {"+": "+", "-": "-", "*": "*", "/": "/", "%": "%", "==": "=", "!=": "≠", "<": "<", ">": ">",
            "<=": "≤", ">=": "≥", "&&": "∧", "||": "∨"}


class State:
    def __init__(self, locals_, places, ret):
        self.locals, self.places, self.ret = dict(locals_), dict(places), ret  # ret: None or Lean term (already returned)

    def copy(self):
        return State(self.locals, self.places, self.ret)


class Translator:
    def __init__(self, spec, src):
        self.spec, self.src = spec, src
        self.atoms = {re.sub(r"\s+", "", k): v for k, v in spec.get("atoms", {}).items()}
        self.inline = set(spec.get("inline", []))
        self.methods = spec.get("methods", {})
        self.effects = {re.sub(r"\s+", "", k): v for k, v in spec.get("effects", {}).items()}
        self.fresh = 0
        self.ctor = spec.get("ctor", {})
        self.depth = 0

    # ---- expressions ----
    def ex(self, e, st):
        key = re.sub(r"\s+", "", unparse(e))
        k = e[0]
        if k in ("path", "field", "mcall", "call", "index", "cast", "try", "un", "await"):
            if k == "path" and e[1] in st.locals:
                return st.locals[e[1]]
            if key in st.places:
                return st.places[key]
            if key in self.atoms:
                # `{name}` inside an atom's Lean term refers to the current value of the Rust local `name`
                # (needed when a match arm / let-else binds or shadows a variable)
                return re.sub(r"\{(\w+)\}", lambda m: st.locals.get(m.group(1), m.group(0)), self.atoms[key])
        if k == "num":
            return e[1]
        if k == "path":
            raise TranslateError(f"unknown name {e[1]!r} (add it to atoms)")
        if k == "bin":
            a, b = self.ex(e[2], st), self.ex(e[3], st)
            return f"({a} {LEAN_BIN[e[1]]} {b})"
        if k == "un":
            if e[1] in ("*", "&"):
                return self.ex(e[2], st)
            if e[1] == "!":
                return f"(¬ {self.ex(e[2], st)})"
            raise TranslateError("unary minus not supported (unsigned model)")
        if k == "cast":
            return self.ex(e[1], st)
        if k == "tuple":
            return "(" + ", ".join(self.ex(a, st) for a in e[1]) + ")"
        if k == "if":
            return self.if_expr(e, st)
        if k == "iflet":
            return self.iflet_expr(e, st)
        if k == "match":
            return self.match_expr(e, st)
        if k == "blockexpr":
            s2 = st.copy()
            v = self.block(e[1], s2)
            st.places, st.ret = s2.places, s2.ret
            return v
        if k == "mcall":
            recv, name, args = e[1], e[2], e[3]
            # pure built-ins
            if name in ("clone", "into", "to_owned", "as_ref", "deref", "borrow", "copied", "cloned") and not args:
                return self.ex(recv, st)
            if name == "saturating_sub" and len(args) == 1:
                return f"({self.ex(recv, st)} - {self.ex(args[0], st)})"
            if name in ("saturating_add", "wrapping_add") and len(args) == 1:
                return f"({self.ex(recv, st)} + {self.ex(args[0], st)})"
            if name in ("min", "max") and len(args) == 1:
                return f"(Nat.{name} {self.ex(recv, st)} {self.ex(args[0], st)})"
            if unparse(recv) == "self" and name in self.inline:
                return self.inline_call(name, args, st)
            rkey = re.sub(r"\s+", "", unparse(recv))
            if name in self.methods and (rkey in st.places or rkey in self.atoms):
                tpl = self.methods[name]
                cur = st.places.get(rkey, self.atoms.get(rkey))
                argv = [self.ex(a, st) for a in args]
                def fill(t):
                    t = t.replace("{recv}", cur)
                    for i, a in enumerate(argv):
                        t = t.replace("{%d}" % i, a)
                    return t
                if "recv" in tpl:
                    st.places[rkey] = fill(tpl["recv"])
                return fill(tpl["value"]) if "value" in tpl else "()"
            raise TranslateError(f"unknown call {key!r} (add it to atoms or inline)")
        if k == "call":
            fn = unparse(e[1])
            base = fn.split("::")[-1] if fn.startswith("Self") or fn in self.ctor else None
            if fn in self.ctor or (fn.split("::")[0] in self.ctor):
                how = self.ctor.get(fn, self.ctor.get(fn.split("::")[0]))
                args = [self.ex(a, st) for a in e[2]]
                if how == "tuple":
                    return "(" + ", ".join(args) + ")"
                return "(" + how + " " + " ".join(args) + ")"
            raise TranslateError(f"unknown function call {key!r} (add it to atoms)")
        if k == "struct":
            how = self.ctor.get(e[1])
            if not how:
                raise TranslateError(f"struct literal {e[1]} needs a ctor entry")
            fs = [f"{n} := {self.ex(v, st)}" for n, v in e[2] if n != ".."]
            base = [self.ex(v, st) for n, v in e[2] if n == ".."]
            return "{ " + (base[0] + " with " if base else "") + ", ".join(fs) + " }"
        if k == "field":
            raise TranslateError(f"unknown place {key!r} (add it to atoms)")
        raise TranslateError(f"unsupported expression {key!r}")

    def if_expr(self, e, st):
        cond = self.ex(e[1], st)
        s1, s2 = st.copy(), st.copy()
        v1 = self.block(e[2], s1)
        v2 = self.block(e[3], s2) if e[3] else None
        self.merge(st, cond, s1, s2)
        if v1 is not None and v2 is not None:
            return f"(if {cond} then {v1} else {v2})"
        if v1 is None and v2 is None:
            return None
        # one branch returned early (value None because it `return`ed) – handled through st.ret
        return v1 if v1 is not None else v2

    def iflet_expr(self, e, st):
        _, var, scrut, then, els = e
        guard_e = None
        if scrut[0] == "bin" and scrut[1] == "&&":      # let-chain: if let Some(x) = e && cond
            scrut, guard_e = scrut[2], scrut[3]
        sv = self.ex(scrut, st)
        self.fresh += 1
        bound = f"{var}_{self.fresh}"
        s1, s2 = st.copy(), st.copy()
        s1.locals[var] = bound
        guard = self.ex(guard_e, s1) if guard_e is not None else None
        v1 = self.block(then, s1)
        v2 = self.block(els, s2) if els else None

        def pick(a, b):
            if a == b:
                return a
            inner = f"(if {guard} then {a} else {b})" if guard else a
            return f"(match {sv} with | some {bound} => {inner} | none => {b})"

        if s1.ret is not None and s1.ret[0] == "always" and s2.ret is None:
            # `if let … { return r; }` followed by more code: an early return under a match condition
            st.ret = ("iflet-then", (sv, bound, guard), s1.ret, dict(s1.places))
            return None
        if s1.ret is not None or s2.ret is not None:
            raise TranslateError("unsupported return inside `if let`")
        for p in set(s1.places) | set(s2.places):
            a = s1.places.get(p, self.atoms.get(p, UNDEF))
            b = s2.places.get(p, self.atoms.get(p, UNDEF))
            st.places[p] = pick(a, b)
        if v1 is not None and v2 is not None:
            return pick(v1, v2)
        return None

    # ---- match ----
    def lean_pat(self, p, binds):
        k = p[0]
        if k == "mp_wild":
            return "_"
        if k == "mp_lit":
            return p[1]
        if k == "mp_var":
            self.fresh += 1
            binds[p[1]] = f"{p[1]}_{self.fresh}"
            return binds[p[1]]
        if k == "mp_tuple":
            return "(" + ", ".join(self.lean_pat(q, binds) for q in p[1]) + ")"
        name, args = p[1], p[2]
        table = {"Some": "some", "None": "none", "Ok": ".ok", "Err": ".error", "true": "true", "false": "false"}
        table.update(self.spec.get("patterns", {}))
        if name not in table:
            raise TranslateError(f"pattern constructor {name!r} needs a `patterns` entry")
        head = table[name]
        if not args:
            return head
        return "(" + head + " " + " ".join(self.lean_pat(q, binds) for q in args) + ")"

    @staticmethod
    def irrefutable(p):
        return p[0] in ("mp_wild", "mp_var") or (p[0] == "mp_tuple" and all(Translator.irrefutable(q) for q in p[1]))

    def match_expr(self, e, st, tail=True):
        _, scrut, arms = e
        sv = self.ex(scrut, st)
        flat = []   # one entry per (single pattern, guard, body)
        for pats, guard, body in arms:
            for p in pats:
                flat.append((p, guard, body))
        results = []
        for p, guard, body in flat:
            binds = {}
            lp = self.lean_pat(p, binds)
            s1 = st.copy()
            s1.locals.update(binds)
            g = self.ex(guard, s1) if guard is not None else None
            v = self.block(body, s1)
            if s1.ret is not None:
                if s1.ret[0] != "always" or v is not None:
                    raise TranslateError("unsupported return inside a match arm")
                v = s1.ret[1]   # `=> return x` in tail position is the value x
                self.match_returned = True
            results.append((p, lp, g, v, s1.places))

        def build(select, i=0):
            """first-match semantics: runs of unguarded arms become one Lean match; a guarded arm falls through
            to the translation of the remaining arms when its pattern or its guard fails"""
            if i == len(results):
                return None
            p, lp, g, _, _ = results[i]
            if g is None:
                alts, k = [], i
                while k < len(results) and results[k][2] is None:
                    alts.append(f"| {results[k][1]} => {select(results[k])}")
                    k += 1
                    if self.irrefutable(results[k - 1][0]):
                        return f"(match {sv} with {' '.join(alts)})" if len(alts) > 1 or results[k - 1][0][0] != "mp_wild" else select(results[k - 1])
                rest = build(select, k)
                if rest is not None:
                    alts.append(f"| _ => {rest}")
                return f"(match {sv} with {' '.join(alts)})"
            val = select(results[i])
            rest = build(select, i + 1)
            if rest is None:
                raise TranslateError("guarded match arm without a following arm")
            if self.irrefutable(p):
                inner = f"(if {g} then {val} else {rest})"
                return inner if p[0] == "mp_wild" else f"(match {sv} with | {lp} => {inner})"
            return f"(match {sv} with | {lp} => (if {g} then {val} else {rest}) | _ => {rest})"

        for pl in sorted({q for r in results for q in r[4]}):
            vals = [r[4].get(pl, self.atoms.get(pl, UNDEF)) for r in results]
            st.places[pl] = vals[0] if all(v == vals[0] for v in vals) else build(lambda r, pl=pl: r[4].get(pl, self.atoms.get(pl, UNDEF)))
        if all(r[3] is not None for r in results):
            return build(lambda r: r[3])
        if any(r[3] is not None for r in results):
            raise TranslateError("match arms with and without a value")
        return None

    def merge(self, st, cond, s1, s2):
        for p in set(s1.places) | set(s2.places):
            a, b = s1.places.get(p), s2.places.get(p)
            if a is None:
                a = self.atoms.get(p, UNDEF)
            if b is None:
                b = self.atoms.get(p, UNDEF)
            st.places[p] = a if a == b else f"(if {cond} then {a} else {b})"
        for v in set(s1.locals) & set(s2.locals) & set(st.locals):
            a, b = s1.locals[v], s2.locals[v]
            st.locals[v] = a if a == b else f"(if {cond} then {a} else {b})"
        # early returns: ret is a partial result "returned value if returned"
        r1, r2 = s1.ret, s2.ret
        if r1 is None and r2 is None:
            return
        if r1 is not None and r2 is not None:
            st.ret = ("both", cond, r1, r2)
        elif r1 is not None:
            st.ret = ("then", cond, r1, dict(s1.places))
            st.places = dict(s2.places)
        else:
            st.ret = ("else", cond, r2, dict(s2.places))
            st.places = dict(s1.places)

    # ---- statements ----
    def block(self, b, st):
        """Executes a block; returns the Lean term of its tail expression (or None)."""
        stmts = b[1]
        for idx, s in enumerate(stmts):
            k = s[0]
            if k == "nop":
                continue
            if k == "let":
                v = self.ex(s[2], st)
                self.bind(s[1], v, st)
            elif k == "assign":
                place = re.sub(r"\s+", "", unparse(s[1]))
                rhs = self.ex(s[3], st)
                if s[2] != "=":
                    cur = self.ex(s[1], st)
                    rhs = f"({cur} {LEAN_BIN[s[2][0]]} {rhs})"
                if s[1][0] == "path" and s[1][1] in st.locals:
                    st.locals[s[1][1]] = rhs
                else:
                    st.places[place] = rhs
            elif k == "exprstmt":
                e = s[1]
                if e[0] == "if":
                    self.if_expr(e, st)
                elif e[0] == "iflet":
                    self.iflet_expr(e, st)
                elif e[0] == "match":
                    self.match_expr(e, st)
                elif re.sub(r"\s+", "", unparse(e)) in self.effects:
                    # a statement whose effect on the modelled places is given by the spec:
                    # {"stmt text": {"place": "lean template with {place} / {local} / {self.place}"}}
                    upd = self.effects[re.sub(r"\s+", "", unparse(e))]
                    cur = dict(st.places)
                    def fill(t):
                        return re.sub(r"\{([\w.]+)\}", lambda m: cur.get(m.group(1), st.locals.get(m.group(1), self.atoms.get(m.group(1), m.group(0)))), t)
                    for place, tpl in upd.items():
                        st.places[re.sub(r"\s+", "", place)] = fill(tpl)
                elif e[0] == "mcall" and e[2] in self.methods:
                    self.ex(e, st)
                elif e[0] == "mcall" and unparse(e[1]) == "self" and e[2] in self.inline:
                    self.inline_call(e[2], e[3], st)
                elif re.sub(r"\s+", "", unparse(e)) in self.atoms and self.atoms[re.sub(r"\s+", "", unparse(e))] == "":
                    pass  # statement declared effect-free for the model (e.g. logging)
                elif e[0] == "call" and unparse(e[1]) in ("trace!", "debug!", "warn!", "info!"):
                    pass
                else:
                    raise TranslateError(f"statement with unknown effect: {unparse(e)!r}")
                if st.ret is not None and st.ret[0] == "iflet-then":
                    _, (sv, bound, guard), r, ret_places = st.ret
                    st.ret = None
                    tail = self.block(("block", stmts[idx + 1:]), st)
                    if st.ret is not None:
                        tail = self.wrap_ret(st.ret, tail, st) if st.ret[0] != "always" else st.ret[1]
                        st.ret = None

                    def pick(a, b):
                        if a == b:
                            return a
                        inner = f"(if {guard} then {a} else {b})" if guard else a
                        return f"(match {sv} with | some {bound} => {inner} | none => {b})"
                    for p in set(st.places) | set(ret_places):
                        st.places[p] = pick(ret_places.get(p, self.atoms.get(p, UNDEF)), st.places.get(p, self.atoms.get(p, UNDEF)))
                    rv = r[1]
                    if tail is None and rv == "()":
                        return None
                    if tail is None:
                        raise TranslateError("early return with a value but no value on the fall-through path")
                    return pick(rv, tail)
                if st.ret is not None and st.ret[0] in ("then", "else", "both"):
                    # code after a conditional early return: continue symbolically with the rest, then wrap
                    rest = ("block", stmts[idx + 1:])
                    pending = st.ret
                    st.ret = None
                    tail = self.block(rest, st)
                    out = self.wrap_ret(pending, tail, st)
                    if pending[0] in ("then", "else"):
                        for p in set(st.places) | set(pending[3]):
                            a = pending[3].get(p, self.atoms.get(p, UNDEF))
                            b = st.places.get(p, self.atoms.get(p, UNDEF))
                            if pending[0] == "else":
                                a, b = b, a
                            st.places[p] = a if a == b else f"(if {pending[1]} then {a} else {b})"
                    return out
            elif k == "letelse":
                _, ctor, var, scrut, els = s
                sv = self.ex(scrut, st)
                s_else = st.copy()
                self.block(els, s_else)
                if s_else.ret is None or s_else.ret[0] != "always":
                    raise TranslateError("`let … else` block must return")
                self.fresh += 1
                bound = f"{var}_{self.fresh}"
                s_rest = st.copy()
                s_rest.locals[var] = bound
                v_rest = self.block(("block", stmts[idx + 1:]), s_rest)
                if s_rest.ret is not None:
                    v_rest = self.wrap_ret(s_rest.ret, v_rest, s_rest) if s_rest.ret[0] != "always" else s_rest.ret[1]
                if v_rest is None:
                    raise TranslateError("code after `let … else` has no value")
                pat, other = (f"some {bound}", "none") if ctor == "Some" else (f".ok {bound}", ".error _")
                for p in set(s_rest.places) | set(s_else.places):
                    a = s_rest.places.get(p, self.atoms.get(p, UNDEF))
                    b = s_else.places.get(p, self.atoms.get(p, UNDEF))
                    st.places[p] = a if a == b else f"(match {sv} with | {pat} => {a} | {other} => {b})"
                return f"(match {sv} with | {pat} => {v_rest} | {other} => {s_else.ret[1]})"
            elif k == "return":
                st.ret = ("always", self.ex(s[1], st) if s[1] is not None else "()")
                return None
            elif k == "tail":
                e = s[1]
                if e[0] == "if":
                    v = self.if_expr(e, st)
                    if st.ret is not None and st.ret[0] in ("then", "else", "both"):
                        pending = st.ret
                        st.ret = None
                        return self.wrap_ret(pending, v, st)
                    return v
                return self.ex(e, st)
        return None

    def wrap_ret(self, pending, tail, st):
        kind = pending[0]
        if kind == "both":
            return f"(if {pending[1]} then {self.ret_val(pending[2])} else {self.ret_val(pending[3])})"
        if tail is None and st.ret is not None:
            tail = self.ret_val(st.ret)
            st.ret = None
        if tail is None:
            raise TranslateError("early return with no value on the fall-through path")
        if kind == "then":
            return f"(if {pending[1]} then {self.ret_val(pending[2])} else {tail})"
        return f"(if {pending[1]} then {tail} else {self.ret_val(pending[2])})"

    def ret_val(self, r):
        if r[0] == "always":
            return r[1]
        if r[0] == "both":
            return f"(if {r[1]} then {self.ret_val(r[2])} else {self.ret_val(r[3])})"
        raise TranslateError("partial early return in nested position not supported")

    def bind(self, pat, v, st):
        if pat[0] == "pvar":
            st.locals[pat[1]] = v
        else:
            n = len(pat[1])
            for i, p in enumerate(pat[1]):
                proj = f"{v}.{i+1}" if i < n - 1 or n == 2 else f"{v}.{i+1}"
                # Lean tuples are right nested: (a, b, c) = (a, (b, c))
                if n == 2:
                    proj = f"{v}.{i+1}"
                else:
                    proj = v + "".join(".2" for _ in range(i)) + (".1" if i < n - 1 else "")
                self.bind(p, proj, st)

    def inline_call(self, name, args, st):
        self.depth += 1
        if self.depth > 4:
            raise TranslateError("inline depth exceeded")
        sig, body = find_fn(self.src, name, self.spec.get("impl"))
        params = re.findall(r"(\w+)\s*:", sig[sig.index("("):])
        params = [p for p in params if p != "self"]
        s2 = State({}, st.places, None)
        for p, a in zip(params, args):
            s2.locals[p] = self.ex(a, st)
        p = Parser(tokenize(body))
        blk = p.block_body(until="")
        v = self.block(blk, s2)
        st.places = s2.places
        if s2.ret is not None:
            v = self.ret_val(s2.ret) if v is None else v
        self.depth -= 1
        return v


def translate(spec, repo):
    path = f"{repo}/{spec['file']}"
    src = open(path).read()
    sig, body = find_fn(src, spec["fn"], spec.get("impl"))
    tr = Translator(spec, strip_comments(src))
    st = State({}, {}, None)
    for place, term in spec.get("places", {}).items():
        st.places[re.sub(r"\s+", "", place)] = term
    if spec.get("anchor"):
        m = re.search(spec["anchor"], body, re.S)
        if not m:
            raise TranslateError(f"anchor {spec['anchor']!r} not found in fn {spec['fn']}")
        o = body.index("{", m.end() - 1) if body[m.end() - 1] != "{" else m.end() - 1
        body = body[o + 1:balanced(body, o)]
    blk = Parser(tokenize(body)).block_body(until="")
    v = tr.block(blk, st)
    if st.ret is not None:
        if v is None:
            v = tr.ret_val(st.ret)
        else:
            v = tr.wrap_ret(st.ret, v, st) if st.ret[0] != "always" else st.ret[1]
    outs = []
    for o in spec.get("outputs", ["return"]):
        if o == "return":
            if v is None:
                raise TranslateError("function has no result value")
            outs.append(f"decide {v}" if spec.get("bool_ret") else v)
        else:
            key = re.sub(r"\s+", "", o)
            if key not in st.places:
                raise TranslateError(f"output place {o} never assigned")
            outs.append(st.places[key])
    term = outs[0] if len(outs) == 1 else "(" + ", ".join(outs) + ")"
    if UNDEF in term:
        raise TranslateError("an output depends on a place that is assigned in one branch only and has no initial value (add it to places)")
    doc = f"/-- translated from `{spec['file']}` fn `{spec['fn']}`: {sig} -/"
    return f"{doc}\ndef {spec['lean_name']} {spec.get('params','')} : {spec['ret']} :=\n  {term}\n"


if __name__ == "__main__":
    # rs2lean.py SPEC.json REPO  -> prints Lean defs for every entry of "translate"
    cfg = json.load(open(sys.argv[1]))
    repo = sys.argv[2] if len(sys.argv) > 2 else "/repo"
    rc = 0
    for spec in cfg.get("translate", []):
        try:
            print(translate(spec, repo))
        except (TranslateError, OSError, KeyError, IndexError) as e:
            print(f"-- TRANSLATION FAILED {spec.get('lean_name')}: {e}")
            rc = 1
    sys.exit(rc)
