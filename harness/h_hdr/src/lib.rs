//! Shared code of the header / ingest / prune family (C01–C05):
//!
//! * a tiny CBOR reader / writer working on the *stream of item heads* (`Tok`), the level at
//!   which the Lean model (`P2/Model/Header.lean`) describes the (de)serialiser;
//! * order-preserving small ids for byte strings (id order = byte-wise order, i.e. `Ord for Hash`);
//! * the text form of tokens / headers / operations used on request and answer lines.
use std::collections::BTreeMap;

use p2panda_core::{Body, Extensions, Hash, Header, Operation, Signature, SigningKey, VerifyingKey};
use serde::{Deserialize, Serialize};

// ------------------------------------------------------------------------------------------
// CBOR item heads
// ------------------------------------------------------------------------------------------

#[derive(Clone, Debug, PartialEq, Eq)]
pub enum Tok {
    Arr(u64),
    Map(u64),
    Uint(u64),
    Nint(u64),
    Bytes(Vec<u8>),
    Text(String),
    Bool(bool),
    Null,
    /// anything else (float, tag, undefined, indefinite length, reserved)
    Other,
}

/// Reads `bytes` into item heads. Returns `None` when the input ends inside an item or uses a
/// reserved additional-information value. Indefinite-length items, tags and floats become `Other`
/// (the argument / payload of a float is skipped; a tag head alone is `Other`).
pub fn read_toks(bytes: &[u8]) -> Option<Vec<Tok>> {
    let mut out = vec![];
    let mut i = 0usize;
    while i < bytes.len() {
        let b = bytes[i];
        i += 1;
        let major = b >> 5;
        let info = b & 0x1f;
        let arg: Option<u64> = match info {
            0..=23 => Some(info as u64),
            24 => {
                let v = *bytes.get(i)? as u64;
                i += 1;
                Some(v)
            }
            25 => {
                let s = bytes.get(i..i + 2)?;
                i += 2;
                Some(u16::from_be_bytes([s[0], s[1]]) as u64)
            }
            26 => {
                let s = bytes.get(i..i + 4)?;
                i += 4;
                Some(u32::from_be_bytes([s[0], s[1], s[2], s[3]]) as u64)
            }
            27 => {
                let s = bytes.get(i..i + 8)?;
                i += 8;
                let mut a = [0u8; 8];
                a.copy_from_slice(s);
                Some(u64::from_be_bytes(a))
            }
            31 => None,
            _ => return None,
        };
        let tok = match (major, arg) {
            (0, Some(n)) => Tok::Uint(n),
            (1, Some(n)) => Tok::Nint(n),
            (2, Some(n)) => {
                let s = bytes.get(i..i.checked_add(n as usize)?)?;
                i += n as usize;
                Tok::Bytes(s.to_vec())
            }
            (3, Some(n)) => {
                let s = bytes.get(i..i.checked_add(n as usize)?)?;
                i += n as usize;
                Tok::Text(String::from_utf8_lossy(s).to_string())
            }
            (4, Some(n)) => Tok::Arr(n),
            (5, Some(n)) => Tok::Map(n),
            (7, Some(20)) if info == 20 => Tok::Bool(false),
            (7, Some(21)) if info == 21 => Tok::Bool(true),
            (7, Some(22)) if info == 22 => Tok::Null,
            _ => Tok::Other,
        };
        out.push(tok);
    }
    Some(out)
}

fn write_head(out: &mut Vec<u8>, major: u8, n: u64) {
    let m = major << 5;
    if n < 24 {
        out.push(m | n as u8);
    } else if n < 256 {
        out.push(m | 24);
        out.push(n as u8);
    } else if n < 65536 {
        out.push(m | 25);
        out.extend_from_slice(&(n as u16).to_be_bytes());
    } else if n < (1u64 << 32) {
        out.push(m | 26);
        out.extend_from_slice(&(n as u32).to_be_bytes());
    } else {
        out.push(m | 27);
        out.extend_from_slice(&n.to_be_bytes());
    }
}

/// Shortest-form, definite-length CBOR of a head stream (`Other` is written as the half float 1.0).
pub fn write_toks(toks: &[Tok]) -> Vec<u8> {
    let mut out = vec![];
    for t in toks {
        match t {
            Tok::Uint(n) => write_head(&mut out, 0, *n),
            Tok::Nint(n) => write_head(&mut out, 1, *n),
            Tok::Bytes(b) => {
                write_head(&mut out, 2, b.len() as u64);
                out.extend_from_slice(b);
            }
            Tok::Text(s) => {
                write_head(&mut out, 3, s.len() as u64);
                out.extend_from_slice(s.as_bytes());
            }
            Tok::Arr(n) => write_head(&mut out, 4, *n),
            Tok::Map(n) => write_head(&mut out, 5, *n),
            Tok::Bool(false) => out.push(0xf4),
            Tok::Bool(true) => out.push(0xf5),
            Tok::Null => out.push(0xf6),
            Tok::Other => out.extend_from_slice(&[0xf9, 0x3c, 0x00]),
        }
    }
    out
}

// ------------------------------------------------------------------------------------------
// ids
// ------------------------------------------------------------------------------------------

/// Small ids for the byte strings of one case, **order preserving**: `id(a) < id(b)` iff
/// `a < b` byte-wise (shorter-is-smaller on common prefix, as `[u8]: Ord`). The model sorts
/// hash ids as numbers where the code sorts hashes byte-wise.
#[derive(Default, Clone)]
pub struct IdMap {
    all: BTreeMap<Vec<u8>, usize>,
}

impl IdMap {
    pub fn new<'a>(items: impl IntoIterator<Item = Vec<u8>>) -> IdMap {
        let mut all = BTreeMap::new();
        for b in items {
            all.insert(b, 0);
        }
        for (k, (_, v)) in all.iter_mut().enumerate() {
            *v = k;
        }
        IdMap { all }
    }
    pub fn id(&self, b: &[u8]) -> usize {
        *self.all.get(b).unwrap_or_else(|| panic!("byte string not registered: {}", hc::hex(b)))
    }
    pub fn bytes_of(&self, id: usize) -> Option<&Vec<u8>> {
        self.all.iter().find(|(_, v)| **v == id).map(|(k, _)| k)
    }
    /// ids of the 32-byte strings that are valid Ed25519 verifying keys
    pub fn valid_keys(&self) -> Vec<usize> {
        self.all
            .iter()
            .filter(|(k, _)| k.len() == 32 && VerifyingKey::try_from(&k[..]).is_ok())
            .map(|(_, v)| *v)
            .collect()
    }
    pub fn len(&self) -> usize {
        self.all.len()
    }
}

/// Text ids: the two field names of `Custom` are 0 and 1, everything else 2.
pub fn text_id(s: &str) -> usize {
    match s {
        "custom_field" => 0,
        "flag" => 1,
        _ => 2,
    }
}

pub fn collect_tok_bytes(toks: &[Tok], out: &mut Vec<Vec<u8>>) {
    for t in toks {
        if let Tok::Bytes(b) = t {
            out.push(b.clone());
        }
    }
}

pub fn render_tok(t: &Tok, ids: &IdMap) -> String {
    match t {
        Tok::Arr(n) => format!("A{n}"),
        Tok::Map(n) => format!("M{n}"),
        Tok::Uint(n) => format!("u{n}"),
        Tok::Nint(n) => format!("n{n}"),
        Tok::Bytes(b) => format!("b{}:{}", b.len(), ids.id(b)),
        Tok::Text(s) => format!("t{}", text_id(s)),
        Tok::Bool(true) => "T".into(),
        Tok::Bool(false) => "F".into(),
        Tok::Null => "N".into(),
        Tok::Other => "X".into(),
    }
}

pub fn render_toks(toks: &[Tok], ids: &IdMap) -> String {
    toks.iter().map(|t| render_tok(t, ids)).collect::<Vec<_>>().join(" ")
}

pub fn b(v: bool) -> &'static str {
    if v { "t" } else { "f" }
}
pub fn tf(v: bool) -> &'static str {
    if v { "T" } else { "F" }
}

// ------------------------------------------------------------------------------------------
// extension types and their text form
// ------------------------------------------------------------------------------------------

/// User-defined extensions as an application would write them (serde derive ⇒ CBOR map).
#[derive(Clone, Debug, PartialEq, Eq, Serialize, Deserialize)]
#[serde(deny_unknown_fields)]
pub struct Custom {
    pub custom_field: u64,
    pub flag: bool,
}

/// How the harness talks about an extensions type (free functions instead of a trait so that
/// the Node `Extensions` type can be handled from another crate).
pub struct ExtOps<E> {
    /// `U` | `K` | `N`
    pub tag: &'static str,
    pub collect: fn(&E, &mut Vec<Vec<u8>>),
    pub render: fn(&E, &IdMap) -> String,
}

pub fn unit_ops() -> ExtOps<()> {
    ExtOps { tag: "U", collect: |_, _| {}, render: |_, _| "-".into() }
}

pub fn custom_ops() -> ExtOps<Custom> {
    ExtOps {
        tag: "K",
        collect: |_, _| {},
        render: |e, _| format!("c:{}:{}", e.custom_field, tf(e.flag)),
    }
}

pub fn collect_header<E>(h: &Header<E>, x: &ExtOps<E>, out: &mut Vec<Vec<u8>>) {
    out.push(h.verifying_key.as_bytes().to_vec());
    if let Some(s) = &h.signature {
        out.push(s.to_bytes().to_vec());
    }
    if let Some(p) = &h.payload_hash {
        out.push(p.as_bytes().to_vec());
    }
    if let Some(p) = &h.backlink {
        out.push(p.as_bytes().to_vec());
    }
    (x.collect)(&h.extensions, out);
}

pub fn opt_id(ids: &IdMap, b: Option<Vec<u8>>) -> String {
    match b {
        Some(b) => ids.id(&b).to_string(),
        None => "-".into(),
    }
}

pub fn render_header<E>(h: &Header<E>, x: &ExtOps<E>, ids: &IdMap) -> String {
    format!(
        "v={} k={} s={} z={} ph={} q={} bl={} x={}",
        h.version,
        ids.id(h.verifying_key.as_bytes()),
        opt_id(ids, h.signature.map(|s| s.to_bytes().to_vec())),
        h.payload_size,
        opt_id(ids, h.payload_hash.map(|s| s.as_bytes().to_vec())),
        h.seq_num,
        opt_id(ids, h.backlink.map(|s| s.as_bytes().to_vec())),
        (x.render)(&h.extensions, ids)
    )
}

/// The signature-table entry `S <key> <sig> <tok>*` for a header whose signature *really*
/// verifies (checked here with the real `verify_strict`) over its unsigned encoding.
/// Returns the bytes that were signed too. `None` when the header is unsigned or the
/// signature does not verify.
pub fn honest_sig_entry<E: Extensions>(h: &Header<E>) -> Option<(Vec<u8>, Vec<u8>, Vec<u8>)> {
    let sig = h.signature?;
    let mut u = h.clone();
    u.signature = None;
    let unsigned = u.to_bytes();
    // judged with the primitive itself (ed25519-dalek `verify_strict`), not through p2panda's wrapper
    let vk = ed25519_dalek::VerifyingKey::from_bytes(h.verifying_key.as_bytes()).ok()?;
    let s = ed25519_dalek::Signature::from_bytes(&sig.to_bytes());
    if vk.verify_strict(&unsigned, &s).is_err() {
        return None;
    }
    Some((h.verifying_key.as_bytes().to_vec(), sig.to_bytes().to_vec(), unsigned))
}

pub fn render_sig_entry(e: &(Vec<u8>, Vec<u8>, Vec<u8>), ids: &IdMap) -> String {
    let toks = read_toks(&e.2).expect("own encoding parses");
    format!("S {} {} {}", ids.id(&e.0), ids.id(&e.1), render_toks(&toks, ids))
}

pub fn collect_sig_entry(e: &(Vec<u8>, Vec<u8>, Vec<u8>), out: &mut Vec<Vec<u8>>) {
    out.push(e.0.clone());
    out.push(e.1.clone());
    collect_tok_bytes(&read_toks(&e.2).expect("own encoding parses"), out);
}

// ------------------------------------------------------------------------------------------
// deterministic keys and value pools
// ------------------------------------------------------------------------------------------

pub fn key_from(rng: &mut hc::Rng) -> SigningKey {
    let b = rng.bytes(32);
    let mut a = [0u8; 32];
    a.copy_from_slice(&b);
    SigningKey::from_bytes(&a)
}

pub fn hash_from(rng: &mut hc::Rng) -> Hash {
    Hash::digest(rng.bytes(16))
}

/// Integers around every CBOR width change, for a field of `bits` bits.
pub fn boundary_uint(rng: &mut hc::Rng, bits: u32) -> u64 {
    let max = if bits == 64 { u64::MAX } else { (1u64 << bits) - 1 };
    let pool: [u64; 14] = [0, 1, 2, 23, 24, 25, 255, 256, 257, 65535, 65536, 65537, (1u64 << 32) - 1, 1u64 << 32];
    loop {
        let v = match rng.below(10) {
            0..=5 => *rng.pick(&pool),
            6 => max,
            7 => max - 1,
            _ => rng.next_u64(),
        };
        let v = if bits == 64 { v } else { v & max };
        if v <= max {
            return v;
        }
    }
}

pub fn sign_raw(key: &SigningKey, bytes: &[u8]) -> Signature {
    key.sign(bytes)
}

pub fn body_of(bytes: &[u8]) -> Body {
    Body::new(bytes)
}

/// `<id> <hdr8> body=<hash id>:<size>|-` — an operation as the model sees it.
pub fn collect_operation<E>(op: &Operation<E>, x: &ExtOps<E>, out: &mut Vec<Vec<u8>>) {
    out.push(op.hash.as_bytes().to_vec());
    collect_header(&op.header, x, out);
    if let Some(b) = &op.body {
        out.push(b.hash().as_bytes().to_vec());
    }
}

pub fn render_operation<E>(op: &Operation<E>, x: &ExtOps<E>, ids: &IdMap) -> String {
    let body = match &op.body {
        Some(b) => format!("body={}:{}", ids.id(b.hash().as_bytes()), b.size()),
        None => "body=-".into(),
    };
    format!("{} {} {}", ids.id(op.hash.as_bytes()), render_header(&op.header, x, ids), body)
}

// ------------------------------------------------------------------------------------------
// store access (real SqliteStore) and its text form
// ------------------------------------------------------------------------------------------

pub mod st {
    use std::collections::{BTreeMap, BTreeSet};

    use p2panda_core::{Extensions, Hash, Operation, SeqNum, VerifyingKey};
    use p2panda_store::SqliteStore;
    use p2panda_store::logs::LogStore;
    use p2panda_store::topics::TopicStore;

    use super::IdMap;

    /// One stored row as the model sees it (`R …` section).
    #[derive(Clone, Debug, PartialEq, Eq, PartialOrd, Ord)]
    pub struct RowInfo {
        pub author: Vec<u8>,
        pub log: u64,
        pub seq: u32,
        pub id: Vec<u8>,
        /// hash of the stored (decoded and re-encoded) header: what validate_backlink compares
        pub hid: Vec<u8>,
        pub backlink: Option<Vec<u8>>,
        pub prune: bool,
        pub payload_size: u32,
        pub has_body: bool,
    }

    /// All rows of the given logs through the public `LogStore::get_log_entries`.
    /// `ghost`: prune flag each operation id was ingested with (not a column of the table).
    pub async fn rows_of<E: Extensions>(
        store: &SqliteStore,
        logs: &BTreeSet<(VerifyingKey, u64)>,
        ghost: &BTreeMap<Hash, bool>,
    ) -> Vec<RowInfo> {
        let mut out = vec![];
        for (author, log) in logs {
            let entries = <SqliteStore as LogStore<Operation<E>, VerifyingKey, u64, SeqNum, Hash>>::get_log_entries(store, author, log, None, None)
                .await
                .expect("get_log_entries");
            for (op, _raw) in entries.unwrap_or_default() {
                out.push(RowInfo {
                    author: author.as_bytes().to_vec(),
                    log: *log,
                    seq: op.header.seq_num,
                    id: op.hash.as_bytes().to_vec(),
                    hid: op.header.hash().as_bytes().to_vec(),
                    backlink: op.header.backlink.map(|h| h.as_bytes().to_vec()),
                    prune: *ghost.get(&op.hash).unwrap_or(&false),
                    payload_size: op.header.payload_size,
                    has_body: op.body.is_some(),
                });
            }
        }
        out.sort();
        out
    }

    /// Heights of the given logs through `get_log_heights`.
    pub async fn heights_of<E: Extensions>(store: &SqliteStore, logs: &BTreeSet<(VerifyingKey, u64)>) -> BTreeMap<(Vec<u8>, u64), u32> {
        let mut out = BTreeMap::new();
        for (author, log) in logs {
            let h = <SqliteStore as LogStore<Operation<E>, VerifyingKey, u64, SeqNum, Hash>>::get_log_heights(store, author, &[*log])
                .await
                .expect("get_log_heights");
            if let Some(m) = h {
                if let Some(s) = m.get(log) {
                    out.insert((author.as_bytes().to_vec(), *log), *s);
                }
            }
        }
        out
    }

    /// `(topic, author, log)` associations of the given topics through `TopicStore::resolve`.
    pub async fn assoc_of(store: &SqliteStore, topics: &BTreeSet<u64>) -> Vec<(u64, Vec<u8>, u64)> {
        let mut out = vec![];
        for t in topics {
            let m: BTreeMap<VerifyingKey, Vec<u64>> = <SqliteStore as TopicStore<u64, VerifyingKey, u64>>::resolve(store, t).await.expect("resolve");
            for (a, logs) in m {
                for l in logs {
                    out.push((*t, a.as_bytes().to_vec(), l));
                }
            }
        }
        out.sort();
        out
    }

    pub fn collect_rows(rows: &[RowInfo], out: &mut Vec<Vec<u8>>) {
        for r in rows {
            out.push(r.author.clone());
            out.push(r.id.clone());
            out.push(r.hid.clone());
            if let Some(b) = &r.backlink {
                out.push(b.clone());
            }
        }
    }

    pub fn render_row(r: &RowInfo, ids: &IdMap) -> String {
        format!(
            "R {} {} {} {} {} {} {} {} {}",
            ids.id(&r.id),
            ids.id(&r.author),
            r.log,
            r.seq,
            ids.id(&r.hid),
            match &r.backlink {
                Some(b) => ids.id(b).to_string(),
                None => "-".into(),
            },
            super::tf(r.prune),
            r.payload_size,
            super::tf(r.has_body)
        )
    }

    pub fn render_assoc(a: &(u64, Vec<u8>, u64), ids: &IdMap) -> String {
        format!("A {} {} {}", a.0, ids.id(&a.1), a.2)
    }
}

/// `OperationError` → the model's error word.
pub fn op_err_word(e: &p2panda_core::OperationError) -> &'static str {
    use p2panda_core::OperationError::*;
    match e {
        UnsupportedVersion(..) => "E:version",
        MissingSignature => "E:missing-sig",
        SignatureMismatch => "E:sig",
        SeqNumMismatch => "E:seq0-backlink",
        InconsistentPayloadInfo => "E:payload-info",
        MissingPayloadHash => "E:missing-hash",
        PayloadMismatch => "E:payload-mismatch",
        TooManyAuthors => "E:authors",
        SeqNumNonIncremental(..) => "E:seq",
        BacklinkMissing => "E:backlink-missing",
        BacklinkMismatch => "E:backlink-mismatch",
    }
}

/// `O <id> <hid> <hdr8> body=…`
pub fn render_op_section<E: Extensions>(op: &Operation<E>, x: &ExtOps<E>, ids: &IdMap) -> String {
    let body = match &op.body {
        Some(b) => format!("body={}:{}", ids.id(b.hash().as_bytes()), b.size()),
        None => "body=-".into(),
    };
    format!(
        "O {} {} {} {}",
        ids.id(op.hash.as_bytes()),
        ids.id(op.header.hash().as_bytes()),
        render_header(&op.header, x, ids),
        body
    )
}

pub fn collect_op_section<E: Extensions>(op: &Operation<E>, x: &ExtOps<E>, out: &mut Vec<Vec<u8>>) {
    collect_operation(op, x, out);
    out.push(op.header.hash().as_bytes().to_vec());
}
