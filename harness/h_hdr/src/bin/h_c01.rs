//! C01 — Only authentic, well-formed operations are ingested or delivered.
//!
//! Real `validate_operation` + `ingest_operation` on `SqliteStore::temporary()`: valid signed
//! operations extending a stored log, then every single-field / single-byte tampering of them
//! (no re-signing), author-signed but malformed variants, and copies re-signed by another key.
//!
//! Request (lean/Drv/C01.lean):
//!   ing <T> log=<n> topic=<n> prune=<T|F> ; O <id> <hid> <hdr8> body=… ; (R … | A … | S …)*
//! Answer: val=<ok|E:…> ing=<ins|dup|E:…> has=<t|f> same=<t|f>
use std::collections::{BTreeMap, BTreeSet};

use h_hdr::st::{RowInfo, assoc_of, collect_rows, render_assoc, render_row, rows_of};
use h_hdr::*;
use hc::{Args, Out, Rng, Tier};
use p2panda_core::{Body, Extensions, Hash, Header, Operation, Signature, SigningKey, VerifyingKey, validate_operation};
use p2panda_store::SqliteStore;
use p2panda_store::operations::OperationStore;
use p2panda_stream::Processor;
use p2panda_stream::ingest::{Ingest, IngestArgs, IngestError, IngestResult, ingest_operation};

type SigEntry = (Vec<u8>, Vec<u8>, Vec<u8>);

/// Item for the real `Ingest` processor (what `p2panda::processor::Event` is in the node).
struct Item<E> {
    op: Operation<E>,
    args: IngestArgs<u64, u64>,
}
impl<E> std::borrow::Borrow<Operation<E>> for Item<E> {
    fn borrow(&self) -> &Operation<E> {
        &self.op
    }
}
impl<E> std::borrow::Borrow<IngestArgs<u64, u64>> for Item<E> {
    fn borrow(&self) -> &IngestArgs<u64, u64> {
        &self.args
    }
}

struct Cx {
    out: Out,
    rt: tokio::runtime::Runtime,
}

/// A candidate operation with what the generator knows about it.
struct Cand<E> {
    op: Operation<E>,
    /// `tamper` (valid op changed without re-signing: must be rejected), `malformed-signed`
    /// (signed by the author but ill-formed), `foreign-signed` (re-signed by another key under
    /// that key), `id-only` (only the claimed id differs), `benign` (still a valid op), `valid`
    class: &'static str,
    kind: String,
}

fn op_of<E: Extensions>(header: Header<E>, body: Option<Body>) -> Operation<E> {
    Operation { hash: header.hash(), header, body }
}

fn flip(h: &Hash, bit: usize) -> Hash {
    let mut b = *h.as_bytes();
    b[bit / 8 % 32] ^= 1 << (bit % 8);
    Hash::from_bytes(b)
}

/// The property's own predicate, straight from its statement (independent of validate_*):
/// signature verifies over the canonical unsigned header bytes, version supported, payload
/// hash/size and backlink/seq consistent, attached body matches.
fn authentic_wellformed<E: Extensions>(op: &Operation<E>) -> Result<(), &'static str> {
    let h = &op.header;
    let Some(sig) = h.signature else { return Err("unsigned") };
    let mut u = h.clone();
    u.signature = None;
    if !h.verifying_key.verify(&u.to_bytes(), &sig) {
        return Err("signature");
    }
    if h.version != 1 {
        return Err("version");
    }
    if h.payload_hash.is_some() != (h.payload_size > 0) {
        return Err("payload hash/size");
    }
    if h.backlink.is_some() != (h.seq_num > 0) {
        return Err("backlink/seq");
    }
    if let Some(b) = &op.body {
        if h.payload_hash != Some(Hash::digest(b.as_bytes())) || h.payload_size as usize != b.as_bytes().len() {
            return Err("body");
        }
    }
    Ok(())
}

struct World<E> {
    store: SqliteStore,
    logs: BTreeSet<(VerifyingKey, u64)>,
    topics: BTreeSet<u64>,
    ghost: BTreeMap<Hash, bool>,
    prefix: Vec<(Operation<E>, u64, u64, bool)>,
    sigs: Vec<SigEntry>,
    /// set when a valid in-order prefix operation was not accepted while filling the store
    prefix_rejected: Option<String>,
}

async fn build_world<E: Extensions>(prefix: &[(Operation<E>, u64, u64, bool)], extra_logs: &[(VerifyingKey, u64)]) -> World<E> {
    let store = SqliteStore::temporary().await;
    let mut w = World { store, logs: BTreeSet::new(), topics: BTreeSet::new(), ghost: BTreeMap::new(), prefix: prefix.to_vec(), sigs: vec![], prefix_rejected: None };
    for (op, log, topic, prune) in prefix {
        let r = ingest_operation(&w.store, op, log, topic, *prune).await;
        if !matches!(r, Ok(true)) {
            w.prefix_rejected = Some(format!("{r:?}"));
        }
        w.logs.insert((op.header.verifying_key, *log));
        w.topics.insert(*topic);
        w.ghost.insert(op.hash, *prune);
        if let Some(e) = honest_sig_entry(&op.header) {
            w.sigs.push(e);
        }
    }
    for l in extra_logs {
        w.logs.insert(*l);
    }
    w
}

/// Runs one candidate. Returns true when the store changed (the caller rebuilds the world).
async fn run_case<E: Extensions>(
    out: &mut Out,
    x: &ExtOps<E>,
    w: &mut World<E>,
    c: &Cand<E>,
    log: u64,
    topic: u64,
    prune: bool,
    extra_sigs: &[SigEntry],
    via_processor: bool,
) -> bool {
    w.logs.insert((c.op.header.verifying_key, log));
    w.topics.insert(topic);
    let before: Vec<RowInfo> = rows_of::<E>(&w.store, &w.logs, &w.ghost).await;
    let before_assoc = assoc_of(&w.store, &w.topics).await;
    let had = <SqliteStore as OperationStore<Operation<E>, Hash>>::has_operation(&w.store, &c.op.hash).await.unwrap();
    let val = validate_operation(&c.op);
    let ing: Result<bool, IngestError> = if via_processor {
        // through the `Ingest` processor (process + next), as the node's pipeline does
        let p = Ingest::<SqliteStore, Item<E>, u64, E, u64>::new(w.store.clone());
        let item = Item { op: c.op.clone(), args: IngestArgs { log_id: log, topic, prune_flag: prune } };
        match p.process(item).await {
            Ok(()) => match p.next().await {
                Ok((_, r)) => Ok(r == IngestResult::Inserted),
                Err((_, e)) => Err(e),
            },
            Err((_, e)) => Err(e),
        }
    } else {
        ingest_operation(&w.store, &c.op, &log, &topic, prune).await
    };
    if matches!(ing, Ok(true)) {
        w.ghost.insert(c.op.hash, prune);
    }
    let after: Vec<RowInfo> = rows_of::<E>(&w.store, &w.logs, &w.ghost).await;
    let after_assoc = assoc_of(&w.store, &w.topics).await;
    let has = <SqliteStore as OperationStore<Operation<E>, Hash>>::has_operation(&w.store, &c.op.hash).await.unwrap();
    let same = before == after && before_assoc == after_assoc;

    // ---- request line ------------------------------------------------------------------------
    let mut sigs: Vec<SigEntry> = w.sigs.clone();
    sigs.extend_from_slice(extra_sigs);
    if let Some(e) = honest_sig_entry(&c.op.header) {
        sigs.push(e);
    }
    sigs.sort();
    sigs.dedup();
    let mut all = vec![];
    collect_op_section(&c.op, x, &mut all);
    collect_rows(&before, &mut all);
    for a in &before_assoc {
        all.push(a.1.clone());
    }
    for s in &sigs {
        collect_sig_entry(s, &mut all);
    }
    let ids = IdMap::new(all);
    let mut req = format!("ing {} log={} topic={} prune={} ; {}", x.tag, log, topic, tf(prune), render_op_section(&c.op, x, &ids));
    for r in &before {
        req.push_str(" ; ");
        req.push_str(&render_row(r, &ids));
    }
    for a in &before_assoc {
        req.push_str(" ; ");
        req.push_str(&render_assoc(a, &ids));
    }
    for s in &sigs {
        req.push_str(" ; ");
        req.push_str(&render_sig_entry(s, &ids));
    }
    let val_w = match &val {
        Ok(()) => "ok",
        Err(e) => op_err_word(e),
    };
    let ing_w = match &ing {
        Ok(true) => "ins",
        Ok(false) => "dup",
        Err(IngestError::InvalidOperation(e)) => op_err_word(e),
        Err(IngestError::StoreError(_)) => "E:store",
    };
    let ans = format!("val={} ing={} has={} same={}", val_w, ing_w, b(has), b(same));
    let rejected = ing.is_err();
    let n = out.case(&req, &ans, rejected && c.class != "valid");
    out.count(&format!("class {}", c.class));
    out.count(&format!("kind {}", c.kind));
    out.count(&format!("validate -> {val_w}"));
    out.count(&format!("ingest -> {ing_w}"));
    out.count(&format!("ext {}", x.tag));
    out.count(if via_processor { "via Ingest processor" } else { "via ingest_operation" });
    if had {
        out.count(&format!("delivered under an id already stored: class {} -> {ing_w}", c.class));
    }

    // ---- oracle --------------------------------------------------------------------------------
    if let Ok(true) = ing {
        if let Err(why) = authentic_wellformed(&c.op) {
            out.oracle_fail(n, &format!("accepted-not-authentic:{why}"), &format!("ingest accepted an operation violating: {why} ({})", c.kind), &req, &ans);
        }
        if !has {
            out.oracle_fail(n, "inserted-but-absent", "ingest returned true but has_operation is false", &req, &ans);
        }
    }
    if c.class == "tamper" && !rejected {
        out.oracle_fail(n, &format!("tamper-accepted:{}", c.kind.split(' ').next().unwrap_or("")), &format!("tampered operation ({}) was not rejected: {ing_w}", c.kind), &req, &ans);
    }
    if c.class == "tamper" && val.is_ok() {
        out.oracle_fail(n, &format!("tamper-validates:{}", c.kind.split(' ').next().unwrap_or("")), &format!("tampered operation ({}) passes validate_operation", c.kind), &req, &ans);
    }
    if c.class == "malformed-signed" && !rejected {
        out.oracle_fail(n, &format!("malformed-accepted:{}", c.kind.split(' ').next().unwrap_or("")), &format!("ill-formed operation ({}) was not rejected", c.kind), &req, &ans);
    }
    if (rejected || matches!(ing, Ok(false))) && (!same || has != had) {
        out.oracle_fail(n, "reject-changed-store", &format!("ingest returned {ing_w} but the store changed (rows {} -> {}, has {} -> {})", before.len(), after.len(), had, has), &req, &ans);
    }
    if let Some(why) = w.prefix_rejected.take() {
        out.oracle_fail(n, "valid-rejected", &format!("a valid in-order operation was rejected while filling the store: {why}"), &req, &ans);
    }
    if c.class == "valid" && !matches!(ing, Ok(true)) && !had {
        out.oracle_fail(n, "valid-rejected", &format!("a valid operation extending its log was not accepted: {ing_w}"), &req, &ans);
    }
    !same
}

/// All single mutations of `base` (header `h` signed by `key`, optional body).
fn mutations<E: Extensions>(
    rng: &mut Rng,
    base: &Operation<E>,
    key: &SigningKey,
    other: &SigningKey,
    other_op_sig: Signature,
    ext_mut: &dyn Fn(&E, &mut Rng) -> Vec<(E, &'static str)>,
    sig_positions: usize,
) -> Vec<Cand<E>> {
    let mut out: Vec<Cand<E>> = vec![];
    let h = &base.header;
    let body = base.body.clone();
    let push = |out: &mut Vec<Cand<E>>, header: Header<E>, body: Option<Body>, class: &'static str, kind: String, keep_id: bool| {
        let mut op = op_of(header, body);
        if keep_id {
            // an attacker may also keep announcing the original id for the changed header
            op.hash = base.hash;
        }
        out.push(Cand { op, class, kind });
    };
    // --- tampering without re-signing ----------------------------------------------------------
    for v in [0u16, 2, h.version.wrapping_add(1), 255, 65535] {
        if v != h.version {
            let mut t = h.clone();
            t.version = v;
            push(&mut out, t, body.clone(), "tamper", format!("version {v}"), rng.chance(1, 2));
        }
    }
    {
        let mut t = h.clone();
        t.verifying_key = other.verifying_key();
        push(&mut out, t, body.clone(), "tamper", "key swapped".into(), rng.chance(1, 2));
    }
    if let Some(sig) = h.signature {
        let bytes = sig.to_bytes();
        let mut positions: Vec<usize> = (0..64).collect();
        rng.shuffle(&mut positions);
        positions.truncate(sig_positions);
        for p in positions {
            let mut s = bytes;
            s[p] ^= 1 << rng.below(8);
            let mut t = h.clone();
            t.signature = Some(Signature::from_bytes(&s));
            push(&mut out, t, body.clone(), "tamper", format!("signature byte-flip"), rng.chance(1, 2));
        }
        let mut t = h.clone();
        t.signature = None;
        push(&mut out, t, body.clone(), "tamper", "signature removed".into(), false);
        if other_op_sig != sig {
            let mut t = h.clone();
            t.signature = Some(other_op_sig);
            push(&mut out, t, body.clone(), "tamper", "signature of-another-operation".into(), false);
        }
        let mut u = h.clone();
        u.signature = None;
        let mut t = h.clone();
        t.signature = Some(other.sign(&u.to_bytes()));
        push(&mut out, t, body.clone(), "tamper", "signature by-another-key".into(), false);
    }
    {
        // small-order public key with the signature (R = identity, S = 0): the verification
        // equation holds for every message unless the strict variant rejects weak keys
        let mut kb = [0u8; 32];
        kb[0] = 1;
        if let Ok(weak) = VerifyingKey::from_bytes(&kb) {
            let mut t = h.clone();
            t.verifying_key = weak;
            let mut sb = [0u8; 64];
            sb[0] = 1;
            t.signature = Some(Signature::from_bytes(&sb));
            push(&mut out, t, body.clone(), "tamper", "key small-order-forgery".into(), false);
        }
    }
    for z in [h.payload_size.wrapping_add(1), h.payload_size.wrapping_sub(1), 0] {
        if z != h.payload_size {
            let mut t = h.clone();
            t.payload_size = z;
            push(&mut out, t, body.clone(), "tamper", format!("payload_size {}", if z == 0 { "0" } else { "+-1" }), rng.chance(1, 2));
        }
    }
    match h.payload_hash {
        Some(ph) => {
            let mut t = h.clone();
            t.payload_hash = Some(flip(&ph, rng.below(256) as usize));
            push(&mut out, t, body.clone(), "tamper", "payload_hash bit-flip".into(), rng.chance(1, 2));
            let mut t = h.clone();
            t.payload_hash = None;
            push(&mut out, t, body.clone(), "tamper", "payload_hash removed".into(), false);
        }
        None => {
            let mut t = h.clone();
            t.payload_hash = Some(hash_from(rng));
            push(&mut out, t, body.clone(), "tamper", "payload_hash added".into(), false);
        }
    }
    for q in [h.seq_num.wrapping_add(1), h.seq_num.wrapping_sub(1), 0] {
        if q != h.seq_num {
            let mut t = h.clone();
            t.seq_num = q;
            push(&mut out, t, body.clone(), "tamper", format!("seq_num {}", if q == 0 { "0" } else { "+-1" }), rng.chance(1, 2));
        }
    }
    match h.backlink {
        Some(bl) => {
            let mut t = h.clone();
            t.backlink = Some(flip(&bl, rng.below(256) as usize));
            push(&mut out, t, body.clone(), "tamper", "backlink bit-flip".into(), rng.chance(1, 2));
            let mut t = h.clone();
            t.backlink = None;
            push(&mut out, t, body.clone(), "tamper", "backlink removed".into(), false);
        }
        None => {
            let mut t = h.clone();
            t.backlink = Some(hash_from(rng));
            push(&mut out, t, body.clone(), "tamper", "backlink added".into(), false);
        }
    }
    for (e, what) in ext_mut(&h.extensions, rng) {
        let mut t = h.clone();
        t.extensions = e;
        push(&mut out, t, body.clone(), "tamper", format!("extension {what}"), rng.chance(1, 2));
    }
    // --- body -----------------------------------------------------------------------------------
    match &body {
        Some(bd) => {
            let bytes = bd.to_bytes();
            let mut f = bytes.clone();
            let i = rng.below(f.len() as u64) as usize;
            f[i] ^= 1 << rng.below(8);
            push(&mut out, h.clone(), Some(Body::new(&f)), "tamper", "body byte-flip".into(), false);
            let mut f = bytes.clone();
            f.pop();
            push(&mut out, h.clone(), Some(Body::new(&f)), "tamper", "body truncated".into(), false);
            let mut f = bytes.clone();
            f.push(0);
            push(&mut out, h.clone(), Some(Body::new(&f)), "tamper", "body extended".into(), false);
            // dropping the body is allowed: bodies are optional off-chain data
            push(&mut out, h.clone(), None, "benign", "body dropped".into(), false);
        }
        None => {
            push(&mut out, h.clone(), Some(Body::new(b"smuggled")), "tamper", "body added".into(), false);
            push(&mut out, h.clone(), Some(Body::new(b"")), if h.payload_size == 0 { "tamper" } else { "tamper" }, "body empty-added".into(), false);
        }
    }
    // --- claimed id only ------------------------------------------------------------------------
    {
        let mut op = base.clone();
        op.hash = hash_from(rng);
        out.push(Cand { op, class: "id-only", kind: "claimed-id changed".into() });
    }
    // --- signed by the author, but ill-formed / not extending the log -----------------------------
    let resign = |mut t: Header<E>| {
        t.sign(key);
        t
    };
    {
        let mut t = h.clone();
        t.version = 2;
        push(&mut out, resign(t), body.clone(), "malformed-signed", "version 2".into(), false);
        let mut t = h.clone();
        t.version = 0;
        push(&mut out, resign(t), body.clone(), "malformed-signed", "version 0".into(), false);
    }
    {
        let mut t = h.clone();
        if t.payload_hash.is_some() {
            t.payload_hash = None;
        } else {
            t.payload_size = 5;
        }
        push(&mut out, resign(t), None, "malformed-signed", "size-without-hash".into(), false);
        let mut t = h.clone();
        t.payload_size = 0;
        t.payload_hash = Some(hash_from(rng));
        push(&mut out, resign(t), None, "malformed-signed", "hash-without-size".into(), false);
    }
    {
        let mut t = h.clone();
        t.seq_num = 0;
        t.backlink = Some(hash_from(rng));
        push(&mut out, resign(t), body.clone(), "malformed-signed", "backlink-at-seq0".into(), false);
        let mut t = h.clone();
        t.seq_num = h.seq_num.max(1);
        t.backlink = None;
        push(&mut out, resign(t), body.clone(), "malformed-signed", "no-backlink-at-seq>0".into(), false);
    }
    if let Some(bd) = &body {
        let mut f = bd.to_bytes();
        f.push(1);
        // header re-signed for the old body, other body attached
        push(&mut out, resign(h.clone()), Some(Body::new(&f)), "malformed-signed", "body-mismatch".into(), false);
    }
    // log-level: signed, well-formed, but not extending the stored log
    {
        let mut t = h.clone();
        t.seq_num = h.seq_num + 1;
        if t.backlink.is_none() {
            t.backlink = Some(hash_from(rng));
        }
        push(&mut out, resign(t), body.clone(), "log-mismatch", "seq gap".into(), false);
        if h.seq_num > 0 {
            let mut t = h.clone();
            t.backlink = Some(hash_from(rng));
            push(&mut out, resign(t), body.clone(), "log-mismatch", "wrong backlink".into(), false);
            let mut t = h.clone();
            t.seq_num = h.seq_num - 1;
            if t.seq_num == 0 {
                t.backlink = None;
            }
            push(&mut out, resign(t), body.clone(), "log-mismatch", "seq repeated".into(), false);
        }
    }
    // --- the same content under another author's key, honestly signed by that author ---------------
    {
        let mut t = h.clone();
        t.verifying_key = other.verifying_key();
        t.sign(other);
        push(&mut out, t, body.clone(), "foreign-signed", "re-signed by another author".into(), false);
    }
    out
}

fn gen_chain<E: Extensions>(rng: &mut Rng, key: &SigningKey, len: usize, start_seq: u32, ext: &dyn Fn(&mut Rng) -> E) -> Vec<Operation<E>> {
    let mut ops: Vec<Operation<E>> = vec![];
    for i in 0..len {
        let blen = rng.range(1, 40) as usize;
        let body = if rng.chance(2, 3) { Some(Body::new(&rng.bytes(blen))) } else { None };
        let seq = start_seq + i as u32;
        let mut h = Header::<E> {
            version: 1,
            verifying_key: key.verifying_key(),
            signature: None,
            payload_size: body.as_ref().map(|b| b.size()).unwrap_or(0),
            payload_hash: body.as_ref().map(|b| b.hash()),
            seq_num: seq,
            backlink: if i == 0 { if seq == 0 { None } else { Some(hash_from(rng)) } } else { Some(ops[i - 1].header.hash()) },
            extensions: ext(rng),
        };
        h.sign(key);
        ops.push(op_of(h, body));
    }
    ops
}

fn run_base<E: Extensions>(
    cx: &mut Cx,
    x: &ExtOps<E>,
    rng: &mut Rng,
    keys: &[SigningKey],
    ext: &dyn Fn(&mut Rng) -> E,
    ext_mut: &dyn Fn(&E, &mut Rng) -> Vec<(E, &'static str)>,
    sig_positions: usize,
) {
    let ki = rng.below(keys.len() as u64) as usize;
    let key = keys[ki].clone();
    let other = keys[(ki + 1 + rng.below(keys.len() as u64 - 1) as usize) % keys.len()].clone();
    let log = rng.range(1, 3);
    let topic = rng.range(10, 12);
    // the stored prefix: 0..4 operations; in one of four cases the log starts at a prune point
    let n_prefix = rng.range(0, 4) as usize;
    let pruned_start = rng.chance(1, 4);
    let start = if pruned_start { rng.range(1, 500) as u32 } else { 0 };
    let chain = gen_chain::<E>(rng, &key, n_prefix + 1, start, ext);
    let prefix: Vec<(Operation<E>, u64, u64, bool)> = chain[..n_prefix]
        .iter()
        .enumerate()
        .map(|(i, op)| (op.clone(), log, topic, i == 0 && pruned_start))
        .collect();
    let base = chain[n_prefix].clone();
    let base_prune = n_prefix == 0 && pruned_start;
    // an unrelated honest operation of the same author (its signature is replayed onto the base)
    let foreign = gen_chain::<E>(rng, &key, 1, 0, ext).remove(0);
    let foreign_sig = foreign.header.signature.unwrap();
    let extra_sigs: Vec<SigEntry> = [honest_sig_entry(&base.header), honest_sig_entry(&foreign.header)].into_iter().flatten().collect();
    let cands = mutations(rng, &base, &key, &other, foreign_sig, ext_mut, sig_positions);
    let out = &mut cx.out;
    cx.rt.block_on(async {
        let mut w = build_world::<E>(&prefix, &[(other.verifying_key(), log)]).await;
        for c in &cands {
            // tampered / malformed candidates are offered with the base's prune flag; a few with the flag set
            let prune = if rng.chance(1, 6) { !base_prune } else { base_prune };
            let changed = run_case(out, x, &mut w, c, log, topic, prune, &extra_sigs, rng.chance(1, 3)).await;
            if changed {
                w = build_world::<E>(&prefix, &[(other.verifying_key(), log)]).await;
            }
        }
        // finally the valid operation itself, twice (inserted, then duplicate), then a tampered copy again
        let valid = Cand { op: base.clone(), class: "valid", kind: "unmodified".into() };
        run_case(out, x, &mut w, &valid, log, topic, base_prune, &extra_sigs, false).await;
        let dup = Cand { op: base.clone(), class: "valid", kind: "duplicate delivery".into() };
        run_case(out, x, &mut w, &dup, log, topic, base_prune, &extra_sigs, true).await;
        // The authentic operation is stored now. Re-deliver every mutation of it — body
        // flip/truncate/extend/add, every header-field and signature tampering, the ill-formed
        // author-signed variants — announced under the *stored* id (ingest never compares the id
        // with the header hash): tampering must still be an error, never "already exists".
        for (k, c) in cands.iter().enumerate() {
            if c.class == "id-only" || c.class == "valid" {
                continue;
            }
            let mut op = c.op.clone();
            op.hash = base.hash;
            let again = Cand { op, class: c.class, kind: format!("{} (replay under stored id)", c.kind) };
            let changed = run_case(out, x, &mut w, &again, log, topic, base_prune, &extra_sigs, k % 2 == 0).await;
            if changed {
                // only a candidate that is itself a valid new operation may change the store; start over
                let mut full = prefix.clone();
                full.push((base.clone(), log, topic, base_prune));
                w = build_world::<E>(&full, &[(other.verifying_key(), log)]).await;
            }
        }
    });
}

fn custom_mut(e: &Custom, _rng: &mut Rng) -> Vec<(Custom, &'static str)> {
    vec![
        (Custom { custom_field: e.custom_field.wrapping_add(1), flag: e.flag }, "field+1"),
        (Custom { custom_field: e.custom_field, flag: !e.flag }, "flag toggled"),
    ]
}

fn generate(args: &Args, cx: &mut Cx) {
    let mut rng = Rng::new(args.seed);
    let keys: Vec<SigningKey> = (0..4).map(|_| key_from(&mut rng)).collect();
    let (bases, sig_positions) = match args.tier {
        Tier::Quick => (40usize, 6usize),
        Tier::Thorough => (700, 64),
        Tier::Search => (250, 16),
    };
    let (u, k) = (unit_ops(), custom_ops());
    for i in 0..bases {
        if i % 2 == 0 {
            run_base::<()>(cx, &u, &mut rng, &keys, &|_| (), &|_, _| vec![], sig_positions);
        } else {
            run_base::<Custom>(cx, &k, &mut rng, &keys, &|r| Custom { custom_field: boundary_uint(r, 64), flag: r.chance(1, 2) }, &custom_mut, sig_positions);
        }
    }
}

fn main() {
    let args = Args::parse();
    let rt = tokio::runtime::Builder::new_current_thread().enable_all().build().unwrap();
    let mut cx = Cx { out: Out::new(&args.out), rt };
    if args.mode == "replay" {
        // Signatures cannot be re-materialised from ids: the recorded seed/tier regenerate the
        // identical case list; the failing request is printed for comparison.
        let text = std::fs::read_to_string(args.replay.as_ref().expect("replay file")).unwrap();
        let v: hc::serde_json::Value = hc::serde_json::from_str(&text).unwrap();
        println!("replaying by regeneration; recorded request: {}", v["request"].as_str().unwrap_or(""));
        let a = Args { mode: "gen".into(), seed: v["seed"].as_u64().unwrap_or(1), tier: Tier::Quick, out: args.out.clone(), replay: None, extra: Default::default() };
        generate(&a, &mut cx);
        cx.out.finish("replay by regeneration", false);
        return;
    }
    generate(&args, &mut cx);
    cx.out.finish(
        "base = valid signed operation extending a stored log of 0..4 operations (one in four logs starts at a prune point; extensions () and a user struct; with/without body); for each base: every single-field tampering without re-signing (version, key, signature byte flips / removed / replayed / by another key, payload_size, payload_hash, seq_num, backlink, extension fields, body flip/truncate/extend/add), author-signed ill-formed variants, log-level mismatches, a copy re-signed by another author, claimed-id change, then the valid operation, its duplicate, and — with the authentic operation stored — every one of these mutations again announced under the stored id; one third / one half of the deliveries go through the Ingest processor instead of ingest_operation. non-trivial = a rejected non-valid candidate",
        false,
    );
    let _ = VerifyingKey::default;
}
