//! C03 — Ingest keeps every stored log a hash-linked, gap-free chain.
//! C05 — Pruned log prefixes never come back.      (one harness, `--prop C03|C05` only labels)
//!
//! Multi-author, multi-log universes of honest chains (user-struct extensions: log id =
//! `custom_field`, prune flag = `flag`), delivered through the real `Ingest` and `LogPrune`
//! processors on a `SqliteStore` in random interleavings with duplicates, drops, forged copies,
//! late and dropped prune steps. After every step the touched log is read back
//! (`get_log_entries`, `get_log_heights`) and compared with the model; the oracle evaluates the
//! invariants of the two properties on the implementation's rows.
//!
//! Request (lean/Drv/C03.lean):  hist K ; O … ; S … ; E d<i>:<topic> p<i> …
//! Answer: `<ins|dup|E:…|p<k>>/<seq:id,…>` per event, then ` | <author>.<log>=<rows> …`
use std::borrow::Borrow;
use std::collections::{BTreeMap, BTreeSet};

use h_hdr::st::{RowInfo, heights_of, rows_of};
use h_hdr::*;
use hc::{Args, Out, Rng, Tier};
use p2panda_core::{Body, Hash, Header, Operation, SeqNum, SigningKey, VerifyingKey};
use p2panda_store::SqliteStore;
use p2panda_stream::Processor;
use p2panda_stream::ingest::{Ingest, IngestArgs, IngestError, IngestResult};
use p2panda_stream::log_prune::{LogPrune, LogPruneArgs, LogPruneResult};

type Op = Operation<Custom>;

/// The item that travels through the two processors (what `p2panda::processor::Event` is in the node).
#[derive(Clone, Debug)]
struct Ev {
    op: Op,
    ingest: IngestArgs<u64, u64>,
    prune: LogPruneArgs<VerifyingKey, u64, SeqNum>,
}
impl Borrow<Op> for Ev {
    fn borrow(&self) -> &Op {
        &self.op
    }
}
impl Borrow<IngestArgs<u64, u64>> for Ev {
    fn borrow(&self) -> &IngestArgs<u64, u64> {
        &self.ingest
    }
}
impl Borrow<LogPruneArgs<VerifyingKey, u64, SeqNum>> for Ev {
    fn borrow(&self) -> &LogPruneArgs<VerifyingKey, u64, SeqNum> {
        &self.prune
    }
}

fn log_of(op: &Op) -> u64 {
    op.header.extensions.custom_field
}
fn flag_of(op: &Op) -> bool {
    op.header.extensions.flag
}

#[derive(Clone)]
struct Decl {
    op: Op,
    /// honest | forged-key | forged-backlink | forged-seq | forged-sig | equivocation | foreign
    class: &'static str,
}

#[derive(Clone, Debug)]
enum Event {
    Deliver(usize, u64),
    Prune(usize),
}

struct History {
    decls: Vec<Decl>,
    events: Vec<Event>,
    note: &'static str,
}

fn mk_op(rng: &mut Rng, key: &SigningKey, log: u64, seq: u32, backlink: Option<Hash>, flag: bool) -> Op {
    let body = if rng.chance(1, 2) {
        let n = rng.range(1, 12) as usize;
        Some(Body::new(&rng.bytes(n)))
    } else {
        None
    };
    let mut h = Header::<Custom> {
        version: 1,
        verifying_key: key.verifying_key(),
        signature: None,
        payload_size: body.as_ref().map(|b| b.size()).unwrap_or(0),
        payload_hash: body.as_ref().map(|b| b.hash()),
        seq_num: seq,
        backlink,
        extensions: Custom { custom_field: log, flag },
    };
    h.sign(key);
    Operation { hash: h.hash(), header: h, body }
}

fn chain(rng: &mut Rng, key: &SigningKey, log: u64, len: usize, flag_p: (u64, u64), forced_flags: &[u32]) -> Vec<Op> {
    let mut ops: Vec<Op> = vec![];
    for i in 0..len {
        let flag = forced_flags.contains(&(i as u32)) || (forced_flags.is_empty() && rng.chance(flag_p.0, flag_p.1));
        let bl = if i == 0 { None } else { Some(ops[i - 1].header.hash()) };
        ops.push(mk_op(rng, key, log, i as u32, bl, flag));
    }
    ops
}

/// The confirmed C05 witness: 0,1,2,3, 8ᵖ, prune, 5ᵖ (5 and 8 prune-flagged, 4..7 withheld).
fn witness(rng: &mut Rng, keys: &[SigningKey]) -> History {
    let ops = chain(rng, &keys[0], 1, 9, (0, 1), &[5, 8]);
    let decls: Vec<Decl> = ops.into_iter().map(|op| Decl { op, class: "honest" }).collect();
    let events = vec![
        Event::Deliver(0, 11),
        Event::Deliver(1, 11),
        Event::Deliver(2, 11),
        Event::Deliver(3, 11),
        Event::Deliver(8, 11),
        Event::Prune(8),
        Event::Deliver(5, 11),
        Event::Prune(5),
        Event::Deliver(6, 11),
        Event::Deliver(4, 11),
    ];
    History { decls, events, note: "witness" }
}

fn random_history(rng: &mut Rng, keys: &[SigningKey], max_len: usize, small: bool) -> History {
    let n_auth = if small { rng.range(1, 2) } else { rng.range(2, 4) } as usize;
    let mut decls: Vec<Decl> = vec![];
    let mut chains: Vec<Vec<usize>> = vec![];
    for a in 0..n_auth {
        let n_logs = if small { 1 } else { rng.range(1, 3) };
        for l in 1..=n_logs {
            let len = rng.range(1, max_len as u64) as usize;
            let flag_p = match rng.below(4) {
                0 => (0, 1),
                1 => (1, 3),
                _ => (3, 20),
            };
            let ops = chain(rng, &keys[a], l, len, flag_p, &[]);
            let mut idx = vec![];
            for op in ops {
                idx.push(decls.len());
                decls.push(Decl { op, class: "honest" });
            }
            chains.push(idx);
        }
    }
    // forged / corrupted copies and a few equivocations
    let n_honest = decls.len();
    let n_forged = rng.range(0, (n_honest as u64 / 3).max(1)) as usize;
    for _ in 0..n_forged {
        let base = decls[rng.below(n_honest as u64) as usize].op.clone();
        let other = &keys[(keys.iter().position(|k| k.verifying_key() == base.header.verifying_key).unwrap() + 1) % keys.len()];
        let (op, class): (Op, &'static str) = match rng.below(7) {
            0 => {
                let mut h = base.header.clone();
                h.verifying_key = other.verifying_key();
                (Operation { hash: h.hash(), header: h, body: base.body.clone() }, "forged-key")
            }
            1 => {
                let mut h = base.header.clone();
                h.backlink = Some(hash_from(rng));
                if h.seq_num == 0 {
                    h.seq_num = 1;
                }
                (Operation { hash: h.hash(), header: h, body: base.body.clone() }, "forged-backlink")
            }
            2 => {
                let mut h = base.header.clone();
                h.seq_num = if rng.chance(1, 2) { h.seq_num + 1 } else { h.seq_num.saturating_sub(1) };
                if h.seq_num == base.header.seq_num {
                    h.seq_num += 1;
                }
                if h.seq_num == 0 {
                    h.backlink = None;
                } else if h.backlink.is_none() {
                    h.backlink = Some(hash_from(rng));
                }
                (Operation { hash: h.hash(), header: h, body: base.body.clone() }, "forged-seq")
            }
            3 => {
                // prune flag switched on without re-signing (an attacker trying to prune / jump ahead)
                let mut h = base.header.clone();
                h.extensions.flag = !h.extensions.flag;
                (Operation { hash: h.hash(), header: h, body: base.body.clone() }, "forged-flag")
            }
            4 => {
                let mut h = base.header.clone();
                let mut s = h.signature.unwrap().to_bytes();
                s[rng.below(64) as usize] ^= 1 << rng.below(8);
                h.signature = Some(p2panda_core::Signature::from_bytes(&s));
                (Operation { hash: h.hash(), header: h, body: base.body.clone() }, "forged-sig")
            }
            5 => {
                // equivocation: the author signs a second, different operation for the same slot
                let key = keys.iter().find(|k| k.verifying_key() == base.header.verifying_key).unwrap();
                let fl = rng.chance(1, 3);
                let op = mk_op(rng, key, log_of(&base), base.header.seq_num, base.header.backlink, fl);
                (op, "equivocation")
            }
            _ => {
                // the same content honestly signed by another author (lands in *that* author's log)
                let mut h = base.header.clone();
                h.verifying_key = other.verifying_key();
                h.sign(other);
                (Operation { hash: h.hash(), header: h, body: base.body.clone() }, "foreign")
            }
        };
        if decls.iter().all(|d| d.op.hash != op.hash) {
            decls.push(Decl { op, class });
        }
    }
    // delivery order: interleave the chains (each in order), drop some, duplicate some, mix in
    // the forged copies; in 30 % of the histories shuffle completely
    let mut order: Vec<usize> = vec![];
    let mut cursors: Vec<usize> = vec![0; chains.len()];
    loop {
        let live: Vec<usize> = (0..chains.len()).filter(|c| cursors[*c] < chains[*c].len()).collect();
        if live.is_empty() {
            break;
        }
        let c = *rng.pick(&live);
        let i = chains[c][cursors[c]];
        cursors[c] += 1;
        if rng.chance(1, 10) {
            continue; // dropped (maybe re-delivered late below)
        }
        order.push(i);
        if rng.chance(1, 5) {
            order.push(i); // duplicate right away
        }
    }
    for i in n_honest..decls.len() {
        let at = rng.below(order.len() as u64 + 1) as usize;
        order.insert(at, i);
    }
    // author-signed operations that point at a real entry but do not sit directly behind it:
    // backlink = hash of the honest operation at seq j, seq = j + k with k in 2..=5 (skips ahead,
    // leaving a gap) or k in -3..=0 (at / below it); unflagged and prune-flagged variants. They are
    // delivered right after their target (which then usually is the stored latest entry) or at a
    // random point.
    let n_skip = rng.range(0, (n_honest as u64 / 4).max(2)) as usize;
    for _ in 0..n_skip {
        let j = rng.below(n_honest as u64) as usize;
        let target = decls[j].op.clone();
        let key = keys.iter().find(|k| k.verifying_key() == target.header.verifying_key).unwrap();
        let k: i64 = if rng.chance(2, 3) { rng.range(2, 5) as i64 } else { -(rng.range(0, 3) as i64) };
        let seq = (target.header.seq_num as i64 + k).max(0) as u32;
        let flag = rng.chance(1, 4);
        let bl = if seq == 0 { None } else { Some(target.header.hash()) };
        let op = mk_op(rng, key, log_of(&target), seq, bl, flag);
        if decls.iter().any(|d| d.op.hash == op.hash) {
            continue;
        }
        let class: &'static str = match (k >= 2, flag) {
            (true, false) => "skip-ahead",
            (true, true) => "skip-ahead-flagged",
            (false, false) => "skip-back",
            (false, true) => "skip-back-flagged",
        };
        let idx = decls.len();
        decls.push(Decl { op, class });
        let at = if rng.chance(3, 4) {
            order.iter().position(|x| *x == j).map(|p| p + 1).unwrap_or(order.len())
        } else {
            rng.below(order.len() as u64 + 1) as usize
        };
        order.insert(at, idx);
    }
    // late re-deliveries of arbitrary honest operations (old ones, pruned ones, dropped ones)
    let n_late = rng.range(0, (n_honest as u64 / 2).max(1));
    for _ in 0..n_late {
        let i = rng.below(n_honest as u64) as usize;
        let at = order.len() - rng.below((order.len() as u64 / 3).max(1)) as usize;
        order.insert(at.min(order.len()), i);
    }
    let shuffled = rng.chance(3, 10);
    if shuffled {
        rng.shuffle(&mut order);
    }
    History { decls, events: order.into_iter().map(|i| Event::Deliver(i, 0)).collect(), note: if shuffled { "shuffled" } else { "interleaved" } }
}

struct Stats {
    out_of_order_accepted: bool,
    forged_rejected: bool,
    late_prune_op: bool,
}

/// Runs a history on the implementation. Prune steps are scheduled here (immediately, delayed
/// or dropped) unless the history already contains explicit prune events.
fn run_history(cx_out: &mut Out, rt: &tokio::runtime::Runtime, rng: &mut Rng, hist: History) {
    let x = custom_ops();
    let explicit_prunes = hist.events.iter().any(|e| matches!(e, Event::Prune(_)));
    let decls = hist.decls;
    let mut executed: Vec<Event> = vec![];
    let mut words: Vec<String> = vec![];
    let mut fails: Vec<(String, String)> = vec![];
    let mut stats = Stats { out_of_order_accepted: false, forged_rejected: false, late_prune_op: false };
    let all_logs: BTreeSet<(VerifyingKey, u64)> = decls.iter().map(|d| (d.op.header.verifying_key, log_of(&d.op))).collect();
    let flag_by_id: BTreeMap<Hash, bool> = decls.iter().map(|d| (d.op.hash, flag_of(&d.op))).collect();

    let final_rows: Vec<RowInfo> = rt.block_on(async {
        let store = SqliteStore::temporary().await;
        let ingest = Ingest::<SqliteStore, Ev, u64, Custom, u64>::new(store.clone());
        let log_prune = LogPrune::<SqliteStore, Ev, u64, Custom>::new(store.clone());
        let mut pending: Vec<(usize, usize)> = vec![]; // (due after k more deliveries, op index)
        let mut queue: Vec<Event> = hist.events.clone();
        queue.reverse();
        let mut low_water: BTreeMap<(VerifyingKey, u64), u32> = BTreeMap::new(); // largest completed prune-flagged seq
        let mut pruned_to: BTreeMap<(VerifyingKey, u64), u32> = BTreeMap::new(); // largest executed prune point
        let mut max_seen: BTreeMap<(VerifyingKey, u64), u32> = BTreeMap::new();
        let mut armed_ops: BTreeSet<usize> = BTreeSet::new();
        let mut heights_before = heights_of::<Custom>(&store, &all_logs).await;
        loop {
            // next event: a due prune step first, else the next delivery
            let ev = if let Some(pos) = pending.iter().position(|p| p.0 == 0) {
                let (_, i) = pending.remove(pos);
                Event::Prune(i)
            } else if let Some(e) = queue.pop() {
                e
            } else if !pending.is_empty() {
                let (_, i) = pending.remove(0);
                Event::Prune(i)
            } else {
                break;
            };
            match ev {
                Event::Deliver(i, topic) => {
                    let d = &decls[i];
                    let key = (d.op.header.verifying_key, log_of(&d.op));
                    let topic = if topic == 0 { 10 + key.1 } else { topic };
                    let one: BTreeSet<(VerifyingKey, u64)> = [key].into_iter().collect();
                    let before = rows_of::<Custom>(&store, &one, &flag_by_id).await;
                    let item = Ev {
                        op: d.op.clone(),
                        ingest: IngestArgs { log_id: key.1, topic, prune_flag: flag_of(&d.op) },
                        prune: LogPruneArgs::Ignore,
                    };
                    let res = match ingest.process(item).await {
                        Ok(()) => ingest.next().await.map(|(_, r)| r),
                        Err(e) => Err(e),
                    };
                    let after = rows_of::<Custom>(&store, &one, &flag_by_id).await;
                    let word = match &res {
                        Ok(IngestResult::Inserted) => "ins",
                        Ok(IngestResult::AlreadyExists) => "dup",
                        Err((_, IngestError::InvalidOperation(e))) => op_err_word(e),
                        Err((_, IngestError::StoreError(_))) => "E:store",
                    };
                    executed.push(Event::Deliver(i, topic));
                    words.push(format!("{}/{}", word, rows_text(&after)));
                    for p in pending.iter_mut() {
                        p.0 = p.0.saturating_sub(1);
                    }
                    // ---- oracle -----------------------------------------------------------------
                    let seq = d.op.header.seq_num;
                    let lw = low_water.get(&key).copied();
                    match &res {
                        Ok(IngestResult::Inserted) => {
                            if d.class.starts_with("forged") {
                                fails.push((format!("forged-accepted:{}", d.class), format!("event {}: a {} copy was inserted", executed.len() - 1, d.class)));
                            }
                            if let Some(n) = lw {
                                if seq < n {
                                    fails.push(("resurrected-below-prune-point".into(), format!("event {}: seq {} inserted although a prune-flagged operation at seq {} had been ingested for this log", executed.len() - 1, seq, n)));
                                }
                            }
                            if let Some(n) = pruned_to.get(&key) {
                                if seq < *n {
                                    stats.late_prune_op = true;
                                }
                            }
                            if !flag_of(&d.op) {
                                let latest = before.iter().max_by_key(|r| r.seq);
                                let extends = match latest {
                                    Some(l) => l.seq + 1 == seq && d.op.header.backlink.map(|b| b.as_bytes().to_vec()) == Some(l.hid.clone()),
                                    None => seq == 0,
                                };
                                if !extends {
                                    fails.push(("nonextending-accepted".into(), format!("event {}: unflagged seq {} inserted on top of latest {:?}", executed.len() - 1, seq, latest.map(|l| l.seq))));
                                }
                            }
                            if max_seen.get(&key).map(|m| seq < *m).unwrap_or(false) {
                                stats.out_of_order_accepted = true;
                            }
                            if after.len() != before.len() + 1 {
                                fails.push(("insert-rowcount".into(), format!("event {}: inserted but rows {} -> {}", executed.len() - 1, before.len(), after.len())));
                            }
                        }
                        Ok(IngestResult::AlreadyExists) => {
                            if before != after {
                                fails.push(("dup-changed-store".into(), format!("event {}: already-exists changed the log", executed.len() - 1)));
                            }
                        }
                        Err(_) => {
                            if d.class.starts_with("forged") {
                                stats.forged_rejected = true;
                            }
                            if let Some(n) = lw {
                                if flag_of(&d.op) && seq < n {
                                    stats.late_prune_op = true;
                                }
                            }
                            if before != after {
                                fails.push(("reject-changed-store".into(), format!("event {}: rejected but the log changed", executed.len() - 1)));
                            }
                        }
                    }
                    let m = max_seen.entry(key).or_insert(0);
                    *m = (*m).max(seq);
                    if res.is_ok() && flag_of(&d.op) {
                        armed_ops.insert(i);
                        let e = low_water.entry(key).or_insert(0);
                        *e = (*e).max(seq);
                        if !explicit_prunes {
                            match rng.below(10) {
                                0 => {}                                             // prune step dropped
                                1..=3 => pending.push((rng.range(1, 5) as usize, i)), // delayed
                                _ => pending.push((0, i)),                          // immediately
                            }
                        }
                    }
                    check_log(&after, &mut fails, executed.len() - 1);
                }
                Event::Prune(i) => {
                    let d = &decls[i];
                    let key = (d.op.header.verifying_key, log_of(&d.op));
                    let one: BTreeSet<(VerifyingKey, u64)> = [key].into_iter().collect();
                    let before = rows_of::<Custom>(&store, &one, &flag_by_id).await;
                    let item = Ev {
                        op: d.op.clone(),
                        ingest: IngestArgs { log_id: key.1, topic: 0, prune_flag: true },
                        prune: LogPruneArgs::PruneEntriesUntil { author: key.0, log_id: key.1, seq_num: d.op.header.seq_num },
                    };
                    // only armed prune steps are run: the node runs LogPrune for an event only after
                    // its ingest completed (C04); a history's explicit prune step that is not armed
                    // (its delivery failed) is skipped
                    if !armed_ops.contains(&i) {
                        continue;
                    }
                    let res = match log_prune.process(item).await {
                        Ok(()) => log_prune.next().await.map(|(_, r)| r),
                        Err(e) => Err(e),
                    };
                    let after = rows_of::<Custom>(&store, &one, &flag_by_id).await;
                    let word = match &res {
                        Ok(LogPruneResult::Pruned { num_entries }) => format!("p{num_entries}"),
                        Ok(LogPruneResult::Noop) => "noop".to_string(),
                        Err(_) => "E:store".to_string(),
                    };
                    executed.push(Event::Prune(i));
                    words.push(format!("{}/{}", word, rows_text(&after)));
                    let n = d.op.header.seq_num;
                    if after.iter().any(|r| r.seq < n) || before.iter().filter(|r| r.seq >= n).count() != after.len() {
                        fails.push(("prune-scope".into(), format!("event {}: prune below {} left {:?}", executed.len() - 1, n, after.iter().map(|r| r.seq).collect::<Vec<_>>())));
                    }
                    let e = pruned_to.entry(key).or_insert(0);
                    *e = (*e).max(n);
                    check_log(&after, &mut fails, executed.len() - 1);
                }
            }
            // height never decreases: the touched log after every event, all logs every 16 events
            let scope: BTreeSet<(VerifyingKey, u64)> = if executed.len() % 16 == 0 {
                all_logs.clone()
            } else {
                match executed.last() {
                    Some(Event::Deliver(i, _)) | Some(Event::Prune(i)) => {
                        [(decls[*i].op.header.verifying_key, log_of(&decls[*i].op))].into_iter().collect()
                    }
                    None => BTreeSet::new(),
                }
            };
            let heights = heights_of::<Custom>(&store, &scope).await;
            for (a, l) in &scope {
                let k = (a.as_bytes().to_vec(), *l);
                if let Some(h) = heights_before.get(&k) {
                    match heights.get(&k) {
                        Some(h2) if h2 >= h => {}
                        other => fails.push(("height-decreased".into(), format!("event {}: height of a log went from {} to {:?}", executed.len() - 1, h, other))),
                    }
                }
                if let Some(h2) = heights.get(&k) {
                    heights_before.insert(k, *h2);
                }
            }
        }
        let rows = rows_of::<Custom>(&store, &all_logs, &flag_by_id).await;
        for ((a, l), n) in &pruned_to {
            if rows.iter().any(|r| r.author == a.as_bytes().to_vec() && r.log == *l && r.seq < *n) {
                fails.push(("resurrected-below-prune-point".into(), format!("final state holds a row below the executed prune point {n}")));
            }
        }
        // heights agree with the rows
        let hs = heights_of::<Custom>(&store, &all_logs).await;
        for (k, h) in &hs {
            let m = rows.iter().filter(|r| r.author == k.0 && r.log == k.1).map(|r| r.seq).max();
            if m != Some(*h) {
                fails.push(("height-vs-rows".into(), format!("get_log_heights says {h}, rows say {m:?}")));
            }
        }
        rows
    });

    // ---- request / answer lines ----------------------------------------------------------------
    let mut all = vec![];
    for d in &decls {
        collect_op_section(&d.op, &x, &mut all);
    }
    let sigs: Vec<_> = decls.iter().filter_map(|d| honest_sig_entry(&d.op.header)).collect();
    for s in &sigs {
        collect_sig_entry(s, &mut all);
    }
    let ids = IdMap::new(all);
    let mut req = String::from("hist K");
    for d in &decls {
        req.push_str(" ; ");
        req.push_str(&render_op_section(&d.op, &x, &ids));
    }
    let mut seen = BTreeSet::new();
    for s in &sigs {
        if seen.insert(s.clone()) {
            req.push_str(" ; ");
            req.push_str(&render_sig_entry(s, &ids));
        }
    }
    req.push_str(" ; E");
    for e in &executed {
        match e {
            Event::Deliver(i, t) => req.push_str(&format!(" d{i}:{t}")),
            Event::Prune(i) => req.push_str(&format!(" p{i}")),
        }
    }
    // answer: ids inside the words were rendered with hex placeholders; re-render with ids
    let mut ans_words: Vec<String> = vec![];
    for w in &words {
        ans_words.push(sub_ids(w, &ids));
    }
    let mut logs: BTreeMap<(usize, u64), Vec<&RowInfo>> = BTreeMap::new();
    for r in &final_rows {
        logs.entry((ids.id(&r.author), r.log)).or_default().push(r);
    }
    let dump = if logs.is_empty() {
        "-".to_string()
    } else {
        logs.iter()
            .map(|((a, l), rs)| {
                let mut v: Vec<(u32, usize)> = rs.iter().map(|r| (r.seq, ids.id(&r.id))).collect();
                v.sort();
                format!("{a}.{l}={}", v.iter().map(|(s, i)| format!("{s}:{i}")).collect::<Vec<_>>().join(","))
            })
            .collect::<Vec<_>>()
            .join(" ")
    };
    let ans = format!("{} | {}", ans_words.join(" "), dump);
    let nt = stats.out_of_order_accepted as u8 + stats.forged_rejected as u8 + stats.late_prune_op as u8;
    let n = cx_out.case(&req, &ans, nt >= 2);
    cx_out.count(&format!("history {}", hist.note));
    cx_out.count_n("events", executed.len() as u64);
    cx_out.count_n("prune steps", executed.iter().filter(|e| matches!(e, Event::Prune(_))).count() as u64);
    for d in &decls {
        cx_out.count(&format!("declared {}", d.class));
    }
    for w in &words {
        let k = w.split('/').next().unwrap_or("");
        let k = if k.starts_with('p') { "prune" } else { k };
        cx_out.count(&format!("step -> {k}"));
    }
    if stats.late_prune_op {
        cx_out.count("history with a prune-flagged op delivered after a larger prune point");
    }
    if stats.out_of_order_accepted {
        cx_out.count("history with an out-of-order delivery accepted");
    }
    if stats.forged_rejected {
        cx_out.count("history with a rejected forged copy");
    }
    let mut seen_tags = BTreeSet::new();
    for (tag, what) in fails {
        if seen_tags.insert(tag.clone()) {
            cx_out.oracle_fail(n, &tag, &what, &req, &ans);
        }
    }
}

/// rows as `seq:<hex id>` (ids substituted later, once all byte strings are known)
fn rows_text(rows: &[RowInfo]) -> String {
    if rows.is_empty() {
        return "-".into();
    }
    let mut v: Vec<(u32, String)> = rows.iter().map(|r| (r.seq, hc::hex(&r.id))).collect();
    v.sort();
    v.iter().map(|(s, i)| format!("{s}:#{i}")).collect::<Vec<_>>().join(",")
}

fn sub_ids(word: &str, ids: &IdMap) -> String {
    let (head, rows) = word.split_once('/').unwrap();
    if rows == "-" {
        return word.to_string();
    }
    let mut v: Vec<(u32, usize)> = rows
        .split(',')
        .map(|p| {
            let (s, h) = p.split_once(":#").unwrap();
            let bytes: Vec<u8> = (0..h.len() / 2).map(|i| u8::from_str_radix(&h[2 * i..2 * i + 2], 16).unwrap()).collect();
            (s.parse().unwrap(), ids.id(&bytes))
        })
        .collect();
    v.sort();
    format!("{head}/{}", v.iter().map(|(s, i)| format!("{s}:{i}")).collect::<Vec<_>>().join(","))
}

/// unique sequence numbers; every unflagged row with seq > 0 has its predecessor stored
fn check_log(rows: &[RowInfo], fails: &mut Vec<(String, String)>, ev: usize) {
    for (i, r) in rows.iter().enumerate() {
        if rows.iter().skip(i + 1).any(|q| q.seq == r.seq) {
            fails.push(("dup-seq".into(), format!("event {ev}: two rows with seq {}", r.seq)));
        }
        if r.seq > 0 && !r.prune {
            let pred = rows.iter().find(|q| q.seq + 1 == r.seq);
            match pred {
                Some(p) if Some(p.hid.clone()) == r.backlink => {}
                _ => fails.push(("unlinked".into(), format!("event {ev}: unflagged row seq {} has no stored predecessor matching its backlink", r.seq))),
            }
        }
    }
}

/// Concurrent family: several `ingest_operation` calls for one log race on a shared, FILE-BACKED
/// store with a real connection pool (8 connections; the in-memory test store has one and hides
/// stale reads). The store's own FIFO transaction permit is the gate: the harness holds it while
/// the ingests are started in `queue` order, with a gate transaction queued behind each of them;
/// after the release the transactions therefore run in queue order, and behind each ingest the
/// harness reads the log and runs the armed `LogPrune` step while holding the gate. Since the
/// transaction makes check-and-insert atomic, the result must be the one of the sequential
/// history "prefix, then queue order with the prune steps" — which is what is sent to the model.
fn run_gated(out: &mut Out, rt: &tokio::runtime::Runtime, dir: &std::path::Path, n: usize, decls: Vec<Decl>, prefix: Vec<usize>, queue: Vec<usize>, note: &str) {
    use p2panda_store::{SqliteStoreBuilder, Transaction};
    use p2panda_stream::ingest::ingest_operation;
    use tokio::sync::oneshot;
    let x = custom_ops();
    let path = dir.join(format!("conc-{}-{n}.sqlite", std::process::id()));
    let _ = std::fs::remove_file(&path);
    let url = format!("sqlite://{}", path.display());
    let flag_by_id: BTreeMap<Hash, bool> = decls.iter().map(|d| (d.op.hash, flag_of(&d.op))).collect();
    let key = (decls[0].op.header.verifying_key, log_of(&decls[0].op));
    let one: BTreeSet<(VerifyingKey, u64)> = [key].into_iter().collect();
    let topic = 10 + key.1;
    let mut executed: Vec<Event> = vec![];
    let mut words: Vec<String> = vec![];
    let mut fails: Vec<(String, String)> = vec![];
    let local = tokio::task::LocalSet::new();
    let final_rows: Vec<RowInfo> = rt.block_on(local.run_until(async {
        let store = SqliteStoreBuilder::new().database_url(&url).min_connections(1).max_connections(8).build().await.expect("file-backed store");
        let log_prune = LogPrune::<SqliteStore, Ev, u64, Custom>::new(store.clone());
        let mut low_water: Option<u32> = None;
        for &i in &prefix {
            let d = &decls[i];
            let r = ingest_operation(&store, &d.op, &key.1, &topic, flag_of(&d.op)).await;
            let rows = rows_of::<Custom>(&store, &one, &flag_by_id).await;
            let w = match &r {
                Ok(true) => "ins",
                Ok(false) => "dup",
                Err(IngestError::InvalidOperation(e)) => op_err_word(e),
                Err(_) => "E:store",
            };
            executed.push(Event::Deliver(i, topic));
            words.push(format!("{}/{}", w, rows_text(&rows)));
        }
        // hold the permit; queue ingest_1, gate_1, ingest_2, gate_2, …
        let blocker = store.begin().await.expect("begin");
        let mut tasks = vec![];
        for &i in &queue {
            let (st, op) = (store.clone(), decls[i].op.clone());
            let log = key.1;
            let t = tokio::task::spawn_local(async move { ingest_operation(&st, &op, &log, &topic, flag_of(&op)).await });
            tokio::time::sleep(std::time::Duration::from_millis(40)).await;
            let (acq_tx, acq_rx) = oneshot::channel::<()>();
            let (rel_tx, rel_rx) = oneshot::channel::<()>();
            let st = store.clone();
            let g = tokio::task::spawn_local(async move {
                let permit = st.begin().await.expect("gate begin");
                let _ = acq_tx.send(());
                let _ = rel_rx.await;
                st.rollback(permit).await.expect("gate rollback");
            });
            tokio::time::sleep(std::time::Duration::from_millis(40)).await;
            tasks.push((i, t, acq_rx, rel_tx, g));
        }
        store.rollback(blocker).await.expect("release");
        for (i, t, acq_rx, rel_tx, g) in tasks {
            let d = &decls[i];
            let r = match tokio::time::timeout(std::time::Duration::from_secs(20), t).await {
                Ok(Ok(r)) => r,
                _ => {
                    fails.push(("concurrent-hang".into(), "an ingest task did not finish".into()));
                    break;
                }
            };
            let _ = tokio::time::timeout(std::time::Duration::from_secs(20), acq_rx).await;
            let rows = rows_of::<Custom>(&store, &one, &flag_by_id).await;
            let w = match &r {
                Ok(true) => "ins",
                Ok(false) => "dup",
                Err(IngestError::InvalidOperation(e)) => op_err_word(e),
                Err(_) => "E:store",
            };
            executed.push(Event::Deliver(i, topic));
            words.push(format!("{}/{}", w, rows_text(&rows)));
            let seq = d.op.header.seq_num;
            if let (Ok(true), Some(n)) = (&r, low_water) {
                if seq < n {
                    fails.push(("resurrected-below-prune-point".into(), format!("concurrent schedule: seq {seq} inserted although the prune-flagged operation at seq {n} had been ingested (and pruned) before this ingest got the transaction")));
                }
            }
            check_log(&rows, &mut fails, executed.len() - 1);
            if r.is_ok() && flag_of(&d.op) {
                low_water = Some(low_water.unwrap_or(0).max(seq));
                // the armed LogPrune step, run while the gate transaction keeps the next ingest waiting
                let item = Ev {
                    op: d.op.clone(),
                    ingest: IngestArgs { log_id: key.1, topic, prune_flag: true },
                    prune: LogPruneArgs::PruneEntriesUntil { author: key.0, log_id: key.1, seq_num: seq },
                };
                let res = match log_prune.process(item).await {
                    Ok(()) => log_prune.next().await.map(|(_, r)| r),
                    Err(e) => Err(e),
                };
                let rows = rows_of::<Custom>(&store, &one, &flag_by_id).await;
                let w = match &res {
                    Ok(LogPruneResult::Pruned { num_entries }) => format!("p{num_entries}"),
                    Ok(LogPruneResult::Noop) => "noop".to_string(),
                    Err(_) => "E:store".to_string(),
                };
                executed.push(Event::Prune(i));
                words.push(format!("{}/{}", w, rows_text(&rows)));
            }
            let _ = rel_tx.send(());
            let _ = g.await;
        }
        let rows = rows_of::<Custom>(&store, &one, &flag_by_id).await;
        check_log(&rows, &mut fails, executed.len());
        if let Some(n) = low_water {
            if rows.iter().any(|r| r.seq < n) && executed.iter().any(|e| matches!(e, Event::Prune(_))) {
                fails.push(("resurrected-below-prune-point".into(), format!("concurrent schedule: final log holds a row below the executed prune point {n}: {:?}", rows.iter().map(|r| r.seq).collect::<Vec<_>>())));
            }
        }
        store.pool().close().await;
        rows
    }));
    let _ = std::fs::remove_file(&path);
    let _ = std::fs::remove_file(format!("{}-wal", path.display()));
    let _ = std::fs::remove_file(format!("{}-shm", path.display()));
    // request / answer
    let mut all = vec![];
    for d in &decls {
        collect_op_section(&d.op, &x, &mut all);
    }
    let sigs: Vec<_> = decls.iter().filter_map(|d| honest_sig_entry(&d.op.header)).collect();
    for sg in &sigs {
        collect_sig_entry(sg, &mut all);
    }
    let ids = IdMap::new(all);
    let mut req = String::from("hist K");
    for d in &decls {
        req.push_str(" ; ");
        req.push_str(&render_op_section(&d.op, &x, &ids));
    }
    for sg in &sigs {
        req.push_str(" ; ");
        req.push_str(&render_sig_entry(sg, &ids));
    }
    req.push_str(" ; E");
    for e in &executed {
        match e {
            Event::Deliver(i, t) => req.push_str(&format!(" d{i}:{t}")),
            Event::Prune(i) => req.push_str(&format!(" p{i}")),
        }
    }
    let ans_words: Vec<String> = words.iter().map(|w| sub_ids(w, &ids)).collect();
    let mut v: Vec<(u32, usize)> = final_rows.iter().map(|r| (r.seq, ids.id(&r.id))).collect();
    v.sort();
    let dump = if v.is_empty() { "-".to_string() } else { format!("{}.{}={}", ids.id(key.0.as_bytes()), key.1, v.iter().map(|(q, i)| format!("{q}:{i}")).collect::<Vec<_>>().join(",")) };
    let ans = format!("{} | {}", ans_words.join(" "), dump);
    let n = out.case(&req, &ans, true);
    out.count(&format!("concurrent schedule {note}"));
    out.count("history concurrent (file-backed store, 8 connections, gated by the transaction permit)");
    let mut seen = BTreeSet::new();
    for (tag, what) in fails {
        if seen.insert(tag.clone()) {
            out.oracle_fail(n, &tag, &what, &req, &ans);
        }
    }
}

/// The concurrent schedules of one run.
fn concurrent_family(out: &mut Out, rt: &tokio::runtime::Runtime, dir: &std::path::Path, rng: &mut Rng, keys: &[SigningKey], rounds: usize) {
    let mut n = 0usize;
    for round in 0..rounds {
        let key = &keys[round % keys.len()];
        let stored = if round == 0 { 3 } else { rng.range(1, 4) as usize };
        let ppoint = stored + rng.range(1, 3) as usize + if round == 0 { 1 } else { 0 };
        let len = ppoint + 2;
        let ops = chain(rng, key, 1, len, (0, 1), &[ppoint as u32, 99]);
        let mut decls: Vec<Decl> = ops.into_iter().map(|op| Decl { op, class: "honest" }).collect();
        // an equivocating successor of the stored prefix (same slot as the honest next operation)
        let eq = mk_op(rng, key, 1, stored as u32, Some(decls[stored - 1].op.header.hash()), false);
        decls.push(Decl { op: eq, class: "equivocation" });
        let eqi = decls.len() - 1;
        let prefix: Vec<usize> = (0..stored).collect();
        let older = stored; // the honest next operation: older than the prune point
        let schedules: Vec<(Vec<usize>, &str)> = vec![
            (vec![ppoint, older], "prune point first, older operation behind it"),
            (vec![older, ppoint], "older operation first, prune point behind it"),
            (vec![older, eqi], "two successors of the same entry (equivocation race)"),
            (vec![older, older], "the same operation twice (duplicate race)"),
            (vec![older, older + 1], "successor and its successor"),
            (vec![ppoint, older, ppoint + 1], "prune point, older operation, successor of the prune point"),
        ];
        for (q, note) in schedules {
            if q.iter().any(|i| *i >= decls.len()) {
                continue;
            }
            run_gated(out, rt, dir, n, decls.clone(), prefix.clone(), q, note);
            n += 1;
        }
    }
}

fn permutations(n: usize) -> Vec<Vec<usize>> {
    fn go(k: usize, a: &mut Vec<usize>, out: &mut Vec<Vec<usize>>) {
        if k == a.len() {
            out.push(a.clone());
            return;
        }
        for i in k..a.len() {
            a.swap(k, i);
            go(k + 1, a, out);
            a.swap(k, i);
        }
    }
    let mut out = vec![];
    go(0, &mut (0..n).collect(), &mut out);
    out
}

fn main() {
    let args = Args::parse();
    let rt = tokio::runtime::Builder::new_current_thread().enable_all().build().unwrap();
    let mut out = Out::new(&args.out);
    let mut rng = Rng::new(args.seed);
    let keys: Vec<SigningKey> = (0..4).map(|_| key_from(&mut rng)).collect();
    if args.mode == "replay" {
        let text = std::fs::read_to_string(args.replay.as_ref().expect("replay file")).unwrap();
        let v: hc::serde_json::Value = hc::serde_json::from_str(&text).unwrap();
        println!("histories carry real signatures: re-running the witness and the generator; recorded request: {}", &v["request"].as_str().unwrap_or("")[..200.min(v["request"].as_str().unwrap_or("").len())]);
    }
    // the C05 witness history is part of every run
    let w = witness(&mut rng, &keys);
    run_history(&mut out, &rt, &mut rng, w);
    // concurrent ingests of one log on a file-backed multi-connection store
    let conc_rounds = match args.tier {
        Tier::Quick => 2,
        Tier::Thorough => 12,
        Tier::Search => 4,
    };
    concurrent_family(&mut out, &rt, &args.out, &mut rng, &keys, conc_rounds);
    let (n_hist, max_len, perm_universes) = match args.tier {
        Tier::Quick => (250usize, 14usize, 3usize),
        Tier::Thorough => (2_500, 22, 10),
        Tier::Search => (1500, 20, 10),
    };
    for k in 0..n_hist {
        let small = k % 5 == 0;
        let h = random_history(&mut rng, &keys, if small { 6 } else { max_len }, small);
        run_history(&mut out, &rt, &mut rng, h);
    }
    // all delivery orders of small universes (<= 6 operations, <= 2 prune points)
    let mut exhaustive = 0u64;
    for _ in 0..perm_universes {
        let len = rng.range(3, if args.tier == Tier::Quick { 5 } else { 6 }) as usize;
        let mut flags: Vec<u32> = vec![];
        for _ in 0..rng.range(1, 2) {
            flags.push(rng.range(1, len as u64 - 1) as u32);
        }
        flags.push(99); // non-empty: no random flags
        let ops = chain(&mut rng, &keys[0], 1, len, (0, 1), &flags);
        let decls: Vec<Decl> = ops.into_iter().map(|op| Decl { op, class: "honest" }).collect();
        for p in permutations(len) {
            let h = History { decls: decls.clone(), events: p.into_iter().map(|i| Event::Deliver(i, 0)).collect(), note: "permutation" };
            run_history(&mut out, &rt, &mut rng, h);
            exhaustive += 1;
        }
    }
    out.extra.insert("permutation_histories".into(), exhaustive.into());
    out.finish(
        "universes of honest chains (1-4 authors x 1-3 logs x up to 14 (thorough 25) operations, prune flags with probability 0 / 0.15 / 0.33) delivered through the real Ingest and LogPrune processors: random interleaving, drops, immediate duplicates, late re-deliveries, forged copies (key, backlink, seq, flag, signature), equivocations, foreign copies, author-signed skip-ahead / skip-back operations (backlink = hash of a real entry at seq j, seq = j+2..j+5 or j-3..j, with and without prune flag) delivered right behind their target; 30 % fully shuffled; prune steps immediately / delayed by 1-5 deliveries / dropped; plus concurrent schedules (2-3 ingest_operation calls for one log racing on a file-backed 8-connection store, ordered by the store's FIFO transaction permit, prune steps run behind a gate transaction: prune point vs older operation in both queue orders, equivocation race, duplicate race, successor chains); plus every delivery order of small universes (3-6 operations, 1-2 prune points) and the C05 witness. non-trivial = at least two of: an out-of-order delivery accepted, a forged copy rejected, a prune-flagged operation delivered after a larger prune point",
        false,
    );
}
