//! C28 — Discovery backoff stays within its configured bounds.
//! Drives the real `Backoff` of /repo/p2panda-net/src/discovery/backoff.rs (the file itself is compiled
//! into this binary, see Cargo.toml) through the verif hook
//! (`VerifBackoff`: explicit-config constructor with rng seed, `value()`, `verif_reset_after()`,
//! `rewind_last_reset(d)` = let `d` elapse).
//!
//! Request line (all values in ms):
//!   `<initial> <minInc> <maxInc> <max> <minReset> <maxReset> ; seed <n> ; new <rReset|-> ; <op> ; …`
//!   op = `adv <d>` | `inc <rInc|-> <rReset|->` | `reset <rReset|->`
//! The draws are produced by a mirror `ChaCha20Rng` with the same seed that is advanced by the
//! harness' own reading of which draws a call makes; a wrong guess de-synchronises the stream and
//! shows up as a disagreement.
//! Answer: `<value>/<resetAfter>` per new/inc/reset, `PANIC` ends the line.
use hc::{Args, Out, Rng, Tier};
/// The real source file of the pinned/working tree, compiled with `--cfg p2panda_p2panda_verif` (hook items on).
#[allow(dead_code)]
#[path = "/repo/p2panda-net/src/discovery/backoff.rs"]
mod backoff;
use backoff::{Backoff as VerifBackoff, Config as VerifBackoffConfig};
use rand::{RngExt, SeedableRng};
use rand_chacha::ChaCha20Rng;
use std::panic::AssertUnwindSafe;
use std::time::{Duration, Instant};

/// Real time that may pass inside one case without making a comparison of the code ambiguous.
const SLACK_MS: u64 = 1000;

#[derive(Clone, Copy, Debug)]
struct Cfg {
    init: u64,
    min_inc: u64,
    max_inc: u64,
    max: u64,
    min_reset: u64,
    max_reset: u64,
}

impl Cfg {
    fn wf(&self) -> bool {
        self.init <= self.max && self.min_inc < self.max_inc && self.min_reset < self.max_reset
    }
    fn real(&self) -> VerifBackoffConfig {
        let d = Duration::from_millis;
        VerifBackoffConfig::verif_new(d(self.init), d(self.min_inc), d(self.max_inc), d(self.max), d(self.min_reset), d(self.max_reset))
    }
    fn line(&self) -> String {
        format!("{} {} {} {} {} {}", self.init, self.min_inc, self.max_inc, self.max, self.min_reset, self.max_reset)
    }
}

#[derive(Clone, Copy, Debug)]
enum Act {
    Adv(u64),
    Inc,
    Reset,
}

/// What the generator wants next; turned into an `Act` knowing the current state.
#[derive(Clone, Copy, Debug)]
enum Want {
    Inc,
    Reset,
    AdvSmall(u64),
    AdvToBoundary,
    AdvJustUnder,
    AdvOver(u64),
}

fn seed_bytes(n: u64) -> [u8; 32] {
    let mut r = Rng::new(n ^ 0xC28);
    let mut b = [0u8; 32];
    for x in b.iter_mut() {
        *x = r.next_u64() as u8;
    }
    b
}

fn opt(x: Option<u64>) -> String {
    x.map(|v| v.to_string()).unwrap_or_else(|| "-".into())
}

struct CaseResult {
    req: String,
    ans: String,
    nt: bool,
    fails: Vec<(String, String)>,
    dropped: bool,
    calls: u64,
    resets_by_time: u64,
    at_max: u64,
    clamped: u64,
    panicked: bool,
}

/// Runs one case. `next` yields the next action given (virtual elapsed since last reset, reset_after, value);
/// returns None to stop.
fn run_case(cfg: Cfg, seed: u64, mut next: impl FnMut(u64, u64, u64) -> Option<Act>) -> CaseResult {
    let mut res = CaseResult {
        req: format!("{} ; seed {}", cfg.line(), seed),
        ans: String::new(),
        nt: false,
        fails: vec![],
        dropped: false,
        calls: 0,
        resets_by_time: 0,
        at_max: 0,
        clamped: 0,
        panicked: false,
    };
    let wf = cfg.wf();
    let mut mirror = ChaCha20Rng::from_seed(seed_bytes(seed));
    let mut answers: Vec<String> = vec![];
    // draw helpers on the mirror; None when the range is empty (the code panics there)
    let draw = |m: &mut ChaCha20Rng, lo: u64, hi: u64| -> Option<u64> {
        if lo >= hi {
            None
        } else {
            Some(m.random_range::<u128, _>((lo as u128)..(hi as u128)) as u64)
        }
    };

    // ---- new ----
    let rr = draw(&mut mirror, cfg.min_reset, cfg.max_reset);
    res.req.push_str(&format!(" ; new {}", opt(rr)));
    let mut t_last = Instant::now();
    let made = hc::catch(AssertUnwindSafe(|| VerifBackoff::verif_new(cfg.real(), seed_bytes(seed))));
    let mut b = match made {
        Ok(b) => b,
        Err(_) => {
            answers.push("PANIC".into());
            res.panicked = true;
            if wf {
                res.fails.push(("panic".into(), "Backoff::new panicked for a well-formed config".into()));
            }
            res.ans = answers.join(" ");
            return res;
        }
    };
    let ms = |d: Duration| d.as_millis() as u64;
    answers.push(format!("{}/{}", ms(b.value()), ms(b.verif_reset_after())));
    let mut elapsed: u64 = 0; // virtual ms since the last reset (sum of rewinds)
    let check_state = |b: &VerifBackoff, fails: &mut Vec<(String, String)>, k: usize| {
        if !wf {
            return;
        }
        let v = ms(b.value());
        let ra = ms(b.verif_reset_after());
        if v > cfg.max {
            fails.push(("overshoot".into(), format!("after call {k}: value {v} ms > max_value {} ms", cfg.max)));
        }
        if v < cfg.init {
            fails.push(("below-initial".into(), format!("after call {k}: value {v} ms < initial_value {} ms", cfg.init)));
        }
        if !(cfg.min_reset <= ra && ra < cfg.max_reset) {
            fails.push(("reset-range".into(), format!("after call {k}: reset_after {ra} ms outside [{}, {})", cfg.min_reset, cfg.max_reset)));
        }
    };
    check_state(&b, &mut res.fails, 0);
    if wf && ms(b.value()) != cfg.init {
        res.fails.push(("new-not-initial".into(), "value after new() is not initial_value".into()));
    }

    let mut k = 0usize;
    loop {
        let v0 = ms(b.value());
        let ra0 = ms(b.verif_reset_after());
        let Some(act) = next(elapsed, ra0, v0) else { break };
        match act {
            Act::Adv(d) => {
                b.rewind_last_reset(Duration::from_millis(d));
                elapsed += d;
                res.req.push_str(&format!(" ; adv {d}"));
            }
            Act::Reset => {
                k += 1;
                res.calls += 1;
                let rr = draw(&mut mirror, cfg.min_reset, cfg.max_reset);
                res.req.push_str(&format!(" ; reset {}", opt(rr)));
                t_last = Instant::now();
                match hc::catch(AssertUnwindSafe(|| b.reset())) {
                    Ok(()) => {}
                    Err(_) => {
                        answers.push("PANIC".into());
                        res.panicked = true;
                        if wf {
                            res.fails.push(("panic".into(), "reset() panicked for a well-formed config".into()));
                        }
                        break;
                    }
                }
                elapsed = 0;
                answers.push(format!("{}/{}", ms(b.value()), ms(b.verif_reset_after())));
                check_state(&b, &mut res.fails, k);
                if wf && ms(b.value()) != cfg.init {
                    res.fails.push(("reset-not-initial".into(), format!("after call {k}: reset() left value {}", ms(b.value()))));
                }
            }
            Act::Inc => {
                k += 1;
                res.calls += 1;
                // harness' own reading of the draws this call makes
                let wants_inc = v0 < cfg.max;
                let due = elapsed >= ra0;
                if !due && elapsed + SLACK_MS > ra0 {
                    // the generator must never produce this (real time could flip the comparison)
                    res.dropped = true;
                    break;
                }
                let ri = if wants_inc { draw(&mut mirror, cfg.min_inc, cfg.max_inc) } else { None };
                let inc_panics = wants_inc && ri.is_none();
                let rr = if due && !inc_panics { draw(&mut mirror, cfg.min_reset, cfg.max_reset) } else { None };
                res.req.push_str(&format!(" ; inc {} {}", opt(ri), opt(rr)));
                if wf && v0 < cfg.max && v0 + cfg.max_inc > cfg.max + 1 {
                    // an increment from inside the window where a draw can cross the ceiling
                    res.nt = true;
                }
                let t_call = Instant::now();
                let r = hc::catch(AssertUnwindSafe(|| b.increment()));
                if t_last.elapsed() >= Duration::from_millis(SLACK_MS - 100) {
                    // a stall of the machine: the real clock may have changed the outcome; drop the case
                    res.dropped = true;
                    break;
                }
                if r.is_err() {
                    answers.push("PANIC".into());
                    res.panicked = true;
                    if wf {
                        res.fails.push(("panic".into(), format!("call {k}: increment() panicked for a well-formed config")));
                    }
                    break;
                }
                let v1 = ms(b.value());
                let ra1 = ms(b.verif_reset_after());
                answers.push(format!("{v1}/{ra1}"));
                check_state(&b, &mut res.fails, k);
                if v1 == cfg.max {
                    res.at_max += 1;
                    if wants_inc && !due && v0 + ri.unwrap_or(0) > cfg.max {
                        res.clamped += 1;
                    }
                }
                if wf {
                    if due {
                        res.resets_by_time += 1;
                        if v1 != cfg.init {
                            res.fails.push(("no-reset".into(), format!("call {k}: increment {elapsed} ms after the last reset (reset_after {ra0} ms) left value {v1} ms, initial_value is {} ms", cfg.init)));
                        }
                    } else {
                        if ra1 != ra0 || (v1 < v0 && v0 <= cfg.max) {
                            res.fails.push(("early-reset".into(), format!("call {k}: increment only {elapsed} ms after the last reset (reset_after {ra0} ms) changed value {v0}->{v1} / reset_after {ra0}->{ra1}")));
                        }
                        if wants_inc {
                            let d = v1.saturating_sub(v0);
                            let full = d >= cfg.min_inc && d < cfg.max_inc;
                            let clamped = v1 == cfg.max && d < cfg.max_inc;
                            if !(full || clamped) {
                                res.fails.push(("increment-range".into(), format!("call {k}: value {v0}->{v1}: step {d} ms neither within [{}, {}) nor clamped at max {}", cfg.min_inc, cfg.max_inc, cfg.max)));
                            }
                        } else if v1 != v0.min(cfg.max) {
                            res.fails.push(("moved-at-max".into(), format!("call {k}: value {v0}->{v1} although already at max")));
                        }
                    }
                }
                if due {
                    elapsed = 0;
                    t_last = t_call;
                }
            }
        }
    }
    res.ans = answers.join(" ");
    res
}

fn emit(out: &mut Out, r: CaseResult, kind: &str) {
    if r.dropped {
        out.count("dropped-realtime-stall");
        return;
    }
    let n = out.case(&r.req, &r.ans, r.nt);
    out.count(&format!("kind={kind}"));
    out.count_n("calls", r.calls);
    out.count_n("resets-by-elapsed-time", r.resets_by_time);
    out.count_n("increments-ending-at-max", r.at_max);
    out.count_n("increments-clamped", r.clamped);
    if r.panicked {
        out.count("panic(empty random_range)");
    }
    let mut seen = std::collections::BTreeSet::new();
    for (tag, what) in r.fails {
        if seen.insert(tag.clone()) {
            out.oracle_fail(n, &tag, &what, &r.req, &r.ans);
        }
    }
}

fn random_cfg(rng: &mut Rng) -> Cfg {
    let init = if rng.chance(1, 3) { 0 } else { rng.range(0, 5000) };
    let max = if rng.chance(1, 12) { init } else { init + rng.range(1, 20000) };
    let min_inc = if rng.chance(1, 6) { 0 } else { rng.range(0, 3000) };
    let max_inc = min_inc + if rng.chance(1, 8) { 1 } else { rng.range(1, 5000) };
    let min_reset = rng.range(SLACK_MS + 500, 10000);
    let max_reset = min_reset + if rng.chance(1, 8) { 1 } else { rng.range(1, 20000) };
    Cfg { init, min_inc, max_inc, max, min_reset, max_reset }
}

fn malformed_cfg(rng: &mut Rng) -> Cfg {
    let mut c = random_cfg(rng);
    match rng.below(4) {
        0 => c.max_inc = c.min_inc,                              // empty increment range
        1 => c.max_inc = c.min_inc.saturating_sub(rng.range(0, 50)), // inverted
        2 => c.max_reset = c.min_reset - rng.range(0, 200),       // empty / inverted reset range
        _ => {
            c.init = c.max + rng.range(1, 3000); // initial above max: no panic, outside the hypothesis
        }
    }
    c
}

fn random_case(rng: &mut Rng, cfg: Cfg, seed: u64, max_calls: u64) -> CaseResult {
    let mut r = rng.fork();
    let mut calls = 0u64;
    // favour long plain increment runs (to reach the ceiling) in some cases, time games in others
    let p_adv = *r.pick(&[2u64, 10, 25, 50]);
    run_case(cfg, seed, move |elapsed, ra, _v| {
        if calls >= max_calls {
            return None;
        }
        let w = if r.chance(p_adv, 100) {
            match r.below(6) {
                0 => Want::AdvToBoundary,
                1 => Want::AdvJustUnder,
                2 => Want::AdvOver(r.range(1, 200_000)),
                _ => Want::AdvSmall(r.range(0, 3000)),
            }
        } else if r.chance(1, 25) {
            Want::Reset
        } else {
            Want::Inc
        };
        let safe_under = ra.saturating_sub(SLACK_MS); // elapsed <= this is safely "not yet"
        let act = match w {
            Want::Inc => {
                calls += 1;
                Act::Inc
            }
            Want::Reset => {
                calls += 1;
                Act::Reset
            }
            Want::AdvToBoundary => Act::Adv(ra.saturating_sub(elapsed)),
            Want::AdvJustUnder => Act::Adv(safe_under.saturating_sub(elapsed)),
            Want::AdvOver(x) => Act::Adv(ra.saturating_sub(elapsed) + x),
            Want::AdvSmall(d) => {
                let e = elapsed + d;
                if e >= ra || e <= safe_under {
                    Act::Adv(d)
                } else if elapsed <= safe_under {
                    Act::Adv(safe_under - elapsed)
                } else {
                    Act::Adv(ra - elapsed)
                }
            }
        };
        Some(act)
    })
}

/// Replays the op list of a request line (draws are recomputed from the seed).
fn replay_line(req: &str) -> CaseResult {
    let segs: Vec<Vec<&str>> = req.split(';').map(|s| s.split_whitespace().collect()).collect();
    let c: Vec<u64> = segs[0].iter().map(|t| t.parse().expect("cfg")).collect();
    let cfg = Cfg { init: c[0], min_inc: c[1], max_inc: c[2], max: c[3], min_reset: c[4], max_reset: c[5] };
    let mut seed = 0u64;
    let mut acts = vec![];
    for s in &segs[1..] {
        match s.as_slice() {
            ["seed", n] => seed = n.parse().unwrap(),
            ["new", _] => {}
            ["adv", d] => acts.push(Act::Adv(d.parse().unwrap())),
            ["inc", _, _] => acts.push(Act::Inc),
            ["reset", _] => acts.push(Act::Reset),
            _ => panic!("bad replay op {:?}", s),
        }
    }
    let mut it = acts.into_iter();
    run_case(cfg, seed, move |_, _, _| it.next())
}

fn default_cfg() -> Cfg {
    let f = VerifBackoffConfig::default().verif_fields();
    let ms = |d: Duration| d.as_millis() as u64;
    Cfg { init: ms(f[0]), min_inc: ms(f[1]), max_inc: ms(f[2]), max: ms(f[3]), min_reset: ms(f[4]), max_reset: ms(f[5]) }
}

fn main() {
    let args = Args::parse();
    let mut out = Out::new(&args.out);
    if args.mode == "replay" {
        let text = std::fs::read_to_string(args.replay.as_ref().expect("replay file")).unwrap();
        let v: hc::serde_json::Value = hc::serde_json::from_str(&text).unwrap();
        let req = v["request"].as_str().unwrap().to_string();
        let r = replay_line(&req);
        emit(&mut out, r, "replay");
        out.finish("replay", false);
        return;
    }
    // corpus first
    if let Ok(rd) = std::fs::read_dir("corpus/C28") {
        let mut files: Vec<_> = rd.filter_map(|e| e.ok()).map(|e| e.path()).collect();
        files.sort();
        for f in files {
            if let Ok(text) = std::fs::read_to_string(&f) {
                if let Ok(v) = hc::serde_json::from_str::<hc::serde_json::Value>(&text) {
                    if let Some(req) = v["request"].as_str() {
                        emit(&mut out, replay_line(req), "corpus");
                    }
                }
            }
        }
    }
    let dcfg = default_cfg();
    out.extra.insert("default_config_ms".into(), dcfg.line().into());
    let mut rng = Rng::new(args.seed);
    let (n_default, n_custom, n_malformed, max_calls) = match args.tier {
        Tier::Quick => (1000u64, 1000u64, 300u64, 200u64),
        Tier::Thorough => (40000, 60000, 10000, 200),
        Tier::Search => (20000, 30000, 2000, 300),
    };
    // the test-suite's own seed pattern ([1;32]) is not reachable through seed_bytes; the unit tests cover it
    for i in 0..n_default {
        let seed = args.seed.wrapping_mul(1_000_003).wrapping_add(i);
        let calls = if rng.chance(1, 4) { rng.range(0, 30) } else { max_calls };
        let r = random_case(&mut rng, dcfg, seed, calls);
        emit(&mut out, r, "default-config");
    }
    for i in 0..n_custom {
        let seed = args.seed.wrapping_mul(7_000_003).wrapping_add(i);
        let cfg = random_cfg(&mut rng);
        let calls = if rng.chance(1, 4) { rng.range(0, 30) } else { max_calls };
        let r = random_case(&mut rng, cfg, seed, calls);
        emit(&mut out, r, "custom-config");
    }
    for i in 0..n_malformed {
        let seed = args.seed.wrapping_mul(9_000_011).wrapping_add(i);
        let cfg = malformed_cfg(&mut rng);
        let r = random_case(&mut rng, cfg, seed, 40);
        emit(&mut out, r, "malformed-config");
    }
    out.finish(
        "one case = one Backoff object (default config, random well-formed config, or malformed config) driven by up to 200 increment/reset calls with time advances placed below, exactly at and beyond the current reset interval; draws come from the same ChaCha20 stream as the implementation's. non-trivial = well-formed config and at least one increment made from max - max_increment < value < max (the window in which a draw can cross the ceiling)",
        false,
    );
}
