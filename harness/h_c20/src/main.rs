//! C20 — Each sync side sends exactly one Done, even under concurrent pruning.
//!
//! Part A: one real `LogSync` session over an *interposing* `LogStore` (wraps `SqliteStore`, runs a
//! scripted mutation before / fails the k-th store call) against a scripted remote; every
//! interposition point × 5 mutations, plus sink / store / remote faults.
//! Part B: real `TopicLogSync` pairs with live mode on and interposed stores on both sides: no
//! session may fail with `UnexpectedProtocolMessage` (a stray sync message read by live mode).
//!
//! Request line (the Lean model `P2.Sync.run` replays it):
//!   `#<seed>.<variant> cap=<c> rx=<0|1> scope=<a>:<l>,<l>;… | <I/O outcomes in program order>`
//! Answer: `sent=<msgs> | ev=<events> | res=<ok(metrics)|E:kind>`.
use std::collections::BTreeMap;
use std::sync::Arc;
use std::sync::atomic::Ordering;

use futures::channel::mpsc;
use futures::{SinkExt, StreamExt};
use h_synclib::*;
use hc::{Args, Out, Rng, Tier};
use p2panda_core::{SeqNum, Topic, VerifyingKey};
use p2panda_store::SqliteStore;
use p2panda_sync::ToSync;
use p2panda_sync::protocols::{
    LogSync, LogSyncEvent, LogSyncMessage, Logs, TopicLogSync, TopicLogSyncError, TopicLogSyncEvent, TopicLogSyncMessage,
};
use p2panda_sync::traits::Protocol;
use tokio::sync::broadcast;

type TMsg = TopicLogSyncMessage<L, E>;

#[derive(Clone)]
struct CaseA {
    uni: Arc<Universe>,
    /// stored fragments: (a, l) ↦ inclusive seq range
    local: BTreeMap<(usize, usize), (u32, u32)>,
    scope: BTreeMap<usize, Vec<usize>>,
    remote: Vec<(Item<Msg>, Gate)>,
    plan: Vec<(usize, Mutation)>,
    store_fail: Option<usize>,
    sink_fail: Option<usize>,
    rx: bool,
    cap: usize,
    label: String,
}

fn rt() -> tokio::runtime::Runtime {
    // not paused: sqlx' SQLite worker threads need real time (a paused clock would auto-advance
    // into sqlx' pool timeouts); C20 has no timers of its own
    tokio::runtime::Builder::new_current_thread().enable_all().build().unwrap()
}

fn gen_universe(rng: &mut Rng) -> (Universe, Vec<(usize, usize)>) {
    let na = rng.range(1, 3) as usize;
    let mut uni = Universe::new(rng, na);
    let mut logs = vec![];
    for a in 0..na {
        let nl = rng.range(1, 2) as usize;
        for l in 0..nl {
            let len = rng.range(2, 7) as usize;
            // leave room for `Insert` mutations beyond what replicas hold
            uni.extend(rng, a, l, len + 3);
            logs.push((a, l));
        }
    }
    (uni, logs)
}

fn fragment(rng: &mut Rng, len: usize) -> Option<(u32, u32)> {
    // None: log absent; otherwise [lo, hi] with lo > 0 = pruned prefix
    match rng.below(8) {
        0 => None,
        1 | 2 => {
            let hi = rng.below(len as u64) as u32;
            let lo = rng.range(0, hi as u64) as u32;
            Some((lo, hi))
        }
        _ => Some((0, rng.below(len as u64) as u32)),
    }
}

/// The base case of a seed and its variants:
///   0                      no interference
///   1 + 5k + m  (k < 39)   mutation m before store call k (m = 4: delete the log before call k and
///                          re-insert it before a later call)
///   200 + k                store call k fails
///   300 + j                sink send j fails
///   400 + j                remote script fault variant j
///   500                    no event receiver
fn build_case(seed: u64, variant: u64) -> CaseA {
    let mut rng = Rng::new(seed);
    let (uni, logs) = gen_universe(&mut rng);
    let mut local = BTreeMap::new();
    let mut remote_h: BTreeMap<VerifyingKey, BTreeMap<L, SeqNum>> = BTreeMap::new();
    let mut remote_ops: Vec<Msg> = vec![];
    let mut scope: BTreeMap<usize, Vec<usize>> = BTreeMap::new();
    for (a, l) in &logs {
        let len = uni.chains[&(*a, *l)].len() - 3;
        if let Some(f) = fragment(&mut rng, len) {
            local.insert((*a, *l), f);
        }
        if rng.chance(5, 6) {
            scope.entry(*a).or_default().push(*l);
        }
        // what the scripted remote claims to have and what it sends
        if let Some((_, hi)) = fragment(&mut rng, len) {
            if rng.chance(3, 4) {
                remote_h.entry(uni.vk(*a)).or_default().insert(*l, hi);
            }
            if rng.chance(1, 2) {
                let from = rng.range(0, hi as u64) as u32;
                for s in from..=hi {
                    remote_ops.push(op_msg(uni.op(*a, *l, s)));
                }
            }
        }
    }
    if rng.chance(1, 10) {
        // duplicate delivery from the remote (dedup path)
        if let Some(m) = remote_ops.first().cloned() {
            remote_ops.push(m);
        }
    }
    let gate = |rng: &mut Rng| if rng.chance(1, 2) { Gate::Eager } else { Gate::Lazy };
    let mut remote: Vec<(Item<Msg>, Gate)> = vec![(Item::Msg(LogSyncMessage::Have(remote_h)), gate(&mut rng))];
    if remote_ops.is_empty() {
        remote.push((Item::Msg(LogSyncMessage::Done), gate(&mut rng)));
    } else {
        let bytes: usize = remote_ops
            .iter()
            .map(|m| match m {
                LogSyncMessage::Operation(h, b) => h.len() + b.as_ref().map(|b| b.len()).unwrap_or(0),
                _ => 0,
            })
            .sum();
        remote.push((
            Item::Msg(LogSyncMessage::PreSync { total_operations: remote_ops.len() as u32, total_bytes: bytes as u32 }),
            gate(&mut rng),
        ));
        let g = gate(&mut rng);
        for m in remote_ops {
            let gi = if rng.chance(1, 5) { gate(&mut rng) } else { g };
            remote.push((Item::Msg(m), gi));
        }
        remote.push((Item::Msg(LogSyncMessage::Done), gate(&mut rng)));
    }
    let cap = if rng.chance(1, 4) { rng.range(1, 3) as usize } else { 1024 };
    let mut case = CaseA {
        uni: Arc::new(uni),
        local,
        scope,
        remote,
        plan: vec![],
        store_fail: None,
        sink_fail: None,
        rx: true,
        cap,
        label: "base".into(),
    };
    // variant-specific randomness comes from a second stream so that the base stays identical
    let mut vr = Rng::new(seed ^ variant.wrapping_mul(0x9E37_79B9));
    match variant {
        0 => {}
        1..=199 => {
            let k = ((variant - 1) / 5) as usize;
            let m = (variant - 1) % 5;
            let stored: Vec<(usize, usize)> = case.local.keys().cloned().collect();
            let all: Vec<(usize, usize)> = logs.clone();
            let (a, l) = if !stored.is_empty() && vr.chance(4, 5) { *vr.pick(&stored) } else { *vr.pick(&all) };
            let (lo, hi) = case.local.get(&(a, l)).cloned().unwrap_or((0, 0));
            let mu = match m {
                0 => Mutation::Prune { a, l, until: if vr.chance(1, 2) { hi + 1 } else { vr.range(lo as u64, hi as u64 + 1) as u32 } },
                1 => Mutation::DeleteLog { a, l },
                2 => Mutation::DeleteOne { a, l, s: vr.range(lo as u64, hi as u64) as u32 },
                4 => {
                    // every stored log disappears before call k and is back before a later call
                    let k2 = k + vr.range(1, 3) as usize;
                    for ((a2, l2), (_, hi2)) in case.local.clone() {
                        if (a2, l2) != (a, l) {
                            case.plan.push((k, Mutation::DeleteLog { a: a2, l: l2 }));
                        }
                        case.plan.push((k2, Mutation::Insert { a: a2, l: l2, from: 0, to: hi2 + vr.range(0, 2) as u32 }));
                    }
                    Mutation::DeleteLog { a, l }
                }
                _ => Mutation::Insert { a, l, from: if case.local.contains_key(&(a, l)) { hi + 1 } else { 0 }, to: hi + vr.range(1, 3) as u32 },
            };
            case.label = if m == 4 { "mut-delete-then-reinsert".to_string() } else { format!("mut-{}", mu.kind()) };
            case.plan.push((k, mu));
            if m != 4 && vr.chance(1, 6) {
                // a second, later interference
                let (a2, l2) = *vr.pick(&all);
                let k2 = k + vr.range(1, 4) as usize;
                let mu2 = if vr.chance(1, 2) { Mutation::DeleteLog { a: a2, l: l2 } } else { Mutation::Insert { a: a2, l: l2, from: 0, to: vr.range(0, 4) as u32 } };
                case.plan.push((k2, mu2));
            }
        }
        200..=299 => {
            case.store_fail = Some((variant - 200) as usize);
            case.label = "store-fail".into();
        }
        300..=399 => {
            case.sink_fail = Some((variant - 300) as usize);
            case.label = "sink-fail".into();
        }
        400..=499 => {
            let j = (variant - 400) as usize;
            let n = case.remote.len();
            let pos = j / 5 % n.max(1);
            let g = if vr.chance(1, 2) { Gate::Eager } else { Gate::Lazy };
            match j % 5 {
                0 => case.remote.insert(pos, (Item::Err, g)),
                1 => case.remote.truncate(pos.min(2)), // close early (only before the Sync state)
                2 => case.remote.insert(pos, (Item::Msg(LogSyncMessage::Have(BTreeMap::new())), g)),
                3 => case.remote.insert(pos, (Item::Msg(LogSyncMessage::PreSync { total_operations: 1, total_bytes: 9 }), g)),
                _ => case.remote.insert(pos, (Item::Msg(LogSyncMessage::Operation(vec![0xff, 0x00, 0x13], None)), g)),
            }
            case.label = format!("remote-fault-{}", j % 5);
        }
        _ => {
            case.rx = false;
            case.label = "no-receiver".into();
        }
    }
    case
}

struct RunA {
    request: String,
    answer: String,
    sent: Vec<String>,
    store_calls: usize,
    sends: usize,
    zero_sizes: usize,
    res_ok: bool,
    spun: bool,
}

async fn run_case_a(seed: u64, variant: u64, case: &CaseA) -> RunA {
    let t0 = std::time::Instant::now();
    let inner = SqliteStore::temporary().await;
    let t1 = t0.elapsed();
    for ((a, l), (lo, hi)) in &case.local {
        for s in *lo..=*hi {
            insert_op(&inner, case.uni.op(*a, *l, s)).await;
        }
    }
    if std::env::var("C20_TIMING").is_ok() {
        eprintln!("store {:?} inserts {:?}", t1, t0.elapsed() - t1);
    }
    let log = new_log();
    let store = Interposed::new(inner, case.uni.clone(), log.clone(), case.plan.clone(), case.store_fail);
    let mut logs: Logs<L> = Logs::default();
    for (a, ls) in &case.scope {
        logs.insert(case.uni.vk(*a), ls.clone());
    }
    let (event_tx, event_rx) = broadcast::channel::<LogSyncEvent<E>>(4096);
    let mut event_rx = Some(event_rx);
    if !case.rx {
        event_rx = None;
    }
    let session: LogSync<L, E, Interposed, LogSyncEvent<E>> = LogSync::new_with_capacity(store.clone(), logs, event_tx, case.cap);
    let mut sink: ScriptSink<Msg> = ScriptSink::new(log.clone(), case.sink_fail);
    let uni = case.uni.clone();
    let mut stream = ScriptStream::new(
        log.clone(),
        case.remote.clone(),
        sink.count.clone(),
        End::Closed,
        Box::new(move |m: &Msg| recv_tok(&uni, m)),
    );
    let spun = stream.spun.clone();
    let spin_notify = stream.spin_notify.clone();
    let sent_handle = sink.sent.clone();
    // A session spinning on a closed stream is parked by the scripted stream after `spin_limit`
    // polls; the deadline turns that into an answer.
    let result = tokio::select! {
        r = tokio::time::timeout(std::time::Duration::from_secs(20), session.run(&mut sink, &mut stream)) => r,
        _ = spin_notify.notified() => tokio::time::timeout(std::time::Duration::ZERO, std::future::pending()).await,
    };
    let sent: Vec<String> = sent_handle.lock().unwrap().iter().map(|m| msg_tok(&case.uni, m)).collect();
    let mut evs = vec![];
    if let Some(rx) = event_rx.as_mut() {
        while let Ok(e) = rx.try_recv() {
            evs.push(event_tok(&case.uni, &e));
        }
    }
    let (res, res_ok) = match &result {
        Err(_) => (if spun.load(Ordering::SeqCst) == 1 { "spin".to_string() } else { "stuck".to_string() }, false),
        Ok(Ok((_, m))) => (format!("ok({})", metrics_tok(m)), true),
        Ok(Err(e)) => (format!("E:{}", err_tok(e)), false),
    };
    let items = log.lock().unwrap().join(" ");
    let request = format!(
        "#{seed}.{variant} cap={} rx={} scope={} | {}",
        case.cap,
        if case.rx { 1 } else { 0 },
        scope_tok(&case.scope),
        items
    );
    let answer = format!("sent={} | ev={} | res={}", sent.join(" "), evs.join(" "), res);
    let c = store.ctl.lock().unwrap();
    RunA {
        request,
        answer,
        sends: sent.len(),
        sent,
        store_calls: c.calls,
        zero_sizes: c.zero_sizes,
        res_ok,
        spun: spun.load(Ordering::SeqCst) == 1,
    }
}

static WATCHDOG: std::sync::OnceLock<Watchdog> = std::sync::OnceLock::new();

fn emit_a(out: &mut Out, rtm: &tokio::runtime::Runtime, seed: u64, variant: u64) -> RunA {
    if let Some(w) = WATCHDOG.get() {
        w.begin(&format!("#{seed}.{variant} (no answer: the session did not return)"));
    }
    let case = build_case(seed, variant);
    let r = rtm.block_on(run_case_a(seed, variant, &case));
    // nt = the interference made a `get_log_size` view empty although something was needed
    let needs_nonempty = r.request.contains(" Z");
    let nt = !case.plan.is_empty() && r.zero_sizes > 0 && needs_nonempty;
    let n = out.case(&r.request, &r.answer, nt);
    out.count(&format!("A:{}", case.label));
    out.count(&format!("A:res={}", r.answer.rsplit("res=").next().unwrap().split('(').next().unwrap()));
    out.count(&format!("A:sent-len={}", if r.sent.len() > 6 { ">6".to_string() } else { r.sent.len().to_string() }));
    if nt {
        out.count("A:size-view-empty-after-interference");
    }
    if let Some(tag) = shape_violation(&r.sent) {
        out.oracle_fail(n, tag, &format!("sink transcript {:?} is not a prefix of Have (Done | PreSync Operation* Done)", r.sent), &r.request, &r.answer);
    } else if r.res_ok && r.sent.last().map(|t| t.as_str()) != Some("D") {
        out.oracle_fail(n, "finished-without-done", &format!("session returned Ok but its transcript {:?} does not end with Done", r.sent), &r.request, &r.answer);
    }
    if r.spun {
        // not C20's predicate (the transcript is fine): counted here, judged by C22
        out.count("A:spin-on-closed-stream");
    }
    r
}

// ------------------------------------------------------------------------------------------
// Part B: TopicLogSync pairs with live mode
// ------------------------------------------------------------------------------------------

struct SideB {
    request: String,
    answer: String,
    sent: Vec<String>,
    failed_unexpected: bool,
    error: Option<String>,
}

/// Sink end of a real channel that logs `S+` for every sync message (the channel has capacity
/// for the whole session, so a send never waits) and keeps the transcript.
struct LogTx {
    inner: mpsc::Sender<TMsg>,
    log: IoLog,
    sent: Arc<std::sync::Mutex<Vec<Msg>>>,
}
impl futures::Sink<TMsg> for LogTx {
    type Error = mpsc::SendError;
    fn poll_ready(mut self: std::pin::Pin<&mut Self>, cx: &mut std::task::Context<'_>) -> std::task::Poll<Result<(), Self::Error>> {
        self.inner.poll_ready_unpin(cx)
    }
    fn start_send(mut self: std::pin::Pin<&mut Self>, item: TMsg) -> Result<(), Self::Error> {
        if let TopicLogSyncMessage::Sync(m) = &item {
            self.log.lock().unwrap().push("S+".into());
            self.sent.lock().unwrap().push(m.clone());
        }
        self.inner.start_send_unpin(item)
    }
    fn poll_flush(mut self: std::pin::Pin<&mut Self>, cx: &mut std::task::Context<'_>) -> std::task::Poll<Result<(), Self::Error>> {
        self.inner.poll_flush_unpin(cx)
    }
    fn poll_close(mut self: std::pin::Pin<&mut Self>, cx: &mut std::task::Context<'_>) -> std::task::Poll<Result<(), Self::Error>> {
        self.inner.poll_close_unpin(cx)
    }
}

fn build_case_b(seed: u64, variant: u64) -> (Arc<Universe>, [BTreeMap<(usize, usize), (u32, u32)>; 2], BTreeMap<usize, Vec<usize>>, [Vec<(usize, Mutation)>; 2], String) {
    let mut rng = Rng::new(seed ^ 0xB0B);
    let (uni, logs) = gen_universe(&mut rng);
    let mut reps = [BTreeMap::new(), BTreeMap::new()];
    let mut scope: BTreeMap<usize, Vec<usize>> = BTreeMap::new();
    for (a, l) in &logs {
        let len = uni.chains[&(*a, *l)].len() - 3;
        for r in reps.iter_mut() {
            if let Some(f) = fragment(&mut rng, len) {
                r.insert((*a, *l), f);
            }
        }
        scope.entry(*a).or_default().push(*l);
    }
    let mut plans = [vec![], vec![]];
    let mut label = "base".to_string();
    if variant > 0 {
        let v = variant - 1;
        let side = (v % 2) as usize;
        let k = (v / 2 / 3) as usize;
        let stored: Vec<(usize, usize)> = reps[side].keys().cloned().collect();
        let mut vr = Rng::new(seed ^ variant.wrapping_mul(0x51_7C_C1));
        let (a, l) = if stored.is_empty() { *vr.pick(&logs) } else { *vr.pick(&stored) };
        let (_, hi) = reps[side].get(&(a, l)).cloned().unwrap_or((0, 0));
        let mu = match v / 2 % 3 {
            0 => Mutation::DeleteLog { a, l },
            1 => Mutation::Prune { a, l, until: hi + 1 },
            _ => Mutation::Insert { a, l, from: hi + 1, to: hi + 2 },
        };
        label = format!("mut-{}", mu.kind());
        plans[side].push((k, mu));
    }
    (Arc::new(uni), reps, scope, plans, label)
}

async fn run_case_b(seed: u64, variant: u64) -> (Vec<SideB>, String, usize) {
    let (uni, reps, scope, plans, label) = build_case_b(seed, variant);
    let topic = Topic::from([7u8; 32]);
    let mut sessions = vec![];
    let mut handles = vec![];
    let (a_tx, b_rx) = mpsc::channel::<TMsg>(4096);
    let (b_tx, a_rx) = mpsc::channel::<TMsg>(4096);
    let mut txs = vec![Some(a_tx), Some(b_tx)];
    let mut rxs = vec![Some(a_rx), Some(b_rx)];
    let mut calls = vec![];
    for side in 0..2 {
        let inner = SqliteStore::temporary().await;
        for ((a, l), (lo, hi)) in &reps[side] {
            for s in *lo..=*hi {
                insert_op(&inner, uni.op(*a, *l, s)).await;
            }
        }
        for (a, ls) in &scope {
            for l in ls {
                associate(&inner, &topic, &uni.vk(*a), l).await;
            }
        }
        let log = new_log();
        let store = Interposed::new(inner, uni.clone(), log.clone(), plans[side].clone(), None);
        let (event_tx, event_rx) = broadcast::channel::<TopicLogSyncEvent<E>>(4096);
        let (mut live_tx, live_rx) = mpsc::channel::<ToSync<Op>>(16);
        if side == 0 {
            // queued now, consumed when live mode starts: ends both sessions
            live_tx.send(ToSync::Close).await.unwrap();
        }
        let session: TopicLogSync<Topic, Interposed, L, E> = TopicLogSync::new(topic, store.clone(), Some(live_rx), event_tx);
        let sent = Arc::new(std::sync::Mutex::new(vec![]));
        let tx = LogTx { inner: txs[side].take().unwrap(), log: log.clone(), sent: sent.clone() };
        let uni2 = uni.clone();
        let log2 = log.clone();
        let rx = rxs[side].take().unwrap().map(move |m: TMsg| {
            // every arriving message is logged: a sync message read by live mode shows up as an
            // `R…` item after the model's session has finished
            log2.lock().unwrap().push(match &m {
                TopicLogSyncMessage::Sync(m) => recv_tok(&uni2, m),
                TopicLogSyncMessage::Live(..) => "Rlive".into(),
                TopicLogSyncMessage::Close => "Rclose".into(),
            });
            Ok::<_, ()>(m)
        });
        sessions.push((session, tx, rx));
        handles.push((log, sent, event_rx, live_tx, store));
    }
    let (s1, mut tx1, mut rx1) = sessions.pop().unwrap();
    let (s0, mut tx0, mut rx0) = sessions.pop().unwrap();
    let joined = tokio::time::timeout(std::time::Duration::from_secs(30), async {
        tokio::join!(s0.run(&mut tx0, &mut rx0), s1.run(&mut tx1, &mut rx1))
    })
    .await;
    let results: Vec<Option<Result<(), TopicLogSyncError>>> = match joined {
        Ok((r0, r1)) => vec![Some(r0), Some(r1)],
        Err(_) => vec![None, None],
    };
    let mut out = vec![];
    for (side, (log, sent, mut event_rx, _live_tx, store)) in handles.into_iter().enumerate() {
        calls.push(store.ctl.lock().unwrap().calls);
        let sent: Vec<String> = sent.lock().unwrap().iter().map(|m| msg_tok(&uni, m)).collect();
        let mut evs = vec![];
        let mut res = "running".to_string();
        let mut in_sync = true;
        let mut failed_unexpected = false;
        let mut error = None;
        while let Ok(e) = event_rx.try_recv() {
            match e {
                TopicLogSyncEvent::SyncStarted { metrics } if in_sync => evs.push(format!("M({})", topic_metrics_tok(&metrics))),
                TopicLogSyncEvent::OperationReceived { operation, metrics } if in_sync => {
                    let id = uni.find(&operation.hash).map(|o| o.uid.to_string()).unwrap_or("?".into());
                    evs.push(format!("R{}({})", id, topic_metrics_tok(&metrics)));
                }
                TopicLogSyncEvent::SyncFinished { metrics } => {
                    in_sync = false;
                    res = format!("ok({})", topic_metrics_tok(&metrics));
                }
                TopicLogSyncEvent::Failed { error: e } => {
                    if in_sync {
                        res = "E:failed".into();
                    }
                    in_sync = false;
                    error = Some(e);
                }
                _ => {}
            }
        }
        match &results[side] {
            None => error = Some("deadline".into()),
            Some(Err(TopicLogSyncError::UnexpectedProtocolMessage(m))) => {
                failed_unexpected = true;
                error = Some(format!("unexpected protocol message: {m}"));
            }
            Some(Err(TopicLogSyncError::Sync(e))) => res = format!("E:{}", err_tok(e)),
            Some(Err(e)) => error = Some(e.to_string()),
            Some(Ok(())) => {}
        }
        // the model line covers the inner log-sync session: items up to the first non-sync arrival
        let all: Vec<String> = log.lock().unwrap().clone();
        let items: Vec<String> = all.iter().take_while(|t| *t != "Rclose" && *t != "Rlive").cloned().collect();
        let request = format!("#{seed}.{variant}.b{side} cap=1024 rx=1 scope={} | {}", scope_tok(&scope), items.join(" "));
        let answer = format!("sent={} | ev={} | res={}", sent.join(" "), evs.join(" "), res);
        out.push(SideB { request, answer, sent, failed_unexpected, error });
    }
    (out, label, calls.iter().sum())
}

fn topic_metrics_tok(m: &p2panda_sync::protocols::Metrics) -> String {
    format!(
        "{},{},{},{},{},{},{},{}",
        m.outbound_sync_operations,
        m.outbound_sync_bytes,
        m.inbound_sync_operations,
        m.inbound_sync_bytes,
        m.sent_sync_operations,
        m.sent_sync_bytes,
        m.received_sync_operations,
        m.received_sync_bytes
    )
}

fn emit_b(out: &mut Out, rtm: &tokio::runtime::Runtime, seed: u64, variant: u64) -> usize {
    if let Some(w) = WATCHDOG.get() {
        w.begin(&format!("#{seed}.{variant}.b0 (no answer: the pair did not return)"));
    }
    let (sides, label, calls) = rtm.block_on(run_case_b(seed, variant));
    for s in sides {
        let n = out.case(&s.request, &s.answer, false);
        out.count(&format!("B:{label}"));
        if let Some(tag) = shape_violation(&s.sent) {
            out.oracle_fail(n, tag, &format!("pair: sink transcript {:?} is not Have (Done | PreSync Operation* Done)", s.sent), &s.request, &s.answer);
        }
        if s.failed_unexpected {
            out.oracle_fail(n, "live-stray-sync-message", &format!("live mode read a sync message: {:?}", s.error), &s.request, &s.answer);
        } else if let Some(e) = &s.error {
            out.count("B:other-error");
            out.oracle_fail(n, "pair-session-error", &format!("honest pair with live mode did not finish cleanly: {e}"), &s.request, &s.answer);
        }
    }
    calls
}

fn main() {
    let args = Args::parse();
    let mut out = Out::new(&args.out);
    let rtm = rt();
    let _ = WATCHDOG.set(Watchdog::start(args.out.clone(), std::time::Duration::from_secs(45), "session-never-returns"));
    if args.mode == "replay" {
        let text = std::fs::read_to_string(args.replay.as_ref().expect("replay file")).unwrap();
        let v: hc::serde_json::Value = hc::serde_json::from_str(&text).unwrap();
        let req = v["request"].as_str().unwrap().to_string();
        let id = req.split_whitespace().next().unwrap().trim_start_matches('#').to_string();
        let parts: Vec<&str> = id.split('.').collect();
        let seed: u64 = parts[0].parse().unwrap();
        let variant: u64 = parts[1].parse().unwrap();
        if parts.len() > 2 {
            emit_b(&mut out, &rtm, seed, variant);
        } else {
            emit_a(&mut out, &rtm, seed, variant);
        }
        out.finish("replay", false);
        return;
    }
    let (n_a, n_b) = match args.tier {
        Tier::Quick => (40, 12),
        Tier::Thorough => (1000, 200),
        Tier::Search => (400, 60),
    };
    // The witness of DESIGN.md §5 / `c20_orig_violates` runs first in every tier: seed 20 is a fixed
    // case searched once (heights {k ↦ n}, remote has nothing, log deleted before `get_log_size`).
    let mut rng = Rng::new(args.seed);
    let mut seeds: Vec<u64> = vec![20_000_001, 20_000_002];
    for _ in 0..n_a {
        seeds.push(rng.next_u64() % 1_000_000_000);
    }
    for seed in seeds {
        let base = emit_a(&mut out, &rtm, seed, 0);
        for k in 0..base.store_calls.min(39) as u64 {
            for m in 0..5 {
                emit_a(&mut out, &rtm, seed, 1 + 5 * k + m);
            }
        }
        // faults: each store call, each send, remote script faults, no receiver
        let fault_budget = if args.tier == Tier::Quick { 3 } else { 8 };
        let mut fr = Rng::new(seed ^ 0xFA17);
        for _ in 0..fault_budget.min(base.store_calls) {
            emit_a(&mut out, &rtm, seed, 200 + fr.below(base.store_calls.max(1) as u64));
        }
        for _ in 0..fault_budget.min(base.sends) {
            emit_a(&mut out, &rtm, seed, 300 + fr.below(base.sends.max(1) as u64));
        }
        for _ in 0..fault_budget {
            emit_a(&mut out, &rtm, seed, 400 + fr.below(100));
        }
        emit_a(&mut out, &rtm, seed, 500);
    }
    for _ in 0..n_b {
        let seed = rng.next_u64() % 1_000_000_000;
        let calls = emit_b(&mut out, &rtm, seed, 0);
        let per_side = calls.div_ceil(2).min(12) as u64;
        for v in 1..=(per_side * 6) {
            emit_b(&mut out, &rtm, seed, v);
        }
    }
    out.finish(
        "part A: one real LogSync session over an interposing LogStore against a scripted remote: per base case every store-call position x {prune, delete-log, delete-one, insert, delete-then-reinsert}, plus store/sink/remote faults; part B: real TopicLogSync pairs (live mode on) with a mutation before each store call of either side. non-trivial = an interference made a get_log_size view empty (Some((0,0))) although remote_needs was non-empty",
        false,
    );
}
