//! C30 — Confidential discovery yields exactly the common topics.
//! Runs the real `PsiHashDiscoveryProtocol::{alice, bob}` pair over in-memory byte channels (every
//! message postcard-serialised, as p2panda-net's codec does) with real `SqliteStore` address books.
//! Request/answer formats: see /verif/lean/Drv/C30.lean.
use std::cell::RefCell;
use std::collections::{BTreeMap, BTreeSet, HashSet};
use std::rc::Rc;
use std::time::Duration;

use futures::channel::mpsc;
use futures::{SinkExt, StreamExt};
use hc::{Args, Out, Rng, Tier};
use p2panda_core::{SigningKey, Topic, VerifyingKey};
use p2panda_discovery::DiscoveryProtocol;
use p2panda_discovery::psi_hash::{Config, PsiHashDiscoveryProtocol, PsiHashError, PsiHashMessage};
use p2panda_discovery::traits::LocalTopics;
use p2panda_store::address_book::AddressBookStore;
use p2panda_store::address_book::test_utils::{TestNodeInfo, TestTransportInfo};
use p2panda_store::{SqliteStore, tx_unwrap};

type Msg = PsiHashMessage<VerifyingKey, TestNodeInfo>;
type Proto = PsiHashDiscoveryProtocol<SqliteStore, FlipSub, VerifyingKey, TestNodeInfo>;

const ALICE_BYTE: u8 = 0; // wire constants of the protocol as a peer implementation would use them
const BOB_BYTE: u8 = 1;
const N_NODES: usize = 48;

/// Local topic source whose answer may change between queries within one session (a subscribe /
/// unsubscribe landing mid-session): the first query returns `first`, every later one `later`.
/// For ordinary cases `later == first`.
#[derive(Debug, Default)]
struct FlipSub {
    first: HashSet<Topic>,
    later: HashSet<Topic>,
    calls: std::sync::atomic::AtomicUsize,
}
impl LocalTopics for FlipSub {
    type Error = std::convert::Infallible;
    async fn topics(&self) -> Result<HashSet<Topic>, Self::Error> {
        let n = self.calls.fetch_add(1, std::sync::atomic::Ordering::SeqCst);
        Ok(if n == 0 { self.first.clone() } else { self.later.clone() })
    }
}
thread_local! {
    /// `(party id, topic set answered from the second query on)` for the next sessions built.
    static FLIP: RefCell<Option<(usize, Vec<usize>)>> = RefCell::new(None);
}

fn topic_bytes(k: usize) -> [u8; 32] {
    *blake3::hash(format!("c30-raw-topic-{k}").as_bytes()).as_bytes()
}
fn topic(k: usize) -> Topic {
    topic_bytes(k).into()
}
fn node_key(k: usize) -> VerifyingKey {
    SigningKey::from_bytes(blake3::hash(format!("c30-node-{k}").as_bytes()).as_bytes()).verifying_key()
}
fn digest(t: usize, a: &[u8; 32], b: &[u8; 32], dir: u8) -> Topic {
    let mut h = blake3::Hasher::new();
    h.update(&topic_bytes(t));
    h.update(a);
    h.update(b);
    h.update(&[dir]);
    (*h.finalize().as_bytes()).into()
}

#[derive(Clone, Debug)]
struct Rec {
    id: usize,
    topics: Vec<usize>,
    stale: bool,
    tr: bool,
}
#[derive(Clone, Debug)]
struct Party {
    restricted: bool,
    me: usize,
    topics: Vec<usize>,
    book: Vec<Rec>,
}

fn list(sep: &str, v: &[usize]) -> String {
    if v.is_empty() { "-".into() } else { v.iter().map(|x| x.to_string()).collect::<Vec<_>>().join(sep) }
}
fn canon(v: impl IntoIterator<Item = usize>) -> Vec<usize> {
    v.into_iter().collect::<BTreeSet<_>>().into_iter().collect()
}
fn book_str(b: &[Rec]) -> String {
    if b.is_empty() {
        return "-".into();
    }
    b.iter()
        .map(|r| format!("{}:{}:{}:{}", r.id, list(".", &r.topics), r.stale as u8, r.tr as u8))
        .collect::<Vec<_>>()
        .join("/")
}
fn parse_list(sep: char, s: &str) -> Vec<usize> {
    if s == "-" || s.is_empty() { vec![] } else { s.split(sep).map(|x| x.parse().expect("num")).collect() }
}
fn parse_book(s: &str) -> Vec<Rec> {
    if s == "-" {
        return vec![];
    }
    s.split('/')
        .map(|r| {
            let f: Vec<&str> = r.split(':').collect();
            Rec { id: f[0].parse().unwrap(), topics: parse_list('.', f[1]), stale: f[2] == "1", tr: f[3] == "1" }
        })
        .collect()
}

struct Env {
    keys: Vec<VerifyingKey>,
    rev: BTreeMap<VerifyingKey, usize>,
    raw_rev: BTreeMap<[u8; 32], usize>,
    seen_digests: HashSet<[u8; 32]>,
}
impl Env {
    fn new() -> Env {
        let keys: Vec<_> = (0..N_NODES).map(node_key).collect();
        let rev = keys.iter().enumerate().map(|(i, k)| (*k, i)).collect();
        let raw_rev = (0..256).map(|k| (topic_bytes(k), k)).collect();
        Env { keys, rev, raw_rev, seen_digests: HashSet::new() }
    }
    fn node_id(&self, k: &VerifyingKey) -> usize {
        *self.rev.get(k).unwrap_or(&999)
    }
    fn raw_id(&self, t: &Topic) -> usize {
        *self.raw_rev.get(t.as_bytes()).unwrap_or(&9999)
    }
}

async fn make_proto(env: &Env, p: &Party, remote: usize) -> Proto {
    let store = SqliteStore::temporary().await;
    for r in &p.book {
        let key = env.keys[r.id];
        let mut info = TestNodeInfo::new(key);
        info.stale = r.stale;
        if r.tr {
            info.transports = Some(TestTransportInfo::new(&format!("10.0.0.{}", r.id)));
        }
        tx_unwrap!(store, {
            store.insert_node_info(info).await.unwrap();
            <SqliteStore as AddressBookStore<VerifyingKey, TestNodeInfo>>::set_topics(
                &store,
                key,
                r.topics.iter().map(|t| topic(*t)).collect(),
            )
            .await
            .unwrap();
        });
    }
    let mut sub = FlipSub::default();
    for t in &p.topics {
        sub.first.insert(topic(*t));
    }
    sub.later = sub.first.clone();
    if let Some((who, later)) = FLIP.with(|f| f.borrow().clone()) {
        if who == p.me {
            sub.later = later.iter().map(|t| topic(*t)).collect();
        }
    }
    PsiHashDiscoveryProtocol::with_config(
        store,
        sub,
        env.keys[p.me],
        env.keys[remote],
        Config { share_nodes_with_common_topics: p.restricted },
    )
}

type Log = Rc<RefCell<Vec<(char, Vec<u8>)>>>;

/// Sink that postcard-serialises into a byte channel and records the bytes.
fn wire_sink(tx: mpsc::UnboundedSender<Vec<u8>>, log: Log, who: char) -> impl futures::Sink<Msg, Error = mpsc::SendError> + Unpin {
    tx.with(move |m: Msg| {
        let bytes = postcard::to_allocvec(&m).expect("serialise");
        log.borrow_mut().push((who, bytes.clone()));
        futures::future::ready(Ok::<_, mpsc::SendError>(bytes))
    })
}
fn wire_stream(rx: mpsc::UnboundedReceiver<Vec<u8>>) -> impl futures::Stream<Item = Result<Msg, postcard::Error>> + Unpin {
    rx.map(|b| postcard::from_bytes::<Msg>(&b))
}

fn err_word<T>(r: &Result<T, PsiHashError<SqliteStore, FlipSub, VerifyingKey, TestNodeInfo>>) -> &'static str {
    match r {
        Ok(_) => "ok",
        Err(PsiHashError::UnexpectedMessage) => "err:unexpected",
        Err(PsiHashError::Stream) => "err:stream",
        Err(PsiHashError::Sink) => "err:sink",
        Err(PsiHashError::Store(_)) => "err:store",
        Err(PsiHashError::Subscription(_)) => "err:subscription",
        Err(PsiHashError::Hash(_)) => "err:hash",
    }
}

fn kind_str(env: &Env, bytes: &[u8]) -> String {
    match postcard::from_bytes::<Msg>(bytes) {
        Ok(PsiHashMessage::AliceSaltHalf { .. }) => "S".into(),
        Ok(PsiHashMessage::BobSaltHalfAndHashedData { topics_for_alice, .. }) => format!("B{}", topics_for_alice.len()),
        Ok(PsiHashMessage::AliceHashedData { topics_for_bob }) => format!("A{}", topics_for_bob.len()),
        Ok(PsiHashMessage::Nodes { transport_infos }) => {
            format!("N{}", list(".", &canon(transport_infos.keys().map(|k| env.node_id(k)))))
        }
        Err(_) => "X".into(),
    }
}

/// Scan serialised messages for the 32 raw bytes of any of the given topics.
fn raw_leak(log: &[(char, Vec<u8>)], topics: &BTreeSet<usize>) -> Option<String> {
    for (who, bytes) in log {
        for t in topics {
            let tb = topic_bytes(*t);
            if bytes.windows(32).any(|w| w == tb) {
                return Some(format!("a message sent by {who} contains the 32 raw bytes of topic {t}"));
            }
        }
    }
    None
}

struct Case {
    req: String,
    ans: String,
    nt: bool,
    fails: Vec<(String, String)>,
    counts: Vec<String>,
}

fn run_honest(rt: &tokio::runtime::Runtime, env: &mut Env, pa: &Party, pb: &Party) -> Case {
    let req = format!(
        "honest rA={} rB={} ia={} ib={} A={} B={} bookA={} bookB={}",
        pa.restricted as u8, pb.restricted as u8, pa.me, pb.me, list(",", &pa.topics), list(",", &pb.topics),
        book_str(&pa.book), book_str(&pb.book)
    );
    // the model ignores this field: the correct protocol queries its topic source once per session
    let req = match FLIP.with(|f| f.borrow().clone()) {
        Some((who, later)) => format!("{req} flip={who}:{}", list(",", &later)),
        None => req,
    };
    let mut c = Case { req, ans: String::new(), nt: false, fails: vec![], counts: vec![] };
    let log: Log = Rc::new(RefCell::new(vec![]));
    let out = rt.block_on(async {
        let alice = make_proto(env, pa, pb.me).await;
        let bob = make_proto(env, pb, pa.me).await;
        let (a2b_tx, a2b_rx) = mpsc::unbounded::<Vec<u8>>();
        let (b2a_tx, b2a_rx) = mpsc::unbounded::<Vec<u8>>();
        let mut a_tx = wire_sink(a2b_tx, log.clone(), 'A');
        let mut a_rx = wire_stream(b2a_rx);
        let mut b_tx = wire_sink(b2a_tx, log.clone(), 'B');
        let mut b_rx = wire_stream(a2b_rx);
        tokio::time::timeout(Duration::from_secs(20), async {
            tokio::join!(alice.alice(&mut a_tx, &mut a_rx), bob.bob(&mut b_tx, &mut b_rx))
        })
        .await
    });
    let log = log.borrow().clone();
    let (ra, rb) = match out {
        Err(_) => {
            c.ans = "HANG".into();
            c.fails.push(("hang".into(), "honest session did not finish within 20 s".into()));
            return c;
        }
        Ok(x) => x,
    };
    let (ra, rb) = match (ra, rb) {
        (Ok(a), Ok(b)) => (a, b),
        (a, b) => {
            c.ans = format!("alice={} bob={}", err_word(&a), err_word(&b));
            c.fails.push(("honest-session-failed".into(), c.ans.clone()));
            return c;
        }
    };
    // ---- canonical answer ----
    let ta = canon(ra.topics.iter().map(|t| env.raw_id(t)));
    let tb = canon(rb.topics.iter().map(|t| env.raw_id(t)));
    let na = canon(ra.transport_infos.keys().map(|k| env.node_id(k)));
    let nb = canon(rb.transport_infos.keys().map(|k| env.node_id(k)));
    let mut d2: BTreeSet<[u8; 32]> = BTreeSet::new();
    let mut d3: BTreeSet<[u8; 32]> = BTreeSet::new();
    let mut kinds = vec![];
    for (who, bytes) in &log {
        kinds.push(format!("{who}{}", kind_str(env, bytes).chars().next().unwrap()));
        match postcard::from_bytes::<Msg>(bytes) {
            Ok(PsiHashMessage::BobSaltHalfAndHashedData { topics_for_alice, .. }) => {
                d2.extend(topics_for_alice.iter().map(|t| *t.as_bytes()))
            }
            Ok(PsiHashMessage::AliceHashedData { topics_for_bob }) => d3.extend(topics_for_bob.iter().map(|t| *t.as_bytes())),
            _ => {}
        }
    }
    let x = d2.intersection(&d3).count();
    c.ans = format!(
        "ta={} tb={} m2={} m3={} x={} na={} nb={}",
        list(",", &ta), list(",", &tb), d2.len(), d3.len(), x, list(",", &na), list(",", &nb)
    );
    // ---- oracle (independent of the Lean model) ----
    let sa: BTreeSet<usize> = pa.topics.iter().copied().collect();
    let sb: BTreeSet<usize> = pb.topics.iter().copied().collect();
    let common: Vec<usize> = sa.intersection(&sb).copied().collect();
    if ta != common || tb != common {
        c.fails.push(("intersection".into(), format!("A∩B = {:?} but alice got {:?}, bob got {:?}", common, ta, tb)));
    }
    if kinds.join(",") != "AS,BB,AA,BN,AN" {
        c.fails.push(("message-order".into(), format!("messages on the wire: {}", kinds.join(","))));
    }
    let all: BTreeSet<usize> = sa.union(&sb).copied().collect();
    if let Some(w) = raw_leak(&log, &all) {
        c.fails.push(("raw-topic-leak".into(), w));
    }
    if x > 0 {
        c.fails.push(("direction-not-separated".into(), format!("{x} digests occur in both directions of one session")));
    }
    for d in d2.union(&d3) {
        if !env.seen_digests.insert(*d) {
            c.fails.push(("digest-reused-across-sessions".into(), "a topic digest of this session already occurred in an earlier session (not bound to the session salt)".into()));
            break;
        }
    }
    // restricted sharing: what each side *sent* (= what the other received)
    for (who, p, sent) in [('B', pb, &na), ('A', pa, &nb)] {
        let by_id: BTreeMap<usize, &Rec> = p.book.iter().map(|r| (r.id, r)).collect();
        for id in sent.iter() {
            match by_id.get(id) {
                None => c.fails.push(("unknown-node-shared".into(), format!("{who} sent node {id} which is not in its address book"))),
                Some(r) => {
                    if !r.tr {
                        c.fails.push(("no-transport-shared".into(), format!("{who} sent node {id} which has no transport info")));
                    }
                    if p.restricted && *id != p.me && !r.topics.iter().any(|t| common.contains(t)) {
                        c.fails.push(("overshare".into(), format!("{who} (restricted sharing) sent node {id} with topics {:?}; common topics are {:?}", r.topics, common)));
                    }
                }
            }
        }
    }
    // nt: partial overlap and a restricted book holding >= 1 node (with transport) outside the common topics
    let partial = !common.is_empty() && common.len() < sa.len().max(sb.len());
    let outside = |p: &Party| p.restricted && p.book.iter().any(|r| r.tr && !r.stale && r.id != p.me && !r.topics.iter().any(|t| common.contains(t)));
    c.nt = partial && (outside(pa) || outside(pb));
    c.counts.push(format!("overlap={}", if common.is_empty() { "none" } else if partial { "partial" } else { "full" }));
    c.counts.push(format!("restricted={}{}", pa.restricted as u8, pb.restricted as u8));
    c
}

#[derive(Clone, Debug)]
enum Item {
    Salt,
    Bd(Vec<usize>),
    Bdx(Vec<usize>),
    Ad(Vec<usize>),
    Adx(Vec<usize>),
    Nodes(Vec<usize>),
}
fn item_str(i: &Item) -> String {
    match i {
        Item::Salt => "salt".into(),
        Item::Bd(t) => format!("bd:{}", list(".", t)),
        Item::Bdx(t) => format!("bdx:{}", list(".", t)),
        Item::Ad(t) => format!("ad:{}", list(".", t)),
        Item::Adx(t) => format!("adx:{}", list(".", t)),
        Item::Nodes(t) => format!("nodes:{}", list(".", t)),
    }
}
fn parse_item(s: &str) -> Item {
    let (k, v) = s.split_once(':').unwrap_or((s, ""));
    match k {
        "salt" => Item::Salt,
        "bd" => Item::Bd(parse_list('.', v)),
        "bdx" => Item::Bdx(parse_list('.', v)),
        "ad" => Item::Ad(parse_list('.', v)),
        "adx" => Item::Adx(parse_list('.', v)),
        "nodes" => Item::Nodes(parse_list('.', v)),
        _ => panic!("bad item {s}"),
    }
}

/// One real role against a scripted peer. `echo`: (bob only) the peer sends salt, then echoes the digests of
/// Bob's message 2 back as message 3, then `Nodes(echo_nodes)`.
fn run_script(rt: &tokio::runtime::Runtime, env: &mut Env, role_alice: bool, p: &Party, items: &[Item], echo: Option<&[usize]>, peer_half: [u8; 32]) -> Case {
    let req = match echo {
        Some(n) => format!("echo rB={} ib={} B={} bookB={} N={}", p.restricted as u8, p.me, list(",", &p.topics), book_str(&p.book), list(",", n)),
        None => format!(
            "script role={} r={} i={} T={} book={} in={}",
            if role_alice { "alice" } else { "bob" }, p.restricted as u8, p.me, list(",", &p.topics), book_str(&p.book),
            if items.is_empty() { "-".into() } else { items.iter().map(item_str).collect::<Vec<_>>().join("/") }
        ),
    };
    let mut c = Case { req, ans: String::new(), nt: false, fails: vec![], counts: vec![] };
    let log: Log = Rc::new(RefCell::new(vec![]));
    let keys = env.keys.clone();
    let remote = (p.me + 1) % N_NODES;
    let out = rt.block_on(async {
        let proto = make_proto(env, p, remote).await;
        let (r2p_tx, mut r2p_rx) = mpsc::unbounded::<Vec<u8>>();
        let (mut p2r_tx, p2r_rx) = mpsc::unbounded::<Vec<u8>>();
        let lg = log.clone();
        let real = async move {
            let mut tx = wire_sink(r2p_tx, lg, 'R');
            let mut rx = wire_stream(p2r_rx);
            let r = if role_alice { proto.alice(&mut tx, &mut rx).await } else { proto.bob(&mut tx, &mut rx).await };
            drop(tx);
            drop(rx);
            r
        };
        let items: Vec<Item> = match echo {
            Some(n) => vec![Item::Salt, Item::Ad(vec![]), Item::Nodes(n.to_vec())],
            None => items.to_vec(),
        };
        let is_echo = echo.is_some();
        let peer = async move {
            let mut received: Vec<Vec<u8>> = vec![];
            'outer: for (k, item) in items.iter().enumerate() {
                let expected = if role_alice { (k + 1).min(3) } else { k.min(2) };
                while received.len() < expected {
                    match r2p_rx.next().await {
                        Some(b) => received.push(b),
                        None => break 'outer,
                    }
                }
                // salt halves as far as known
                let mut real_half = [0u8; 32];
                let mut bob_digests: HashSet<Topic> = HashSet::new();
                for b in &received {
                    match postcard::from_bytes::<Msg>(b) {
                        Ok(PsiHashMessage::AliceSaltHalf { alice_salt_half }) => real_half = alice_salt_half,
                        Ok(PsiHashMessage::BobSaltHalfAndHashedData { bob_salt_half, topics_for_alice }) => {
                            real_half = bob_salt_half;
                            bob_digests = topics_for_alice;
                        }
                        _ => {}
                    }
                }
                let (a_half, b_half) = if role_alice { (real_half, peer_half) } else { (peer_half, real_half) };
                let dig = |ts: &Vec<usize>, dir: u8| -> HashSet<Topic> { ts.iter().map(|t| digest(*t, &a_half, &b_half, dir)).collect() };
                let msg: Msg = match item {
                    Item::Salt => PsiHashMessage::AliceSaltHalf { alice_salt_half: peer_half },
                    Item::Bd(ts) => PsiHashMessage::BobSaltHalfAndHashedData { bob_salt_half: peer_half, topics_for_alice: dig(ts, BOB_BYTE) },
                    Item::Bdx(ts) => PsiHashMessage::BobSaltHalfAndHashedData { bob_salt_half: peer_half, topics_for_alice: dig(ts, ALICE_BYTE) },
                    Item::Ad(ts) => PsiHashMessage::AliceHashedData { topics_for_bob: if is_echo { bob_digests.clone() } else { dig(ts, ALICE_BYTE) } },
                    Item::Adx(ts) => PsiHashMessage::AliceHashedData { topics_for_bob: dig(ts, BOB_BYTE) },
                    Item::Nodes(ids) => PsiHashMessage::Nodes {
                        transport_infos: ids.iter().map(|i| (keys[*i % N_NODES], TestTransportInfo::new("peer"))).collect(),
                    },
                };
                if p2r_tx.send(postcard::to_allocvec(&msg).unwrap()).await.is_err() {
                    break;
                }
            }
            drop(p2r_tx);
            while let Some(b) = r2p_rx.next().await {
                received.push(b);
            }
        };
        tokio::time::timeout(Duration::from_secs(20), async { tokio::join!(real, peer).0 }).await
    });
    let log = log.borrow().clone();
    let sent: Vec<String> = log.iter().map(|(_, b)| kind_str(env, b)).collect();
    let sent = if sent.is_empty() { "-".to_string() } else { sent.join(",") };
    match out {
        Err(_) => {
            c.ans = "HANG".into();
            c.fails.push(("hang".into(), "session against a scripted peer did not finish within 20 s".into()));
        }
        Ok(r) => {
            let w = err_word(&r);
            c.counts.push(format!("script-outcome={w}"));
            match r {
                Ok(res) => {
                    let t = canon(res.topics.iter().map(|t| env.raw_id(t)));
                    let n = canon(res.transport_infos.keys().map(|k| env.node_id(k)));
                    c.ans = format!("ok t={} n={} sent={}", list(",", &t), list(",", &n), sent);
                    if echo.is_some() && !t.is_empty() {
                        c.fails.push(("echo-accepted".into(), format!("Bob was sent an echo of his own digests and concluded common topics {:?}", t)));
                    }
                    // a result topic must be one of the local topics
                    if t.iter().any(|x| !p.topics.contains(x)) {
                        c.fails.push(("foreign-topic-in-result".into(), format!("result topics {:?} not within local topics {:?}", t, p.topics)));
                    }
                }
                Err(_) => c.ans = format!("{w} sent={sent}"),
            }
        }
    }
    let mine: BTreeSet<usize> = p.topics.iter().copied().collect();
    if let Some(w) = raw_leak(&log, &mine) {
        c.fails.push(("raw-topic-leak".into(), w));
    }
    if echo.is_some() {
        c.nt = !p.topics.is_empty();
    }
    c
}

fn emit(out: &mut Out, c: Case, kind: &str) {
    let n = out.case(&c.req, &c.ans, c.nt);
    out.count(&format!("kind={kind}"));
    for k in &c.counts {
        out.count(k);
    }
    let mut seen = BTreeSet::new();
    for (tag, what) in c.fails {
        if seen.insert(tag.clone()) {
            out.oracle_fail(n, &tag, &what, &c.req, &c.ans);
        }
    }
}

fn gen_topics(rng: &mut Rng, universe: usize, max: usize) -> Vec<usize> {
    let n = rng.range(0, max as u64) as usize;
    let mut v: Vec<usize> = (0..universe).collect();
    rng.shuffle(&mut v);
    v.truncate(n.min(universe));
    v
}

fn gen_book(rng: &mut Rng, me: usize, other: usize, topic_universe: usize, common_bias: &[usize]) -> Vec<Rec> {
    let mut ids: Vec<usize> = (0..N_NODES).filter(|i| *i != other).collect();
    rng.shuffle(&mut ids);
    let n = rng.range(0, 8) as usize;
    let mut book: Vec<Rec> = vec![];
    if rng.chance(4, 5) {
        // self present (with / without transports, sometimes stale)
        book.push(Rec { id: me, topics: gen_topics(rng, topic_universe, 4), stale: rng.chance(1, 8), tr: rng.chance(5, 6) });
    }
    for id in ids.into_iter().filter(|i| *i != me).take(n) {
        let mut topics = gen_topics(rng, topic_universe, 4);
        if !common_bias.is_empty() && rng.chance(1, 2) {
            topics.push(*rng.pick(common_bias));
            topics = canon(topics);
        }
        book.push(Rec { id, topics, stale: rng.chance(1, 8), tr: rng.chance(3, 4) });
    }
    if rng.chance(1, 3) {
        // the remote node itself may be known too
        book.push(Rec { id: other, topics: gen_topics(rng, topic_universe, 3), stale: false, tr: rng.chance(1, 2) });
    }
    rng.shuffle(&mut book);
    book
}

fn gen_pair(rng: &mut Rng) -> (Party, Party) {
    let universe = *rng.pick(&[3usize, 6, 12, 40, 80]);
    let maxn = universe.min(40);
    let a = gen_topics(rng, universe, maxn);
    let mut b = match rng.below(5) {
        0 => a.clone(),                                                 // 100 % overlap
        1 => (0..universe).filter(|t| !a.contains(t)).take(maxn).collect(), // disjoint
        _ => gen_topics(rng, universe, maxn),
    };
    rng.shuffle(&mut b);
    let common: Vec<usize> = a.iter().copied().filter(|t| b.contains(t)).collect();
    let (ia, ib) = (rng.below(N_NODES as u64) as usize, 0usize);
    let ib = if ia == ib { 1 } else { ib };
    let pa = Party { restricted: rng.chance(1, 2), me: ia, topics: a, book: gen_book(rng, ia, ib, universe, &common) };
    let pb = Party { restricted: rng.chance(1, 2), me: ib, topics: b, book: gen_book(rng, ib, ia, universe, &common) };
    (pa, pb)
}

fn gen_script(rng: &mut Rng, role_alice: bool, p: &Party, universe: usize) -> Vec<Item> {
    let near = |rng: &mut Rng| {
        let mut t = gen_topics(rng, universe, 5);
        if !p.topics.is_empty() && rng.chance(2, 3) {
            t.push(*rng.pick(&p.topics));
        }
        canon(t)
    };
    let ids = |rng: &mut Rng| canon((0..rng.range(0, 3)).map(|_| rng.below(N_NODES as u64) as usize));
    let mut items: Vec<Item> = if role_alice {
        vec![if rng.chance(1, 5) { Item::Bdx(near(rng)) } else { Item::Bd(near(rng)) }, Item::Nodes(ids(rng))]
    } else {
        vec![Item::Salt, if rng.chance(1, 5) { Item::Adx(near(rng)) } else { Item::Ad(near(rng)) }, Item::Nodes(ids(rng))]
    };
    // malformed stream: truncate, duplicate, swap, replace
    match rng.below(8) {
        0 => {
            let k = rng.below(items.len() as u64 + 1) as usize;
            items.truncate(k);
        }
        1 => {
            let k = rng.below(items.len() as u64) as usize;
            let it = items[k].clone();
            items.insert(k, it);
        }
        2 => {
            let k = rng.below(items.len() as u64) as usize;
            items[k] = match rng.below(4) {
                0 => Item::Salt,
                1 => Item::Bd(near(rng)),
                2 => Item::Ad(near(rng)),
                _ => Item::Nodes(ids(rng)),
            };
        }
        3 => {
            if items.len() >= 2 {
                items.swap(0, 1);
            }
        }
        4 => items.push(Item::Nodes(ids(rng))),
        _ => {}
    }
    items
}

fn kv<'a>(req: &'a str, key: &str) -> &'a str {
    req.split_whitespace().find_map(|t| t.strip_prefix(&format!("{key}="))).unwrap_or_else(|| panic!("missing field {key}"))
}

fn replay(rt: &tokio::runtime::Runtime, env: &mut Env, req: &str) -> Case {
    let party = |r: &str, i: &str, t: &str, b: &str| Party {
        restricted: kv(req, r) == "1",
        me: kv(req, i).parse().unwrap(),
        topics: parse_list(',', kv(req, t)),
        book: parse_book(kv(req, b)),
    };
    let half = *blake3::hash(req.as_bytes()).as_bytes();
    if let Some(f) = req.split_whitespace().find_map(|t| t.strip_prefix("flip=")) {
        let (who, later) = f.split_once(':').expect("flip=<id>:<topics>");
        FLIP.with(|x| *x.borrow_mut() = Some((who.parse().unwrap(), parse_list(',', later))));
    }
    match req.split_whitespace().next().unwrap_or("") {
        "honest" => run_honest(rt, env, &party("rA", "ia", "A", "bookA"), &party("rB", "ib", "B", "bookB")),
        "echo" => run_script(rt, env, false, &party("rB", "ib", "B", "bookB"), &[], Some(&parse_list(',', kv(req, "N"))), half),
        "script" => {
            let items: Vec<Item> = if kv(req, "in") == "-" { vec![] } else { kv(req, "in").split('/').map(parse_item).collect() };
            run_script(rt, env, kv(req, "role") == "alice", &party("r", "i", "T", "book"), &items, None, half)
        }
        other => panic!("unknown scenario {other}"),
    }
}

fn main() {
    let args = Args::parse();
    let mut out = Out::new(&args.out);
    let rt = tokio::runtime::Builder::new_current_thread().enable_all().build().unwrap();
    let mut env = Env::new();
    if args.mode == "replay" {
        let text = std::fs::read_to_string(args.replay.as_ref().expect("replay file")).unwrap();
        let v: hc::serde_json::Value = hc::serde_json::from_str(&text).unwrap();
        let c = replay(&rt, &mut env, v["request"].as_str().unwrap());
        emit(&mut out, c, "replay");
        out.finish("replay", false);
        return;
    }
    if let Ok(rd) = std::fs::read_dir("corpus/C30") {
        let mut files: Vec<_> = rd.filter_map(|e| e.ok()).map(|e| e.path()).collect();
        files.sort();
        for f in files {
            if let Ok(text) = std::fs::read_to_string(&f) {
                if let Ok(v) = hc::serde_json::from_str::<hc::serde_json::Value>(&text) {
                    if let Some(req) = v["request"].as_str() {
                        let c = replay(&rt, &mut env, req);
                        emit(&mut out, c, "corpus");
                    }
                }
            }
        }
    }
    let mut rng = Rng::new(args.seed);
    let (n_honest, n_echo, n_script) = match args.tier {
        Tier::Quick => (400u64, 60u64, 240u64),
        Tier::Thorough => (12000, 1500, 6000),
        Tier::Search => (4000, 500, 2000),
    };
    // the unit test's own scenario first (4 topics each, 2 common; restricted books of `transport_info`)
    {
        let pa = Party { restricted: true, me: 0, topics: vec![1], book: vec![Rec { id: 0, topics: vec![1], stale: false, tr: true }] };
        let pb = Party {
            restricted: true,
            me: 1,
            topics: vec![1, 2],
            book: vec![
                Rec { id: 1, topics: vec![1, 2], stale: false, tr: true },
                Rec { id: 2, topics: vec![1], stale: false, tr: true },
                Rec { id: 3, topics: vec![2], stale: false, tr: true },
            ],
        };
        let c = run_honest(&rt, &mut env, &pa, &pb);
        emit(&mut out, c, "honest");
    }
    for _ in 0..n_honest {
        let (pa, pb) = gen_pair(&mut rng);
        let c = run_honest(&rt, &mut env, &pa, &pb);
        emit(&mut out, c, "honest");
    }
    // a subscribe / unsubscribe landing mid-session: from its second query on, one party's topic source
    // answers with a set that gained one of the *other* party's topics (or lost a common one); a session
    // must be decided on the set it advertised, so both peers still report A ∩ B of the first answers
    for k in 0..n_honest / 4 {
        let (pa, pb) = gen_pair(&mut rng);
        let (me, mine, theirs) = if k % 2 == 0 { (pb.me, &pb.topics, &pa.topics) } else { (pa.me, &pa.topics, &pb.topics) };
        let mut later = mine.clone();
        match theirs.iter().find(|t| !mine.contains(t)) {
            Some(t) if rng.chance(2, 3) => later.push(*t),
            _ => {
                if let Some(i) = later.iter().position(|t| theirs.contains(t)) {
                    later.remove(i);
                } else {
                    later.extend(theirs.iter().copied());
                }
            }
        }
        FLIP.with(|f| *f.borrow_mut() = Some((me, canon(later))));
        let c = run_honest(&rt, &mut env, &pa, &pb);
        FLIP.with(|f| *f.borrow_mut() = None);
        emit(&mut out, c, "honest-topics-change-mid-session");
    }
    for _ in 0..n_echo {
        let (_, pb) = gen_pair(&mut rng);
        let n = canon((0..rng.range(0, 3)).map(|_| rng.below(N_NODES as u64) as usize));
        let mut half = [0u8; 32];
        half.copy_from_slice(&rng.bytes(32));
        let c = run_script(&rt, &mut env, false, &pb, &[], Some(&n), half);
        emit(&mut out, c, "echo-attack");
    }
    for _ in 0..n_script {
        let (pa, _) = gen_pair(&mut rng);
        let role_alice = rng.chance(1, 2);
        let items = gen_script(&mut rng, role_alice, &pa, 12);
        let mut half = [0u8; 32];
        half.copy_from_slice(&rng.bytes(32));
        let c = run_script(&rt, &mut env, role_alice, &pa, &items, None, half);
        emit(&mut out, c, "scripted-peer");
    }
    out.finish(
        "honest: real alice/bob pair over postcard byte channels, topic sets of 0-40 topics with 0-100 % overlap, SqliteStore address books with 0-10 nodes (self present/absent, stale, with/without transports), both sharing configs on each side independently; echo-attack: real bob against a peer echoing his own digests; scripted-peer: one real role against valid, wrong-direction, truncated, duplicated, swapped and out-of-order message sequences. non-trivial (honest) = partial overlap and a restricted-sharing side whose book holds a node with transports outside the common topics; (echo) = bob has topics",
        false,
    );
}
