//! C16 — Ephemeral messages are authentic and unique per publish.
//!
//! Drives the real `EphemeralStreamPublisher::publish` (clock fed through `MockClock`) and the real
//! `EphemeralStreamSubscription` / `WrappedMessage::from_bytes`, built over a local broadcast channel through the
//! verif hooks (`GossipHandle::verif_local`, `EphemeralStreamPublisher::verif_new`,
//! `EphemeralStreamSubscription::verif_new`, `EphemeralMessage::{verif_from_bytes, verif_hybrid_timestamp}`).
//!
//! Request lines (see lean/Drv/C16.lean):
//!   pub <clock0> <now>*     -> `w/l` per published message
//!   sub <item>*             -> per item `Y:<author>:<w>/<l>:<body>` | `Eenc` | `Ever` | `Esig`
//!      item = g | m:<ver>:<key>:<w>/<l>:<body>:<skey>:<sver>:<sk2>:<sw>/<sl>:<sbody>
use std::collections::BTreeMap;
use std::sync::Arc;
use std::task::{Context, Poll, Wake, Waker};
use std::time::Duration;

use futures_util::Stream;
use hc::{Args, Out, Rng, Tier};
use mock_instant::thread_local::MockClock;
use p2panda::streams::{EphemeralMessage, EphemeralStreamPublisher, EphemeralStreamSubscription};
use p2panda_core::cbor::{decode_cbor, encode_cbor};
use p2panda_core::timestamp::{LamportTimestamp, Timestamp};
use p2panda_core::{Signature, SigningKey, Topic, VerifyingKey};
use p2panda_net::gossip::GossipHandle;
use p2panda_store::SqliteStore;

struct NoopWaker;
impl Wake for NoopWaker {
    fn wake(self: Arc<Self>) {}
}

fn key_of(id: u64) -> SigningKey {
    let mut b = [0x42u8; 32];
    b[..8].copy_from_slice(&id.to_le_bytes());
    SigningKey::from_bytes(&b)
}

#[derive(Clone, Debug, PartialEq, Eq)]
enum Item {
    Garbage,
    Msg { ver: u64, key: u64, ts: (u64, u64), body: u64, skey: u64, sver: u64, sk2: u64, sts: (u64, u64), sbody: u64 },
}

impl Item {
    fn honest(key: u64, ts: (u64, u64), body: u64) -> Item {
        Item::Msg { ver: 1, key, ts, body, skey: key, sver: 1, sk2: key, sts: ts, sbody: body }
    }
    fn token(&self) -> String {
        match self {
            Item::Garbage => "g".into(),
            Item::Msg { ver, key, ts, body, skey, sver, sk2, sts, sbody } => {
                format!("m:{ver}:{key}:{}/{}:{body}:{skey}:{sver}:{sk2}:{}/{}:{sbody}", ts.0, ts.1, sts.0, sts.1)
            }
        }
    }
    fn parse(t: &str) -> Item {
        if t == "g" {
            return Item::Garbage;
        }
        let f: Vec<&str> = t.split(':').collect();
        let ts = |s: &str| -> (u64, u64) {
            let (a, b) = s.split_once('/').unwrap();
            (a.parse().unwrap(), b.parse().unwrap())
        };
        let n = |s: &str| -> u64 { s.parse().unwrap() };
        Item::Msg { ver: n(f[1]), key: n(f[2]), ts: ts(f[3]), body: n(f[4]), skey: n(f[5]), sver: n(f[6]), sk2: n(f[7]), sts: ts(f[8]), sbody: n(f[9]) }
    }
    /// The property's notion of an authentic message, from how the item was *constructed*.
    fn is_honest(&self) -> bool {
        match self {
            Item::Garbage => false,
            Item::Msg { ver, key, ts, body, skey, sver, sk2, sts, sbody } => {
                *ver == 1 && *skey != 0 && skey == key && sk2 == key && *sver == 1 && sts == ts && sbody == body
            }
        }
    }
    /// Which fields differ from what was signed (for tags / statistics).
    fn tamper_kind(&self) -> &'static str {
        match self {
            Item::Garbage => "garbage",
            Item::Msg { ver, key, ts, body, skey, sver, sk2, sts, sbody } => {
                if self.is_honest() {
                    "honest"
                } else if *skey == 0 {
                    "signature-bytes"
                } else if *ver != 1 {
                    "version"
                } else if skey != key || sk2 != key {
                    "key"
                } else if sts.0 != ts.0 {
                    "timestamp"
                } else if sts.1 != ts.1 {
                    "lamport"
                } else if sbody != body {
                    "body"
                } else if *sver != 1 {
                    "signed-version"
                } else {
                    "other"
                }
            }
        }
    }
    /// Canonical wire bytes of the item (`salt` varies the garbage / the fake signature).
    fn bytes(&self, salt: u64) -> Vec<u8> {
        match self {
            Item::Garbage => match salt % 5 {
                0 => vec![],
                1 => vec![0xff, 0x00, 0x13, 0x37],
                2 => encode_cbor(&(1u64, 2u64, 3u64)).unwrap(), // wrong arity
                3 => {
                    // truncated honest message
                    let b = Item::honest(1, (5, 0), salt).bytes(0);
                    b[..b.len() - 1 - (salt as usize % 7)].to_vec()
                }
                _ => encode_cbor(&("not", "a", "wrapped", "message")).unwrap(),
            },
            Item::Msg { ver, key, ts, body, skey, sver, sk2, sts, sbody } => {
                let vk = key_of(*key).verifying_key();
                let sig = if *skey == 0 {
                    let mut b = [0u8; 64];
                    for (i, x) in b.iter_mut().enumerate() {
                        *x = (salt.wrapping_mul(31).wrapping_add(i as u64 * 7) % 251) as u8;
                    }
                    Signature::from_bytes(&b)
                } else {
                    let signed = encode_cbor(&(*sver, key_of(*sk2).verifying_key(), Timestamp::new(sts.0), LamportTimestamp::new(sts.1), sbody)).unwrap();
                    key_of(*skey).sign(&signed)
                };
                encode_cbor(&(*ver, vk, sig, Timestamp::new(ts.0), LamportTimestamp::new(ts.1), body)).unwrap()
            }
        }
    }
}

type Tuple = (u64, VerifyingKey, Signature, Timestamp, LamportTimestamp, u64);

struct Ctx {
    rt: tokio::runtime::Runtime,
    store: SqliteStore,
    topic: Topic,
    key_ids: BTreeMap<[u8; 32], u64>,
}

impl Ctx {
    fn key_id(&self, vk: &VerifyingKey) -> u64 {
        *self.key_ids.get(vk.as_bytes()).unwrap_or(&99)
    }
}

fn lam(l: LamportTimestamp) -> u64 {
    l.to_string().parse().unwrap()
}

/// Poll the subscription by hand until it is pending; returns what it yielded.
fn drain(sub: &mut std::pin::Pin<Box<EphemeralStreamSubscription<u64>>>) -> Vec<EphemeralMessage<u64>> {
    let waker = Waker::from(Arc::new(NoopWaker));
    let mut cx = Context::from_waker(&waker);
    let mut out = vec![];
    let mut pend = 0;
    for _ in 0..64 {
        match sub.as_mut().poll_next(&mut cx) {
            Poll::Ready(Some(m)) => {
                out.push(m);
                pend = 0;
            }
            Poll::Ready(None) => break,
            Poll::Pending => {
                // poll a few more times: immune to a subscription that returns Pending after skipping an item (C17)
                pend += 1;
                if pend >= 3 {
                    break;
                }
            }
        }
    }
    out
}

struct Verdict {
    answer: String,
    nontrivial: bool,
    fails: Vec<(String, String)>,
}

fn run_sub(ctx: &Ctx, items: &[Item], raw: Option<&[Vec<u8>]>) -> Verdict {
    let (handle, _published, tx) = ctx.rt.block_on(GossipHandle::verif_local(ctx.topic, 1 << 20, 64));
    let mut sub = Box::pin(EphemeralStreamSubscription::<u64>::verif_new(ctx.topic, handle.subscribe()));
    let mut answers = vec![];
    let mut fails: Vec<(String, String)> = vec![];
    for (k, item) in items.iter().enumerate() {
        let bytes = match raw {
            Some(r) => r[k].clone(),
            None => item.bytes(k as u64),
        };
        let _ = tx.send(bytes.clone());
        let yielded = drain(&mut sub);
        let direct = EphemeralMessage::<u64>::verif_from_bytes(ctx.topic, &bytes);
        let honest = item.is_honest();
        let word = if let Some(m) = yielded.first() {
            let (w, l) = m.verif_hybrid_timestamp().to_parts();
            let (w, l): (u64, u64) = (w.into(), lam(l));
            let author = ctx.key_id(&m.author());
            // what is yielded must be exactly what was sent
            if let Item::Msg { key, ts, body, .. } = item {
                if author != *key || (w, l) != *ts || *m.body() != *body || m.timestamp() != ts.0 || m.topic() != ctx.topic {
                    fails.push(("yield-fields".into(), format!("item {k} ({}): yielded author {author} ts {w}/{l} body {}", item.token(), m.body())));
                }
            }
            if yielded.len() > 1 {
                fails.push(("yield-twice".into(), format!("item {k} ({}): {} messages yielded for one arrival", item.token(), yielded.len())));
            }
            if !honest {
                fails.push((
                    format!("forged-yielded:{}", item.tamper_kind()),
                    format!("item {k} ({}) was yielded although it is not an authentic wrapping ({} differs from what was signed)", item.token(), item.tamper_kind()),
                ));
            }
            if direct.is_err() {
                fails.push(("yield-mismatch".into(), format!("item {k}: subscription yielded but from_bytes says {direct:?}")));
            }
            format!("Y:{author}:{w}/{l}:{}", m.body())
        } else {
            if honest {
                fails.push(("honest-dropped".into(), format!("item {k} ({}) is an authentic wrapping but was not yielded (from_bytes: {:?})", item.token(), direct.as_ref().err())));
            }
            match direct.as_ref().map(|_| ()).map_err(|e| *e) {
                Ok(()) => {
                    if !honest {
                        fails.push((format!("forged-accepted:{}", item.tamper_kind()), format!("item {k} ({}): from_bytes accepts it", item.token())));
                    }
                    "N".to_string()
                }
                Err("encoding") => "Eenc".to_string(),
                Err("version") => "Ever".to_string(),
                Err("signature") => "Esig".to_string(),
                Err(other) => format!("E{other}"),
            }
        };
        answers.push(word);
    }
    let nontrivial = items.iter().any(|i| i.is_honest()) && items.iter().filter(|i| !i.is_honest()).count() >= 3;
    Verdict { answer: if answers.is_empty() { "-".into() } else { answers.join(" ") }, nontrivial, fails }
}

fn run_pub(ctx: &Ctx, clock0: u64, nows: &[u64], bodies: &[u64]) -> Verdict {
    let (handle, mut published, tx) = ctx.rt.block_on(GossipHandle::verif_local(ctx.topic, 1 << 20, 64));
    let mut sub = Box::pin(EphemeralStreamSubscription::<u64>::verif_new(ctx.topic, handle.subscribe()));
    let key = key_of(1);
    let vk = key.verifying_key();
    MockClock::set_system_time(Duration::from_micros(clock0));
    let publisher = EphemeralStreamPublisher::<u64>::verif_new(ctx.topic, key.clone(), ctx.store.clone(), handle.clone());
    let mut answers = vec![];
    let mut fails: Vec<(String, String)> = vec![];
    let mut seen_bytes: Vec<Vec<u8>> = vec![];
    let mut prev: Option<(u64, u64)> = None;
    for (k, now) in nows.iter().enumerate() {
        MockClock::set_system_time(Duration::from_micros(*now));
        let body = bodies[k % bodies.len().max(1)];
        if let Err(e) = ctx.rt.block_on(publisher.publish(body)) {
            fails.push(("publish-error".into(), format!("publish {k}: {e}")));
            answers.push("ERR".to_string());
            continue;
        }
        let bytes = match published.try_recv() {
            Ok(b) => b,
            Err(_) => {
                fails.push(("nothing-published".into(), format!("publish {k}: no bytes reached the gossip handle")));
                answers.push("NONE".to_string());
                continue;
            }
        };
        // independent decoding and checks of what went out on the wire
        match decode_cbor::<Tuple, _>(&bytes[..]) {
            Err(e) => {
                fails.push(("published-undecodable".into(), format!("publish {k}: {e}")));
                answers.push("UNDEC".to_string());
            }
            Ok((ver, k2, sig, w, l, b)) => {
                let (w, l): (u64, u64) = (w.into(), lam(l));
                let signed = encode_cbor(&(1u64, vk, Timestamp::new(w), LamportTimestamp::new(l), &b)).unwrap();
                if ver != 1 || k2 != vk || b != body || !vk.verify(&signed, &sig) {
                    fails.push(("published-bad-signature".into(), format!("publish {k}: version {ver}, body {b}, signature over (1, key, {w}, {l}, body) valid: {}", vk.verify(&signed, &sig))));
                }
                if let Some(p) = prev {
                    if !((w, l) > p) {
                        let tag = if *now < p.0 { "timestamp-not-increasing-clock-back" } else { "timestamp-not-increasing" };
                        fails.push((tag.into(), format!("publish {k} (clock {now}) carries {w}/{l}, previous publish carried {}/{}", p.0, p.1)));
                    }
                }
                prev = Some((w, l));
                answers.push(format!("{w}/{l}"));
            }
        }
        if seen_bytes.contains(&bytes) {
            fails.push(("duplicate-bytes".into(), format!("publish {k} (clock {now}, body {body}) is byte-identical to an earlier publish")));
        }
        seen_bytes.push(bytes.clone());
        // every subscriber accepts it, with the publisher as author
        let _ = tx.send(bytes);
        let y = drain(&mut sub);
        if y.len() != 1 || y[0].author() != vk || *y[0].body() != body {
            fails.push(("published-not-yielded".into(), format!("publish {k}: a subscription yields {} message(s) for it", y.len())));
        }
    }
    // nt: the clock decreases and later returns to an earlier reading
    let mut seq = vec![clock0];
    seq.extend_from_slice(nows);
    let mut nt = false;
    for i in 1..seq.len() {
        if seq[i] < seq[i - 1] && seq[i + 1..].iter().any(|x| seq[..i].contains(x)) {
            nt = true;
        }
    }
    Verdict { answer: if answers.is_empty() { "-".into() } else { answers.join(" ") }, nontrivial: nt, fails }
}

fn emit_sub(out: &mut Out, ctx: &Ctx, items: &[Item], raw: Option<&[Vec<u8>]>) {
    let req = format!("sub {}", items.iter().map(|i| i.token()).collect::<Vec<_>>().join(" "));
    let v = run_sub(ctx, items, raw);
    let n = out.case(req.trim_end(), &v.answer, v.nontrivial);
    out.count("op=sub");
    for i in items {
        out.count(&format!("item:{}", i.tamper_kind()));
    }
    for w in v.answer.split_whitespace() {
        out.count(&format!("result:{}", w.split(':').next().unwrap_or("")));
    }
    if raw.is_some() {
        out.count("sub-with-byte-level-mutations");
    }
    for (tag, what) in &v.fails {
        out.oracle_fail(n, tag, what, req.trim_end(), &v.answer);
    }
}

fn emit_pub(out: &mut Out, ctx: &Ctx, clock0: u64, nows: &[u64], same_body: bool) {
    let req = format!("pub {clock0} {}", nows.iter().map(|n| n.to_string()).collect::<Vec<_>>().join(" "));
    let bodies: Vec<u64> = if same_body { vec![0] } else { vec![0, 1, 0, 2] };
    let v = run_pub(ctx, clock0, nows, &bodies);
    let n = out.case(req.trim_end(), &v.answer, v.nontrivial);
    out.count("op=pub");
    out.count_n("publishes", nows.len() as u64);
    if v.nontrivial {
        out.count("nontrivial:pub");
    }
    let mut prev = clock0;
    for now in nows {
        out.count(match now.cmp(&prev) {
            std::cmp::Ordering::Less => "clock:earlier",
            std::cmp::Ordering::Equal => "clock:equal",
            std::cmp::Ordering::Greater => "clock:later",
        });
        prev = prev.max(*now);
    }
    for (tag, what) in &v.fails {
        out.oracle_fail(n, tag, what, req.trim_end(), &v.answer);
    }
}

/// All single-field tamperings and re-signings of one honest message.
fn tamperings(key: u64, ts: (u64, u64), body: u64, other: u64) -> Vec<Item> {
    let h = |ver, k, t, b| Item::Msg { ver, key: k, ts: t, body: b, skey: key, sver: 1, sk2: key, sts: ts, sbody: body };
    vec![
        Item::honest(key, ts, body),
        h(2, key, ts, body),                                   // version changed
        h(0, key, ts, body),
        h(1, other, ts, body),                                 // key replaced, original signature
        h(1, key, (ts.0 + 1, ts.1), body),                     // timestamp changed
        h(1, key, (ts.0.saturating_sub(1), ts.1), body),
        h(1, key, (ts.0, ts.1 + 1), body),                     // lamport changed
        h(1, key, ts, body + 1),                               // body changed
        Item::Msg { ver: 1, key, ts, body, skey: 0, sver: 1, sk2: key, sts: ts, sbody: body }, // signature bytes replaced
        Item::Msg { ver: 1, key, ts, body, skey: other, sver: 1, sk2: key, sts: ts, sbody: body }, // signed by another key, claims `key`
        Item::honest(other, ts, body),                         // fully re-signed by another key: that key's message
        Item::Msg { ver: 2, key, ts, body, skey: key, sver: 2, sk2: key, sts: ts, sbody: body }, // unsupported version, signed over it
        Item::Msg { ver: 1, key, ts, body, skey: key, sver: 2, sk2: key, sts: ts, sbody: body }, // signature over another version
        Item::Garbage,
    ]
}

/// Byte-level mutations of an honest message, classified by decoding them.
fn byte_mutations(ctx: &Ctx, rng: &mut Rng, key: u64, ts: (u64, u64), body: u64, every: usize) -> (Vec<Item>, Vec<Vec<u8>>) {
    let honest = Item::honest(key, ts, body);
    let orig = honest.bytes(0);
    let (_, _, orig_sig, _, _, _): Tuple = decode_cbor(&orig[..]).unwrap();
    let mut items = vec![];
    let mut raws = vec![];
    let mut push = |bytes: Vec<u8>| {
        let item = match decode_cbor::<Tuple, _>(&bytes[..]) {
            Err(_) => Item::Garbage,
            Ok((ver, vk, sig, w, l, b)) => {
                let kid = ctx.key_id(&vk);
                let same_sig = sig.to_bytes() == orig_sig.to_bytes();
                Item::Msg {
                    ver,
                    key: kid,
                    ts: (w.into(), lam(l)),
                    body: b,
                    skey: if same_sig { key } else { 0 },
                    sver: 1,
                    sk2: key,
                    sts: ts,
                    sbody: body,
                }
            }
        };
        items.push(item);
        raws.push(bytes);
    };
    for pos in (0..orig.len()).step_by(every.max(1)) {
        let mut b = orig.clone();
        b[pos] ^= 1 << rng.below(8);
        push(b);
    }
    for cut in [1usize, 2, 10, orig.len() / 2] {
        push(orig[..orig.len() - cut.min(orig.len())].to_vec());
    }
    let mut ext = orig.clone();
    ext.push(0);
    push(ext);
    // the honest fields followed by a seventh tuple element (classified, like everything here, by decoding)
    {
        let (ver, vk, sig, w, l, b): Tuple = decode_cbor(&orig[..]).unwrap();
        push(encode_cbor(&(ver, vk, sig, w, l, b, 0u64)).unwrap());
        push(encode_cbor(&(ver, vk, sig, w, l)).unwrap());
    }
    (items, raws)
}

fn main() {
    let args = Args::parse();
    let mut out = Out::new(&args.out);
    let rt = tokio::runtime::Builder::new_current_thread().enable_all().build().unwrap();
    let store = rt.block_on(async { p2panda_store::SqliteStoreBuilder::new().build().await.expect("store") });
    let mut key_ids = BTreeMap::new();
    for id in 1..=5u64 {
        key_ids.insert(*key_of(id).verifying_key().as_bytes(), id);
    }
    let ctx = Ctx { rt, store, topic: Topic::from([3u8; 32]), key_ids };
    if args.mode == "replay" {
        let text = std::fs::read_to_string(args.replay.as_ref().expect("replay file")).unwrap();
        let v: hc::serde_json::Value = hc::serde_json::from_str(&text).unwrap();
        let req = v["request"].as_str().unwrap().to_string();
        let toks: Vec<&str> = req.split_whitespace().collect();
        match toks[0] {
            "pub" => {
                let n: Vec<u64> = toks[1..].iter().map(|t| t.parse().unwrap()).collect();
                emit_pub(&mut out, &ctx, n[0], &n[1..], true);
            }
            _ => {
                let items: Vec<Item> = toks[1..].iter().map(|t| Item::parse(t)).collect();
                emit_sub(&mut out, &ctx, &items, None);
            }
        }
        out.finish("replay", false);
        return;
    }
    let mut rng = Rng::new(args.seed);
    // witnesses first: the C18 clock pattern that made two publishes byte-identical on the pinned tree
    emit_pub(&mut out, &ctx, 7, &[6, 7, 6, 7], true);
    emit_pub(&mut out, &ctx, 10_000_000, &[5_000_000, 10_000_000, 5_000_000], true);
    emit_sub(&mut out, &ctx, &tamperings(1, (5, 0), 9, 2), None);
    if let Ok(rd) = std::fs::read_dir("/verif/corpus/C16") {
        let mut files: Vec<_> = rd.filter_map(|e| e.ok()).map(|e| e.path()).collect();
        files.sort();
        for f in files {
            if let Ok(text) = std::fs::read_to_string(&f) {
                if let Ok(v) = hc::serde_json::from_str::<hc::serde_json::Value>(&text) {
                    if let Some(req) = v["request"].as_str() {
                        let toks: Vec<&str> = req.split_whitespace().collect();
                        if toks[0] == "pub" {
                            let n: Vec<u64> = toks[1..].iter().map(|t| t.parse().unwrap()).collect();
                            emit_pub(&mut out, &ctx, n[0], &n[1..], true);
                        } else {
                            let items: Vec<Item> = toks[1..].iter().map(|t| Item::parse(t)).collect();
                            emit_sub(&mut out, &ctx, &items, None);
                        }
                    }
                }
            }
        }
    }
    let (n_pub, n_msgs, n_bytes, alpha, maxlen) = match args.tier {
        Tier::Quick => (600, 200, 25, 3u64, 4usize),
        Tier::Thorough => (30_000, 10_000, 400, 4, 6),
        Tier::Search => (20_000, 5_000, 200, 4, 5),
    };
    // exhaustive small clock sequences for the publisher
    for c0 in 0..alpha {
        for len in 0..=maxlen {
            for code in 0..alpha.pow(len as u32) {
                let mut c = code;
                let mut nows = vec![];
                for _ in 0..len {
                    nows.push(c % alpha);
                    c /= alpha;
                }
                emit_pub(&mut out, &ctx, c0, &nows, true);
            }
        }
    }
    for i in 0..n_pub {
        let base = *rng.pick(&[0u64, 1000, 1_700_000_000_000_000]);
        let c0 = base + rng.below(20);
        let scale = *rng.pick(&[1u64, 2, 1000, 1_000_000]);
        let len = if i % 40 == 0 { rng.range(40, 120) } else { rng.range(1, 30) } as usize;
        let mut cur = c0;
        let mut seen = vec![c0];
        let mut nows = vec![];
        for _ in 0..len {
            let r = rng.below(100);
            cur = if r < 30 {
                cur
            } else if r < 55 {
                cur + 1 + rng.below(scale)
            } else if r < 75 {
                cur.saturating_sub(1 + rng.below(scale))
            } else {
                *rng.pick(&seen)
            };
            seen.push(cur);
            nows.push(cur);
        }
        emit_pub(&mut out, &ctx, c0, &nows, rng.chance(3, 4));
    }
    // every published-style message × all field tamperings and re-signings
    for _ in 0..n_msgs {
        let key = 1 + rng.below(3);
        let other = 1 + (key + rng.below(2)) % 3;
        let ts = (if rng.chance(1, 3) { 1_700_000_000_000_000 } else { 0 } + rng.below(1000), rng.below(3));
        let bbits = rng.range(1, 40);
        let body = rng.below(1 << bbits);
        let mut items = tamperings(key, ts, body, if other == key { key % 3 + 1 } else { other });
        if rng.chance(1, 2) {
            rng.shuffle(&mut items);
        }
        emit_sub(&mut out, &ctx, &items, None);
    }
    // byte-level single-bit mutations, truncations, extension
    for _ in 0..n_bytes {
        let key = 1 + rng.below(3);
        let ts = (rng.below(1 << 50), rng.below(4));
        let body = rng.below(1 << 30);
        let every = if args.tier == Tier::Quick { 3 } else { 1 };
        let (items, raws) = byte_mutations(&ctx, &mut rng, key, ts, body, every);
        for (ci, cr) in items.chunks(40).zip(raws.chunks(40)) {
            emit_sub(&mut out, &ctx, ci, Some(cr));
        }
    }
    out.finish(
        "pub: exhaustive small clock sequences + random sequences (plateaus, forward / backward jumps, returns) for a real publisher, mostly identical bodies; every published byte string decoded independently (signature over (1, key, ts, lamport, body) re-verified, timestamps strictly increasing, bytes pairwise distinct) and fed to a real subscription. sub: for honest messages all single-field tamperings (version, key, timestamp, lamport, body, signature bytes), signatures by another key, full re-signing by another key, unsupported version signed over it, garbage / truncated / over-long tuples, plus byte-level single-bit flips and truncations of real messages classified by decoding. non-trivial(sub) = an authentic message among >= 3 forged ones; non-trivial(pub) = clock decreases and later returns to an earlier reading",
        false,
    );
}
