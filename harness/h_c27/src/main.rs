//! C27 — Address book keeps the newest authentic transport info per node.
//!
//! Drives the real `p2panda_net::addrs::NodeInfo::update_transports` / `TransportInfo::verify` with real
//! Ed25519-signed records (mode `pure`) and the real address-book actor with its SQLite store through
//! `AddressBook::insert_transport_info` / `node_info` (mode `actor`).
//!
//! Request line (see lean/Drv/C27.lean):   `<pure|actor> <node> <rec>*`
//!   rec = `A:<w>/<l>:<payload>:<sigKey>:<sw>/<sl>:<sigPayload>` | `T:<w>/<l>:<payload>:<id>,<id>…|-`
//! Answer: per record `<t|f|Esig|Emis>:<index of the first request record equal to the stored one | ->`.
use std::collections::BTreeMap;

use hc::{Args, Out, Rng, Tier};
use p2panda_core::SigningKey;
use p2panda_core::timestamp::{HybridTimestamp, LamportTimestamp, Timestamp};
use p2panda_net::AddressBook;
use p2panda_net::address_book::AddressBookError;
use p2panda_net::addrs::{
    NodeInfo, NodeInfoError, TransportAddress, TransportInfo, TrustedTransportInfo,
    UnsignedTransportInfo,
};

#[derive(Clone, Debug, PartialEq, Eq)]
enum RecSpec {
    /// ts, payload, signer key id, signed ts, signed payload
    Auth { ts: (u64, u64), payload: u64, key: u64, sts: (u64, u64), spayload: u64 },
    /// ts, payload, endpoint ids of the addresses
    Trusted { ts: (u64, u64), payload: u64, ids: Vec<u64> },
}

impl RecSpec {
    fn ts(&self) -> (u64, u64) {
        match self {
            RecSpec::Auth { ts, .. } | RecSpec::Trusted { ts, .. } => *ts,
        }
    }
    /// What the property calls authentic — decided from how the record was *constructed* (independent of
    /// `verify` and of the Lean model): signed by the node's own key over exactly what it carries, or trusted
    /// with all address ids equal to the node id.
    fn authentic(&self, node: u64) -> bool {
        match self {
            RecSpec::Auth { ts, payload, key, sts, spayload } => *key == node && ts == sts && payload == spayload,
            RecSpec::Trusted { ids, .. } => ids.iter().all(|i| *i == node),
        }
    }
    fn token(&self) -> String {
        match self {
            RecSpec::Auth { ts, payload, key, sts, spayload } => {
                format!("A:{}/{}:{}:{}:{}/{}:{}", ts.0, ts.1, payload, key, sts.0, sts.1, spayload)
            }
            RecSpec::Trusted { ts, payload, ids } => {
                let ids = if ids.is_empty() { "-".to_string() } else { ids.iter().map(|i| i.to_string()).collect::<Vec<_>>().join(",") };
                format!("T:{}/{}:{}:{}", ts.0, ts.1, payload, ids)
            }
        }
    }
    fn parse(t: &str) -> RecSpec {
        let f: Vec<&str> = t.split(':').collect();
        let ts = |s: &str| -> (u64, u64) {
            let (a, b) = s.split_once('/').expect("ts");
            (a.parse().unwrap(), b.parse().unwrap())
        };
        match f[0] {
            "A" => RecSpec::Auth { ts: ts(f[1]), payload: f[2].parse().unwrap(), key: f[3].parse().unwrap(), sts: ts(f[4]), spayload: f[5].parse().unwrap() },
            "T" => RecSpec::Trusted {
                ts: ts(f[1]),
                payload: if f[3] == "-" { 0 } else { f[2].parse().unwrap() },
                ids: if f[3] == "-" { vec![] } else { f[3].split(',').map(|x| x.parse().unwrap()).collect() },
            },
            other => panic!("bad record kind {other}"),
        }
    }
}

fn hts(t: (u64, u64)) -> HybridTimestamp {
    HybridTimestamp::from_parts(Timestamp::new(t.0), LamportTimestamp::new(t.1))
}

/// Per-case world: real keys for the small key ids, real address vectors for the payload ids.
struct World {
    keys: BTreeMap<u64, SigningKey>,
    salt: u64,
}

impl World {
    fn new(salt: u64) -> World {
        World { keys: BTreeMap::new(), salt }
    }
    fn key(&mut self, id: u64) -> SigningKey {
        let salt = self.salt;
        self.keys
            .entry(id)
            .or_insert_with(|| {
                let mut b = [0u8; 32];
                b[..8].copy_from_slice(&salt.to_le_bytes());
                b[8..16].copy_from_slice(&id.to_le_bytes());
                b[31] = 0x5a;
                SigningKey::from_bytes(&b)
            })
            .clone()
    }
    /// The address vector of payload `p`: one iroh address per endpoint id, socket port derived from `p` so that
    /// different payload ids are different vectors. `ids` is only known for trusted records; authenticated
    /// records use the node-independent default "one address of key `p % 3 + 1`".
    fn addresses(&mut self, p: u64, ids: Option<&[u64]>) -> Vec<TransportAddress> {
        let default = [p % 3 + 1];
        let ids: &[u64] = ids.unwrap_or(&default);
        ids.iter()
            .enumerate()
            .map(|(k, id)| {
                let vk = self.key(*id).verifying_key();
                let sock = format!("10.{}.{}.{}:{}", (p >> 8) & 255, p & 255, k + 1, 1024 + (p % 60000)).parse().unwrap();
                TransportAddress::from_iroh(vk, None, [sock])
            })
            .collect()
    }
    fn build(&mut self, r: &RecSpec) -> TransportInfo {
        match r {
            RecSpec::Auth { ts, payload, key, sts, spayload } => {
                let k = self.key(*key);
                let mut unsigned = UnsignedTransportInfo::new();
                unsigned.timestamp = hts(*sts);
                unsigned.addresses = self.addresses(*spayload, None);
                let mut signed = unsigned.sign(&k).expect("sign");
                // tampering after signing (no-ops for honest records)
                signed.timestamp = hts(*ts);
                signed.addresses = self.addresses(*payload, None);
                TransportInfo::Authenticated(signed)
            }
            RecSpec::Trusted { ts, payload, ids } => {
                let mut t = TrustedTransportInfo::new();
                t.timestamp = hts(*ts);
                t.addresses = self.addresses(*payload, Some(ids));
                TransportInfo::Trusted(t)
            }
        }
    }
}

fn err_word(e: &NodeInfoError) -> &'static str {
    match e {
        NodeInfoError::InvalidSignature => "Esig",
        NodeInfoError::NodeIdMismatch => "Emis",
        _ => "Eother",
    }
}

struct Verdict {
    answer: String,
    fails: Vec<(String, String)>,
    /// index of the stored record at the end (None = nothing stored)
    final_idx: Option<usize>,
}

/// Run one arrival order on the implementation and judge it.
fn run_case(rt: &tokio::runtime::Runtime, book: Option<&AddressBook>, salt: u64, node: u64, recs: &[RecSpec]) -> Verdict {
    let mut world = World::new(salt);
    let node_id = world.key(node).verifying_key();
    let infos: Vec<TransportInfo> = recs.iter().map(|r| world.build(r)).collect();
    let mut pure = NodeInfo::new(node_id);
    let mut answers = vec![];
    let mut fails: Vec<(String, String)> = vec![];
    // oracle state: index of the newest authentic record so far (first arrival wins ties)
    let mut best: Option<usize> = None;
    let mut final_idx = None;
    for (k, info) in infos.iter().enumerate() {
        let before = best;
        let (word, stored): (String, Option<TransportInfo>) = match book {
            None => {
                let info2 = info.clone();
                let mut ni = pure.clone();
                match hc::catch(std::panic::AssertUnwindSafe(move || {
                    let r = ni.update_transports(info2);
                    (r, ni)
                })) {
                    Ok((r, ni)) => {
                        pure = ni;
                        let w = match &r {
                            Ok(true) => "t".to_string(),
                            Ok(false) => "f".to_string(),
                            Err(e) => err_word(e).to_string(),
                        };
                        (w, pure.transports.clone())
                    }
                    Err(msg) => {
                        fails.push(("panic".into(), format!("step {k}: update_transports panicked: {msg}")));
                        ("PANIC".to_string(), pure.transports.clone())
                    }
                }
            }
            Some(book) => {
                let r = rt.block_on(book.insert_transport_info(node_id, info.clone()));
                let w = match &r {
                    Ok(true) => "t".to_string(),
                    Ok(false) => "f".to_string(),
                    Err(AddressBookError::NodeInfo(e)) => err_word(e).to_string(),
                    Err(e) => format!("Eactor({})", e.to_string().replace(' ', "_")),
                };
                let ni = rt.block_on(book.node_info(node_id)).expect("node_info");
                (w, ni.and_then(|n| n.transports))
            }
        };
        let stored_idx = stored.as_ref().map(|s| infos.iter().position(|i| i == s));
        // ---- oracle -------------------------------------------------------------------------------------
        let auth = recs[k].authentic(node);
        if auth {
            best = match best {
                None => Some(k),
                Some(b) => {
                    if recs[k].ts() > recs[b].ts() {
                        Some(k)
                    } else {
                        Some(b)
                    }
                }
            };
        }
        let expect_idx = best.map(|b| infos.iter().position(|i| *i == infos[b]).unwrap());
        let mut fail = |tag: &str, what: String| {
            if fails.len() < 4 {
                fails.push((tag.to_string(), format!("step {k} ({}): {what}", recs[k].token())));
            }
        };
        match stored_idx {
            Some(None) => fail("foreign-stored", "the stored transport info equals none of the arrived records".into()),
            Some(Some(si)) if !recs[si].authentic(node) => {
                fail("forged-stored", format!("the stored record is #{si} ({}), which is not authentic for node {node}", recs[si].token()))
            }
            _ => {}
        }
        let got = stored_idx.flatten();
        if got != expect_idx && !matches!(stored_idx, Some(None)) && !(got.is_some() && !recs[got.unwrap()].authentic(node)) {
            let tag = match (got, expect_idx) {
                (Some(g), Some(e)) if recs[g].ts() == recs[e].ts() => "tie-not-first",
                (Some(g), Some(e)) if recs[g].ts() < recs[e].ts() => "not-newest",
                (None, Some(_)) => "authentic-dropped",
                _ => "not-newest",
            };
            fail(tag, format!("stored = {:?}, newest authentic so far = {:?}", got.map(|g| recs[g].token()), expect_idx.map(|e| recs[e].token())));
        }
        // return value: error iff not authentic; Ok(true) iff this step made the arriving record the newest
        let expect_word_ok = if !auth { word.starts_with('E') } else if best == Some(k) && before != Some(k) { word == "t" } else { word == "f" };
        if !expect_word_ok {
            fail("wrong-result", format!("returned {word} (authentic: {auth}, became newest: {})", best == Some(k) && before != best));
        }
        answers.push(format!("{word}:{}", match stored_idx { None => "-".to_string(), Some(None) => "?".to_string(), Some(Some(i)) => i.to_string() }));
        final_idx = got;
    }
    Verdict { answer: if answers.is_empty() { "-".into() } else { answers.join(" ") }, fails, final_idx }
}

/// One operation on a node's address-book entry: a record arriving through `insert_transport_info` /
/// `update_transports`, or a complete `NodeInfo` (with these transports, or none) through `insert_node_info` /
/// `NodeInfo::verify`.
#[derive(Clone, Debug, PartialEq, Eq)]
enum BookOp {
    Transport(RecSpec),
    NodeInfo(Option<RecSpec>),
}

impl BookOp {
    fn token(&self) -> String {
        match self {
            BookOp::Transport(r) => format!("+{}", r.token()),
            BookOp::NodeInfo(Some(r)) => format!("={}", r.token()),
            BookOp::NodeInfo(None) => "=-".to_string(),
        }
    }
    fn parse(t: &str) -> BookOp {
        if let Some(r) = t.strip_prefix('+') {
            BookOp::Transport(RecSpec::parse(r))
        } else if t == "=-" {
            BookOp::NodeInfo(None)
        } else {
            BookOp::NodeInfo(Some(RecSpec::parse(t.strip_prefix('=').expect("op prefix"))))
        }
    }
    fn rec(&self) -> Option<&RecSpec> {
        match self {
            BookOp::Transport(r) | BookOp::NodeInfo(Some(r)) => Some(r),
            BookOp::NodeInfo(None) => None,
        }
    }
}

/// Both entry points on one node's entry. `book = None`: `NodeInfo::verify` / `update_transports` directly on a
/// value (a valid complete NodeInfo replaces the value, as the actor does); `Some`: the real actor + SQLite.
fn run_ops(rt: &tokio::runtime::Runtime, book: Option<&AddressBook>, salt: u64, node: u64, ops: &[BookOp]) -> Verdict {
    let mut world = World::new(salt);
    let node_id = world.key(node).verifying_key();
    let recs: Vec<RecSpec> = ops.iter().filter_map(|o| o.rec().cloned()).collect();
    let infos: Vec<TransportInfo> = recs.iter().map(|r| world.build(r)).collect();
    let mut pure: Option<NodeInfo> = None; // the entry when no actor is used
    let mut answers = vec![];
    let mut fails: Vec<(String, String)> = vec![];
    let mut ri = 0usize; // index into recs of the current op's record
    let mut prev_stored: Option<Option<usize>> = None; // previous stored index (None = nothing stored)
    let mut final_idx = None;
    for (k, op) in ops.iter().enumerate() {
        let my_idx = op.rec().map(|_| {
            ri += 1;
            ri - 1
        });
        let (word, stored): (String, Option<TransportInfo>) = match op {
            BookOp::Transport(_) => {
                let info = infos[my_idx.unwrap()].clone();
                match book {
                    None => {
                        let mut ni = pure.clone().unwrap_or_else(|| NodeInfo::new(node_id));
                        let r = ni.update_transports(info);
                        let w = match &r {
                            Ok(true) => "t".to_string(),
                            Ok(false) => "f".to_string(),
                            Err(e) => err_word(e).to_string(),
                        };
                        if r.is_ok() {
                            pure = Some(ni);
                        }
                        (w, pure.as_ref().and_then(|n| n.transports.clone()))
                    }
                    Some(book) => {
                        let r = rt.block_on(book.insert_transport_info(node_id, info));
                        let w = match &r {
                            Ok(true) => "t".to_string(),
                            Ok(false) => "f".to_string(),
                            Err(AddressBookError::NodeInfo(e)) => err_word(e).to_string(),
                            Err(e) => format!("Eactor({})", e.to_string().replace(' ', "_")),
                        };
                        let ni = rt.block_on(book.node_info(node_id)).expect("node_info");
                        (w, ni.and_then(|n| n.transports))
                    }
                }
            }
            BookOp::NodeInfo(_) => {
                let mut ni = NodeInfo::new(node_id);
                ni.transports = my_idx.map(|i| infos[i].clone());
                match book {
                    None => {
                        let r = ni.verify();
                        let w = match &r {
                            Ok(()) => if pure.is_none() { "n".to_string() } else { "u".to_string() },
                            Err(e) => err_word(e).to_string(),
                        };
                        if r.is_ok() {
                            pure = Some(ni);
                        }
                        (w, pure.as_ref().and_then(|n| n.transports.clone()))
                    }
                    Some(book) => {
                        let r = rt.block_on(book.insert_node_info(ni));
                        let w = match &r {
                            Ok(true) => "n".to_string(),
                            Ok(false) => "u".to_string(),
                            Err(AddressBookError::NodeInfo(e)) => err_word(e).to_string(),
                            Err(e) => format!("Eactor({})", e.to_string().replace(' ', "_")),
                        };
                        let ni = rt.block_on(book.node_info(node_id)).expect("node_info");
                        (w, ni.and_then(|n| n.transports))
                    }
                }
            }
        };
        let stored_idx: Option<Option<usize>> = stored.as_ref().map(|s| infos.iter().position(|i| i == s));
        let got: Option<usize> = stored_idx.flatten();
        // ---- oracle (property level, independent of the Lean model) --------------------------------------------
        let mut fail = |tag: &str, what: String| {
            if fails.len() < 4 {
                fails.push((tag.to_string(), format!("op {k} ({}): {what}", op.token())));
            }
        };
        let authentic = op.rec().map(|r| r.authentic(node)).unwrap_or(true);
        let before = prev_stored.flatten();
        if matches!(stored_idx, Some(None)) {
            fail("foreign-stored", "the stored transport info equals none of the records of this case".into());
        }
        if let Some(g) = got {
            if !recs[g].authentic(node) {
                let tag = if matches!(op, BookOp::NodeInfo(_)) { "unverified-nodeinfo-stored" } else { "forged-stored" };
                fail(tag, format!("the stored record is #{g} ({}), which fails verification for node {node}", recs[g].token()));
            }
        }
        if !authentic {
            // a record / node info that fails verification: rejected, entry unchanged
            if !word.starts_with('E') {
                let tag = if matches!(op, BookOp::NodeInfo(_)) { "unverified-nodeinfo-accepted" } else { "wrong-result" };
                fail(tag, format!("returned {word} although the transports fail verification for node {node}"));
            }
            if got != before {
                fail("unverified-changed-entry", format!("stored changed from {:?} to {:?}", before.map(|b| recs[b].token()), got.map(|g| recs[g].token())));
            }
        } else {
            match op {
                BookOp::NodeInfo(_) => {
                    // documented local override: a valid node info replaces the entry whatever the timestamps
                    let want = my_idx.map(|i| infos.iter().position(|x| *x == infos[i]).unwrap());
                    if got != want || word.starts_with('E') {
                        fail("valid-nodeinfo-not-stored", format!("returned {word}, stored {:?}", got.map(|g| recs[g].token())));
                    }
                }
                BookOp::Transport(r) => {
                    let newer = before.map(|b| r.ts() > recs[b].ts()).unwrap_or(true);
                    let want = if newer { infos.iter().position(|x| *x == infos[my_idx.unwrap()]) } else { before };
                    if got != want {
                        fail("not-newest", format!("stored {:?}, expected {:?}", got.map(|g| recs[g].token()), want.map(|g| recs[g].token())));
                    }
                    if (word == "t") != newer || word.starts_with('E') {
                        fail("wrong-result", format!("returned {word}, newer than stored: {newer}"));
                    }
                }
            }
        }
        answers.push(format!("{word}:{}", match stored_idx { None => "-".to_string(), Some(None) => "?".to_string(), Some(Some(i)) => i.to_string() }));
        prev_stored = Some(got);
        final_idx = got;
    }
    Verdict { answer: if answers.is_empty() { "-".into() } else { answers.join(" ") }, fails, final_idx }
}

fn emit_ops(out: &mut Out, ctx: &mut Ctx, actor: bool, node: u64, ops: &[BookOp]) {
    ctx.salt += 1;
    let mode = if actor { "ni-actor" } else { "ni-pure" };
    let req = format!("{mode} {node} {}", ops.iter().map(|o| o.token()).collect::<Vec<_>>().join(" "));
    let v = run_ops(&ctx.rt, if actor { Some(&ctx.book) } else { None }, ctx.salt, node, ops);
    // nt: a node info whose transports fail verification is inserted after an authentic record was stored
    let mut have_auth = false;
    let mut nt = false;
    for o in ops {
        match o {
            BookOp::NodeInfo(Some(r)) if !r.authentic(node) && have_auth => nt = true,
            _ => {}
        }
        if let Some(r) = o.rec() {
            if r.authentic(node) {
                have_auth = true;
            }
        }
    }
    let n = out.case(req.trim_end(), &v.answer, nt);
    out.count(&format!("mode={mode}"));
    if nt {
        out.count("nontrivial:nodeinfo");
    }
    for o in ops {
        let kind = match o {
            BookOp::Transport(r) => if r.authentic(node) { "op:transport-authentic" } else { "op:transport-forged" },
            BookOp::NodeInfo(None) => "op:nodeinfo-without-transports",
            BookOp::NodeInfo(Some(r @ RecSpec::Trusted { .. })) => if r.authentic(node) { "op:nodeinfo-trusted-matching" } else { "op:nodeinfo-trusted-mismatching" },
            BookOp::NodeInfo(Some(r)) => if r.authentic(node) { "op:nodeinfo-signed-authentic" } else { "op:nodeinfo-signed-forged" },
        };
        out.count(kind);
    }
    for w in v.answer.split_whitespace() {
        out.count(&format!("result:{}", w.split(':').next().unwrap_or("")));
    }
    for (tag, what) in &v.fails {
        out.oracle_fail(n, tag, what, req.trim_end(), &v.answer);
    }
}

fn gen_ops(rng: &mut Rng, node: u64, n: usize) -> Vec<BookOp> {
    let distinct = !rng.chance(1, 6);
    let recs = gen_set(rng, node, n, distinct);
    let mut ops: Vec<BookOp> = vec![];
    // most cases start with an authentic record being stored
    if rng.chance(3, 4) {
        let ts = gen_ts(rng, 10);
        ops.push(BookOp::Transport(RecSpec::Auth { ts, payload: 900, key: node, sts: ts, spayload: 900 }));
    }
    for r in recs {
        let op = match rng.below(10) {
            0..=4 => BookOp::NodeInfo(Some(r)),
            5 => BookOp::NodeInfo(None),
            _ => BookOp::Transport(r),
        };
        ops.push(op);
    }
    ops
}

/// "nt" rule: the set contains a forged (non-authentic) record whose timestamp is the largest of all, and at
/// least one authentic record.
fn nontrivial(node: u64, recs: &[RecSpec]) -> bool {
    let max = recs.iter().map(|r| r.ts()).max();
    recs.iter().any(|r| r.authentic(node)) && recs.iter().any(|r| !r.authentic(node) && Some(r.ts()) == max)
        && !recs.iter().any(|r| r.authentic(node) && Some(r.ts()) == max)
}

fn distinct_ts(node: u64, recs: &[RecSpec]) -> bool {
    let a: Vec<&RecSpec> = recs.iter().filter(|r| r.authentic(node)).collect();
    for i in 0..a.len() {
        for j in 0..a.len() {
            if i != j && a[i].ts() == a[j].ts() && a[i] != a[j] {
                return false;
            }
        }
    }
    true
}

struct Ctx {
    rt: tokio::runtime::Runtime,
    book: AddressBook,
    salt: u64,
}

fn emit(out: &mut Out, ctx: &mut Ctx, actor: bool, node: u64, recs: &[RecSpec]) -> Option<usize> {
    ctx.salt += 1;
    let mode = if actor { "actor" } else { "pure" };
    let req = format!("{mode} {node} {}", recs.iter().map(|r| r.token()).collect::<Vec<_>>().join(" "));
    let v = run_case(&ctx.rt, if actor { Some(&ctx.book) } else { None }, ctx.salt, node, recs);
    let nt = nontrivial(node, recs);
    let n = out.case(req.trim_end(), &v.answer, nt);
    out.count(&format!("mode={mode}"));
    out.count(&format!("records={}", if recs.len() <= 7 { recs.len().to_string() } else { ">7".into() }));
    if nt {
        out.count("nontrivial");
    }
    if !distinct_ts(node, recs) {
        out.count("has-timestamp-tie-among-authentic");
    }
    for r in recs {
        let kind = match r {
            RecSpec::Auth { ts, payload, key, sts, spayload } => {
                if *key != node {
                    "rec:signed-by-other-key"
                } else if ts != sts {
                    "rec:timestamp-changed-after-signing"
                } else if payload != spayload {
                    "rec:addresses-changed-after-signing"
                } else {
                    "rec:authentic-signed"
                }
            }
            RecSpec::Trusted { ids, .. } => {
                if ids.is_empty() {
                    "rec:trusted-empty"
                } else if ids.iter().all(|i| *i == node) {
                    "rec:trusted-matching"
                } else {
                    "rec:trusted-mismatching"
                }
            }
        };
        out.count(kind);
    }
    for w in v.answer.split_whitespace() {
        out.count(&format!("result:{}", w.split(':').next().unwrap_or("")));
    }
    for (tag, what) in &v.fails {
        out.oracle_fail(n, tag, what, req.trim_end(), &v.answer);
    }
    v.final_idx
}

/// All arrival orders of one record set; the final register must not depend on the order (distinct timestamps).
fn emit_all_orders(out: &mut Out, ctx: &mut Ctx, actor: bool, node: u64, recs: &[RecSpec]) {
    let n = recs.len();
    let mut idx: Vec<usize> = (0..n).collect();
    let mut finals: Vec<(Vec<usize>, Option<RecSpec>)> = vec![];
    // Heap's algorithm, iterative
    let mut c = vec![0usize; n];
    let mut visit = |out: &mut Out, ctx: &mut Ctx, idx: &Vec<usize>| {
        let perm: Vec<RecSpec> = idx.iter().map(|i| recs[*i].clone()).collect();
        let f = emit(out, ctx, actor, node, &perm);
        finals.push((idx.clone(), f.map(|k| perm[k].clone())));
    };
    visit(out, ctx, &idx);
    let mut i = 0;
    while i < n {
        if c[i] < i {
            if i % 2 == 0 {
                idx.swap(0, i);
            } else {
                idx.swap(c[i], i);
            }
            visit(out, ctx, &idx);
            c[i] += 1;
            i = 0;
        } else {
            c[i] = 0;
            i += 1;
        }
    }
    out.count("all-orders-sets");
    if distinct_ts(node, recs) {
        let first = finals[0].1.clone();
        for (perm, f) in &finals {
            if *f != first {
                let req = format!("order-set {node} {}", recs.iter().map(|r| r.token()).collect::<Vec<_>>().join(" "));
                out.oracle_fail(
                    out.cases.saturating_sub(1),
                    "order-dependent",
                    &format!("arrival order {:?} ends with {:?}, order {:?} with {:?}", finals[0].0, first.as_ref().map(|r| r.token()), perm, f.as_ref().map(|r| r.token())),
                    &req,
                    "",
                );
                break;
            }
        }
    }
}

fn gen_ts(rng: &mut Rng, span: u64) -> (u64, u64) {
    let base = if rng.chance(1, 6) { 1_700_000_000_000_000 } else { 0 };
    (base + rng.below(span), if rng.chance(1, 2) { 0 } else { rng.below(3) })
}

fn gen_set(rng: &mut Rng, node: u64, n: usize, distinct: bool) -> Vec<RecSpec> {
    let span = *rng.pick(&[3u64, 5, 10, 1000]);
    let mut recs: Vec<RecSpec> = vec![];
    let mut used: Vec<(u64, u64)> = vec![];
    let mut payload = 0u64;
    while recs.len() < n {
        payload += 1;
        let mut ts = gen_ts(rng, span);
        if distinct {
            let mut guard = 0;
            while used.contains(&ts) && guard < 50 {
                ts = gen_ts(rng, span + guard);
                guard += 1;
            }
            if used.contains(&ts) {
                ts = (span + 100 + recs.len() as u64, 0);
            }
        }
        used.push(ts);
        let other = if node == 1 { 2 + rng.below(2) } else { 1 };
        let r = match rng.below(100) {
            0..=34 => RecSpec::Auth { ts, payload, key: node, sts: ts, spayload: payload },
            35..=46 => RecSpec::Auth { ts, payload, key: other, sts: ts, spayload: payload },
            47..=56 => RecSpec::Auth { ts, payload, key: node, sts: ts, spayload: payload + 100 },
            57..=68 => {
                // timestamp moved after signing (forward mostly: the attack that makes an old record "newest")
                let sts = if rng.chance(3, 4) { (ts.0.saturating_sub(1 + rng.below(3)), ts.1) } else { (ts.0 + 1 + rng.below(3), ts.1) };
                if sts == ts { RecSpec::Auth { ts, payload, key: node, sts: (ts.0 + 1, ts.1), spayload: payload } } else { RecSpec::Auth { ts, payload, key: node, sts, spayload: payload } }
            }
            69..=80 => RecSpec::Trusted { ts, payload, ids: vec![node] },
            81..=84 => RecSpec::Trusted { ts, payload, ids: vec![node, node] },
            85..=92 => RecSpec::Trusted { ts, payload, ids: vec![other] },
            93..=96 => RecSpec::Trusted { ts, payload, ids: if rng.chance(1, 2) { vec![node, other] } else { vec![other, node] } },
            // no addresses at all: the address vector is empty whatever the payload id, so the id is canonically 0
            // (two such records with equal timestamps are the same value for the implementation)
            _ => RecSpec::Trusted { ts, payload: 0, ids: vec![] },
        };
        recs.push(r);
        // exact re-delivery of an earlier record
        if recs.len() < n && rng.chance(1, 10) {
            let d = rng.pick(&recs).clone();
            recs.push(d);
        }
    }
    // make the nt situation frequent: lift one forged record above everything
    if rng.chance(1, 2) {
        let top = recs.iter().map(|r| r.ts().0).max().unwrap_or(0) + 1 + rng.below(5);
        if let Some(pos) = recs.iter().position(|r| !r.authentic(node)) {
            recs[pos] = match recs[pos].clone() {
                RecSpec::Auth { payload, key, sts, spayload, ts } => {
                    // keep it forged: if it was forged only through the timestamp, it stays so because sts stays
                    let sts = if key == node && payload == spayload && sts == (top, ts.1) { (top + 1, ts.1) } else { sts };
                    RecSpec::Auth { ts: (top, ts.1), payload, key, sts, spayload }
                }
                RecSpec::Trusted { payload, ids, ts } => RecSpec::Trusted { ts: (top, ts.1), payload, ids },
            };
        }
    }
    recs
}

fn parse_request(req: &str) -> (bool, u64, Vec<RecSpec>) {
    let mut it = req.split_whitespace();
    let mode = it.next().unwrap();
    let node: u64 = it.next().unwrap().parse().unwrap();
    (mode == "actor", node, it.map(RecSpec::parse).collect())
}

fn main() {
    let args = Args::parse();
    let mut out = Out::new(&args.out);
    let rt = tokio::runtime::Builder::new_current_thread().enable_all().build().unwrap();
    let book = rt.block_on(async { AddressBook::builder().spawn().await.expect("address book") });
    let mut ctx = Ctx { rt, book, salt: args.seed.wrapping_mul(1_000_003) };
    if args.mode == "replay" {
        let text = std::fs::read_to_string(args.replay.as_ref().expect("replay file")).unwrap();
        let v: hc::serde_json::Value = hc::serde_json::from_str(&text).unwrap();
        let req = v["request"].as_str().unwrap().to_string();
        if req.starts_with("ni-") {
            let mut it = req.split_whitespace();
            let mode = it.next().unwrap();
            let node: u64 = it.next().unwrap().parse().unwrap();
            let ops: Vec<BookOp> = it.map(BookOp::parse).collect();
            emit_ops(&mut out, &mut ctx, mode == "ni-actor", node, &ops);
        } else if req.starts_with("order-set") {
            let (_, node, recs) = parse_request(&req);
            emit_all_orders(&mut out, &mut ctx, false, node, &recs);
        } else {
            let (actor, node, recs) = parse_request(&req);
            emit(&mut out, &mut ctx, actor, node, &recs);
        }
        out.finish("replay", false);
        return;
    }
    let mut rng = Rng::new(args.seed);
    // corpus
    if let Ok(rd) = std::fs::read_dir("/verif/corpus/C27") {
        let mut files: Vec<_> = rd.filter_map(|e| e.ok()).map(|e| e.path()).collect();
        files.sort();
        for f in files {
            if let Ok(text) = std::fs::read_to_string(&f) {
                if let Ok(v) = hc::serde_json::from_str::<hc::serde_json::Value>(&text) {
                    if let Some(req) = v["request"].as_str() {
                        if req.starts_with("ni-") {
                            let mut it = req.split_whitespace();
                            let mode = it.next().unwrap();
                            let node: u64 = it.next().unwrap().parse().unwrap();
                            let ops: Vec<BookOp> = it.map(BookOp::parse).collect();
                            emit_ops(&mut out, &mut ctx, mode == "ni-actor", node, &ops);
                        } else {
                            let (actor, node, recs) = parse_request(req);
                            emit(&mut out, &mut ctx, actor, node, &recs);
                        }
                    }
                }
            }
        }
    }
    // fixed witnesses: forged record with the largest timestamp, equal wall clock / different lamport, duplicates
    for line in [
        "pure 1 A:5/0:10:1:5/0:10 A:99/0:11:2:99/0:11 A:100/0:12:1:7/0:12 A:7/1:13:1:7/1:13 A:7/0:14:1:7/0:14 T:200/0:15:1,3 T:3/0:16:- A:7/1:13:1:7/1:13",
        "actor 1 A:5/0:10:1:5/0:10 A:99/0:11:2:99/0:11 A:100/0:12:1:7/0:12 A:7/1:13:1:7/1:13 A:7/0:14:1:7/0:14 T:200/0:15:1,3 T:3/0:16:- A:7/1:13:1:7/1:13",
        "pure 2 T:4/0:1:2 A:4/0:2:2:4/0:2 A:4/1:3:2:4/1:3 T:9/9:4:1",
        "pure 1",
    ] {
        let (actor, node, recs) = parse_request(line);
        emit(&mut out, &mut ctx, actor, node, &recs);
    }
    let (n_sets, n_perm_sets, perm_max, n_actor, n_actor_perm) = match args.tier {
        Tier::Quick => (500, 25, 5, 150, 4),
        Tier::Thorough => (20_000, 60, 7, 3_000, 20),
        Tier::Search => (30_000, 200, 6, 2_000, 20),
    };
    for i in 0..n_sets {
        let node = 1 + rng.below(2);
        let n = if i % 40 == 0 { rng.range(20, 60) } else { rng.range(1, 9) } as usize;
        let distinct = !rng.chance(1, 5);
        let mut recs = gen_set(&mut rng, node, n, distinct);
        rng.shuffle(&mut recs);
        emit(&mut out, &mut ctx, false, node, &recs);
    }
    for i in 0..n_perm_sets {
        let node = 1 + rng.below(2);
        let n = if i % 3 == 0 { perm_max } else { rng.range(2, perm_max as u64 - 1) as usize };
        let recs = gen_set(&mut rng, node, n, true);
        emit_all_orders(&mut out, &mut ctx, false, node, &recs);
    }
    for _ in 0..n_actor {
        let node = 1 + rng.below(2);
        let n = rng.range(1, 8) as usize;
        let distinct = !rng.chance(1, 5);
        let mut recs = gen_set(&mut rng, node, n, distinct);
        rng.shuffle(&mut recs);
        emit(&mut out, &mut ctx, true, node, &recs);
    }
    for _ in 0..n_actor_perm {
        let node = 1 + rng.below(2);
        let recs = gen_set(&mut rng, node, 4, true);
        emit_all_orders(&mut out, &mut ctx, true, node, &recs);
    }
    // complete NodeInfo values through NodeInfo::verify / AddressBook::insert_node_info, mixed with arriving records
    for line in [
        "ni-actor 1 +A:5/0:10:1:5/0:10 =T:9/0:11:2 =T:1/0:12:1 =- =A:9/0:13:2:9/0:13 +A:2/0:14:1:2/0:14",
        "ni-pure 1 +A:5/0:10:1:5/0:10 =T:9/0:11:2 =T:1/0:12:1 =- =A:9/0:13:2:9/0:13 +A:2/0:14:1:2/0:14",
        "ni-actor 2 +A:5/0:10:2:5/0:10 =T:9/0:11:1,2 =A:1/0:12:2:1/0:12 =A:7/0:13:2:6/0:13 +A:3/0:14:2:3/0:14",
    ] {
        let mut it = line.split_whitespace();
        let mode = it.next().unwrap();
        let node: u64 = it.next().unwrap().parse().unwrap();
        let ops: Vec<BookOp> = it.map(BookOp::parse).collect();
        emit_ops(&mut out, &mut ctx, mode == "ni-actor", node, &ops);
    }
    let (n_ni_pure, n_ni_actor) = match args.tier {
        Tier::Quick => (300, 150),
        Tier::Thorough => (10_000, 3_000),
        Tier::Search => (10_000, 2_000),
    };
    for _ in 0..n_ni_pure {
        let node = 1 + rng.below(2);
        let n = rng.range(1, 8) as usize;
        let ops = gen_ops(&mut rng, node, n);
        emit_ops(&mut out, &mut ctx, false, node, &ops);
    }
    for _ in 0..n_ni_actor {
        let node = 1 + rng.below(2);
        let n = rng.range(1, 7) as usize;
        let ops = gen_ops(&mut rng, node, n);
        emit_ops(&mut out, &mut ctx, true, node, &ops);
    }
    out.finish(
        "record sets per node: honestly signed, signed by another key, addresses changed after signing, timestamp changed after signing, trusted with matching / mismatching / no endpoint ids, exact re-deliveries; timestamps with equal wall clock and different lamport part; random arrival orders and ALL arrival orders for sets up to the permutation bound; mode pure = NodeInfo::update_transports, mode actor = AddressBook::insert_transport_info + node_info (actor + SQLite); modes ni-pure / ni-actor = operation sequences mixing arriving records with complete NodeInfo values (signed authentic / forged, trusted matching / mismatching / without transports) through NodeInfo::verify resp. AddressBook::insert_node_info, mostly after an authentic record was stored. non-trivial = the set contains authentic records and a forged record whose timestamp is strictly the largest",
        false,
    );
}
