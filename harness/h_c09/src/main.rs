//! C09 — Operation, topic and cursor stores behave like their abstract collections.
//!
//! Same machinery as h_c08 (`store_common.rs`): generated command sequences on a fresh
//! `SqliteStore::temporary()`, every answer compared with an in-memory map/set reference (oracle)
//! and, through ./check, with the Lean model. The profile here concentrates on
//! insert/get/has/delete/delete_payload (pool and `_tx` variants), topic associations and cursors,
//! inside committed, rolled-back and dropped transactions and (erroneously) outside of any.
#[path = "../../h_c08/src/store_common.rs"]
mod store_common;
use hc::{Args, Out, Rng, Tier};
use store_common::*;

fn profile(rng: &mut Rng) -> Profile {
    let long = rng.chance(1, 3);
    Profile {
        ins: 22,
        del: 10,
        delp: 10,
        getters: 30,
        prune: 2,
        latest: 3,
        heights: 1,
        size: 1,
        entries: 3,
        topics: 30,
        cursors: 30,
        blocked_per_1000: 3,
        notx_per_1000: 25,
        min_len: if long { 80 } else { 20 },
        max_len: if long { 200 } else { 80 },
    }
}

const KINDS: [&str; 13] = ["ins", "del", "delp", "get", "has", "gettx", "hastx", "assoc", "unassoc", "resolve", "cset", "cget", "cdel"];

fn nontrivial(cmds: &[Cmd]) -> bool {
    KINDS.iter().all(|k| cmds.iter().any(|c| c.kind() == *k))
        && cmds.iter().any(|c| matches!(c, Cmd::Rollback | Cmd::Drop))
        && cmds.iter().any(|c| matches!(c, Cmd::Commit))
}

fn spec(id: u64, a: usize, l: u64, s: u64, p: u64, body: bool) -> InsSpec {
    InsSpec { id, a, l, s, p, body }
}

/// Fixed scripts: the statements of the property one by one, each under commit / rollback / drop.
fn systematic() -> Vec<Vec<Cmd>> {
    let mut v = vec![];
    for end in [Cmd::Commit, Cmd::Rollback, Cmd::Drop] {
        // insert once / twice / read back / payload deletion / delete / re-insert
        v.push(vec![
            Cmd::Begin,
            Cmd::Ins(spec(0, 0, 0, 0, 12, true)),
            Cmd::Ins(spec(0, 0, 0, 0, 12, true)),
            Cmd::Ins(spec(0, 0, 1, 0, 12, true)),
            Cmd::GetTx(0),
            Cmd::HasTx(0),
            Cmd::Ins(spec(1, 1, 0, 3, 0, false)),
            Cmd::Ins(spec(2, 0, 0, 1, 30, false)),
            Cmd::Ins(spec(3, 0, 0, 2, 0, true)),
            end.clone(),
            Cmd::Get(0),
            Cmd::Has(0),
            Cmd::Get(1),
            Cmd::Get(2),
            Cmd::Get(3),
            Cmd::Get(77),
            Cmd::Has(77),
            Cmd::Delp(0),
            Cmd::Delp(0),
            Cmd::Delp(77),
            Cmd::Get(0),
            Cmd::Has(0),
            Cmd::Get(1),
            Cmd::Begin,
            Cmd::Ins(spec(0, 0, 0, 0, 12, true)),
            Cmd::GetTx(0),
            Cmd::Del(0),
            Cmd::Del(0),
            Cmd::Del(77),
            Cmd::GetTx(0),
            Cmd::HasTx(0),
            Cmd::Ins(spec(0, 0, 0, 0, 12, true)),
            Cmd::GetTx(0),
            end.clone(),
            Cmd::Get(0),
            Cmd::Get(1),
            Cmd::Entries(0, 0, None, None),
        ]);
        // topics are a set of triples
        v.push(vec![
            Cmd::Begin,
            Cmd::Assoc(0, 0, 0),
            Cmd::Assoc(0, 0, 0),
            Cmd::Assoc(0, 0, 1),
            Cmd::Assoc(0, 1, 0),
            Cmd::Assoc(1, 0, 0),
            Cmd::Assoc(0, 2, u64::MAX),
            end.clone(),
            Cmd::Resolve(0),
            Cmd::Resolve(1),
            Cmd::Resolve(2),
            Cmd::Begin,
            Cmd::Unassoc(0, 0, 0),
            Cmd::Unassoc(0, 0, 0),
            Cmd::Unassoc(2, 0, 0),
            Cmd::Unassoc(0, 1, 1),
            end.clone(),
            Cmd::Resolve(0),
            Cmd::Resolve(1),
            Cmd::Begin,
            Cmd::Assoc(0, 0, 0),
            Cmd::Commit,
            Cmd::Resolve(0),
        ]);
        // cursors: last write wins, per name
        let mut c = vec![Cmd::Cget(0), Cmd::Begin];
        for n in 0..NAMES.len() {
            c.push(Cmd::Cset(n, n as u64));
        }
        c.push(Cmd::Cset(1, 7));
        c.push(Cmd::Cset(1, 8));
        c.push(Cmd::Cdel(2));
        c.push(Cmd::Cdel(2));
        c.push(end.clone());
        for n in 0..NAMES.len() {
            c.push(Cmd::Cget(n));
        }
        c.push(Cmd::Begin);
        c.push(Cmd::Cdel(1));
        c.push(Cmd::Cset(3, 2));
        c.push(end.clone());
        for n in 0..NAMES.len() {
            c.push(Cmd::Cget(n));
        }
        v.push(c);
    }
    // every tx-method outside of a transaction
    v.push(vec![
        Cmd::Ins(spec(0, 0, 0, 0, 5, true)),
        Cmd::Del(0),
        Cmd::GetTx(0),
        Cmd::HasTx(0),
        Cmd::LatestTx(0, 0),
        Cmd::Assoc(0, 0, 0),
        Cmd::Unassoc(0, 0, 0),
        Cmd::Cset(0, 1),
        Cmd::Cdel(0),
        Cmd::Get(0),
        Cmd::Resolve(0),
        Cmd::Cget(0),
    ]);
    v
}

fn main() {
    let args = Args::parse();
    install_quiet_panic_hook();
    let mut out = Out::new(&args.out);
    let rt = runtime();
    let w = World::new();
    if args.mode == "replay" {
        let text = std::fs::read_to_string(args.replay.as_ref().expect("replay file")).unwrap();
        let v: hc::serde_json::Value = hc::serde_json::from_str(&text).unwrap();
        let req = v["request"].as_str().unwrap_or("").to_string();
        match parse_line(&req) {
            Some(cmds) => {
                emit(&mut out, &rt, &w, &cmds, false, "replay");
            }
            None => {
                out.case(&req, "unparsable-replay", false);
            }
        }
        out.finish("replay", false);
        return;
    }
    if let Ok(rd) = std::fs::read_dir("/verif/corpus/C09") {
        let mut files: Vec<_> = rd.filter_map(|e| e.ok()).map(|e| e.path()).collect();
        files.sort();
        for f in files {
            if let Ok(text) = std::fs::read_to_string(&f) {
                if let Ok(v) = hc::serde_json::from_str::<hc::serde_json::Value>(&text) {
                    if let Some(cmds) = v["request"].as_str().and_then(parse_line) {
                        emit(&mut out, &rt, &w, &cmds, nontrivial(&cmds), "corpus");
                    }
                }
            }
        }
    }
    for cmds in systematic() {
        emit(&mut out, &rt, &w, &cmds, nontrivial(&cmds), "systematic");
    }
    let n = match args.tier {
        Tier::Quick => 300,
        Tier::Thorough => 10000,
        Tier::Search => 4000,
    };
    let mut rng = Rng::new(args.seed ^ 0x0909);
    let mut failures = 0;
    for _ in 0..n {
        let pf = profile(&mut rng);
        let cmds = gen_seq(&mut rng, &pf);
        if emit(&mut out, &rt, &w, &cmds, nontrivial(&cmds), "random") {
            failures += 1;
            if failures >= 5 {
                break;
            }
        }
    }
    out.finish(
        "case = command sequence (20-200 commands) on a fresh SqliteStore::temporary(): insert_operation (new, repeated, same hash under another log id, with/without body), get/has (pool and _tx), delete_operation, delete_operation_payload, topic associate/remove/resolve over 3 topics x 4 authors x 5 logs, cursor set/get/delete over 6 names (incl. empty and non-ASCII), inside transactions ending in commit / rollback / dropped permit and outside of any transaction (TransactionMissing); plus fixed scripts for each clause of the property under each ending. non-trivial = sequence using all 13 command kinds with at least one committed and one aborted transaction",
        false,
    );
}
