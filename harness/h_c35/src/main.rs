//! C35 — Group data encryption: members agree, removed members are cut off.
//! Drives the real `EncryptionGroup` (data scheme) with the crate's own test DGM / orderer / key
//! registry (`data_scheme::test_utils`), real 2SM/HPKE/XChaCha20 — with its own broadcast network so
//! that the delivery order is under the harness' control (every delivery respects causality).
//!
//! Request line = schedule (see lean/Drv/C35.lean):
//!   `c<m>:<m1>,<m2>,..`  create by m          `a<m>:<x>` add   `r<m>:<x>` remove   `u<m>` update
//!   `s<m>` m sends an application message       (secret generating ops carry `/<rank>` = rank of
//!   the generated secret's SHA-256 id among all secrets of the case)
//!   `d<k>:<j>` deliver message number k (in order of creation) to member j
use hc::serde_json::{self, Value};
use hc::{Args, Out, Rng, Tier};
use p2panda_encryption::data_scheme::group::{EncryptionGroup, GroupError, GroupOutput};
use p2panda_encryption::data_scheme::group_secret::GroupSecretId;
use p2panda_encryption::crypto::x25519::SecretKey;
use p2panda_encryption::data_scheme::dcgka::Dcgka;
use p2panda_encryption::data_scheme::group::GroupState;
use p2panda_encryption::data_scheme::group_secret::SecretBundle;
use p2panda_encryption::data_scheme::test_utils::ordering::{MessageOrderer, TestMessage};
use p2panda_encryption::key_bundle::Lifetime;
use p2panda_encryption::key_manager::KeyManager;
use p2panda_encryption::key_registry::KeyRegistry;
use p2panda_encryption::test_utils::{MemberId, MessageId};
use p2panda_encryption::traits::{GroupMembership, PreKeyManager};
use serde::{Deserialize, Serialize};
use std::collections::HashSet;
use std::convert::Infallible;
use std::collections::BTreeSet;
use std::panic::AssertUnwindSafe;
use std::time::{SystemTime, UNIX_EPOCH};

/// The DGM is a trait parameter of `EncryptionGroup`. This is the crate's own naive test DGM (a member
/// set: `data_scheme::test_utils::dgm::TestDgm`) with ONE difference: the state taken from a welcome
/// includes the welcomed member itself (as the DGM used by p2panda-spaces does, whose state already
/// contains the added member when the welcome is built). With `TestDgm::from_welcome` as it is, a member
/// added through `EncryptionGroup::add` never considers itself a member, `is_welcomed` stays false and
/// it never processes anything (observed; test-utility limitation, outside the anchored code).
#[derive(Clone, Debug, PartialEq, Eq, Serialize, Deserialize)]
pub struct Dgm;

#[derive(Clone, Debug, PartialEq, Eq, Serialize, Deserialize)]
pub struct DgmState {
    my_id: MemberId,
    members: HashSet<MemberId>,
}

impl GroupMembership<MemberId, MessageId> for Dgm {
    type State = DgmState;
    type Error = Infallible;

    fn create(my_id: MemberId, initial_members: &[MemberId]) -> Result<Self::State, Self::Error> {
        Ok(DgmState { my_id, members: HashSet::from_iter(initial_members.iter().cloned()) })
    }
    fn from_welcome(my_id: MemberId, y: Self::State) -> Result<Self::State, Self::Error> {
        let mut members = y.members;
        members.insert(my_id);
        Ok(DgmState { my_id, members })
    }
    fn add(mut y: Self::State, _adder: MemberId, added: MemberId, _op: MessageId) -> Result<Self::State, Self::Error> {
        y.members.insert(added);
        Ok(y)
    }
    fn remove(mut y: Self::State, _remover: MemberId, removed: &MemberId, _op: MessageId) -> Result<Self::State, Self::Error> {
        y.members.remove(removed);
        Ok(y)
    }
    fn members(y: &Self::State) -> Result<HashSet<MemberId>, Self::Error> {
        Ok(y.members.clone())
    }
}

type TestGroupState = GroupState<MemberId, MessageId, KeyRegistry<MemberId>, Dgm, KeyManager, MessageOrderer<Dgm>>;

/// Same set-up as `data_scheme::test_utils::{init_dcgka_state, init_group_state}`: every member has a
/// key manager with one long-term pre-key and a registry holding everybody's bundle.
fn init_group_state(n: usize, rng: &p2panda_encryption::Rng) -> Vec<TestGroupState> {
    let mut managers = vec![];
    for _ in 0..n {
        let identity_secret = SecretKey::from_bytes(rng.random_array().unwrap());
        managers.push(KeyManager::init_and_generate_prekey(&identity_secret, Lifetime::default(), rng).unwrap());
    }
    let mut out = vec![];
    for id in 0..n {
        let mut registry = KeyRegistry::init();
        for other in 0..n {
            let bundle = KeyManager::prekey_bundle(&managers[other]).unwrap();
            registry = KeyRegistry::add_longterm_bundle(registry, other, bundle).unwrap();
        }
        let dcgka = Dcgka::init(id, managers[id].clone(), registry, DgmState { my_id: id, members: HashSet::new() });
        out.push(TestGroupState { my_id: id, dcgka, orderer: MessageOrderer::<Dgm>::init(id), secrets: SecretBundle::init(), is_welcomed: false });
    }
    out
}

const NMEM: usize = 6;
const NOW_REL: u64 = 1000;
type Msg = TestMessage<Dgm>;

fn unix_now() -> u64 {
    SystemTime::now().duration_since(UNIX_EPOCH).unwrap().as_secs()
}

#[derive(Clone, Debug, PartialEq)]
enum Step {
    Create(usize, Vec<usize>),
    Add(usize, usize),
    Remove(usize, usize),
    Update(usize),
    Send(usize),
    Deliver(usize, usize),
}

#[derive(Clone, Copy, PartialEq, Debug)]
enum Kind {
    Create,
    Add(usize),
    Remove(usize),
    Update,
    App,
}

struct Sent {
    msg: Msg,
    sender: usize,
    kind: Kind,
    /// messages the issuer knew (had issued or been delivered) when issuing this one
    deps: BTreeSet<usize>,
    /// secret generated by the op (create/remove/update) or used by the app message
    secret: Option<GroupSecretId>,
    plain_no: u64,
    /// issuer's member view (observed on the implementation) when issuing, before the operation
    view: BTreeSet<usize>,
}

struct World {
    members: Vec<Option<TestGroupState>>,
    sent: Vec<Sent>,
    known: Vec<BTreeSet<usize>>,
    delivered_ok: Vec<BTreeSet<usize>>,
    /// deliveries the member rejected: not offered again (their dependants stay undeliverable)
    rejected: BTreeSet<(usize, usize)>,
    erng: p2panda_encryption::Rng,
    plain_no: u64,
}

fn err_word<A, B, C, D, E, F>(e: &GroupError<A, B, C, D, E, F>) -> String
where
    C: p2panda_encryption::traits::IdentityRegistry<A, C::State> + p2panda_encryption::traits::PreKeyRegistry<A, p2panda_encryption::key_bundle::LongTermKeyBundle>,
    D: p2panda_encryption::traits::GroupMembership<A, B>,
    E: p2panda_encryption::traits::PreKeyManager,
    F: p2panda_encryption::traits::Ordering<A, B, D>,
{
    match e {
        GroupError::GroupAlreadyEstablished => "E:established".into(),
        GroupError::GroupNotYetEstablished => "E:notyet".into(),
        GroupError::NotAddOurselves => "E:self".into(),
        GroupError::NoGroupSecretAvailable => "E:nosecret".into(),
        GroupError::UnknownGroupSecret(_) => "E:unknownsecret".into(),
        GroupError::Dcgka(_) => "E:dcgka".into(),
        GroupError::Orderer(_) => "E:orderer".into(),
        _ => "E:other".into(),
    }
}

impl World {
    fn new(seed: u8) -> World {
        let erng = p2panda_encryption::Rng::from_seed([seed; 32]);
        let members = init_group_state(NMEM, &erng).into_iter().map(Some).collect();
        World { members, sent: vec![], known: vec![BTreeSet::new(); NMEM], delivered_ok: vec![BTreeSet::new(); NMEM], rejected: BTreeSet::new(), erng, plain_no: 0 }
    }

    fn welcomed(&self, m: usize) -> bool {
        self.members[m].as_ref().unwrap().is_welcomed
    }
    fn view(&self, m: usize) -> BTreeSet<usize> {
        EncryptionGroup::members(self.members[m].as_ref().unwrap()).map(|v| v.into_iter().collect()).unwrap_or_default()
    }
    fn current(&self, m: usize) -> bool {
        self.welcomed(m) && self.view(m).contains(&m)
    }
    /// may message k be delivered to j now without violating causality?
    fn deliverable(&self, k: usize, j: usize) -> bool {
        self.sent[k].sender != j && !self.known[j].contains(&k) && !self.rejected.contains(&(k, j)) && self.sent[k].deps.iter().all(|d| self.known[j].contains(d) || self.sent[*d].sender == j)
    }
    fn bundle_ids(&self, m: usize) -> BTreeSet<GroupSecretId> {
        self.members[m].as_ref().unwrap().secrets.ids().cloned().collect()
    }

    /// Runs a local operation; returns the answer word.
    fn op(&mut self, step: &Step) -> String {
        let (m, kind) = match step {
            Step::Create(m, _) => (*m, Kind::Create),
            Step::Add(m, x) => (*m, Kind::Add(*x)),
            Step::Remove(m, x) => (*m, Kind::Remove(*x)),
            Step::Update(m) => (*m, Kind::Update),
            Step::Send(m) => (*m, Kind::App),
            Step::Deliver(..) => unreachable!(),
        };
        let y = self.members[m].clone().unwrap();
        let view: BTreeSet<usize> = EncryptionGroup::members(&y).map(|v| v.into_iter().collect()).unwrap_or_default();
        let before = self.bundle_ids(m);
        let mut pt = self.plain_no.to_le_bytes().to_vec();
        pt.extend_from_slice(b"-c35");
        let erng = &self.erng;
        let r = hc::catch(AssertUnwindSafe(|| match step {
            Step::Create(_, ms) => EncryptionGroup::create(y, ms.clone(), erng),
            Step::Add(_, x) => EncryptionGroup::add(y, *x, erng),
            Step::Remove(_, x) => EncryptionGroup::remove(y, *x, erng),
            Step::Update(_) => EncryptionGroup::update(y, erng),
            Step::Send(_) => EncryptionGroup::send(y, &pt, erng),
            Step::Deliver(..) => unreachable!(),
        }));
        match r {
            Err(_) => "PANIC".into(),
            Ok(Err(e)) => err_word(&e),
            Ok(Ok((y2, msg))) => {
                self.members[m] = Some(y2);
                let after = self.bundle_ids(m);
                let mut secret: Option<GroupSecretId> = after.difference(&before).next().cloned();
                if kind == Kind::App {
                    let v = serde_json::to_value(&msg).unwrap();
                    let id: Vec<u8> = v["content"]["Application"]["group_secret_id"].as_array().unwrap().iter().map(|x| x.as_u64().unwrap() as u8).collect();
                    secret = Some(id.try_into().unwrap());
                }
                let k = self.sent.len();
                let deps = self.known[m].clone();
                self.known[m].insert(k);
                self.sent.push(Sent { msg, sender: m, kind, deps, secret, plain_no: self.plain_no, view });
                if kind == Kind::App {
                    self.plain_no += 1;
                }
                format!("m{k}")
            }
        }
    }

    /// Delivers message k to member j; returns the answer word and decrypted plaintext numbers.
    fn deliver(&mut self, k: usize, j: usize) -> (String, Vec<u64>) {
        let Some(s) = self.sent.get(k) else { return ("-".into(), vec![]) };
        if s.sender == j || j >= NMEM {
            return ("-".into(), vec![]);
        }
        let y = self.members[j].clone().unwrap();
        let msg = s.msg.clone();
        let r = hc::catch(AssertUnwindSafe(|| EncryptionGroup::receive(y, &msg)));
        match r {
            Err(_) => ("PANIC".into(), vec![]),
            Ok(Err(e)) => {
                // an undecryptable application message is never a dependency of later messages
                if s.kind == Kind::App {
                    self.known[j].insert(k);
                } else {
                    self.rejected.insert((k, j));
                }
                (err_word(&e), vec![])
            }
            Ok(Ok((y2, outs))) => {
                self.members[j] = Some(y2);
                self.known[j].insert(k);
                self.delivered_ok[j].insert(k);
                let mut w = vec!["ok".to_string()];
                let mut plains = vec![];
                for o in outs {
                    match o {
                        GroupOutput::Application { plaintext } => {
                            let n = if plaintext.len() == 12 && &plaintext[8..] == b"-c35" { u64::from_le_bytes(plaintext[..8].try_into().unwrap()) } else { u64::MAX };
                            plains.push(n);
                            w.push(format!("p{n}"));
                        }
                        GroupOutput::Removed => w.push("rm".into()),
                        GroupOutput::Control(_) => w.push("ctl".into()),
                    }
                }
                (w.join(":"), plains)
            }
        }
    }
}

struct Ran {
    line: String,
    answer: String,
    nontrivial: bool,
    fails: Vec<(String, String)>,
    stats: Vec<String>,
}

fn step_tok(s: &Step, rank: Option<usize>) -> String {
    let r = rank.map(|r| format!("/{r}")).unwrap_or_default();
    match s {
        Step::Create(m, ms) => format!("c{m}:{}{r}", ms.iter().map(|x| x.to_string()).collect::<Vec<_>>().join(",")),
        Step::Add(m, x) => format!("a{m}:{x}"),
        Step::Remove(m, x) => format!("r{m}:{x}{r}"),
        Step::Update(m) => format!("u{m}{r}"),
        Step::Send(m) => format!("s{m}"),
        Step::Deliver(k, j) => format!("d{k}:{j}"),
    }
}

/// Is some `add` concurrent with the operation (message `kg`) that generated a secret?
fn add_concurrent_with(w: &World, kg: usize) -> bool {
    w.sent.iter().enumerate().any(|(ka, a)| matches!(a.kind, Kind::Add(_)) && !a.deps.contains(&kg) && !w.sent[kg].deps.contains(&ka) && ka != kg)
}

/// Why does member `r` not hold the secret generated by message `kg`? Returns the failure tag, or
/// None when the history gives no reason to expect it to (membership views disagree because of
/// concurrent membership operations — the DGM's business, avoided by the generator).
fn attribute(w: &World, kg: usize, r: usize, fallback: &str) -> String {
    let g = &w.sent[kg];
    let designated = match g.kind {
        Kind::Remove(x) => g.view.contains(&r) && r != x,
        _ => g.view.contains(&r),
    };
    if designated || g.sender == r {
        return "recipient-lacks-secret".into();
    }
    // added after the generation by somebody who was a recipient (or the issuer)?
    let welcomed_later = w.sent.iter().any(|a| a.kind == Kind::Add(r) && a.deps.contains(&kg) && (g.view.contains(&a.sender) || a.sender == g.sender));
    if welcomed_later {
        return "welcome-lacks-secret".into();
    }
    if add_concurrent_with(w, kg) {
        return "add-concurrent-with-secret-rotation".into();
    }
    fallback.into()
}

fn run_case(seed: u8, steps: &[Step]) -> Option<Ran> {
    let t0 = unix_now();
    let base = t0 - NOW_REL;
    let mut w = World::new(seed);
    let mut answers: Vec<String> = vec![];
    let mut step_secret: Vec<Option<GroupSecretId>> = vec![];
    let mut stats = vec![];
    let mut fails: Vec<(String, String)> = vec![];
    let gen_of = |w: &World, id: &GroupSecretId| -> Option<usize> {
        w.sent.iter().position(|s| s.kind != Kind::App && !matches!(s.kind, Kind::Add(_)) && s.secret.as_ref() == Some(id))
    };
    for (n, s) in steps.iter().enumerate() {
        match s {
            Step::Deliver(k, j) => {
                let (a, _) = w.deliver(*k, *j);
                stats.push(format!("deliver-{}", a.split(':').next().unwrap()));
                // oracle (agreement, direct form): a member the sender counts as a group member
                // must be able to decrypt what the sender encrypted
                if let Some(snt) = w.sent.get(*k) {
                    if snt.kind == Kind::App && a.starts_with("E:") && snt.view.contains(j) && w.current(*j) {
                        let kg = snt.secret.as_ref().and_then(|id| gen_of(&w, id));
                        let tag = kg.map(|kg| attribute(&w, kg, *j, "member-cannot-decrypt")).unwrap_or("member-cannot-decrypt".into());
                        fails.push((tag, format!("step {n}: member {j} (a member in sender {}'s view) cannot decrypt application message {k}: {a}", snt.sender)));
                    }
                    if a == "PANIC" {
                        fails.push(("panic".into(), format!("step {n}: receive panicked")));
                    }
                    // every delivery of the schedule respects causality: a CONTROL message that is
                    // rejected there is a failure of its own (the member never learns what it carries)
                    if snt.kind != Kind::App && a.starts_with("E:") {
                        fails.push(("legit-message-rejected".into(), format!("step {n}: member {j} rejected control message {k} of member {} delivered in causal order: {a}", snt.sender)));
                    }
                }
                answers.push(a);
                step_secret.push(None);
            }
            _ => {
                let n0 = w.sent.len();
                let a = w.op(s);
                stats.push(format!("op-{}{}", &step_tok(s, None)[..1], if a.starts_with('m') { "" } else { "-err" }));
                if a == "PANIC" {
                    fails.push(("panic".into(), format!("step {n}: operation panicked")));
                }
                let sec = if w.sent.len() > n0 && w.sent[n0].kind != Kind::App && !matches!(w.sent[n0].kind, Kind::Add(_)) { w.sent[n0].secret } else { None };
                step_secret.push(sec);
                answers.push(a);
            }
        }
    }
    if unix_now() != t0 {
        return None;
    }
    // ---- oracle at the end of the schedule --------------------------------------------------
    let quiescent = (0..w.sent.len()).all(|k| (0..NMEM).all(|j| !w.deliverable(k, j) || (w.sent[k].kind == Kind::App && !w.welcomed(j))));
    let current: Vec<usize> = (0..NMEM).filter(|m| w.current(*m)).collect();
    if quiescent {
        // every current member holds every current member's latest secret
        for a in &current {
            let Some(la) = w.members[*a].as_ref().unwrap().secrets.latest().map(|s| s.id()) else { continue };
            for b in &current {
                // only pairs that count each other as members
                if !w.view(*a).contains(b) || !w.view(*b).contains(a) {
                    continue;
                }
                if !w.bundle_ids(*b).contains(&la) {
                    let kg = gen_of(&w, &la);
                    let tag = kg.map(|kg| attribute(&w, kg, *b, "member-lacks-latest-secret")).unwrap_or("member-lacks-latest-secret".into());
                    fails.push((tag, format!("after full delivery member {b} does not hold member {a}'s latest secret")));
                }
            }
        }
    }
    // cut-off: a secret reaches only recipients of its operation or members added causally later
    for (kg, g) in w.sent.iter().enumerate() {
        if g.kind == Kind::App || matches!(g.kind, Kind::Add(_)) {
            continue;
        }
        let Some(sid) = g.secret else { continue };
        let recipients: BTreeSet<usize> = match g.kind {
            Kind::Create => serde_json::to_value(&g.msg).ok().and_then(|v| v["content"]["System"]["control_message"]["Create"]["initial_members"].as_array().map(|a| a.iter().map(|x| x.as_u64().unwrap() as usize).collect())).unwrap_or_default(),
            Kind::Remove(x) => g.view.iter().cloned().filter(|m| *m != x).collect(),
            _ => g.view.clone(),
        };
        for x in 0..NMEM {
            if x == g.sender || recipients.contains(&x) || !w.bundle_ids(x).contains(&sid) {
                continue;
            }
            let readded = w.sent.iter().any(|a| a.kind == Kind::Add(x) && a.deps.contains(&kg));
            if !readded {
                let removed_before = w.sent.iter().enumerate().any(|(kr, r)| r.kind == Kind::Remove(x) && g.deps.contains(&kr));
                let tag = if removed_before { "removed-member-holds-later-secret" } else { "non-recipient-holds-secret" };
                fails.push((tag.into(), format!("member {x} holds the secret generated by message {kg} although it was not a recipient and was not added afterwards")));
            }
        }
    }
    // non-trivial: a removal, causally later an update, causally later an application message
    let nontrivial = w.sent.iter().enumerate().any(|(kr, r)| {
        matches!(r.kind, Kind::Remove(_))
            && w.sent.iter().enumerate().any(|(ku, u)| u.kind == Kind::Update && u.deps.contains(&kr) && w.sent.iter().any(|a| a.kind == Kind::App && a.deps.contains(&ku)))
    });
    if w.sent.iter().enumerate().any(|(kg, g)| g.kind != Kind::App && !matches!(g.kind, Kind::Add(_)) && add_concurrent_with(&w, kg)) {
        stats.push("history-with-add-concurrent-with-rotation".into());
    }
    if quiescent {
        stats.push("quiescent".into());
    }
    // ranks of all secret ids of the case
    let mut all: BTreeSet<GroupSecretId> = BTreeSet::new();
    for m in 0..NMEM {
        all.extend(w.bundle_ids(m));
    }
    for s in &w.sent {
        if let Some(id) = s.secret {
            all.insert(id);
        }
    }
    let all: Vec<GroupSecretId> = all.into_iter().collect();
    let rank = |id: &GroupSecretId| all.binary_search(id).unwrap() + 1;
    let line = steps.iter().zip(&step_secret).map(|(s, sec)| step_tok(s, sec.as_ref().map(rank))).collect::<Vec<_>>().join(" ");
    let mut fin = vec![];
    for m in 0..NMEM {
        let y = w.members[m].as_ref().unwrap();
        let mut view: Vec<usize> = EncryptionGroup::members(y).unwrap().into_iter().collect();
        view.sort();
        let mut b: Vec<(usize, u64)> = y.secrets.iter().map(|(id, s)| (rank(id), s.timestamp() - base)).collect();
        b.sort();
        fin.push(format!(
            "{m}:w{}:v{}:b{}:l{}",
            y.is_welcomed as u8,
            view.iter().map(|x| x.to_string()).collect::<Vec<_>>().join(","),
            b.iter().map(|(r, t)| format!("{r}@{t}")).collect::<Vec<_>>().join(","),
            y.secrets.latest().map(|s| rank(&s.id()).to_string()).unwrap_or("-".into())
        ));
    }
    let answer = format!("{} | {}", answers.join(" "), fin.join(" "));
    let _ = w.sent.iter().map(|s| s.plain_no).count();
    Some(Ran { line, answer, nontrivial, fails, stats })
}

fn parse_line(line: &str) -> Option<Vec<Step>> {
    let mut v = vec![];
    for t in line.split_whitespace() {
        let t0 = t.split('/').next().unwrap();
        if t0.is_empty() {
            return None;
        }
        let (c, rest) = t0.split_at(1);
        let two = |r: &str| -> Option<(usize, usize)> {
            let (a, b) = r.split_once(':')?;
            Some((a.parse().ok()?, b.parse().ok()?))
        };
        v.push(match c {
            "c" => {
                let (a, b) = rest.split_once(':')?;
                Step::Create(a.parse().ok()?, b.split(',').filter(|x| !x.is_empty()).map(|x| x.parse().ok()).collect::<Option<Vec<_>>>()?)
            }
            "a" => { let (a, b) = two(rest)?; Step::Add(a, b) }
            "r" => { let (a, b) = two(rest)?; Step::Remove(a, b) }
            "u" => Step::Update(rest.parse().ok()?),
            "s" => Step::Send(rest.parse().ok()?),
            "d" => { let (a, b) = two(rest)?; Step::Deliver(a, b) }
            _ => return None,
        });
    }
    if v.iter().any(|s| match s {
        Step::Create(m, ms) => *m >= NMEM || ms.iter().any(|x| *x >= NMEM),
        Step::Add(m, x) | Step::Remove(m, x) => *m >= NMEM || *x >= NMEM,
        Step::Update(m) | Step::Send(m) => *m >= NMEM,
        Step::Deliver(_, j) => *j >= NMEM,
    }) {
        return None;
    }
    Some(v)
}

fn emit(out: &mut Out, seed: u8, steps: &[Step], kind: &str) {
    let mut r = None;
    for _ in 0..5 {
        r = run_case(seed, steps);
        if r.is_some() {
            break;
        }
        out.count("clock-tick-retry");
    }
    let r = r.expect("clock kept ticking");
    let n = out.case(&r.line, &r.answer, r.nontrivial);
    out.count(&format!("kind={kind}"));
    for s in &r.stats {
        out.count(s);
    }
    out.count_n("steps", steps.len() as u64);
    for (tag, what) in r.fails {
        out.oracle_fail(n, &tag, &what, &r.line, &r.answer);
    }
}

/// Adaptive schedule generation on a scratch world: membership operations by current members,
/// deliveries that respect causality in random order, a final flush and a final round in which
/// every current member sends an application message to everybody.
fn gen_schedule(seed: u8, rng: &mut Rng, nops: u64, concurrency: u64, allow_concurrent_add: bool) -> Vec<Step> {
    let mut w = World::new(seed);
    let mut steps: Vec<Step> = vec![];
    let do_step = |w: &mut World, steps: &mut Vec<Step>, s: Step| {
        match &s {
            Step::Deliver(k, j) => {
                w.deliver(*k, *j);
            }
            _ => {
                w.op(&s);
            }
        }
        steps.push(s);
    };
    // pending deliveries; application messages are not handed to members that are not welcomed yet
    // (an undecryptable buffered message would make their later welcome fail as a whole)
    let deliver_some = |w: &mut World, steps: &mut Vec<Step>, rng: &mut Rng, max: usize| {
        for _ in 0..max {
            let mut cand: Vec<(usize, usize)> = vec![];
            for k in 0..w.sent.len() {
                for j in 0..NMEM {
                    if w.deliverable(k, j) && !(w.sent[k].kind == Kind::App && !w.welcomed(j)) {
                        cand.push((k, j));
                    }
                }
            }
            if cand.is_empty() {
                return;
            }
            // prefer older messages a little, so that queues do not grow without bound
            let (k, j) = if rng.chance(1, 2) { cand[0] } else { *rng.pick(&cand) };
            do_step(w, steps, Step::Deliver(k, j));
        }
    };
    let creator = rng.below(3) as usize;
    let mut initial: Vec<usize> = (0..rng.range(2, 4) as usize).collect();
    if !initial.contains(&creator) {
        initial.push(creator);
    }
    do_step(&mut w, &mut steps, Step::Create(creator, initial));
    deliver_some(&mut w, &mut steps, rng, 100);
    for _ in 0..nops {
        let current: Vec<usize> = (0..NMEM).filter(|m| w.current(*m)).collect();
        if current.is_empty() {
            break;
        }
        let m = *rng.pick(&current);
        let view = w.view(m);
        let outsiders: Vec<usize> = (0..NMEM).filter(|x| !view.contains(x)).collect();
        let others: Vec<usize> = view.iter().cloned().filter(|x| *x != m).collect();
        // "pending" = not yet known to every identity. The member-set DGM of the harness diverges when an
        // `add` races another membership change (the welcome replaces the new member's view), which is the
        // DGM's business and not this property's: an `add` is never concurrent with another add / remove.
        let pending = |w: &World, k: usize| (0..NMEM).any(|j| j != w.sent[k].sender && !w.known[j].contains(&k));
        let pending_gen = w.sent.iter().enumerate().any(|(k, s)| s.kind != Kind::App && !matches!(s.kind, Kind::Add(_)) && pending(&w, k));
        let pending_add = w.sent.iter().enumerate().any(|(k, s)| matches!(s.kind, Kind::Add(_)) && pending(&w, k));
        let pending_membership = w.sent.iter().enumerate().any(|(k, s)| matches!(s.kind, Kind::Add(_) | Kind::Remove(_)) && pending(&w, k));
        let choice = rng.below(10);
        let step = match choice {
            0 | 1 if !outsiders.is_empty() && !pending_membership && (allow_concurrent_add || !pending_gen) => Some(Step::Add(m, *rng.pick(&outsiders))),
            2 if !others.is_empty() && view.len() > 2 && !pending_add => Some(Step::Remove(m, *rng.pick(&others))),
            3 | 4 if allow_concurrent_add || !pending_add => Some(Step::Update(m)),
            5 | 6 | 7 => Some(Step::Send(m)),
            _ => None,
        };
        if let Some(s) = step {
            do_step(&mut w, &mut steps, s);
        }
        // how much is delivered before the next operation decides how concurrent the history is
        let burst = if rng.below(10) < concurrency { rng.below(4) as usize } else { 200 };
        deliver_some(&mut w, &mut steps, rng, burst);
    }
    deliver_some(&mut w, &mut steps, rng, 10_000);
    // final round
    let current: Vec<usize> = (0..NMEM).filter(|m| w.current(*m)).collect();
    for m in current {
        do_step(&mut w, &mut steps, Step::Send(m));
    }
    deliver_some(&mut w, &mut steps, rng, 10_000);
    steps
}

fn main() {
    let args = Args::parse();
    let mut out = Out::new(&args.out);
    let seed = (args.seed % 251) as u8;
    if args.mode == "replay" {
        let text = std::fs::read_to_string(args.replay.as_ref().expect("replay file")).unwrap();
        let v: Value = serde_json::from_str(&text).unwrap();
        let req = v["request"].as_str().unwrap().to_string();
        match parse_line(&req) {
            Some(steps) => emit(&mut out, seed, &steps, "replay"),
            None => {
                out.case(&req, "bad-op", false);
            }
        }
        out.finish("replay", false);
        return;
    }
    let mut rng = Rng::new(args.seed);
    // fixed cases: sequential add/update, the known finding's witness (create{0,1}; 0 adds 2 || 1 updates),
    // removal + update + application message, re-add after removal
    for l in [
        // first-contact rotations that cross: two members that never exchanged a direct (2SM) message —
        // the non-creators right after create, or members added by somebody else — rotate concurrently;
        // both delivery orders; then everybody sends
        "c0:0,1,2 d0:1 d0:2 u1 u2 d1:2 d2:1 d1:0 d2:0 s0 s1 s2 d3:1 d3:2 d4:0 d4:2 d5:0 d5:1",
        "c0:0,1,2 d0:1 d0:2 u1 u2 d2:1 d1:2 d2:0 d1:0 s0 s1 s2 d3:1 d3:2 d4:0 d4:2 d5:0 d5:1",
        "c0:0,1,2 d0:1 d0:2 u1 r2:0 d1:2 d2:1 d1:0 d2:0 s1 s2 d3:2 d4:1",
        "c0:0,1,2 d0:1 d0:2 r1:0 u2 d2:1 d1:2 d1:0 d2:0 s1 s2 d3:2 d4:1",
        "c0:0,1 d0:1 d0:2 d0:3 a0:2 d1:1 d1:2 d1:3 a0:3 d2:1 d2:2 d2:3 u2 u3 d3:3 d4:2 d3:0 d3:1 d4:0 d4:1 s0 s2 s3 d5:1 d5:2 d5:3 d6:0 d6:1 d6:3 d7:0 d7:1 d7:2",
        "c0:0,1 d0:1 d0:2 d0:3 a0:2 d1:1 d1:2 d1:3 a0:3 d2:1 d2:2 d2:3 u3 u2 d3:2 d4:3 d3:0 d3:1 d4:0 d4:1 s1 s2 s3 d5:0 d5:2 d5:3 d6:0 d6:1 d6:3 d7:0 d7:1 d7:2",
        "c0:0,1 d0:1 d0:2 a0:2 d1:1 d1:2 u1 d2:0 d2:2 s1 d3:0 d3:2 s2 d4:0 d4:1",
        "c0:0,1 d0:1 d0:2 a0:2 u1 d1:1 d1:2 d2:0 d2:2 s1 d3:0 d3:2 s2 d4:0 d4:1",
        "c0:0,1,2 d0:1 d0:2 r0:2 d1:1 d1:2 u1 d2:0 d2:2 s1 d3:0 d3:2 s0 d4:1 d4:2",
        "c1:0,1,2 d0:0 d0:2 r1:2 d1:0 d1:2 u0 d2:1 d2:2 a0:2 d3:1 d3:2 s2 d4:0 d4:1 u2 d5:0 d5:1 s0 d6:1 d6:2",
    ] {
        emit(&mut out, seed, &parse_line(l).unwrap(), "fixed");
    }
    let (nseq, nconc, nfree) = match args.tier {
        Tier::Quick => (50, 50, 50),
        Tier::Thorough => (1000, 1000, 1000),
        Tier::Search => (400, 400, 400),
    };
    for _ in 0..nseq {
        let n = rng.range(3, 14);
        let steps = gen_schedule(seed, &mut rng, n, 0, false);
        emit(&mut out, seed, &steps, "random-sequential");
    }
    for _ in 0..nconc {
        let n = rng.range(3, 14);
        let c = rng.range(3, 9);
        let steps = gen_schedule(seed, &mut rng, n, c, false);
        emit(&mut out, seed, &steps, "random-concurrent-no-add-vs-rotation");
    }
    for _ in 0..nfree {
        let n = rng.range(3, 14);
        let c = rng.range(3, 9);
        let steps = gen_schedule(seed, &mut rng, n, c, true);
        emit(&mut out, seed, &steps, "random-concurrent");
    }
    for bad in ["x", "c0", "a1", "u1/x", "d1", "s9", "c0:0,1"] {
        out.case(bad, "bad-op", false);
        out.count("kind=malformed-line");
    }
    out.finish(
        "random membership histories over 6 identities (groups of 2-6 members): create, add, remove, update, application messages issued by current members; every delivery respects causality, order otherwise random; three families: sequential (everything delivered before the next operation), concurrent without an add racing a secret rotation, unrestricted concurrency; each history ends with a full flush and one application message from every current member to everybody. non-trivial = a removal, causally later an update, causally later an application message",
        false,
    );
}
