//! C25 — Topic handshake transfers the initiator's topic or fails cleanly.
//! Runs the real `TopicHandshakeInitiator` / `TopicHandshakeAcceptor` (`Protocol::run`) against
//! scripted incoming streams (messages, item errors, then end of stream), a sink that can fail
//! at a chosen operation, an event channel that may be closed; and the honest pair over FIFO
//! channels, polled by hand in a chosen schedule.
//!
//! Request lines: see lean/Drv/C25.lean. Topics are 32 random bytes each, written as small ids.
use std::cell::RefCell;
use std::collections::BTreeMap;
use std::future::Future;
use std::panic::AssertUnwindSafe;
use std::pin::Pin;
use std::rc::Rc;
use std::task::{Context, Poll};

use futures::channel::mpsc;
use futures::task::noop_waker;
use futures::{Sink, StreamExt};
use hc::{Args, Out, Rng, Tier};
use p2panda_sync::protocols::{
    TopicHandshakeAcceptor, TopicHandshakeError, TopicHandshakeEvent, TopicHandshakeInitiator, TopicHandshakeMessage,
};
use p2panda_sync::traits::Protocol;

type T = [u8; 32];
type Msg = TopicHandshakeMessage<T>;
type Ev = TopicHandshakeEvent<T>;

#[derive(Clone, Copy, PartialEq, Debug)]
enum Item {
    Topic(usize),
    Done,
    Err,
}

/// id <-> 32-byte topic table of one case
struct Topics {
    by_id: BTreeMap<usize, T>,
}
impl Topics {
    fn new(rng: &mut Rng, ids: impl Iterator<Item = usize>) -> Topics {
        let mut by_id = BTreeMap::new();
        for i in ids {
            by_id.entry(i).or_insert_with(|| {
                let mut b: T = rng.bytes(32).try_into().unwrap();
                b[0] = i as u8; // distinct ids -> distinct topics for certain
                b[1] = (i >> 8) as u8;
                b
            });
        }
        Topics { by_id }
    }
    fn get(&self, id: usize) -> T {
        self.by_id[&id]
    }
    fn id(&self, t: &T) -> String {
        match self.by_id.iter().find(|(_, v)| *v == t) {
            Some((i, _)) => format!("{i}"),
            None => "?".into(),
        }
    }
}

/// Sink recording what it accepted, failing at sink operation `fault.0` (operations = sends and
/// explicit flushes, counted from 0): before taking the message (`false`) or in the flush half
/// of `SinkExt::send`, after taking it (`true`). An explicit flush fails either way.
struct FaultSink {
    accepted: Rc<RefCell<Vec<Msg>>>,
    op: usize,
    since_flush: bool,
    fault: Option<(usize, bool)>,
}

impl Sink<Msg> for FaultSink {
    type Error = String;
    fn poll_ready(self: Pin<&mut Self>, _: &mut Context<'_>) -> Poll<Result<(), String>> {
        Poll::Ready(Ok(()))
    }
    fn start_send(self: Pin<&mut Self>, item: Msg) -> Result<(), String> {
        let me = self.get_mut();
        if me.fault == Some((me.op, false)) {
            return Err("sink fault (start_send)".into());
        }
        me.accepted.borrow_mut().push(item);
        me.since_flush = true;
        Ok(())
    }
    fn poll_flush(self: Pin<&mut Self>, _: &mut Context<'_>) -> Poll<Result<(), String>> {
        let me = self.get_mut();
        if let Some((k, leak)) = me.fault {
            if k == me.op && (leak || !me.since_flush) {
                return Poll::Ready(Err("sink fault (flush)".into()));
            }
        }
        me.op += 1;
        me.since_flush = false;
        Poll::Ready(Ok(()))
    }
    fn poll_close(self: Pin<&mut Self>, _: &mut Context<'_>) -> Poll<Result<(), String>> {
        Poll::Ready(Ok(()))
    }
}

fn msg_str(tp: &Topics, m: &Msg) -> String {
    match m {
        TopicHandshakeMessage::Topic(t) => format!("T{}", tp.id(t)),
        TopicHandshakeMessage::Done => "D".into(),
    }
}
fn ev_str(tp: &Topics, e: &Ev) -> String {
    match e {
        TopicHandshakeEvent::Initiate(t) => format!("I{}", tp.id(t)),
        TopicHandshakeEvent::Accept => "A".into(),
        TopicHandshakeEvent::TopicReceived(t) => format!("R{}", tp.id(t)),
        TopicHandshakeEvent::Done(t) => format!("F{}", tp.id(t)),
    }
}
fn err_str(tp: &Topics, e: &TopicHandshakeError<T>) -> String {
    match e {
        TopicHandshakeError::UnexpectedMessage(m) => format!("E:unexpected:{}", msg_str(tp, m)),
        TopicHandshakeError::UnexpectedStreamClosure => "E:closed".into(),
        TopicHandshakeError::MessageSink(_) => "E:sink".into(),
        TopicHandshakeError::MessageStream(_) => "E:stream".into(),
        TopicHandshakeError::MpscSend(_) => "E:mpsc".into(),
    }
}
fn list_str<A>(f: impl Fn(&A) -> String, l: &[A]) -> String {
    if l.is_empty() { "-".into() } else { l.iter().map(f).collect::<Vec<_>>().join(" ") }
}
fn item_str(i: &Item) -> String {
    match i {
        Item::Topic(n) => format!("T{n}"),
        Item::Done => "D".into(),
        Item::Err => "X".into(),
    }
}
fn fault_str(f: Option<(usize, bool)>) -> String {
    match f {
        None => "-".into(),
        Some((k, false)) => format!("{k}"),
        Some((k, true)) => format!("{k}L"),
    }
}

fn poll_once<F: Future + ?Sized>(f: Pin<&mut F>) -> Poll<F::Output> {
    let w = noop_waker();
    let mut cx = Context::from_waker(&w);
    f.poll(&mut cx)
}

struct SideOut {
    res: String, // ok / ok:T<n> / E:.. / HANG / PANIC
    ok_topic: Option<T>,
    sent: Vec<Msg>,
    events: Vec<Ev>,
}

/// One side against a scripted transcript. `own` = Some(topic id) for the initiator.
fn run_side(tp: &Topics, own: Option<usize>, fault: Option<(usize, bool)>, ev_closed: bool, inc: &[Item]) -> SideOut {
    let accepted = Rc::new(RefCell::new(vec![]));
    let mut sink = FaultSink { accepted: accepted.clone(), op: 0, since_flush: false, fault };
    let items: Vec<Result<Msg, String>> = inc
        .iter()
        .map(|i| match i {
            Item::Topic(n) => Ok(TopicHandshakeMessage::Topic(tp.get(*n))),
            Item::Done => Ok(TopicHandshakeMessage::Done),
            Item::Err => Err("decode error".to_string()),
        })
        .collect();
    let mut stream = futures::stream::iter(items);
    let (ev_tx, mut ev_rx) = mpsc::channel::<Ev>(32);
    if ev_closed {
        ev_rx.close();
    }
    let mut ok_topic = None;
    let r = hc::catch(AssertUnwindSafe(|| match own {
        Some(t) => {
            let p = TopicHandshakeInitiator::<T, Ev>::new(tp.get(t), ev_tx);
            let mut fut = Box::pin(p.run(&mut sink, &mut stream));
            match poll_once(fut.as_mut()) {
                Poll::Pending => ("HANG".to_string(), None),
                Poll::Ready(Ok(())) => ("ok".to_string(), None),
                Poll::Ready(Err(e)) => (err_str(tp, &e), None),
            }
        }
        None => {
            let p = TopicHandshakeAcceptor::<T, Ev>::new(ev_tx);
            let mut fut = Box::pin(p.run(&mut sink, &mut stream));
            match poll_once(fut.as_mut()) {
                Poll::Pending => ("HANG".to_string(), None),
                Poll::Ready(Ok(t)) => (format!("ok:T{}", tp.id(&t)), Some(t)),
                Poll::Ready(Err(e)) => (err_str(tp, &e), None),
            }
        }
    }));
    let res = match r {
        Ok((s, t)) => {
            ok_topic = t;
            s
        }
        Err(_) => "PANIC".into(),
    };
    let mut events = vec![];
    while let Ok(Some(e)) = ev_rx.try_next() {
        events.push(e);
    }
    let sent = accepted.borrow().clone();
    SideOut { res, ok_topic, sent, events }
}

/// Number of sink operations the side reaches with this transcript in a healthy environment
/// (used by the oracle to decide whether a fault index is reached at all).
fn honest_prefix(own: Option<usize>, inc: &[Item]) -> bool {
    match own {
        Some(_) => inc.first() == Some(&Item::Done),
        None => matches!(inc.first(), Some(Item::Topic(_))) && inc.get(1) == Some(&Item::Done),
    }
}

fn side_case(out: &mut Out, tp: &Topics, own: Option<usize>, fault: Option<(usize, bool)>, ev_closed: bool, inc: &[Item]) {
    let o = run_side(tp, own, fault, ev_closed, inc);
    let items = inc.iter().map(item_str).collect::<Vec<_>>().join(" ");
    let req = match own {
        Some(t) => format!("ini {} {} {} {}", t, fault_str(fault), ev_closed as u8, items),
        None => format!("acc {} {} {}", fault_str(fault), ev_closed as u8, items),
    };
    let req = req.trim().to_string();
    let ans = format!("{} | {} | {}", o.res, list_str(|m| msg_str(tp, m), &o.sent), list_str(|e| ev_str(tp, e), &o.events));
    // nt: transcript differs from the honest one in exactly one position
    let honest: Vec<Item> = match own {
        Some(_) => vec![Item::Done],
        None => vec![Item::Topic(1), Item::Done],
    };
    let nt = fault.is_none()
        && !ev_closed
        && ((inc.len() == honest.len() && inc.iter().zip(&honest).filter(|(a, b)| a != b).count() == 1)
            || (inc.len() + 1 == honest.len() && honest.starts_with(inc)));
    let n = out.case(&req, &ans, nt);
    out.count(if own.is_some() { "role=initiator" } else { "role=acceptor" });
    out.count(&format!("result={}", o.res.split(':').take(2).collect::<Vec<_>>().join(":")));
    out.count(&format!("transcript len={}", inc.len()));
    out.count(&format!("fault={}", fault_str(fault)));
    if ev_closed {
        out.count("event channel closed");
    }
    // ---- oracle: the property's own predicate on the implementation's output ----
    let n_ops = if own.is_some() { 3 } else { 2 };
    let healthy = !ev_closed && fault.map(|(k, _)| k >= n_ops).unwrap_or(true);
    let should_succeed = honest_prefix(own, inc) && healthy;
    let is_ok = o.res.starts_with("ok");
    let is_err = o.res.starts_with("E:");
    if !is_ok && !is_err {
        out.oracle_fail(n, if o.res == "HANG" { "hang" } else { "panic" }, &format!("side neither returned Ok nor Err: {}", o.res), &req, &ans);
    } else if is_ok && !should_succeed {
        out.oracle_fail(n, "no-clean-fail", "side returned Ok although the transcript / environment is not the honest one", &req, &ans);
    } else if !is_ok && should_succeed {
        out.oracle_fail(n, "honest-rejected", "side failed on the honest transcript in a healthy environment", &req, &ans);
    }
    if is_ok {
        match own {
            None => {
                let want = match inc.first() {
                    Some(Item::Topic(k)) => Some(tp.get(*k)),
                    _ => None,
                };
                if o.ok_topic != want {
                    out.oracle_fail(n, "wrong-topic", "acceptor output is not the topic it was sent", &req, &ans);
                }
                let t = o.ok_topic.unwrap();
                if o.events != vec![Ev::Accept, Ev::TopicReceived(t), Ev::Done(t)] || o.sent != vec![Msg::Done] {
                    out.oracle_fail(n, "events", "successful acceptor: events/sent are not Accept·TopicReceived·Done / [Done]", &req, &ans);
                }
            }
            Some(k) => {
                let t = tp.get(k);
                if o.events != vec![Ev::Initiate(t), Ev::Done(t)] || o.sent != vec![Msg::Topic(t), Msg::Done] {
                    out.oracle_fail(n, "events", "successful initiator: events/sent are not Initiate·Done / [Topic t, Done]", &req, &ans);
                }
            }
        }
    }
}

/// The honest pair over two FIFO channels, polled by hand: `sched` = word over i/a.
fn pair_case(out: &mut Out, rng: &mut Rng, t_id: usize, sched: &str) {
    let tp = Topics::new(rng, [t_id].into_iter());
    let (a_tx, a_rx) = mpsc::channel::<Msg>(8); // initiator -> acceptor
    let (i_tx, i_rx) = mpsc::channel::<Msg>(8); // acceptor -> initiator
    let (iev_tx, mut iev_rx) = mpsc::channel::<Ev>(32);
    let (aev_tx, mut aev_rx) = mpsc::channel::<Ev>(32);
    let i_sent = Rc::new(RefCell::new(vec![]));
    let a_sent = Rc::new(RefCell::new(vec![]));
    let (is, as_) = (i_sent.clone(), a_sent.clone());
    let topic = tp.get(t_id);
    // each side owns its channel ends: when it returns they are dropped and the peer's stream closes
    let mut ini: Pin<Box<dyn Future<Output = Result<(), TopicHandshakeError<T>>>>> = Box::pin(async move {
        let mut sink = Box::pin(futures::sink::unfold(a_tx, move |mut tx: mpsc::Sender<Msg>, m: Msg| {
            let is = is.clone();
            async move {
                is.borrow_mut().push(m.clone());
                futures::SinkExt::send(&mut tx, m).await.map(|_| tx)
            }
        }));
        let mut stream = i_rx.map(Ok::<Msg, String>);
        TopicHandshakeInitiator::<T, Ev>::new(topic, iev_tx).run(&mut sink, &mut stream).await
    });
    let mut acc: Pin<Box<dyn Future<Output = Result<T, TopicHandshakeError<T>>>>> = Box::pin(async move {
        let mut sink = Box::pin(futures::sink::unfold(i_tx, move |mut tx: mpsc::Sender<Msg>, m: Msg| {
            let as_ = as_.clone();
            async move {
                as_.borrow_mut().push(m.clone());
                futures::SinkExt::send(&mut tx, m).await.map(|_| tx)
            }
        }));
        let mut stream = a_rx.map(Ok::<Msg, String>);
        TopicHandshakeAcceptor::<T, Ev>::new(aev_tx).run(&mut sink, &mut stream).await
    });
    let mut ires: Option<String> = None;
    let mut ares: Option<String> = None;
    let mut atopic = None;
    let r = hc::catch(AssertUnwindSafe(|| {
        for c in sched.chars() {
            match c {
                'i' if ires.is_none() => {
                    if let Poll::Ready(r) = poll_once(ini.as_mut()) {
                        ires = Some(match r {
                            Ok(()) => "ok".into(),
                            Err(e) => err_str(&tp, &e),
                        });
                        // drop the finished side's channel ends
                        ini = Box::pin(futures::future::pending());
                    }
                }
                'a' if ares.is_none() => {
                    if let Poll::Ready(r) = poll_once(acc.as_mut()) {
                        ares = Some(match r {
                            Ok(t) => {
                                atopic = Some(t);
                                format!("ok:T{}", tp.id(&t))
                            }
                            Err(e) => err_str(&tp, &e),
                        });
                        acc = Box::pin(futures::future::pending());
                    }
                }
                _ => {}
            }
        }
    }));
    let mut iev = vec![];
    while let Ok(Some(e)) = iev_rx.try_next() {
        iev.push(e);
    }
    let mut aev = vec![];
    while let Ok(Some(e)) = aev_rx.try_next() {
        aev.push(e);
    }
    let req = format!("pair {} {}", t_id, if sched.is_empty() { "-" } else { sched });
    let ans = if r.is_err() {
        "PANIC".to_string()
    } else {
        format!(
            "{} {} | {} | {} | {} | {}",
            ires.clone().unwrap_or("pending".into()),
            ares.clone().unwrap_or("pending".into()),
            list_str(|m| msg_str(&tp, m), &i_sent.borrow()),
            list_str(|m| msg_str(&tp, m), &a_sent.borrow()),
            list_str(|e| ev_str(&tp, e), &iev),
            list_str(|e| ev_str(&tp, e), &aev)
        )
    };
    let n = out.case(&req, &ans, false);
    out.count("pair");
    out.count(&format!("pair outcome={} {}", ires.clone().unwrap_or("pending".into()), if ares.is_some() { "acc-finished" } else { "acc-pending" }));
    // oracle: nobody ever fails; a schedule containing i..a..a..i..a as a subsequence completes with agreement
    let failed = ires.as_deref().map(|s| s != "ok").unwrap_or(false) || ares.as_deref().map(|s| !s.starts_with("ok")).unwrap_or(false) || r.is_err();
    if failed {
        out.oracle_fail(n, "agree", "a side of the honest pair failed", &req, &ans);
    }
    if let Some(t) = atopic {
        if t != topic {
            out.oracle_fail(n, "wrong-topic", "acceptor of the honest pair output another topic", &req, &ans);
        }
    }
    let complete = {
        // needs: ini started, acc received topic (after ini start), ini received done, acc received done
        let mut need = ["i", "a", "i", "a"].iter().peekable();
        // acceptor start may come at any time before its receive: the poll that receives also starts it
        for c in sched.chars() {
            if let Some(n) = need.peek() {
                if n.chars().next() == Some(c) {
                    need.next();
                }
            }
        }
        need.peek().is_none()
    };
    if complete && !(ires.as_deref() == Some("ok") && atopic == Some(topic)) {
        out.oracle_fail(n, "agree", "schedule gives both sides enough turns but the handshake did not complete with the initiator's topic", &req, &ans);
    }
}

fn parse_item(s: &str) -> Item {
    match s {
        "D" => Item::Done,
        "X" => Item::Err,
        _ => Item::Topic(s[1..].parse().unwrap()),
    }
}
fn parse_fault(s: &str) -> Option<(usize, bool)> {
    if s == "-" {
        None
    } else if let Some(k) = s.strip_suffix('L') {
        Some((k.parse().unwrap(), true))
    } else {
        Some((s.parse().unwrap(), false))
    }
}

fn replay(out: &mut Out, req: &str) {
    let t: Vec<&str> = req.split_whitespace().collect();
    let mut rng = Rng::new(7);
    match t[0] {
        "ini" => {
            let own: usize = t[1].parse().unwrap();
            let inc: Vec<Item> = t[4..].iter().map(|s| parse_item(s)).collect();
            let tp = Topics::new(&mut rng, std::iter::once(own).chain(inc.iter().filter_map(|i| if let Item::Topic(n) = i { Some(*n) } else { None })));
            side_case(out, &tp, Some(own), parse_fault(t[2]), t[3] == "1", &inc);
        }
        "acc" => {
            let inc: Vec<Item> = t[3..].iter().map(|s| parse_item(s)).collect();
            let tp = Topics::new(&mut rng, std::iter::once(1).chain(inc.iter().filter_map(|i| if let Item::Topic(n) = i { Some(*n) } else { None })));
            side_case(out, &tp, None, parse_fault(t[1]), t[2] == "1", &inc);
        }
        "pair" => pair_case(out, &mut rng, t[1].parse().unwrap(), if t[2] == "-" { "" } else { t[2] }),
        _ => panic!("unknown request"),
    }
}

fn main() {
    let args = Args::parse();
    let mut out = Out::new(&args.out);
    if args.mode == "replay" {
        let text = std::fs::read_to_string(args.replay.as_ref().expect("replay file")).unwrap();
        let v: hc::serde_json::Value = hc::serde_json::from_str(&text).unwrap();
        replay(&mut out, v["request"].as_str().unwrap());
        out.finish("replay", false);
        return;
    }
    let mut rng = Rng::new(args.seed);
    // ---- exhaustive: all transcripts of length <= 4 over {Topic t1, Topic t2, Done, DecodeErr},
    //      both roles, every sink fault position (both kinds) and one beyond, event channel open/closed
    let alphabet = [Item::Topic(1), Item::Topic(2), Item::Done, Item::Err];
    let faults: Vec<Option<(usize, bool)>> = vec![None, Some((0, false)), Some((1, false)), Some((2, false)), Some((3, false)), Some((0, true)), Some((1, true)), Some((2, true))];
    let maxlen = if args.tier == Tier::Quick { 4 } else { 5 };
    for len in 0..=maxlen {
        for code in 0..4usize.pow(len as u32) {
            let mut c = code;
            let inc: Vec<Item> = (0..len)
                .map(|_| {
                    let i = alphabet[c % 4];
                    c /= 4;
                    i
                })
                .collect();
            let tp = Topics::new(&mut rng, [1usize, 2].into_iter());
            for own in [Some(1usize), None] {
                for f in &faults {
                    for ev in [false, true] {
                        side_case(&mut out, &tp, own, *f, ev, &inc);
                    }
                }
            }
        }
    }
    // ---- every schedule of the honest pair up to length 8 (quick) / 10
    let slen = if args.tier == Tier::Quick { 8 } else { 10 };
    for len in 0..=slen {
        for code in 0..(1u32 << len) {
            let s: String = (0..len).map(|k| if code >> k & 1 == 1 { 'a' } else { 'i' }).collect();
            pair_case(&mut out, &mut rng, 1 + (code as usize % 3), &s);
        }
    }
    // ---- random: more topics, longer transcripts, random faults
    let nrand = match args.tier {
        Tier::Quick => 4000,
        Tier::Thorough => 50000,
        Tier::Search => 20000,
    };
    for _ in 0..nrand {
        let ntop = rng.range(1, 5) as usize;
        let len = rng.below(9) as usize;
        let mostly_honest = rng.chance(1, 2);
        let own = if rng.chance(1, 2) { Some(rng.range(1, ntop as u64) as usize) } else { None };
        let mut inc: Vec<Item> = (0..len)
            .map(|_| match rng.below(4) {
                0 => Item::Done,
                1 => Item::Err,
                _ => Item::Topic(rng.range(1, ntop as u64) as usize),
            })
            .collect();
        if mostly_honest {
            // honest transcript with at most one mutation, then a random tail
            let mut h = match own {
                Some(_) => vec![Item::Done],
                None => vec![Item::Topic(rng.range(1, ntop as u64) as usize), Item::Done],
            };
            match rng.below(4) {
                0 => {
                    let k = rng.below(h.len() as u64) as usize;
                    h[k] = *rng.pick(&[Item::Done, Item::Err, Item::Topic(1), Item::Topic(ntop)]);
                }
                1 => {
                    let k = rng.below(h.len() as u64 + 1) as usize;
                    h.truncate(k);
                    inc.clear();
                }
                _ => {}
            }
            h.extend(inc);
            inc = h;
        }
        let fault = if rng.chance(1, 2) { None } else { Some((rng.below(4) as usize, rng.chance(1, 2))) };
        let tp = Topics::new(&mut rng, 1..=ntop);
        side_case(&mut out, &tp, own, fault, rng.chance(1, 8), &inc);
    }
    out.finish(
        "exhaustive: every incoming transcript of length <= 4 (thorough: 5) over {Topic t1, Topic t2, Done, item error} followed by end of stream, for both roles x sink fault at every operation (before/after the message is taken) and one beyond x event channel open/closed; every schedule (word over poll-initiator/poll-acceptor, length <= 8, thorough 10) of the honest pair over FIFO channels; random transcripts with up to 5 random 32-byte topics. non-trivial = healthy environment and transcript differing from the honest one in exactly one position (one substitution or the last item missing)",
        true,
    );
}
