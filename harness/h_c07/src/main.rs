//! C07 — Stream cursors only move forward and only for their own topic.
//! Drives the real `p2panda_core::Cursor::advance` and the real `p2panda::streams::Acked`
//! (verif re-export) over an in-memory `SqliteStore` cursor table.
//!
//! Requests / answers: see lean/Drv/C07.lean.
use std::collections::BTreeMap;

use hc::{Args, Out, Rng, Tier};
use p2panda::operation::{Extensions, Header, LogId};
use p2panda::streams::AckedError;
use p2panda::streams::verif::Acked;
use p2panda_core::logs::LogHeights;
use p2panda_core::{Cursor, SigningKey, Topic, VerifyingKey};
use p2panda_store::SqliteStore;
use serde::{Deserialize, Serialize};

#[derive(Clone, Copy, Debug, PartialEq, Eq, PartialOrd, Ord, Hash, Serialize, Deserialize)]
struct Au(u32);
impl p2panda_core::identity::Author for Au {}

type Flat = BTreeMap<(u32, u32), u32>;

fn flat_toks(m: &Flat) -> Vec<String> {
    m.iter().map(|((a, l), h)| format!("{a}.{l}={h}")).collect()
}
fn show_flat(m: &Flat) -> String {
    if m.is_empty() { "{}".into() } else { flat_toks(m).join(" ") }
}
fn show_br(m: &Flat) -> String {
    format!("[{}]", flat_toks(m).join(","))
}

// ---------------------------------------------------------------------------------------------
// (a) Cursor::advance
// ---------------------------------------------------------------------------------------------

fn flatten(h: &LogHeights<Au, u32>) -> Flat {
    let mut m = Flat::new();
    for (a, logs) in h {
        for (l, s) in logs {
            m.insert((a.0, *l), *s);
        }
    }
    m
}

/// Runs the advances on the real cursor. Returns the final flat state and an oracle verdict.
fn run_adv(init: &Flat, adv: &[((u32, u32), u32)]) -> Result<(Flat, Option<(String, String)>), String> {
    let init2 = init.clone();
    let adv2 = adv.to_vec();
    hc::catch(move || {
        let mut st: LogHeights<Au, u32> = BTreeMap::new();
        for ((a, l), h) in &init2 {
            st.entry(Au(*a)).or_default().insert(*l, *h);
        }
        let mut c = Cursor::<Au, u32>::new("adv", st);
        let mut fail = None;
        let mut prev = flatten(c.state());
        let mut expect = init2.clone();
        for (i, ((a, l), h)) in adv2.iter().enumerate() {
            c.advance(Au(*a), *l, *h);
            let e = expect.entry((*a, *l)).or_insert(*h);
            if *h > *e {
                *e = *h;
            }
            let now = flatten(c.state());
            if fail.is_none() {
                for (k, v) in &prev {
                    match now.get(k) {
                        None => fail = Some(("advance-dropped-log".to_string(), format!("advance #{i} ({a},{l})->{h}: log {k:?} disappeared"))),
                        Some(n) if n < v => {
                            fail = Some(("advance-backwards".to_string(), format!("advance #{i} ({a},{l})->{h}: log {k:?} went {v} -> {n}")))
                        }
                        _ => {}
                    }
                }
                if fail.is_none() && now != expect {
                    fail = Some(("advance-not-max".to_string(), format!("after advance #{i} ({a},{l})->{h}: state {now:?}, pointwise maximum is {expect:?}")));
                }
            }
            prev = now;
        }
        (flatten(c.state()), fail)
    })
}

fn adv_req(init: &Flat, adv: &[((u32, u32), u32)]) -> String {
    let i = flat_toks(init).join(" ");
    let a: Vec<String> = adv.iter().map(|((a, l), h)| format!("{a}.{l}={h}")).collect();
    format!("adv I {} A {}", i, a.join(" ")).replace("  ", " ")
}

fn emit_adv(out: &mut Out, init: &Flat, adv: &[((u32, u32), u32)], reference: Option<&Flat>) -> Flat {
    let req = adv_req(init, adv);
    let mut seen: BTreeMap<(u32, u32), u32> = init.clone();
    let mut decreasing = false;
    for (k, h) in adv {
        if let Some(c) = seen.get(k) {
            if h < c {
                decreasing = true;
            }
        }
        let e = seen.entry(*k).or_insert(*h);
        if *h > *e {
            *e = *h;
        }
    }
    let nt = decreasing && seen.len() >= 2;
    out.count("op=Cursor::advance sequence");
    out.count_n("advance calls", adv.len() as u64);
    match run_adv(init, adv) {
        Ok((fin, fail)) => {
            let ans = show_flat(&fin);
            let n = out.case(&req, &ans, nt);
            if let Some((tag, what)) = fail {
                out.oracle_fail(n, &tag, &what, &req, &ans);
            } else if let Some(r) = reference {
                if r != &fin {
                    out.oracle_fail(n, "advance-order-dependent", &format!("permutation ends in {fin:?}, original order in {r:?}"), &req, &ans);
                }
            }
            fin
        }
        Err(p) => {
            let n = out.case(&req, "PANIC", nt);
            out.oracle_fail(n, "panic", &p, &req, "PANIC");
            Flat::new()
        }
    }
}

fn rand_h(rng: &mut Rng) -> u32 {
    match rng.below(12) {
        0 => u32::MAX,
        1 => u32::MAX - 1,
        2 => 0,
        3..=9 => rng.below(6) as u32,
        _ => rng.next_u64() as u32,
    }
}

fn gen_adv(rng: &mut Rng, maxlen: u64) -> (Flat, Vec<((u32, u32), u32)>) {
    let na = rng.range(1, 3) as u32;
    let nl = rng.range(1, 3) as u32;
    let mut init = Flat::new();
    for _ in 0..rng.below(4) {
        init.insert((rng.below(na as u64) as u32, rng.below(nl as u64) as u32), rand_h(rng));
    }
    let n = rng.range(0, maxlen);
    let adv = (0..n).map(|_| ((rng.below(na as u64) as u32, rng.below(nl as u64) as u32), rand_h(rng))).collect();
    (init, adv)
}

fn permutations<T: Clone>(xs: &[T]) -> Vec<Vec<T>> {
    if xs.len() <= 1 {
        return vec![xs.to_vec()];
    }
    let mut out = vec![];
    for i in 0..xs.len() {
        let mut rest = xs.to_vec();
        let x = rest.remove(i);
        for mut p in permutations(&rest) {
            p.insert(0, x.clone());
            out.push(p);
        }
    }
    out
}

// ---------------------------------------------------------------------------------------------
// (b) Acked over the SQLite cursor table
// ---------------------------------------------------------------------------------------------

fn topic(i: u32) -> Topic {
    let mut b = [0u8; 32];
    b[0] = 0xC7;
    b[1..5].copy_from_slice(&i.to_be_bytes());
    Topic::from(b)
}

fn author(i: u32) -> VerifyingKey {
    let mut b = [7u8; 32];
    b[..4].copy_from_slice(&i.to_be_bytes());
    SigningKey::from_bytes(&b).verifying_key()
}

/// Handle spec: (name id, topic idx). Name ids >= 1000 mean `Acked::new(store, topic)` whose name
/// is the topic's string form (id = 1000 + topic idx); others are `from_name(.., "n<id>")`.
#[derive(Clone, Debug)]
struct Case {
    handles: Vec<(u32, u32)>,
    ops: Vec<(usize, u32, u32, u32)>, // handle idx, author idx, topic idx of the header's log id, seq
    concurrent: bool,
    race: bool,
}

fn case_req(c: &Case) -> String {
    let hs: Vec<String> = c.handles.iter().map(|(n, t)| format!("{n}:{t}")).collect();
    let ops: Vec<String> = c.ops.iter().map(|(i, a, l, s)| format!("{i},{a},{l},{s}")).collect();
    format!("{} N {} X {}", if c.race { "race" } else if c.concurrent { "ackc" } else { "ack" }, hs.join(" "), ops.join(" "))
}

fn header(w: &World, a: u32, t: u32, seq: u32) -> Header {
    Header {
        version: 1,
        verifying_key: author(a),
        signature: None,
        payload_size: 0,
        payload_hash: None,
        seq_num: seq,
        backlink: None,
        extensions: Extensions::from_topic(wtopic(w, t)),
    }
}

/// `base` namespaces the topics and custom cursor names of one case, so that all the in-memory
/// cases of a run can share one `SqliteStore` (creating a store runs every migration).
struct World {
    ntopics: u32,
    nauthors: u32,
    base: u32,
}

fn wtopic(w: &World, i: u32) -> Topic {
    topic(w.base * 64 + i)
}

fn canon(w: &World, c: &Cursor<VerifyingKey, LogId>) -> Flat {
    let mut m = Flat::new();
    for (vk, logs) in c.state() {
        let a = (0..w.nauthors).find(|i| &author(*i) == vk).unwrap_or(9999);
        for (l, s) in logs {
            let t = (0..w.ntopics).find(|i| &LogId::from_topic(wtopic(w, *i)) == l).unwrap_or(9999);
            m.insert((a, t), *s);
        }
    }
    m
}

fn err_word(e: &AckedError) -> &'static str {
    match e {
        AckedError::InvalidTopic(_) => "E:topic",
        AckedError::InvalidName(..) => "E:name",
        AckedError::Store(_) => "E:store",
    }
}

fn make_handle(w: &World, store: &SqliteStore, n: u32, t: u32) -> Acked {
    if n >= 1000 {
        Acked::new(store.clone(), wtopic(w, t))
    } else {
        Acked::from_name(store.clone(), wtopic(w, t), format!("n{}-{n}", w.base))
    }
}

/// Sequential cases construct every handle separately. In concurrent batches handles with an
/// identical (name, topic) spec are *clones* of one instance (they share its semaphore, as the
/// clones inside one stream do); the generator never puts two different specs with the same
/// name into a concurrent batch (that is the `race` op / the recorded finding).
async fn build_handles(w: &World, store: &SqliteStore, c: &Case) -> Vec<Acked> {
    let mut out: Vec<Acked> = vec![];
    for (k, (n, t)) in c.handles.iter().enumerate() {
        let earlier = if c.concurrent { c.handles[..k].iter().position(|x| x == &(*n, *t)) } else { None };
        match earlier {
            Some(j) => {
                let h = out[j].clone();
                out.push(h)
            }
            None => out.push(make_handle(w, store, *n, *t)),
        }
    }
    out
}

static DBN: std::sync::atomic::AtomicU64 = std::sync::atomic::AtomicU64::new(0);

/// `race`: two separately constructed handles, op0 through handle 0 and op1 through handle 1,
/// realised in the interleaving read0 read1 write0 write1: the harness holds the store's
/// transaction permit (file-backed store, so reads go through other pool connections), starts
/// both acks — each does its topic check and its cursor read and then parks in `store.begin()`
/// — and releases the permit; tokio's semaphore is FIFO, so the writes happen in start order.
async fn run_race(w: &World, c: &Case) -> (String, Option<(String, String)>) {
    use p2panda_store::{SqliteStoreBuilder, Transaction};
    let dir = "/verif/harness/target/tmp";
    let _ = std::fs::create_dir_all(dir);
    let path = format!("{dir}/c07-{}-{}.db", std::process::id(), DBN.fetch_add(1, std::sync::atomic::Ordering::SeqCst));
    let cleanup = |path: &str| {
        for suf in ["", "-wal", "-shm", "-journal"] {
            let _ = std::fs::remove_file(format!("{path}{suf}"));
        }
    };
    cleanup(&path);
    let store = SqliteStoreBuilder::new().database_url(&format!("sqlite://{path}")).build().await.expect("file store");
    let h0 = make_handle(w, &store, c.handles[0].0, c.handles[0].1);
    let h1 = make_handle(w, &store, c.handles[1].0, c.handles[1].1);
    let (_, a0, t0, s0) = c.ops[0];
    let (_, a1, t1, s1) = c.ops[1];
    let mut fail: Option<(String, String)> = None;
    let permit = store.begin().await.expect("begin");
    let (x0, x1) = (h0.clone(), h1.clone());
    let (hd0, hd1) = (header(w, a0, t0, s0), header(w, a1, t1, s1));
    let j0 = tokio::spawn(async move { x0.ack(hd0).await.map_err(|e| err_word(&e)) });
    tokio::time::sleep(std::time::Duration::from_millis(120)).await;
    let j1 = tokio::spawn(async move { x1.ack(hd1).await.map_err(|e| err_word(&e)) });
    tokio::time::sleep(std::time::Duration::from_millis(120)).await;
    store.commit(permit).await.expect("commit");
    let r0 = j0.await;
    let r1 = j1.await;
    let word = |r: &Result<Result<(), &'static str>, tokio::task::JoinError>| match r {
        Ok(Ok(())) => "ok".to_string(),
        Ok(Err(w)) => w.to_string(),
        Err(_) => "PANIC".to_string(),
    };
    // expectation: per name, maximum over the accepted acks
    let mut ex: BTreeMap<u32, Flat> = BTreeMap::new();
    for (k, (a, t, s)) in [(0usize, (a0, t0, s0)), (1, (a1, t1, s1))] {
        let (name, ht) = c.handles[k];
        if ht == t {
            let e = ex.entry(name).or_default().entry((a, t)).or_insert(s);
            if s > *e {
                *e = s;
            }
        }
    }
    for (k, (r, (t, _))) in [(&r0, (t0, 0)), (&r1, (t1, 0))].iter().enumerate() {
        let own = c.handles[k].1 == *t;
        let ok = matches!(r, Ok(Ok(())));
        if own != ok && fail.is_none() {
            fail = Some((if own { "own-ack-rejected" } else { "foreign-ack-accepted" }.to_string(), format!("race op {k}: {}", word(r))));
        }
    }
    let mut fin = vec![];
    for (k, h) in [&h0, &h1].iter().enumerate() {
        let cur = match h.cursor().await {
            Ok(c) => canon(w, &c),
            Err(_) => Flat::new(),
        };
        let want = ex.get(&c.handles[k].0).cloned().unwrap_or_default();
        if cur != want && fail.is_none() {
            let same_name = c.handles[0].0 == c.handles[1].0;
            let tag = if same_name { "lost-update-two-handles-same-name" } else { "race-not-max" };
            fail = Some((tag.to_string(), format!("both acks returned, persisted cursor of handle {k} is {cur:?} but seqs {want:?} were acknowledged: the cursor is behind an acknowledged operation")));
        }
        fin.push(show_br(&cur));
    }
    drop(h0);
    drop(h1);
    drop(store);
    cleanup(&path);
    (format!("{} {} | {}", word(&r0), word(&r1), fin.join(" ")), fail)
}


/// Independent expectation: per cursor *name*, the maximum acknowledged seq per (author, log),
/// counting only acks whose header belongs to the handle's topic.
struct Expect {
    by_name: BTreeMap<u32, Flat>,
}

async fn run_case(w: &World, store: &SqliteStore, c: &Case) -> (String, Option<(String, String)>) {
    let hs = build_handles(w, store, c).await;
    let mut ex = Expect { by_name: BTreeMap::new() };
    let mut fail: Option<(String, String)> = None;
    let mut outs: Vec<String> = vec![];
    let setf = |fail: &mut Option<(String, String)>, tag: &str, what: String| {
        if fail.is_none() {
            *fail = Some((tag.to_string(), what));
        }
    };
    if !c.concurrent {
        for (k, (i, a, t, s)) in c.ops.iter().enumerate() {
            let (name, htopic) = c.handles[*i];
            let before = ex.by_name.get(&name).cloned().unwrap_or_default();
            let r = hs[*i].ack(header(w, *a, *t, *s)).await;
            let own = htopic == *t;
            let word = match &r {
                Ok(()) => "ok",
                Err(e) => err_word(e),
            };
            if own {
                let m = ex.by_name.entry(name).or_default();
                let e = m.entry((*a, *t)).or_insert(*s);
                if *s > *e {
                    *e = *s;
                }
            }
            let cur = match hs[*i].cursor().await {
                Ok(c) => canon(w, &c),
                Err(e) => {
                    setf(&mut fail, "cursor-read-failed", format!("op {k}: {e}"));
                    Flat::new()
                }
            };
            match (&r, own) {
                (Ok(()), false) => setf(&mut fail, "foreign-ack-accepted", format!("op {k}: ack of topic {t} through a handle of topic {htopic} returned Ok")),
                (Err(e), true) => setf(&mut fail, "own-ack-rejected", format!("op {k}: ack of own topic {t} failed: {e}")),
                (Err(AckedError::InvalidTopic(_)), false) | (Ok(()), true) => {}
                (Err(e), false) => setf(&mut fail, "foreign-ack-wrong-error", format!("op {k}: {e}")),
            }
            for (key, v) in &before {
                match cur.get(key) {
                    Some(n) if n >= v => {}
                    other => setf(&mut fail, "cursor-moved-backwards", format!("op {k} (handle {i}, author {a}, topic {t}, seq {s}): log {key:?} went {v} -> {other:?}")),
                }
            }
            if !own && cur != before {
                setf(&mut fail, "foreign-ack-changed-cursor", format!("op {k}: cursor {before:?} -> {cur:?}"));
            }
            let want = ex.by_name.get(&name).cloned().unwrap_or_default();
            if cur != want {
                setf(&mut fail, "cursor-not-max", format!("op {k}: cursor {cur:?}, maximum of acknowledged seqs is {want:?}"));
            }
            outs.push(format!("{word}{}", show_br(&cur)));
        }
    } else {
        let mut js = vec![];
        for (i, a, t, s) in c.ops.iter() {
            let h = hs[*i].clone();
            let hd = header(w, *a, *t, *s);
            js.push(tokio::spawn(async move { h.ack(hd).await.map_err(|e| err_word(&e)) }));
        }
        let (mut nok, mut nbad) = (0, 0);
        for (k, j) in js.into_iter().enumerate() {
            let (i, a, t, s) = c.ops[k];
            let (name, htopic) = c.handles[i];
            let own = htopic == t;
            if own {
                let m = ex.by_name.entry(name).or_default();
                let e = m.entry((a, t)).or_insert(s);
                if s > *e {
                    *e = s;
                }
            }
            match j.await {
                Ok(Ok(())) => {
                    nok += 1;
                    if !own {
                        setf(&mut fail, "foreign-ack-accepted", format!("op {k}: ack of topic {t} through a handle of topic {htopic} returned Ok"));
                    }
                }
                Ok(Err("E:topic")) => {
                    nbad += 1;
                    if own {
                        setf(&mut fail, "own-ack-rejected", format!("op {k}: rejected"));
                    }
                }
                Ok(Err(w)) => setf(&mut fail, "concurrent-ack-error", format!("op {k}: {w}")),
                Err(e) => setf(&mut fail, "panic", format!("op {k}: task failed: {e}")),
            }
        }
        outs.push(format!("{nok} {nbad}"));
    }
    // final cursors of every handle
    let mut fin = vec![];
    for (i, h) in hs.iter().enumerate() {
        let cur = match h.cursor().await {
            Ok(c) => canon(w, &c),
            Err(e) => {
                setf(&mut fail, "cursor-read-failed", format!("final read: {e}"));
                Flat::new()
            }
        };
        let want = ex.by_name.get(&c.handles[i].0).cloned().unwrap_or_default();
        if cur != want {
            let tag = if c.concurrent { "concurrent-acks-not-max" } else { "other-cursor-changed" };
            setf(&mut fail, tag, format!("final cursor of handle {i}: {cur:?}, expected {want:?}"));
        }
        fin.push(show_br(&cur));
    }
    (format!("{} | {}", outs.join(" "), fin.join(" ")), fail)
}

fn case_nontrivial(c: &Case) -> bool {
    let mut foreign = false;
    let mut decreasing = false;
    let mut logs: BTreeMap<(u32, u32, u32), u32> = BTreeMap::new();
    for (i, a, t, s) in &c.ops {
        let (name, ht) = c.handles[*i];
        if ht != *t {
            foreign = true;
            continue;
        }
        if let Some(m) = logs.get(&(name, *a, *t)) {
            if s < m {
                decreasing = true;
            }
        }
        let e = logs.entry((name, *a, *t)).or_insert(*s);
        if *s > *e {
            *e = *s;
        }
    }
    foreign && decreasing && logs.len() >= 2
}

static CASE_NO: std::sync::atomic::AtomicU64 = std::sync::atomic::AtomicU64::new(1);

fn emit_case(out: &mut Out, rt: &tokio::runtime::Runtime, store: &SqliteStore, c: &Case) {
    let w = World {
        base: CASE_NO.fetch_add(1, std::sync::atomic::Ordering::SeqCst) as u32,
        ntopics: c.handles.iter().map(|h| h.1).chain(c.ops.iter().map(|o| o.2)).max().unwrap_or(0) + 1,
        nauthors: c.ops.iter().map(|o| o.1).max().unwrap_or(0) + 1,
    };
    let req = case_req(c);
    let nt = !c.race && case_nontrivial(c);
    out.count(if c.race { "op=two-handle race (read0 read1 write0 write1)" } else if c.concurrent { "op=concurrent Acked::ack batch" } else { "op=Acked::ack sequence" });
    out.count_n("ack calls", c.ops.len() as u64);
    out.count_n("ack calls foreign topic", c.ops.iter().filter(|o| c.handles[o.0].1 != o.2).count() as u64);
    let names: std::collections::BTreeSet<u32> = c.handles.iter().map(|h| h.0).collect();
    if names.len() < c.handles.len() {
        out.count("case with handles sharing a cursor name");
    }
    let (ans, fail) = if c.race { rt.block_on(run_race(&w, c)) } else { rt.block_on(run_case(&w, store, c)) };
    let n = out.case(&req, &ans, nt);
    if let Some((tag, what)) = fail {
        out.oracle_fail(n, &tag, &what, &req, &ans);
    }
}

fn gen_case(rng: &mut Rng, concurrent: bool) -> Case {
    let nt = rng.range(2, 3) as u32;
    let nh = rng.range(2, 4) as usize;
    let mut handles = vec![];
    for _ in 0..nh {
        let t = rng.below(nt as u64) as u32;
        let name = match rng.below(10) {
            0..=5 => 1000 + t,                 // Acked::new: name = topic
            6..=8 => rng.below(3) as u32,      // custom name (may be shared between handles)
            _ => 1000 + rng.below(nt as u64) as u32, // custom handle... using another topic's default name is not expressible; same as new
        };
        // a name id >= 1000 must denote Acked::new of *that* topic
        let mut name = if name >= 1000 { 1000 + t } else { name };
        if concurrent {
            // same name => same spec (a clone); otherwise pick a fresh custom name
            while handles.iter().any(|(n, t2): &(u32, u32)| *n == name && *t2 != t) {
                name += 3;
            }
        }
        handles.push((name, t));
    }
    let na = rng.range(1, 3) as u32;
    let n = if concurrent { rng.range(2, 12) } else { rng.range(1, 40) };
    let ops = (0..n)
        .map(|_| {
            let i = rng.below(nh as u64) as usize;
            let t = if rng.chance(7, 10) { handles[i].1 } else { rng.below(nt as u64) as u32 };
            let s = match rng.below(12) {
                0 => u32::MAX,
                1 => 0,
                _ => rng.below(8) as u32,
            };
            (i, rng.below(na as u64) as u32, t, s)
        })
        .collect();
    Case { handles, ops, concurrent, race: false }
}

fn parse_case(req: &str) -> Option<Case> {
    let ts: Vec<&str> = req.split_whitespace().collect();
    let (concurrent, race) = match *ts.first()? {
        "ack" => (false, false),
        "ackc" => (true, false),
        "race" => (true, true),
        _ => return None,
    };
    if ts.get(1) != Some(&"N") {
        return None;
    }
    let x = ts.iter().position(|t| *t == "X")?;
    let mut handles = vec![];
    for t in &ts[2..x] {
        let (n, tp) = t.split_once(':')?;
        handles.push((n.parse().ok()?, tp.parse().ok()?));
    }
    let mut ops = vec![];
    for t in &ts[x + 1..] {
        let v: Vec<&str> = t.split(',').collect();
        if v.len() != 4 {
            return None;
        }
        let i: usize = v[0].parse().ok()?;
        if i >= handles.len() {
            return None;
        }
        ops.push((i, v[1].parse().ok()?, v[2].parse().ok()?, v[3].parse().ok()?));
    }
    if race && !(handles.len() == 2 && ops.len() == 2 && ops[0].0 == 0 && ops[1].0 == 1) {
        return None;
    }
    Some(Case { handles, ops, concurrent, race })
}

fn parse_adv(req: &str) -> Option<(Flat, Vec<((u32, u32), u32)>)> {
    let ts: Vec<&str> = req.split_whitespace().collect();
    if ts.first() != Some(&"adv") || ts.get(1) != Some(&"I") {
        return None;
    }
    let p = ts.iter().position(|t| *t == "A")?;
    let one = |t: &str| -> Option<((u32, u32), u32)> {
        let (k, h) = t.split_once('=')?;
        let (a, l) = k.split_once('.')?;
        Some(((a.parse().ok()?, l.parse().ok()?), h.parse().ok()?))
    };
    let mut init = Flat::new();
    for t in &ts[2..p] {
        let (k, h) = one(t)?;
        if init.insert(k, h).is_some() {
            return None;
        }
    }
    let adv = ts[p + 1..].iter().map(|t| one(t)).collect::<Option<Vec<_>>>()?;
    Some((init, adv))
}

fn replay_line(out: &mut Out, rt: &tokio::runtime::Runtime, store: &SqliteStore, req: &str) {
    if let Some((i, a)) = parse_adv(req) {
        emit_adv(out, &i, &a, None);
    } else if let Some(c) = parse_case(req) {
        emit_case(out, rt, store, &c);
    } else {
        out.case(req, "bad-op", false);
    }
}

fn malformed(out: &mut Out) {
    for l in [
        "adv I 0.0=1 0.0=2 A",        // duplicate key in the initial map
        "adv I 0.0=1",                // no advance part
        "adv I 0=1 A",                // key without log
        "adv I A 0.0=x",              // not a number
        "adv 0.0=1 A",                // missing I
        "ack N 1:0 X 1,0,0,1",        // handle index out of range
        "ack N 1:0 X 0,0,0",          // short op
        "ack N 1 X 0,0,0,1",          // handle without topic
        "ack N 1:0 0,0,0,1",          // missing X
        "ackc N 1:0 X 0,0,0,-1",      // negative seq
        "nack N 1:0 X",
        "",
    ] {
        out.case(l, "bad-op", false);
        out.count("malformed line");
    }
}

fn main() {
    let args = Args::parse();
    let mut out = Out::new(&args.out);
    let rt = tokio::runtime::Builder::new_multi_thread().worker_threads(3).enable_all().build().unwrap();
    let store = rt.block_on(SqliteStore::temporary());
    if args.mode == "replay" {
        let text = std::fs::read_to_string(args.replay.as_ref().expect("replay file")).unwrap();
        let v: hc::serde_json::Value = hc::serde_json::from_str(&text).unwrap();
        let req = v["request"].as_str().unwrap().to_string();
        replay_line(&mut out, &rt, &store, &req);
        out.finish("replay", false);
        return;
    }
    let mut rng = Rng::new(args.seed);
    if let Ok(rd) = std::fs::read_dir("/verif/corpus/C07") {
        let mut files: Vec<_> = rd.filter_map(|e| e.ok()).map(|e| e.path()).collect();
        files.sort();
        for f in files {
            if let Ok(text) = std::fs::read_to_string(&f) {
                if let Ok(v) = hc::serde_json::from_str::<hc::serde_json::Value>(&text) {
                    if let Some(req) = v["request"].as_str() {
                        replay_line(&mut out, &rt, &store, req);
                        out.count("corpus case");
                    }
                }
            }
        }
    }
    malformed(&mut out);
    let (n_adv, n_perm_all, n_seq, n_conc, n_race) = match args.tier {
        Tier::Quick => (1500, 20, 500, 150, 5),
        Tier::Thorough => (20_000, 300, 20_000, 3_000, 60),
        Tier::Search => (10_000, 100, 6_000, 1_500, 20),
    };
    // (a) random advance lists, each followed by three shuffles of itself
    for _ in 0..n_adv {
        let (init, adv) = gen_adv(&mut rng, 40);
        let fin = emit_adv(&mut out, &init, &adv, None);
        for _ in 0..3 {
            let mut p = adv.clone();
            rng.shuffle(&mut p);
            emit_adv(&mut out, &init, &p, Some(&fin));
            out.count("permuted replay of an advance list");
        }
    }
    // all permutations of short advance lists
    for _ in 0..n_perm_all {
        let (init, adv) = gen_adv(&mut rng, 6);
        let fin = emit_adv(&mut out, &init, &adv, None);
        for p in permutations(&adv) {
            emit_adv(&mut out, &init, &p, Some(&fin));
        }
        out.count("advance list with all permutations");
    }
    // (b) Acked over SQLite
    for _ in 0..n_seq {
        let c = gen_case(&mut rng, false);
        emit_case(&mut out, &rt, &store, &c);
    }
    for _ in 0..n_conc {
        let c = gen_case(&mut rng, true);
        emit_case(&mut out, &rt, &store, &c);
    }
    // (c) two separately constructed handles, acks parked between read and write.
    // The first case is the witness of the recorded finding (same cursor name: lost update).
    let mut races = vec![
        Case { handles: vec![(1000, 0), (1000, 0)], ops: vec![(0, 0, 0, 9), (1, 0, 0, 5)], concurrent: true, race: true },
        Case { handles: vec![(1000, 0), (1001, 1)], ops: vec![(0, 0, 0, 9), (1, 0, 1, 5)], concurrent: true, race: true },
        Case { handles: vec![(1000, 0), (1, 0)], ops: vec![(0, 0, 0, 3), (1, 0, 0, 5)], concurrent: true, race: true },
    ];
    for _ in 0..n_race {
        let t0 = rng.below(2) as u32;
        let t1 = rng.below(2) as u32;
        let n0 = if rng.chance(1, 2) { 1000 + t0 } else { rng.below(2) as u32 };
        let n1 = if rng.chance(1, 2) { 1000 + t1 } else { rng.below(2) as u32 };
        let op = |rng: &mut Rng, i: usize, own: u32| (i, rng.below(2) as u32, if rng.chance(4, 5) { own } else { 1 - own }, rng.below(6) as u32);
        let o0 = op(&mut rng, 0, t0);
        let o1 = op(&mut rng, 1, t1);
        races.push(Case { handles: vec![(n0, t0), (n1, t1)], ops: vec![o0, o1], concurrent: true, race: true });
    }
    for c in &races {
        emit_case(&mut out, &rt, &store, c);
    }
    out.finish(
        "Cursor: random initial state + up to 40 advances over <=3 authors x <=3 logs (heights small, 0, 2^32-1, random), each list also replayed in 3 shuffled orders, and every permutation of lists of <=6 advances; Acked: 2-3 topics, 2-4 handles (Acked::new and from_name, sometimes sharing a cursor name) over one in-memory SqliteStore, up to 40 acks of headers from own and foreign topics in any order with Acked::cursor() read after every call, plus batches of 2-12 acks spawned concurrently on a 3-thread runtime (handles of one name are clones of one instance there), plus two-handle races in which both acks are parked between their cursor read and their write (file-backed store, harness holds the transaction permit). non-trivial = a sequence with a decreasing advance/ack and >= 2 logs (Acked: additionally a foreign-topic ack)",
        false,
    );
}
