//! C18 — Hybrid timestamps strictly increase on every increment.
//!
//! Drives the real `p2panda_core::timestamp::HybridTimestamp::{now, increment}` with arbitrary
//! (also decreasing) wall-clock readings fed through `mock_instant`'s thread-local `MockClock`
//! (`p2panda-core/test_utils`), the derived `Ord`, and — for the property's second sentence — the real
//! `UnsignedTransportInfo::increment_timestamp` + `sign` + `NodeInfo::update_transports`.
//!
//! Request lines (see lean/Drv/C18.lean):
//!   chain <wall> <logical> <now>*      -> `w/l` per increment
//!   cmp <w1> <l1> <w2> <l2>            -> lt | eq | gt
//!   now <clock>                        -> w/l
//!   own <wall> <logical> <now>*        -> `<t|f|E>:<stored w/l>` per step
use std::cmp::Ordering;
use std::time::Duration;

use hc::{Args, Out, Rng, Tier};
use mock_instant::thread_local::MockClock;
use p2panda_core::SigningKey;
use p2panda_core::timestamp::{HybridTimestamp, LamportTimestamp, Timestamp};
use p2panda_net::addrs::{NodeInfo, NodeTransportInfo, TransportAddress, TransportInfo, UnsignedTransportInfo};

fn set_clock(micros: u64) {
    MockClock::set_system_time(Duration::from_micros(micros));
}

fn parts(t: &HybridTimestamp) -> (u64, u64) {
    let (w, l) = t.to_parts();
    let l: u64 = l.to_string().parse().expect("lamport display is a number");
    (w.into(), l)
}

fn ts(w: u64, l: u64) -> HybridTimestamp {
    HybridTimestamp::from_parts(Timestamp::new(w), LamportTimestamp::new(l))
}

fn show(t: &HybridTimestamp) -> String {
    let (w, l) = parts(t);
    format!("{w}/{l}")
}

struct Verdict {
    answer: String,
    nontrivial: bool,
    fails: Vec<(String, String)>,
}

/// "nt" rule of DESIGN §6 C16/C18: the clock sequence contains a decrease followed (later) by a
/// return to an earlier reading.
fn nt_rule(start_wall: u64, nows: &[u64]) -> bool {
    let mut seq = vec![start_wall];
    seq.extend_from_slice(nows);
    for i in 1..seq.len() {
        if seq[i] < seq[i - 1] {
            // a later reading equal to one seen before the decrease
            for j in i + 1..seq.len() {
                if seq[..i].contains(&seq[j]) {
                    return true;
                }
            }
        }
    }
    false
}

fn run_chain(w: u64, l: u64, nows: &[u64]) -> Verdict {
    let mut cur = ts(w, l);
    let mut answers = vec![];
    let mut fails = vec![];
    let mut seen: Vec<(u64, u64)> = vec![];
    for (k, now) in nows.iter().enumerate() {
        set_clock(*now);
        let prev = cur;
        let next = match hc::catch(move || prev.increment()) {
            Ok(t) => t,
            Err(msg) => {
                answers.push("PANIC".to_string());
                fails.push(("panic".to_string(), format!("step {k}: increment panicked: {msg}")));
                break;
            }
        };
        // Oracle, independent of the Lean model: strictly greater than the input, judged both on the parts
        // (lexicographic) and with the type's own `Ord`.
        let (pw, pl) = parts(&prev);
        let (nw, nl) = parts(&next);
        let greater_parts = nw > pw || (nw == pw && nl > pl);
        let greater_ord = next > prev;
        if !greater_parts || !greater_ord {
            let tag = if *now < pw { "not-increasing-clock-back" } else { "not-increasing" };
            if fails.len() < 3 {
                fails.push((
                    tag.to_string(),
                    format!("step {k}: increment of {pw}/{pl} with the clock at {now} returned {nw}/{nl}, which is not greater (parts:{greater_parts} ord:{greater_ord})"),
                ));
            }
        }
        if seen.contains(&(nw, nl)) && fails.len() < 3 {
            fails.push(("repeat".to_string(), format!("step {k}: timestamp {nw}/{nl} was already produced earlier in this chain")));
        }
        seen.push((nw, nl));
        answers.push(show(&next));
        cur = next;
    }
    Verdict {
        answer: if answers.is_empty() { "-".into() } else { answers.join(" ") },
        nontrivial: nt_rule(w, nows),
        fails,
    }
}

fn run_cmp(a: (u64, u64), b: (u64, u64)) -> Verdict {
    let x = ts(a.0, a.1);
    let y = ts(b.0, b.1);
    let real = x.cmp(&y);
    let expect = a.0.cmp(&b.0).then(a.1.cmp(&b.1));
    let mut fails = vec![];
    if real != expect || (x < y) != (expect == Ordering::Less) || (x == y) != (expect == Ordering::Equal) {
        fails.push(("ord".to_string(), format!("Ord of {}/{} vs {}/{} is {:?}, lexicographic order says {:?}", a.0, a.1, b.0, b.1, real, expect)));
    }
    let w = match real {
        Ordering::Less => "lt",
        Ordering::Equal => "eq",
        Ordering::Greater => "gt",
    };
    Verdict { answer: w.into(), nontrivial: a.0 == b.0 && a.1 != b.1, fails }
}

fn run_now(c: u64) -> Verdict {
    set_clock(c);
    let t = HybridTimestamp::now();
    let mut fails = vec![];
    if parts(&t) != (c, 0) {
        fails.push(("now".to_string(), format!("now() under clock {c} is {}", show(&t))));
    }
    Verdict { answer: show(&t), nontrivial: false, fails }
}

/// A node publishes its own transport records one after the other; every one must be accepted as newer.
fn run_own(key: &SigningKey, w: u64, l: u64, nows: &[u64]) -> Verdict {
    let node_id = key.verifying_key();
    let addr = |port: u16| TransportAddress::from_iroh(node_id, None, [format!("127.0.0.1:{port}").parse().unwrap()]);
    let mut first = UnsignedTransportInfo::from_addrs([addr(1000)]);
    first.timestamp = ts(w, l);
    let first = first.sign(key).expect("sign");
    let mut info = NodeInfo::new(node_id);
    let mut fails = vec![];
    match info.update_transports(first.clone().into()) {
        Ok(true) => {}
        other => fails.push(("own-first".to_string(), format!("first own record not accepted: {other:?}"))),
    }
    let mut prev = first;
    let mut answers = vec![];
    for (k, now) in nows.iter().enumerate() {
        let unsigned = UnsignedTransportInfo::from_addrs([addr(1001 + (k as u16 % 5000))]);
        set_clock(*now);
        let next = unsigned.increment_timestamp(Some(&prev)).sign(key).expect("sign");
        let res = info.update_transports(next.clone().into());
        let stored = info.transports.as_ref().map(|t| t.timestamp());
        let word = match &res {
            Ok(true) => "t",
            Ok(false) => "f",
            Err(_) => "E",
        };
        let accepted = matches!(res, Ok(true)) && info.transports == Some(TransportInfo::from(next.clone()));
        if !accepted && fails.len() < 3 {
            let (pw, pl) = parts(&prev.timestamp);
            let tag = match (&res, *now < pw) {
                (Err(_), _) => "own-error",
                (_, true) => "own-rejected-clock-back",
                _ => "own-rejected",
            };
            fails.push((
                tag.to_string(),
                format!("step {k}: own record with timestamp {} (previous {pw}/{pl}, clock {now}) -> update_transports = {res:?}, stored = {:?}", show(&next.timestamp), stored.map(|s| show(&s))),
            ));
        }
        answers.push(format!("{word}:{}", stored.map(|s| show(&s)).unwrap_or("-".into())));
        // the node builds its next record from the one it published last
        prev = next;
        // keep the model's view in step with the register: the model continues from the stored record, which is
        // the same thing whenever the record was accepted; when it was not (defect) the lines simply disagree.
    }
    Verdict {
        answer: if answers.is_empty() { "-".into() } else { answers.join(" ") },
        nontrivial: nt_rule(w, nows),
        fails,
    }
}

fn run_line(key: &SigningKey, req: &str) -> Verdict {
    let toks: Vec<&str> = req.split_whitespace().collect();
    let nums = |ts: &[&str]| -> Vec<u64> { ts.iter().map(|t| t.parse().expect("number")).collect() };
    match toks[0] {
        "chain" => {
            let n = nums(&toks[1..]);
            run_chain(n[0], n[1], &n[2..])
        }
        "cmp" => {
            let n = nums(&toks[1..]);
            run_cmp((n[0], n[1]), (n[2], n[3]))
        }
        "now" => run_now(nums(&toks[1..])[0]),
        "own" => {
            let n = nums(&toks[1..]);
            run_own(key, n[0], n[1], &n[2..])
        }
        other => panic!("unknown request {other}"),
    }
}

fn emit(out: &mut Out, key: &SigningKey, req: &str) {
    let v = run_line(key, req);
    let n = out.case(req, &v.answer, v.nontrivial);
    let kind = req.split_whitespace().next().unwrap_or("");
    out.count(&format!("op={kind}"));
    if v.nontrivial {
        out.count(&format!("nontrivial:{kind}"));
    }
    if kind == "chain" || kind == "own" {
        let toks: Vec<u64> = req.split_whitespace().skip(1).map(|t| t.parse().unwrap()).collect();
        let mut prev = toks[0];
        for now in &toks[2..] {
            out.count(match now.cmp(&prev) {
                Ordering::Less => "clock:earlier",
                Ordering::Equal => "clock:equal",
                Ordering::Greater => "clock:later",
            });
            prev = prev.max(*now);
        }
        out.count_n("increments", (toks.len() - 2) as u64);
    }
    for (tag, what) in v.fails {
        out.oracle_fail(n, &tag, &what, req, &v.answer);
    }
}

/// Clock sequences with plateaus, forward jumps and backward jumps, returning to earlier readings.
fn clock_seq(rng: &mut Rng, start: u64, len: usize) -> Vec<u64> {
    let mut seen = vec![start];
    let mut cur = start;
    let mut out = vec![];
    let scale = *rng.pick(&[1u64, 1, 3, 1000, 1_000_000, 1 << 40]);
    for _ in 0..len {
        let r = rng.below(100);
        cur = if r < 30 {
            cur // plateau
        } else if r < 55 {
            cur + 1 + rng.below(scale) // forward
        } else if r < 75 {
            cur.saturating_sub(1 + rng.below(scale)) // backward
        } else if r < 92 {
            *rng.pick(&seen) // return to a reading seen before
        } else {
            rng.below(4 * scale + 4) // anywhere
        };
        seen.push(cur);
        out.push(cur);
    }
    out
}

fn join(nums: &[u64]) -> String {
    nums.iter().map(|n| n.to_string()).collect::<Vec<_>>().join(" ")
}

fn main() {
    let args = Args::parse();
    let mut out = Out::new(&args.out);
    let key = SigningKey::from_bytes(&[7u8; 32]);
    if args.mode == "replay" {
        let text = std::fs::read_to_string(args.replay.as_ref().expect("replay file")).unwrap();
        let v: hc::serde_json::Value = hc::serde_json::from_str(&text).unwrap();
        let req = v["request"].as_str().unwrap().to_string();
        emit(&mut out, &key, &req);
        out.finish("replay", false);
        return;
    }
    let mut rng = Rng::new(args.seed);

    // corpus: the witnesses of DESIGN §5 first
    emit(&mut out, &key, "chain 10000000 1 5000000");
    emit(&mut out, &key, "chain 7 0 7 6 7 6 7");
    emit(&mut out, &key, "own 10 0 10 5 5 11 3");
    if let Ok(rd) = std::fs::read_dir("/verif/corpus/C18") {
        let mut files: Vec<_> = rd.filter_map(|e| e.ok()).map(|e| e.path()).collect();
        files.sort();
        for f in files {
            if let Ok(text) = std::fs::read_to_string(&f) {
                if let Ok(v) = hc::serde_json::from_str::<hc::serde_json::Value>(&text) {
                    if let Some(req) = v["request"].as_str() {
                        emit(&mut out, &key, req);
                    }
                }
            }
        }
    }

    // exhaustive small scope: every start (w, l) and every clock sequence over a small alphabet
    let (alpha, maxlen) = match args.tier {
        Tier::Quick => (4u64, 4usize),
        _ => (5, 6),
    };
    for w in 0..alpha {
        for l in 0..3u64 {
            for len in 0..=maxlen {
                let total = alpha.pow(len as u32);
                for code in 0..total {
                    let mut c = code;
                    let mut nows = vec![];
                    for _ in 0..len {
                        nows.push(c % alpha);
                        c /= alpha;
                    }
                    emit(&mut out, &key, &format!("chain {w} {l} {}", join(&nows)));
                }
            }
        }
    }
    // order: all pairs over a small grid, plus random large values
    for a in 0..3u64 {
        for b in 0..3u64 {
            for c in 0..3u64 {
                for d in 0..3u64 {
                    emit(&mut out, &key, &format!("cmp {a} {b} {c} {d}"));
                }
            }
        }
    }
    let (n_chain, n_own, n_cmp, chain_len) = match args.tier {
        Tier::Quick => (2000, 150, 500, 30),
        Tier::Thorough => (100_000, 4000, 20_000, 30),
        Tier::Search => (150_000, 3000, 5_000, 40),
    };
    for _ in 0..n_cmp {
        let big = 1u64 << rng.range(1, 61);
        let a = rng.below(big);
        let b = rng.below(big);
        let c = if rng.chance(1, 2) { a } else { rng.below(big) };
        let d = if rng.chance(1, 4) { b } else { rng.below(big) };
        emit(&mut out, &key, &format!("cmp {a} {b} {c} {d}"));
    }
    for c in [0u64, 1, 999_999, 1_000_000, 1 << 50] {
        emit(&mut out, &key, &format!("now {c}"));
    }
    for i in 0..n_chain {
        let base = *rng.pick(&[0u64, 5, 1000, 1_700_000_000_000_000, 1 << 61]);
        let start = base + rng.below(50);
        let lbits = rng.range(1, 60);
        let l = if rng.chance(1, 2) { 0 } else { rng.below(1 << lbits) };
        let len = if i % 50 == 0 { rng.range(100, 300) as usize } else { rng.range(1, chain_len) as usize };
        let nows = clock_seq(&mut rng, start, len);
        emit(&mut out, &key, &format!("chain {start} {l} {}", join(&nows)));
    }
    for _ in 0..n_own {
        let base = *rng.pick(&[0u64, 1000, 1_700_000_000_000_000]);
        let start = base + rng.below(50);
        let l = rng.below(4);
        let len = rng.range(1, 12) as usize;
        let nows = clock_seq(&mut rng, start, len);
        emit(&mut out, &key, &format!("own {start} {l} {}", join(&nows)));
    }
    out.finish(
        "exhaustive: every start (wall<alpha, logical<3) with every clock-reading sequence over the alphabet up to the length bound; random: chains of up to 30 (some 300) increments with plateaus, forward jumps, backward jumps and returns to earlier readings at magnitudes 1..2^61; own = the same clock sequences through increment_timestamp+sign+update_transports. non-trivial = clock sequence with a decrease followed by a return to an earlier reading",
        false,
    );
}
